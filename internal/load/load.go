// Package load builds the harness module and loads /repo's packages (types + syntax + SSA)
// without ever making /repo the main module (running go tooling inside /repo with
// -mod=mod rewrites its go.mod).
package load

import (
	"bufio"
	"fmt"
	"go/token"
	"go/types"
	"io"
	"os"
	"path/filepath"
	"sort"
	"strings"

	"golang.org/x/tools/go/packages"
	"golang.org/x/tools/go/ssa"
	"golang.org/x/tools/go/ssa/ssautil"
)

const RepoMod = "github.com/unification-com/mainchain"
const HarnessMod = "mcverifharness"

type Program struct {
	Fset     *token.FileSet
	Repo     string              // absolute path of repo root
	Pkgs     []*packages.Package // repo packages (non-test), sorted by path
	Fixtures []*packages.Package // fixture packages
	ByPath   map[string]*packages.Package
	SSA      *ssa.Program
	SSAPkg   map[string]*ssa.Package
	Whole    bool // whole-program load (dependencies have bodies)
}

type Options struct {
	Repo       string
	VerifDir   string
	Whole      bool              // LoadAllSyntax (thorough)
	Tags       string            // extra build tags
	Env        []string          // extra env (e.g. GOARCH=386)
	Overlay    map[string][]byte // in-memory file replacements
	NoFixtures bool
}

// GenHarness (re)generates VerifDir/harness from Repo/go.mod.
func GenHarness(o Options) (string, error) {
	h := filepath.Join(o.VerifDir, "harness")
	if err := os.MkdirAll(h, 0o755); err != nil {
		return "", err
	}
	src, err := os.Open(filepath.Join(o.Repo, "go.mod"))
	if err != nil {
		return "", err
	}
	defer src.Close()
	var b strings.Builder
	sc := bufio.NewScanner(src)
	inReplace := false
	for sc.Scan() {
		line := sc.Text()
		t := strings.TrimSpace(line)
		switch {
		case strings.HasPrefix(t, "module "):
			b.WriteString("module " + HarnessMod + "\n")
			continue
		case strings.HasPrefix(t, "replace ("):
			inReplace = true
			b.WriteString(line + "\n")
			b.WriteString("\t" + RepoMod + " => " + o.Repo + "\n")
			continue
		case inReplace && t == ")":
			inReplace = false
		}
		b.WriteString(line + "\n")
	}
	if err := sc.Err(); err != nil {
		return "", err
	}
	s := b.String()
	if !strings.Contains(s, RepoMod+" => ") {
		s += "\nreplace " + RepoMod + " => " + o.Repo + "\n"
	}
	s += "\nrequire " + RepoMod + " v0.0.0\n"
	if err := writeIfChanged(filepath.Join(h, "go.mod"), []byte(s)); err != nil {
		return "", err
	}
	sum, err := os.ReadFile(filepath.Join(o.Repo, "go.sum"))
	if err != nil {
		return "", err
	}
	if err := writeIfChanged(filepath.Join(h, "go.sum"), sum); err != nil {
		return "", err
	}
	// a tiny package so the module is never empty
	if err := writeIfChanged(filepath.Join(h, "doc.go"), []byte("// Package mcverifharness is generated; do not edit.\npackage mcverifharness\n")); err != nil {
		return "", err
	}
	// fixtures are copied in so they resolve the same dependency graph as the repo
	fdst := filepath.Join(h, "fixtures")
	os.RemoveAll(fdst)
	if !o.NoFixtures {
		fsrc := filepath.Join(o.VerifDir, "fixtures")
		filepath.Walk(fsrc, func(p string, info os.FileInfo, err error) error {
			if err != nil {
				return nil
			}
			rel, _ := filepath.Rel(fsrc, p)
			if info.IsDir() {
				return os.MkdirAll(filepath.Join(fdst, rel), 0o755)
			}
			if strings.HasSuffix(p, ".go") {
				return copyFile(p, filepath.Join(fdst, rel))
			}
			return nil
		})
	}
	return h, nil
}

func writeIfChanged(p string, data []byte) error {
	old, err := os.ReadFile(p)
	if err == nil && string(old) == string(data) {
		return nil
	}
	return os.WriteFile(p, data, 0o644)
}

func copyFile(a, b string) error {
	in, err := os.Open(a)
	if err != nil {
		return err
	}
	defer in.Close()
	out, err := os.Create(b)
	if err != nil {
		return err
	}
	defer out.Close()
	_, err = io.Copy(out, in)
	return err
}

func Load(o Options) (*Program, error) {
	h, err := GenHarness(o)
	if err != nil {
		return nil, fmt.Errorf("harness: %w", err)
	}
	mode := packages.NeedName | packages.NeedFiles | packages.NeedCompiledGoFiles | packages.NeedImports |
		packages.NeedTypes | packages.NeedTypesSizes | packages.NeedSyntax | packages.NeedTypesInfo | packages.NeedModule
	if o.Whole {
		mode |= packages.NeedDeps
	}
	env := os.Environ()
	filtered := env[:0]
	for _, e := range env {
		if strings.HasPrefix(e, "GOWORK=") || strings.HasPrefix(e, "GOFLAGS=") {
			continue
		}
		filtered = append(filtered, e)
	}
	env = append(filtered, "GOFLAGS=-mod=mod", "GOPROXY=off", "GOSUMDB=off", "GOTOOLCHAIN=local", "GOWORK=off")
	env = append(env, o.Env...)
	cfg := &packages.Config{
		Mode:    mode,
		Dir:     h,
		Env:     env,
		Fset:    token.NewFileSet(),
		Overlay: o.Overlay,
	}
	if o.Tags != "" {
		cfg.BuildFlags = []string{"-tags=" + o.Tags}
	}
	pats := []string{RepoMod + "/..."}
	if !o.NoFixtures {
		pats = append(pats, HarnessMod+"/fixtures/...")
	}
	initial, err := packages.Load(cfg, pats...)
	if err != nil {
		return nil, fmt.Errorf("packages.Load: %w", err)
	}
	p := &Program{Fset: cfg.Fset, Repo: o.Repo, ByPath: map[string]*packages.Package{}, SSAPkg: map[string]*ssa.Package{}, Whole: o.Whole}
	var errs []string
	packages.Visit(initial, nil, func(pk *packages.Package) {
		p.ByPath[pk.PkgPath] = pk
		if strings.HasPrefix(pk.PkgPath, RepoMod) || strings.HasPrefix(pk.PkgPath, HarnessMod) {
			for _, e := range pk.Errors {
				errs = append(errs, e.Error())
			}
		}
	})
	if len(errs) > 0 {
		sort.Strings(errs)
		if len(errs) > 10 {
			errs = errs[:10]
		}
		return nil, fmt.Errorf("load/type-check errors: %s", strings.Join(errs, "; "))
	}
	for _, pk := range initial {
		switch {
		case strings.HasPrefix(pk.PkgPath, HarnessMod+"/fixtures"):
			p.Fixtures = append(p.Fixtures, pk)
		case strings.HasPrefix(pk.PkgPath, RepoMod):
			p.Pkgs = append(p.Pkgs, pk)
		}
	}
	sort.Slice(p.Pkgs, func(i, j int) bool { return p.Pkgs[i].PkgPath < p.Pkgs[j].PkgPath })
	if len(p.Pkgs) == 0 {
		return nil, fmt.Errorf("no repo packages loaded")
	}
	var prog *ssa.Program
	var spkgs []*ssa.Package
	bm := ssa.InstantiateGenerics
	if o.Whole {
		prog, spkgs = ssautil.AllPackages(initial, bm)
	} else {
		prog, spkgs = ssautil.Packages(initial, bm)
	}
	prog.Build()
	p.SSA = prog
	for i, sp := range spkgs {
		if sp == nil {
			return nil, fmt.Errorf("no SSA for %s", initial[i].PkgPath)
		}
	}
	for _, sp := range prog.AllPackages() {
		p.SSAPkg[sp.Pkg.Path()] = sp
	}
	return p, nil
}

// IsRepoPkg reports whether the types package is a (non-fixture) repo package.
func IsRepoPkg(pk *types.Package) bool {
	return pk != nil && (pk.Path() == RepoMod || strings.HasPrefix(pk.Path(), RepoMod+"/"))
}

func IsFixturePkg(pk *types.Package) bool {
	return pk != nil && strings.HasPrefix(pk.Path(), HarnessMod+"/fixtures")
}

// Rel makes a position string relative to the repo root.
func (p *Program) Pos(pos token.Pos) string {
	if !pos.IsValid() {
		return "?"
	}
	ps := p.Fset.Position(pos)
	f := ps.Filename
	if r, err := filepath.Rel(p.Repo, f); err == nil && !strings.HasPrefix(r, "..") {
		f = r
	}
	return fmt.Sprintf("%s:%d", f, ps.Line)
}
