package ir

import (
	"fmt"
	"go/token"
	"go/types"
	"os"
	"strings"

	"golang.org/x/tools/go/ssa"
)

// Effect is a classified instruction: something observable that a rule may constrain.
type Effect struct {
	Kind    string // Mint Burn Bank StoreWrite StoreDelete StoreRead StoreHas StoreIter Event WallClock Rand Env IO Goroutine Chan Select MapRange Panic Float Unsafe GlobalWrite
	Method  string // bank method / callee name
	Section string // store section (prefix variable) for store effects; "?" when unresolved
	Site    ssa.Instruction
	Fn      *ssa.Function
	Call    ssa.CallInstruction
	Key     *Expr // key expression for store effects (for an iterator: its start bound)
	Prefix  *Expr // the prefix of the prefix store the call goes through (nil for a plain store)
	End     *Expr // iterators: the end bound
	// Generic: the section depends on a parameter of Fn (a helper handed the prefix or the key): the
	// effect is re-created, with the section resolved, at every call site of Fn (Via = Fn there).
	Generic bool
	SecExpr *Expr         // expression that determines the section (key, or the prefix of a prefix store)
	Via     *ssa.Function // for an effect re-created at a call site: the helper that performs it
}

var bankMutators = map[string]bool{
	"MintCoins": true, "BurnCoins": true,
	"SendCoins": true, "SendCoinsFromModuleToAccount": true, "SendCoinsFromModuleToModule": true,
	"SendCoinsFromAccountToModule": true, "DelegateCoinsFromAccountToModule": true,
	"UndelegateCoinsFromModuleToAccount": true, "DelegateCoins": true, "UndelegateCoins": true,
	"InputOutputCoins": true, "SetDenomMetaData": true, "SetSendEnabled": true, "SetAllSendEnabled": true,
	"SetParams": false,
}

const (
	pkgStoreTypes = "github.com/cosmos/cosmos-sdk/store/types"
	pkgStorePref  = "github.com/cosmos/cosmos-sdk/store/prefix"
	pkgSDKTypes   = "github.com/cosmos/cosmos-sdk/types"
	pkgBankKeeper = "github.com/cosmos/cosmos-sdk/x/bank/keeper"
)

func namedOf(t types.Type) *types.Named {
	t = deref(t)
	if n, ok := t.(*types.Named); ok {
		return n
	}
	return nil
}

func isNamed(t types.Type, pkg, name string) bool {
	n := namedOf(t)
	return n != nil && n.Obj().Pkg() != nil && n.Obj().Pkg().Path() == pkg && n.Obj().Name() == name
}

// isKVStoreRecv reports whether a call's receiver is a KVStore-like type.
func isKVStoreRecv(cc *ssa.CallCommon) bool {
	var t types.Type
	if cc.IsInvoke() {
		t = cc.Value.Type()
	} else if sc := cc.StaticCallee(); sc != nil && sc.Signature.Recv() != nil {
		t = sc.Signature.Recv().Type()
	} else {
		return false
	}
	if isNamed(t, pkgStoreTypes, "KVStore") || isNamed(t, pkgStoreTypes, "BasicKVStore") || isNamed(t, pkgStorePref, "Store") || isNamed(t, pkgStoreTypes, "CommitKVStore") {
		return true
	}
	// interface with the KVStore method set (aliases resolve to the same named type; fall back on shape)
	if it, ok := t.Underlying().(*types.Interface); ok {
		has := map[string]bool{}
		for i := 0; i < it.NumMethods(); i++ {
			has[it.Method(i).Name()] = true
		}
		return has["Get"] && has["Set"] && has["Delete"] && has["Has"] && has["Iterator"]
	}
	return false
}

func methodName(cc *ssa.CallCommon) string {
	if cc.IsInvoke() {
		return cc.Method.Name()
	}
	if sc := cc.StaticCallee(); sc != nil {
		return sc.Name()
	}
	return ""
}

func calleePkgPath(cc *ssa.CallCommon) string {
	if cc.IsInvoke() {
		if cc.Method.Pkg() != nil {
			return cc.Method.Pkg().Path()
		}
		return ""
	}
	if sc := cc.StaticCallee(); sc != nil {
		if pk := FnPkg(sc); pk != nil {
			return pk.Path()
		}
	}
	return ""
}

// firstParamIsCtx is true when the callee's first (non-receiver) parameter is sdk.Context.
func firstParamIsCtx(cc *ssa.CallCommon) bool {
	sig := cc.Signature()
	return sig.Params().Len() > 0 && isCtxType(sig.Params().At(0).Type())
}

// EffectsOf classifies the instructions of fn.
func (w *World) EffectsOf(fn *ssa.Function) []Effect {
	if e, ok := w.effCache[fn]; ok {
		return e
	}
	var out []Effect
	add := func(e Effect) {
		e.Fn = fn
		out = append(out, e)
	}
	for _, b := range fn.Blocks {
		for _, in := range b.Instrs {
			switch x := in.(type) {
			case *ssa.Go:
				add(Effect{Kind: "Goroutine", Site: in})
			case *ssa.Select:
				add(Effect{Kind: "Select", Site: in})
			case *ssa.Send:
				add(Effect{Kind: "Chan", Site: in})
			case *ssa.Panic:
				add(Effect{Kind: "Panic", Site: in})
			case *ssa.Range:
				if _, ok := x.X.Type().Underlying().(*types.Map); ok {
					add(Effect{Kind: "MapRange", Site: in})
				}
			case *ssa.UnOp:
				if x.Op == token.ARROW {
					add(Effect{Kind: "Chan", Site: in})
				}
			case *ssa.BinOp:
				if isFloat(x.X.Type()) || isFloat(x.Y.Type()) {
					add(Effect{Kind: "Float", Method: x.Op.String(), Site: in})
				}
			case *ssa.Convert:
				if isFloat(x.Type()) != isFloat(x.X.Type()) {
					if _, isConst := x.X.(*ssa.Const); !isConst {
						add(Effect{Kind: "Float", Method: "convert", Site: in})
					}
				}
				if b, ok := x.Type().Underlying().(*types.Basic); ok && b.Kind() == types.UnsafePointer {
					add(Effect{Kind: "Unsafe", Site: in})
				}
			case *ssa.Store:
				root, _ := addrPath(x.Addr)
				if g, ok := root.(*ssa.Global); ok {
					add(Effect{Kind: "GlobalWrite", Method: globalName(g), Site: in})
				}
			}
			call, ok := in.(ssa.CallInstruction)
			if !ok {
				continue
			}
			cc := call.Common()
			name := methodName(cc)
			pkg := calleePkgPath(cc)
			switch {
			case isKVStoreRecv(cc):
				kind := ""
				switch name {
				case "Set":
					kind = "StoreWrite"
				case "Delete":
					kind = "StoreDelete"
				case "Get":
					kind = "StoreRead"
				case "Has":
					kind = "StoreHas"
				case "Iterator", "ReverseIterator":
					kind = "StoreIter"
				}
				if kind != "" {
					var key *Expr
					sec := "?"
					var secExpr *Expr
					// (a method called on a concrete store type carries its receiver as the first argument)
					margs := cc.Args
					if !cc.IsInvoke() && len(margs) > 0 {
						margs = margs[1:]
					}
					var endE, prefE *Expr
					if len(margs) > 0 {
						key = w.ExprOf(margs[0])
						sec = w.SectionOfKey(key)
						secExpr = key
					}
					if kind == "StoreIter" && len(margs) > 1 {
						endE = w.ExprOf(margs[1])
					}
					// a prefix store contributes its own prefix
					if ps, pe := w.prefixOfStore(cc); ps != "" {
						sec = ps
						secExpr = pe
						prefE = pe
					}
					e := Effect{Kind: kind, Method: name, Section: sec, Site: in, Call: call, Key: key, Prefix: prefE, End: endE}
					if sec == "?" && secExpr != nil && paramDeps(fn, secExpr) {
						e.Generic, e.SecExpr = true, secExpr
					}
					add(e)
				}
			case pkg == pkgSDKTypes && (name == "KVStorePrefixIterator" || name == "KVStoreReversePrefixIterator" || name == "KVStorePrefixIteratorPaginated" || name == "KVStoreReversePrefixIteratorPaginated"):
				key := w.ExprOf(cc.Args[1])
				e := Effect{Kind: "StoreIter", Method: name, Section: w.SectionOfKey(key), Site: in, Call: call, Key: key}
				if e.Section == "?" && paramDeps(fn, key) {
					e.Generic, e.SecExpr = true, key
				}
				add(e)
			case bankMutators[name] && firstParamIsCtx(cc) && (cc.IsInvoke() || pkg == pkgBankKeeper):
				kind := "Bank"
				if name == "MintCoins" {
					kind = "Mint"
				} else if name == "BurnCoins" {
					kind = "Burn"
				}
				add(Effect{Kind: kind, Method: name, Site: in, Call: call})
			case (name == "EmitEvent" || name == "EmitEvents" || name == "EmitTypedEvent" || name == "EmitTypedEvents") && pkg == pkgSDKTypes:
				add(Effect{Kind: "Event", Method: name, Site: in, Call: call})
			case pkg == "time" && (name == "Now" || name == "Since" || name == "Until"):
				add(Effect{Kind: "WallClock", Method: "time." + name, Site: in, Call: call})
			case pkg == "math/rand" || pkg == "crypto/rand" || pkg == "math/rand/v2":
				add(Effect{Kind: "Rand", Method: pkg + "." + name, Site: in, Call: call})
			case pkg == "os" && (name == "Getenv" || name == "Environ" || name == "LookupEnv" || name == "Hostname" || name == "Getpid" || name == "Getwd"):
				add(Effect{Kind: "Env", Method: "os." + name, Site: in, Call: call})
			case pkg == "runtime" && (name == "NumCPU" || name == "GOMAXPROCS" || name == "NumGoroutine" || name == "ReadMemStats"):
				add(Effect{Kind: "Env", Method: "runtime." + name, Site: in, Call: call})
			case pkg == "os" && (strings.HasPrefix(name, "Open") || strings.HasPrefix(name, "Read") || strings.HasPrefix(name, "Write") || name == "Create" || name == "Remove" || name == "RemoveAll" || name == "MkdirAll" || name == "Stat"):
				add(Effect{Kind: "IO", Method: "os." + name, Site: in, Call: call})
			case pkg == "net" || pkg == "net/http" || pkg == "io/ioutil":
				add(Effect{Kind: "IO", Method: pkg + "." + name, Site: in, Call: call})
			}
		}
	}
	if w.effCache == nil {
		w.effCache = map[*ssa.Function][]Effect{}
	}
	// store effects of helpers whose section depends on a parameter, resolved at this function's call sites
	w.effCache[fn] = out // recursion guard: a cycle sees the direct effects only
	for _, b := range fn.Blocks {
		for _, in := range b.Instrs {
			call, ok := in.(ssa.CallInstruction)
			if !ok {
				continue
			}
			if _, isGo := in.(*ssa.Go); isGo {
				continue
			}
			cs := w.CalleesOf(call)
			if len(cs) != 1 || cs[0] == fn || len(cs[0].Blocks) == 0 {
				continue
			}
			h := cs[0]
			var generic []Effect
			for _, e := range w.EffectsOf(h) {
				if e.Generic {
					generic = append(generic, e)
				}
			}
			if len(generic) == 0 {
				continue
			}
			en := w.callEnv(h, call, nil)
			for _, e := range generic {
				se := Subst(e.SecExpr, en.params)
				d := Effect{Kind: e.Kind, Method: e.Method, Site: in, Fn: fn, Call: call, Via: h, Section: w.SectionOfKey(se)}
				if e.Via != nil {
					d.Via = e.Via
				}
				if e.Key != nil {
					d.Key = Subst(e.Key, en.params)
				}
				if d.Section == "?" && paramDeps(fn, se) {
					d.Generic, d.SecExpr = true, se
				}
				out = append(out, d)
			}
		}
	}
	w.effCache[fn] = out
	return out
}

func isFloat(t types.Type) bool {
	b, ok := t.Underlying().(*types.Basic)
	return ok && b.Info()&types.IsFloat != 0
}

// prefixOfStore returns the section when the receiver store is prefix.NewStore(_, P).
func (w *World) prefixOfStore(cc *ssa.CallCommon) (string, *Expr) {
	var recv ssa.Value
	if cc.IsInvoke() {
		recv = cc.Value
	} else if len(cc.Args) > 0 {
		recv = cc.Args[0]
	}
	if recv == nil {
		return "", nil
	}
	return w.prefixOfStoreValue(recv, 0)
}

func (w *World) prefixOfStoreValue(v ssa.Value, depth int) (string, *Expr) {
	if depth > 6 {
		return "", nil
	}
	v = stripConv(v)
	switch x := v.(type) {
	case *ssa.Call:
		cc := x.Common()
		if sc := cc.StaticCallee(); sc != nil && sc.Name() == "NewStore" && calleePkgPath(cc) == pkgStorePref && len(cc.Args) == 2 {
			pe := w.ExprOf(cc.Args[1])
			return w.SectionOfKey(pe), pe
		}
	case *ssa.UnOp:
		if x.Op == token.MUL {
			// load of a local holding the prefix store
			e := w.ExprOf(x)
			if e.Op == "call" && e.Call != nil {
				if c, ok := e.Call.(*ssa.Call); ok {
					return w.prefixOfStoreValue(c, depth+1)
				}
			}
		}
	}
	return "", nil
}

// SectionOfKey returns the package-level prefix variable that starts the key, as
// "<relpkg>.<Var>", or "?" when it cannot be determined.
func (w *World) SectionOfKey(key *Expr) string {
	s := w.sectionOf(key, 0)
	if s == "~loop" {
		s = "?"
	}
	if s == "?" && os.Getenv("MCDEBUG") == "sec" && key != nil {
		fmt.Fprintln(os.Stderr, "section ? for key", key.String())
	}
	return s
}

func (w *World) sectionOf(e *Expr, depth int) string {
	if e == nil || depth > 8 {
		return "?"
	}
	switch e.Op {
	case "global":
		return e.Name
	case "loop":
		return "~loop" // the loop-carried value: whatever the other alternatives of the enclosing phi start with
	case "phi":
		s := ""
		for _, a := range e.Args {
			x := w.sectionOf(a, depth+1)
			if x == "~loop" {
				continue
			}
			if s == "" {
				s = x
			} else if s != x {
				return "?"
			}
		}
		if s == "" {
			return "?"
		}
		return s
	case "call":
		if e.Name == "builtin:append" && len(e.Args) > 0 {
			// append(make([]byte, 0, n), prefix...): the key starts with what is appended to the empty buffer
			if len(e.Args) == 2 && e.Args[0].Op == "makeslice" && len(e.Args[0].Args) >= 1 && e.Args[0].Args[0].Op == "const" && e.Args[0].Args[0].Name == "0" {
				return w.sectionOf(e.Args[1], depth+1)
			}
			return w.sectionOf(e.Args[0], depth+1)
		}
		// a key builder reached through a function value that is known after instantiation (a descriptor's field)
		if e.Name == "dyn" && e.Callee == nil && len(e.Args) > 0 && e.Args[0].Op == "func" && e.Args[0].Callee != nil {
			ne := *e
			ne.Name, ne.Callee, ne.Args = e.Args[0].Name, w.unwrap(e.Args[0].Callee), e.Args[1:]
			if ne.Callee != nil && w.inSet[ne.Callee] {
				if in := w.Inline(&ne); in != nil {
					return w.sectionOf(in, depth+1)
				}
			}
		}
		// encoding/binary's appending encoders (binary.BigEndian.AppendUint64(key, v)): the key starts with what is appended to
		if strings.Contains(e.Name, "encoding/binary.") && strings.Contains(e.Name, ").Append") && len(e.Args) == 3 {
			return w.sectionOf(e.Args[1], depth+1)
		}
		if e.Callee != nil {
			if in := w.Inline(e); in != nil {
				return w.sectionOf(in, depth+1)
			}
		}
	case "slice":
		// prefix[:len] re-slicing keeps the prefix
		return w.sectionOf(e.Args[0], depth+1)
	case "conv":
		return w.sectionOf(e.Args[0], depth+1)
	case "res":
		// one of several keys a builder hands back together (`start, end := types.BlockRange(id)`)
		if len(e.Args) == 1 && e.Args[0].Op == "call" && e.Args[0].Callee != nil {
			if x := w.Expand(e, 3); x != nil && x.String() != e.String() {
				return w.sectionOf(x, depth+1)
			}
		}
	case "field":
		// the key kept in a record (an entry of a list collected beforehand: `entry.key`): what the record was built with
		if x := w.Expand(e, 4); x != nil && x.String() != e.String() {
			return w.sectionOf(x, depth+1)
		}
	case "const", "zero":
		if e.Op == "zero" || e.Name == "nil" {
			return "~loop" // an empty key variable before it is first assigned: the other alternatives decide
		}
	}
	return "?"
}
