package ir

import (
	"fmt"
	"go/ast"
	"go/constant"
	"go/token"
	"go/types"
	"os"
	"sort"
	"strings"

	"golang.org/x/tools/go/ssa"
)

// Expr is the origin of an SSA value: a small term over parameters, constants, globals,
// state reads, calls and operators. Exprs are built per function in terms of that function's
// parameters; Subst instantiates a callee's Expr at a call site.
type Expr struct {
	Op     string // param free const global field call res bin un conv phi zero decode struct index slice lookup assert elem alloc closure ctx unknown loop
	Name   string
	Args   []*Expr
	Fields []string // for struct: field names parallel to Args
	V      ssa.Value
	T      types.Type
	Callee *ssa.Function // for call: resolved in-scope callee (nil for external / invoke-multi)
	Ext    *types.Func   // for call: external callee object / interface method
	Call   ssa.CallInstruction
	// Eq: for an empty value (zero / const ""), values known to be equal to it where it was produced — a function that
	// returns early `if len(x) == 0` leaves a field empty exactly when x is empty, so the empty field still "is" x.
	// Not part of the term (not walked, not printed); instantiated by Subst.
	Eq  []*Expr
	str string
}

type exprKey struct {
	v ssa.Value
}

const maxExprNodes = 4000

func (e *Expr) String() string {
	if e == nil {
		return "<nil>"
	}
	if e.str != "" {
		return e.str
	}
	var s string
	switch e.Op {
	case "param", "free", "global", "ctx", "unknown", "loop", "zero":
		s = e.Op + ":" + e.Name
		if e.Op == "ctx" {
			s = "ctx"
		}
	case "const":
		s = e.Name
	case "field":
		s = e.Args[0].String() + "." + e.Name
	case "res":
		s = e.Args[0].String() + "#" + e.Name
	case "struct":
		var parts []string
		for i, a := range e.Args {
			parts = append(parts, e.Fields[i]+":"+a.String())
		}
		s = e.Name + "{" + strings.Join(parts, ", ") + "}"
	case "bin":
		s = "(" + e.Args[0].String() + " " + e.Name + " " + e.Args[1].String() + ")"
	case "un":
		s = e.Name + e.Args[0].String()
	default:
		var parts []string
		for _, a := range e.Args {
			parts = append(parts, a.String())
		}
		n := e.Op
		if e.Name != "" {
			if e.Op == "call" {
				n = e.Name
			} else {
				n = e.Op + ":" + e.Name
			}
		}
		s = n + "(" + strings.Join(parts, ", ") + ")"
	}
	// long enough that two different expressions a rule compares by text do not collapse to the same prefix (reports cut
	// what they show themselves)
	if len(s) > 6000 {
		s = s[:6000] + "…"
	}
	e.str = s
	return s
}

func (e *Expr) size() int {
	n := 1
	for _, a := range e.Args {
		n += a.size()
	}
	return n
}

// Walk visits e and all sub-expressions (pre-order); f returns false to prune.
func (e *Expr) Walk(f func(*Expr) bool) {
	if e == nil || !f(e) {
		return
	}
	for _, a := range e.Args {
		a.Walk(f)
	}
}

// Any reports whether any sub-expression satisfies f.
func (e *Expr) Any(f func(*Expr) bool) bool {
	found := false
	e.Walk(func(x *Expr) bool {
		if found {
			return false
		}
		if f(x) {
			found = true
			return false
		}
		return true
	})
	return found
}

// Alts flattens phi nodes at the top of e.
func (e *Expr) Alts() []*Expr {
	if e.Op != "phi" {
		return []*Expr{e}
	}
	var out []*Expr
	for _, a := range e.Args {
		out = append(out, a.Alts()...)
	}
	return out
}

// ---------------------------------------------------------------------------------------

type builder struct {
	cuts  int
	w     *World
	fn    *ssa.Function
	memo  map[ssa.Value]*Expr
	inpro map[ssa.Value]bool
	rd    *reachDefs
}

func (w *World) builderFor(fn *ssa.Function) *builder {
	if b, ok := w.builders[fn]; ok {
		return b
	}
	b := &builder{w: w, fn: fn, memo: map[ssa.Value]*Expr{}, inpro: map[ssa.Value]bool{}}
	b.rd = newReachDefs(b)
	if w.builders == nil {
		w.builders = map[*ssa.Function]*builder{}
	}
	w.builders[fn] = b
	return b
}

// ExprOf returns the origin expression of v in terms of its enclosing function's parameters.
func (w *World) ExprOf(v ssa.Value) *Expr {
	if !w.hooked {
		w.hooked = true
		w.installHooks()
	}
	if v == nil {
		return &Expr{Op: "unknown", Name: "nil"}
	}
	fn := v.Parent()
	if fn == nil {
		// constants, globals, functions
		return (&builder{w: w, memo: map[ssa.Value]*Expr{}, inpro: map[ssa.Value]bool{}}).expr(v)
	}
	return w.builderFor(fn).expr(v)
}

func isCtxType(t types.Type) bool {
	if t == nil {
		return false
	}
	s := t.String()
	return s == "github.com/cosmos/cosmos-sdk/types.Context" || s == "context.Context"
}

func (b *builder) expr(v ssa.Value) *Expr {
	if e, ok := b.memo[v]; ok {
		return e
	}
	if b.inpro[v] {
		b.cuts++
		return &Expr{Op: "loop", Name: v.Name(), V: v, T: v.Type()}
	}
	b.inpro[v] = true
	rdCuts := func() int {
		if b.rd == nil {
			return 0
		}
		return b.rd.loopHits
	}
	rdIdle := b.rd == nil || len(b.rd.busy) == 0
	cuts0 := b.cuts + rdCuts()
	e := b.build(v)
	delete(b.inpro, v)
	if e.V == nil {
		e.V = v
	}
	if e.T == nil {
		e.T = v.Type()
	}
	// An origin computed while a cycle was being cut (a loop-carried value or cell under evaluation further up)
	// is relative to where the evaluation started: remember it only when no cut happened below this value, or
	// when this value is itself the start of the evaluation. Otherwise the answer to a later question would
	// depend on which question was asked first.
	if b.cuts+rdCuts() == cuts0 || len(b.inpro) == 0 && rdIdle {
		b.memo[v] = e
	}
	return e
}

func constName(c *ssa.Const) string {
	if c.Value == nil {
		return "nil"
	}
	// typed constants of named types: try to find the declared constant name
	if nt, ok := c.Type().(*types.Named); ok && nt.Obj().Pkg() != nil {
		sc := nt.Obj().Pkg().Scope()
		for _, n := range sc.Names() {
			if k, ok := sc.Lookup(n).(*types.Const); ok && types.Identical(k.Type(), nt) && constant.Compare(k.Val(), token.EQL, c.Value) {
				return RelPkg(nt.Obj().Pkg().Path()) + "." + n
			}
		}
	}
	return c.Value.ExactString()
}

func calleeName(cc *ssa.CallCommon) string {
	if cc.IsInvoke() {
		return "invoke:" + typeShort(cc.Value.Type()) + "." + cc.Method.Name()
	}
	if sc := cc.StaticCallee(); sc != nil {
		return FuncName(sc)
	}
	if b, ok := cc.Value.(*ssa.Builtin); ok {
		return "builtin:" + b.Name()
	}
	return "dyn"
}

func typeShort(t types.Type) string {
	s := types.TypeString(t, func(p *types.Package) string { return RelPkg(p.Path()) })
	return s
}

func (b *builder) build(v ssa.Value) *Expr {
	if isCtxType(v.Type()) {
		return &Expr{Op: "ctx"}
	}
	switch x := v.(type) {
	case *ssa.Parameter:
		return &Expr{Op: "param", Name: x.Name()}
	case *ssa.FreeVar:
		return &Expr{Op: "free", Name: x.Name()}
	case *ssa.Const:
		if x.Value == nil {
			switch x.Type().Underlying().(type) {
			case *types.Struct, *types.Array, *types.Basic:
				return &Expr{Op: "zero", Name: typeShort(x.Type())}
			}
		}
		return &Expr{Op: "const", Name: constName(x)}
	case *ssa.Global:
		return &Expr{Op: "global", Name: globalName(x)}
	case *ssa.Function:
		return &Expr{Op: "func", Name: FuncName(x), Callee: x}
	case *ssa.Builtin:
		return &Expr{Op: "func", Name: "builtin:" + x.Name()}
	case *ssa.Alloc:
		return &Expr{Op: "alloc", Name: x.Name()}
	case *ssa.Phi:
		if ce := b.counter(x); ce != nil {
			return ce
		}
		var alts []*Expr
		seen := map[string]bool{}
		for ei, ed := range x.Edges {
			a := b.expr(ed)
			// a variable known not to be nil on the way it comes in (the edge is only reached past the false side of `v == nil`)
			// does not bring its "still unset" alternative along
			nonNil := ei < len(x.Block().Preds) && nonNilAt(ed, x.Block().Preds[ei])
			for _, aa := range a.Alts() {
				if aa.Op == "loop" && aa.V == v {
					continue
				}
				if nonNil && (aa.Op == "zero" || aa.Op == "const" && aa.Name == "nil") {
					continue
				}
				k := aa.String()
				if !seen[k] {
					seen[k] = true
					alts = append(alts, aa)
				}
			}
		}
		if len(alts) == 1 {
			return alts[0]
		}
		sort.Slice(alts, func(i, j int) bool { return alts[i].String() < alts[j].String() })
		return &Expr{Op: "phi", Args: alts}
	case *ssa.UnOp:
		if x.Op == token.MUL {
			return b.load(x)
		}
		return &Expr{Op: "un", Name: x.Op.String(), Args: []*Expr{b.expr(x.X)}}
	case *ssa.BinOp:
		return &Expr{Op: "bin", Name: x.Op.String(), Args: []*Expr{b.expr(x.X), b.expr(x.Y)}}
	case *ssa.Field:
		base := b.expr(x.X)
		return fieldOf(base, fieldName(x.X.Type(), x.Field))
	case *ssa.FieldAddr:
		// address value; only meaningful under a load, but keep a readable form
		return &Expr{Op: "addr", Name: fieldName(deref(x.X.Type()), x.Field), Args: []*Expr{b.expr(x.X)}}
	case *ssa.IndexAddr:
		return &Expr{Op: "indexaddr", Args: []*Expr{b.expr(x.X), b.expr(x.Index)}}
	case *ssa.Index:
		return &Expr{Op: "index", Args: []*Expr{b.expr(x.X), b.expr(x.Index)}}
	case *ssa.Lookup:
		return &Expr{Op: "lookup", Args: []*Expr{b.expr(x.X), b.expr(x.Index)}}
	case *ssa.Slice:
		if l := b.arrayLit(x); l != nil {
			return l
		}
		if l := b.encodedInt(x); l != nil {
			return l
		}
		args := []*Expr{b.expr(x.X)}
		for _, o := range []ssa.Value{x.Low, x.High, x.Max} {
			if o != nil {
				args = append(args, b.expr(o))
			} else {
				args = append(args, &Expr{Op: "const", Name: "_"})
			}
		}
		return &Expr{Op: "slice", Args: args}
	case *ssa.Extract:
		t := b.expr(x.Tuple)
		if t.Op == "phi" {
			var alts []*Expr
			for _, a := range t.Args {
				alts = append(alts, resOf(a, x.Index))
			}
			return mkPhi(alts)
		}
		return resOf(t, x.Index)
	case *ssa.Call:
		return b.call(x)
	case *ssa.Convert:
		in := b.expr(x.X)
		if isNumeric(x.Type()) && isNumeric(x.X.Type()) {
			return &Expr{Op: "conv", Name: typeShort(x.Type()), Args: []*Expr{in}}
		}
		return &Expr{Op: "conv", Name: typeShort(x.Type()), Args: []*Expr{in}}
	case *ssa.ChangeType:
		return b.expr(x.X)
	case *ssa.ChangeInterface:
		return b.expr(x.X)
	case *ssa.MakeInterface:
		return b.expr(x.X)
	case *ssa.SliceToArrayPointer:
		return b.expr(x.X)
	case *ssa.TypeAssert:
		return &Expr{Op: "assert", Name: typeShort(x.AssertedType), Args: []*Expr{b.expr(x.X)}}
	case *ssa.MakeClosure:
		fn, _ := x.Fn.(*ssa.Function)
		ce := &Expr{Op: "closure", Name: FuncName(fn), Callee: fn}
		// what the closure captured, where that is a variable assigned once (typically a parameter or a value computed
		// just before): it travels with the closure when it is handed to a helper
		if fn != nil && len(fn.FreeVars) == len(x.Bindings) {
			for i, bd := range x.Bindings {
				if v := singleAssignment(bd); v != nil && !b.inpro[v] {
					ce.Fields = append(ce.Fields, fn.FreeVars[i].Name())
					ce.Args = append(ce.Args, b.expr(v))
				}
			}
		}
		return ce
	case *ssa.MakeSlice:
		return &Expr{Op: "makeslice", Name: typeShort(x.Type()), Args: []*Expr{b.expr(x.Len)}}
	case *ssa.MakeMap:
		return &Expr{Op: "makemap", Name: typeShort(x.Type())}
	case *ssa.MakeChan:
		return &Expr{Op: "makechan"}
	case *ssa.Range:
		return &Expr{Op: "range", Args: []*Expr{b.expr(x.X)}}
	case *ssa.Next:
		return &Expr{Op: "next", Args: []*Expr{b.expr(x.Iter)}}
	case *ssa.Select:
		return &Expr{Op: "select"}
	}
	return &Expr{Op: "unknown", Name: fmt.Sprintf("%T", v)}
}

func mkPhi(alts []*Expr) *Expr {
	seen := map[string]bool{}
	var out []*Expr
	at := map[string]int{}
	for _, a := range alts {
		for _, aa := range a.Alts() {
			k := aa.String()
			if !seen[k] {
				seen[k] = true
				at[k] = len(out)
				out = append(out, aa)
			} else if i := at[k]; len(out[i].Eq) > 0 || len(aa.Eq) > 0 {
				// the same empty value arriving two ways: only what is known equal to it on both remains known
				var keep []*Expr
				for _, x := range out[i].Eq {
					for _, y := range aa.Eq {
						if x.String() == y.String() {
							keep = append(keep, x)
							break
						}
					}
				}
				if len(keep) != len(out[i].Eq) {
					ne := *out[i]
					ne.Eq = keep
					out[i] = &ne
				}
			}
		}
	}
	if len(out) == 1 {
		return out[0]
	}
	if m := mergeStructs(out); m != nil {
		return m
	}
	sort.Slice(out, func(i, j int) bool { return out[i].String() < out[j].String() })
	return &Expr{Op: "phi", Args: out}
}

// mergeStructs turns alternatives that are all values of one struct type (field-wise struct
// expressions, possibly mixed with opaque values of that type) into one struct expression
// whose fields are the field-wise alternatives. Correlation between fields is lost, which is
// sound for origin questions ("which values can this field hold").
func mergeStructs(alts []*Expr) *Expr {
	var proto *Expr
	for _, a := range alts {
		if a.Op == "struct" {
			if proto == nil {
				proto = a
			} else if proto.Name != a.Name || len(proto.Fields) != len(a.Fields) {
				return nil
			}
		}
	}
	if proto == nil {
		return nil
	}
	for _, a := range alts {
		if a.Op != "struct" && (a.Op == "const" || a.Op == "unknown" || a.Op == "loop") {
			return nil
		}
	}
	res := &Expr{Op: "struct", Name: proto.Name, T: proto.T, Fields: proto.Fields}
	for i, f := range proto.Fields {
		var fa []*Expr
		for _, a := range alts {
			if a.Op == "struct" {
				fa = append(fa, a.Args[i])
			} else {
				fa = append(fa, fieldOf(a, f))
			}
		}
		res.Args = append(res.Args, mkPhi(fa))
	}
	return res
}

func resOf(t *Expr, i int) *Expr {
	if t.Op == "tuple" && i < len(t.Args) {
		return t.Args[i]
	}
	return &Expr{Op: "res", Name: fmt.Sprint(i), Args: []*Expr{t}}
}

func fieldOf(base *Expr, name string) *Expr {
	switch base.Op {
	case "ref":
		// field access through a pointer to a described local
		return fieldOf(base.Args[0], name)
	case "struct":
		for i, f := range base.Fields {
			if f == name {
				return base.Args[i]
			}
		}
	case "phi":
		var alts []*Expr
		for _, a := range base.Args {
			alts = append(alts, fieldOf(a, name))
		}
		return mkPhi(alts)
	case "elem":
		// an element of a list that was built by appends only (collected in one loop, consumed in another): the field of
		// whichever element — of any of the appended ones
		if len(base.Args) >= 1 {
			if alts, ok := builtAlts(base.Args[0], 0); ok && len(alts) > 0 {
				var out []*Expr
				for _, a := range alts {
					out = append(out, fieldOf(a, name))
				}
				return mkPhi(out)
			}
		}
	case "loop":
		// the cell's own value from the previous iteration: so is the field's
		return base
	case "zero":
		return &Expr{Op: "zero", Name: base.Name + "." + name}
	case "global":
		// a field of a package-level descriptor struct (handed to a method by value): what its initialiser gives it
		if globalFieldHook != nil {
			if v := globalFieldHook(base, name); v != nil {
				return v
			}
		}
	}
	return &Expr{Op: "field", Name: name, Args: []*Expr{base}}
}

// globalFieldHook is installed by the World in use (one per process at a time).
var globalFieldHook func(base *Expr, name string) *Expr

func (w *World) installHooks() {
	globalFieldHook = func(base *Expr, name string) *Expr {
		g, ok := base.V.(*ssa.Global)
		if !ok {
			return nil
		}
		st, ok := deref(g.Type()).Underlying().(*types.Struct)
		if !ok {
			return nil
		}
		for i := 0; i < st.NumFields(); i++ {
			if st.Field(i).Name() == name {
				return w.initOnlyField(g, []int{i})
			}
		}
		return nil
	}
}

func isNumeric(t types.Type) bool {
	b, ok := t.Underlying().(*types.Basic)
	return ok && b.Info()&types.IsNumeric != 0
}

func deref(t types.Type) types.Type {
	if p, ok := t.Underlying().(*types.Pointer); ok {
		return p.Elem()
	}
	return t
}

func fieldName(t types.Type, i int) string {
	t = deref(t)
	if st, ok := t.Underlying().(*types.Struct); ok && i < st.NumFields() {
		return st.Field(i).Name()
	}
	return fmt.Sprintf("f%d", i)
}

func globalName(g *ssa.Global) string {
	if g.Pkg != nil {
		return RelPkg(g.Pkg.Pkg.Path()) + "." + g.Name()
	}
	return g.Name()
}

func (b *builder) call(c *ssa.Call) *Expr {
	cc := c.Common()
	// the SDK's fixed-width encoder is make([]byte, 8) + binary.BigEndian.PutUint64: the same origin as the hand-written form
	if sc := cc.StaticCallee(); sc != nil && sc.Name() == "Uint64ToBigEndian" && FnPkg(sc) != nil && FnPkg(sc).Path() == pkgSDKTypes && len(cc.Args) == 1 {
		return &Expr{Op: "enc", Name: "be64", Args: []*Expr{b.expr(cc.Args[0])}, Call: c}
	}
	e := &Expr{Op: "call", Name: calleeName(cc), Call: c}
	if cc.IsInvoke() {
		e.Ext = cc.Method
		e.Args = append(e.Args, b.expr(cc.Value))
		e.Callee = b.w.PreferredCallee(c)
	} else if sc := cc.StaticCallee(); sc != nil {
		u := b.w.unwrap(sc)
		if b.w.inSet[u] {
			e.Callee = u
		} else if o, ok := sc.Object().(*types.Func); ok {
			e.Ext = o
		}
	} else if g := funcVarOf(cc.Value); g != nil {
		// call through a package-level function variable (e.g. sdk.NewIntFromUint64 = math.NewIntFromUint64)
		e.Name = "var:" + globalName(g)
	} else if _, isB := cc.Value.(*ssa.Builtin); !isB {
		e.Args = append(e.Args, b.expr(cc.Value))
	}
	for _, a := range cc.Args {
		if al, ok := stripConv(a).(*ssa.Alloc); ok && b.rd != nil && al.Parent() == b.fn && !b.rd.captured[al] {
			// pointer to a local: describe what it points to at the time of the call
			e.Args = append(e.Args, &Expr{Op: "ref", Args: []*Expr{b.rd.at(c, al, nil)}, V: al})
			continue
		}
		if cv, ok := b.rd.trackedRecord(a).(*ssa.Call); ok && cv != nil {
			e.Args = append(e.Args, &Expr{Op: "ref", Args: []*Expr{b.rd.at(c, cv, nil)}, V: cv})
			continue
		}
		e.Args = append(e.Args, b.expr(a))
	}
	// the getter of a content-validated memo: a hit is the remembered function of the witness the caller presents
	if sc := cc.StaticCallee(); sc != nil && b.w.memoGet != nil {
		if mg := b.w.memoGet[sc]; mg != nil && mg.Witness < len(e.Args) {
			n := sc.Signature.Results().Len()
			t := &Expr{Op: "tuple"}
			for i := 0; i < n; i++ {
				if f := mg.Results[i]; f != nil {
					t.Args = append(t.Args, Replace(f, &Expr{Op: "const", Name: MemoMarker}, e.Args[mg.Witness]))
				} else {
					t.Args = append(t.Args, &Expr{Op: "res", Name: fmt.Sprint(i), Args: []*Expr{e}})
				}
			}
			if n == 1 {
				return t.Args[0]
			}
			return t
		}
	}
	// a plumbing helper (in-scope, effect-free, outside the types packages) is transparent: the origin
	// of its result is the origin of what it returns, in the caller's terms
	if e.Callee != nil && b.w.Plumbing(e.Callee) {
		if in := b.w.inlinePlumbing(e); in != nil {
			return in
		}
	}
	// canonical form of a store read: state:<section>(key)
	if isKVStoreRecv(cc) && methodName(cc) == "Get" && len(cc.Args) == 1 {
		key := b.expr(cc.Args[0])
		sec := b.w.SectionOfKey(key)
		if ps, _ := b.w.prefixOfStore(cc); ps != "" {
			sec = ps
		}
		return &Expr{Op: "state", Name: sec, Args: []*Expr{key}, Call: c}
	}
	return e
}

// ---------------------------------------------------------------------------------------
// loads: reaching definitions over Alloc cells

func (b *builder) load(u *ssa.UnOp) *Expr {
	root, path := addrPath(u.X)
	switch r := root.(type) {
	case *ssa.Alloc:
		if b.rd != nil && r.Parent() == b.fn {
			if b.rd.captured[r] {
				if p := paramSpill(r); p != nil {
					// a parameter that lives on the heap only because a function literal reads it
					return projectPath(b.expr(p), r.Type(), path)
				}
				return projectPath(&Expr{Op: "captured", Name: r.Comment, V: r}, r.Type(), path)
			}
			return b.rd.at(u, r, path)
		}
		return &Expr{Op: "unknown", Name: "load-foreign-alloc"}
	case *ssa.Global:
		e := &Expr{Op: "global", Name: globalName(r), V: r}
		// a field of a package-level struct that is assigned only by its initialiser (a descriptor such as
		// {prefix: X, keyFor: F}) is the value the initialiser gives it
		if len(path) > 0 {
			if v := b.w.initOnlyField(r, path); v != nil {
				return v
			}
		}
		return projectPath(e, r.Type(), path)
	case *ssa.FreeVar:
		e := &Expr{Op: "free", Name: r.Name(), V: r}
		return projectPath(e, r.Type(), path)
	case *ssa.IndexAddr:
		e := &Expr{Op: "elem", Args: []*Expr{b.expr(r.X), b.expr(r.Index)}}
		return projectPath(e, r.Type(), path)
	default:
		if pr, ok := root.(*ssa.Parameter); ok && b.rd != nil && len(b.rd.defs[pr]) > 0 {
			return b.rd.at(u, pr, path)
		}
		if cv, ok := root.(*ssa.Call); ok && b.rd != nil && isStructPtr(cv.Type()) && cv.Parent() == b.fn {
			if b.rd.untracked[cv] {
				return projectPath(&Expr{Op: "captured", Name: cv.Name(), V: cv}, cv.Type(), path)
			}
			if len(b.rd.defs[cv]) > 0 {
				return b.rd.at(u, cv, path)
			}
		}
		// pointer held in a parameter / call result / field: external memory
		base := b.expr(root)
		return projectPath(base, root.Type(), path)
	}
}

// addrPath decomposes an address into its root value and a field path.
func addrPath(a ssa.Value) (ssa.Value, []int) {
	var path []int
	for {
		switch x := a.(type) {
		case *ssa.FieldAddr:
			path = append([]int{x.Field}, path...)
			a = x.X
			continue
		}
		return a, path
	}
}

func projectPath(e *Expr, ptrT types.Type, path []int) *Expr {
	t := deref(ptrT)
	for _, i := range path {
		e = fieldOf(e, fieldName(t, i))
		if st, ok := t.Underlying().(*types.Struct); ok && i < st.NumFields() {
			t = st.Field(i).Type()
		}
	}
	return e
}

type reachDefs struct {
	b *builder
	// for each alloc: list of defining instructions (stores into it, escaping calls)
	defs map[ssa.Value][]rdDef
	memo map[rdKey]*Expr
	busy map[rdKey]bool
	// allocs captured by a closure: their content may change at any call
	captured map[*ssa.Alloc]bool
	// records made by a helper and handed back by pointer (`ledger := newLedger()`): tracked like a local when the pointer
	// is used only to read and write fields and as a call argument; untracked[v] when it goes anywhere else (bound into a
	// function value, stored, merged with another pointer)
	untracked map[*ssa.Call]bool
	loopHits  int
	cnt       map[rdKey]*Expr
	cntBusy   map[rdKey]bool
}

type rdDef struct {
	in   ssa.Instruction
	path []int     // cell written (nil = whole alloc)
	val  ssa.Value // stored value (nil for escape)
	esc  *ssa.Call // escaping call
	ai   int       // argument index of the escaping pointer (receiver first)
	blk  *ssa.BasicBlock
	idx  int
}

type rdKey struct {
	blk  *ssa.BasicBlock
	a    ssa.Value
	path string
}

func newReachDefs(b *builder) *reachDefs {
	rd := &reachDefs{b: b, defs: map[ssa.Value][]rdDef{}, memo: map[rdKey]*Expr{}, busy: map[rdKey]bool{}, captured: map[*ssa.Alloc]bool{}, untracked: map[*ssa.Call]bool{}}
	if b.fn == nil {
		return rd
	}
	for _, blk := range b.fn.Blocks {
		for i, in := range blk.Instrs {
			switch x := in.(type) {
			case *ssa.MakeClosure:
				for _, bd := range x.Bindings {
					root, _ := addrPath(bd)
					if a, ok := root.(*ssa.Alloc); ok {
						rd.captured[a] = true
					}
				}
			case *ssa.Store:
				root, path := addrPath(x.Addr)
				if a, ok := root.(*ssa.Alloc); ok {
					rd.defs[a] = append(rd.defs[a], rdDef{in: in, path: path, val: x.Val, blk: blk, idx: i})
				} else if cv, ok := root.(*ssa.Call); ok && isStructPtr(cv.Type()) {
					rd.defs[cv] = append(rd.defs[cv], rdDef{in: in, path: path, val: x.Val, blk: blk, idx: i})
				} else if pr, ok := root.(*ssa.Parameter); ok && isStructPtr(pr.Type()) {
					// a struct handed in by pointer and filled in here: its cells are tracked like a local's,
					// starting from the caller's content
					rd.defs[pr] = append(rd.defs[pr], rdDef{in: in, path: path, val: x.Val, blk: blk, idx: i})
				}
			case ssa.CallInstruction:
				cc := x.Common()
				args := cc.Args
				if !cc.IsInvoke() && cc.StaticCallee() == nil {
					args = append([]ssa.Value{cc.Value}, args...)
				}
				for ai, arg := range args {
					root, path := addrPath(stripConv(arg))
					if a, ok := root.(*ssa.Alloc); ok {
						if b.w.argReadOnly(x, ai, 0) {
							continue
						}
						call, _ := in.(*ssa.Call)
						rd.defs[a] = append(rd.defs[a], rdDef{in: in, path: path, esc: call, ai: ai, blk: blk, idx: i})
					} else if cv, ok := root.(*ssa.Call); ok && isStructPtr(cv.Type()) {
						if b.w.argReadOnly(x, ai, 0) {
							continue
						}
						call, _ := in.(*ssa.Call)
						rd.defs[cv] = append(rd.defs[cv], rdDef{in: in, path: path, esc: call, ai: ai, blk: blk, idx: i})
					} else if pr, ok := root.(*ssa.Parameter); ok && isStructPtr(pr.Type()) {
						if b.w.argReadOnly(x, ai, 0) {
							continue
						}
						call, _ := in.(*ssa.Call)
						rd.defs[pr] = append(rd.defs[pr], rdDef{in: in, path: path, esc: call, ai: ai, blk: blk, idx: i})
					}
				}
			}
		}
	}
	for _, blk := range b.fn.Blocks {
		for _, in := range blk.Instrs {
			if cv, ok := in.(*ssa.Call); ok && isStructPtr(cv.Type()) && !pointerUsedAsRecordOnly(cv) {
				rd.untracked[cv] = true
			}
		}
	}
	return rd
}

// pointerUsedAsRecordOnly: every use of the pointer value v reads or writes a field through it, loads the whole record,
// compares it with nil, hands it to a call, or returns it.
func pointerUsedAsRecordOnly(v ssa.Value) bool {
	refs := v.Referrers()
	if refs == nil {
		return true
	}
	for _, r := range *refs {
		switch x := r.(type) {
		case *ssa.FieldAddr, *ssa.DebugRef, *ssa.Return:
		case *ssa.UnOp:
			if x.Op != token.MUL {
				return false
			}
		case *ssa.BinOp:
		case ssa.CallInstruction:
			if _, isGo := r.(*ssa.Go); isGo {
				return false
			}
		default:
			return false
		}
	}
	return true
}

// trackedRecord: v (through conversions) is a pointer whose record is followed by reaching definitions in this function:
// a local that no function value captured, or a record a helper made and handed back that is written here.
func (rd *reachDefs) trackedRecord(v ssa.Value) ssa.Value {
	if rd == nil {
		return nil
	}
	switch x := stripConv(v).(type) {
	case *ssa.Alloc:
		if x.Parent() == rd.b.fn && !rd.captured[x] {
			return x
		}
	case *ssa.Call:
		if x.Parent() == rd.b.fn && len(rd.defs[x]) > 0 && !rd.untracked[x] {
			return x
		}
	}
	return nil
}

func isStructPtr(t types.Type) bool {
	p, ok := t.Underlying().(*types.Pointer)
	if !ok {
		return false
	}
	_, ok = p.Elem().Underlying().(*types.Struct)
	return ok
}

func stripConv(v ssa.Value) ssa.Value {
	for {
		switch x := v.(type) {
		case *ssa.MakeInterface:
			v = x.X
		case *ssa.ChangeType:
			v = x.X
		case *ssa.ChangeInterface:
			v = x.X
		default:
			return v
		}
	}
}

func pathKey(p []int) string { return fmt.Sprint(p) }

func hasPrefix(p, pre []int) bool {
	if len(pre) > len(p) {
		return false
	}
	for i := range pre {
		if p[i] != pre[i] {
			return false
		}
	}
	return true
}

// at computes the value of cell (a,path) just before instruction `at`.
func (rd *reachDefs) at(at ssa.Instruction, a ssa.Value, path []int) *Expr {
	blk := at.Block()
	idx := -1
	for i, in := range blk.Instrs {
		if in == at {
			idx = i
			break
		}
	}
	return rd.scan(blk, idx, a, path)
}

// scan looks backwards from (blk, idx) for the definition of the cell.
func (rd *reachDefs) scan(blk *ssa.BasicBlock, idx int, a ssa.Value, path []int) *Expr {
	if cnt := rd.cellCounterMemo(a, path); cnt != nil {
		return cnt
	}
	cellT := cellType(a, path)
	for i := idx - 1; i >= 0; i-- {
		in := blk.Instrs[i]
		if al, isAlloc := a.(*ssa.Alloc); isAlloc && in == ssa.Instruction(al) {
			return &Expr{Op: "zero", Name: typeShort(cellT), T: cellT}
		}
		if cv, isCall := a.(*ssa.Call); isCall && in == ssa.Instruction(cv) {
			// what the helper that made the record left in it
			return projectPath(rd.b.expr(cv), cv.Type(), path)
		}
		for _, d := range rd.defs[a] {
			if d.in != in {
				continue
			}
			switch {
			case hasPrefix(path, d.path):
				// the def covers the cell (same cell or an enclosing one)
				var e *Expr
				if d.esc != nil {
					e = rd.escapeExprAt(d, blk, i, a)
				} else {
					e = rd.b.expr(d.val)
				}
				return projectPath2(e, cellTypeOf(a, d.path), path[len(d.path):])
			case hasPrefix(d.path, path):
				// partial overwrite of a sub-cell of the requested (struct) cell: compose per field
				return rd.compose(blk, i+1, a, path)
			}
		}
	}
	// block start: union over predecessors
	if len(blk.Preds) == 0 {
		if pr, ok := a.(*ssa.Parameter); ok {
			// function entry: what the caller handed in
			return projectPath(&Expr{Op: "param", Name: pr.Name(), V: pr, T: pr.Type()}, pr.Type(), path)
		}
		return &Expr{Op: "zero", Name: typeShort(cellT), T: cellT}
	}
	k := rdKey{blk, a, pathKey(path)}
	if e, ok := rd.memo[k]; ok {
		return e
	}
	if rd.busy[k] {
		rd.loopHits++
		return &Expr{Op: "loop", Name: a.Name()}
	}
	rd.busy[k] = true
	hits0 := rd.loopHits
	var alts []*Expr
	for _, p := range blk.Preds {
		e := rd.scan(p, len(p.Instrs), a, path)
		for _, x := range e.Alts() {
			if x.Op == "loop" {
				continue
			}
			alts = append(alts, x)
		}
	}
	delete(rd.busy, k)
	var res *Expr
	if len(alts) == 0 {
		res = &Expr{Op: "loop", Name: a.Name()}
	} else {
		res = mkPhi(alts)
	}
	if rd.loopHits == hits0 {
		rd.memo[k] = res // complete: no in-progress block was cut off below this one
	}
	return res
}

// compose builds a struct expression field by field at position (blk, idx).
func (rd *reachDefs) compose(blk *ssa.BasicBlock, idx int, a ssa.Value, path []int) *Expr {
	t := cellType(a, path)
	st, ok := t.Underlying().(*types.Struct)
	if !ok {
		return &Expr{Op: "unknown", Name: "partial-nonstruct"}
	}
	e := &Expr{Op: "struct", Name: typeShort(t), T: t}
	var base *Expr
	same := true
	for i := 0; i < st.NumFields(); i++ {
		fp := append(append([]int{}, path...), i)
		fe := rd.scan(blk, idx, a, fp)
		e.Fields = append(e.Fields, st.Field(i).Name())
		e.Args = append(e.Args, fe)
		if fe.Op == "field" && fe.Name == st.Field(i).Name() {
			if base == nil {
				base = fe.Args[0]
			} else if base.String() != fe.Args[0].String() {
				same = false
			}
		} else {
			same = false
		}
	}
	if same && base != nil {
		return base
	}
	return e
}

func cellType(a ssa.Value, path []int) types.Type { return cellTypeOf(a, path) }

func cellTypeOf(a ssa.Value, path []int) types.Type {
	t := deref(a.Type())
	for _, i := range path {
		if st, ok := t.Underlying().(*types.Struct); ok && i < st.NumFields() {
			t = st.Field(i).Type()
		}
	}
	return t
}

func projectPath2(e *Expr, t types.Type, path []int) *Expr {
	for _, i := range path {
		e = fieldOf(e, fieldName(t, i))
		if st, ok := t.Underlying().(*types.Struct); ok && i < st.NumFields() {
			t = st.Field(i).Type()
		}
	}
	return e
}

// escapeExprAt: when the pointer goes to an in-scope helper that only assigns fields of the struct it
// points to (a step extracted into `func step(..., x *T)`), the content after the call is the content
// before it with those fields replaced by what the helper stores (in the caller's terms); fields the
// helper leaves alone keep their value. Anything else falls back to escapeExpr (opaque).
func (rd *reachDefs) escapeExprAt(d rdDef, blk *ssa.BasicBlock, idx int, a ssa.Value) *Expr {
	if d.esc == nil {
		return rd.escapeExpr(d)
	}
	cc := d.esc.Common()
	sc := cc.StaticCallee()
	if cc.IsInvoke() || sc == nil {
		return rd.escapeExpr(d)
	}
	w := rd.b.w
	sc = w.unwrap(sc)
	if sc == nil || sc.Blocks == nil || !w.inSet[sc] || d.ai >= len(sc.Params) {
		return rd.escapeExpr(d)
	}
	t := cellTypeOf(a, d.path)
	st, ok := t.Underlying().(*types.Struct)
	if !ok {
		return rd.escapeExpr(d)
	}
	out, ok := w.outFields(sc, d.ai)
	if !ok {
		// the helper assigns the record as a whole (`*held = held.Add(amount)`) or hands parts of it on: what the record
		// holds when the helper returns, by reaching definitions inside the helper
		if whole, ok2 := w.outWhole(sc, d.ai, 0); ok2 {
			before := rd.scan(blk, idx, a, d.path)
			en := w.callEnv(sc, d.esc, nil)
			en.params[sc.Params[d.ai].Name()] = before
			return Subst(whole, en.params)
		}
		return rd.escapeExpr(d)
	}
	before := rd.scan(blk, idx, a, d.path)
	en := w.callEnv(sc, d.esc, nil)
	// inside the helper the struct is seen as <param>.<field>: bind the parameter to the content before the call
	en.params[sc.Params[d.ai].Name()] = &Expr{Op: "ref", Args: []*Expr{before}}
	res := &Expr{Op: "struct", Name: typeShort(t), T: t}
	for i := 0; i < st.NumFields(); i++ {
		name := st.Field(i).Name()
		res.Fields = append(res.Fields, name)
		if alts, written := out[i]; written {
			var xs []*Expr
			for _, x := range alts {
				if x == nil {
					xs = append(xs, fieldOf(before, name)) // a path through the helper that leaves the field alone
				} else {
					xs = append(xs, Subst(x, en.params))
				}
			}
			res.Args = append(res.Args, mkPhi(xs))
		} else {
			res.Args = append(res.Args, fieldOf(before, name))
		}
	}
	return res
}

// outFields summarises what an in-scope function stores through its ai-th parameter (a pointer to a
// struct): field index -> the stored values in the function's own terms (nil entry = some path reaches a
// return without storing that field). ok=false when the pointer is used in any way other than field loads
// and field stores (passed on, captured, returned, stored whole, element writes).
func (w *World) outFields(fn *ssa.Function, ai int) (map[int][]*Expr, bool) {
	if w.outCache == nil {
		w.outCache = map[[2]any]*outSum{}
	}
	k := [2]any{fn, ai}
	if c, ok := w.outCache[k]; ok {
		return c.fields, c.ok
	}
	sum := &outSum{}
	w.outCache[k] = sum
	p := fn.Params[ai]
	if _, isPtr := p.Type().Underlying().(*types.Pointer); !isPtr {
		return nil, false
	}
	refs := p.Referrers()
	if refs == nil {
		sum.ok, sum.fields = true, map[int][]*Expr{}
		return sum.fields, true
	}
	stores := map[int][]*ssa.Store{}
	nested := false
	for _, r := range *refs {
		switch x := r.(type) {
		case *ssa.FieldAddr:
			if x.X != ssa.Value(p) {
				return nil, false
			}
			if fr := x.Referrers(); fr != nil {
				for _, u := range *fr {
					switch y := u.(type) {
					case *ssa.Store:
						if y.Addr != ssa.Value(x) {
							return nil, false // the field address itself is stored somewhere
						}
						stores[x.Field] = append(stores[x.Field], y)
					case *ssa.UnOp: // load
					case *ssa.DebugRef:
					default:
						return nil, false // address of a field escapes (call, nested field write, ...)
					}
				}
			}
		case *ssa.UnOp: // whole-struct load
		case *ssa.DebugRef:
		case *ssa.BinOp: // nil comparison
		case *ssa.Call:
			// handed on to another in-scope function that itself only loads and stores fields through it
			h := x.Call.StaticCallee()
			if h == nil || !w.inSet[h] || len(h.Blocks) == 0 {
				return nil, false
			}
			args := x.Call.Args
			okArg := false
			for aj, a := range args {
				if a != ssa.Value(p) {
					continue
				}
				if aj >= len(h.Params) {
					return nil, false
				}
				if _, ok := w.outFields(h, aj); !ok {
					return nil, false
				}
				okArg = true
			}
			if !okArg {
				return nil, false
			}
			nested = true
		default:
			return nil, false
		}
	}
	fields := map[int][]*Expr{}
	b := w.builderFor(fn)
	if nested {
		// the final content of each field at the function's (success) returns, by reaching definitions over the cells of
		// *p (direct stores and the calls it was handed on to, in program order); a field still holding what the caller
		// handed in is "left alone"
		st, ok := deref(p.Type()).Underlying().(*types.Struct)
		if !ok {
			return nil, false
		}
		rets := Returns(fn)
		if ErrIndex(fn) >= 0 {
			if sr := w.SuccessReturns(fn); len(sr) > 0 {
				rets = sr
			}
		}
		for fi := 0; fi < st.NumFields(); fi++ {
			var alts []*Expr
			changed := false
			for _, ret := range rets {
				e := b.rd.at(ret, p, []int{fi})
				for _, a := range e.Alts() {
					if a.Op == "field" && a.Name == st.Field(fi).Name() && len(a.Args) == 1 && a.Args[0].Op == "param" && a.Args[0].Name == p.Name() {
						alts = append(alts, nil)
					} else {
						alts = append(alts, a)
						changed = true
					}
				}
			}
			if changed {
				fields[fi] = alts
			}
		}
		sum.ok, sum.fields = true, fields
		return fields, true
	}
	for fi, sts := range stores {
		var alts []*Expr
		isStore := map[ssa.Instruction]bool{}
		for _, s := range sts {
			isStore[s] = true
			alts = append(alts, b.expr(s.Val))
		}
		// can a return be reached without storing this field?
		for _, ret := range Returns(fn) {
			if Reaches(fn, ret, Cut{Barrier: func(in ssa.Instruction) bool { return isStore[in] }}) {
				alts = append(alts, nil)
				break
			}
		}
		fields[fi] = alts
	}
	sum.ok, sum.fields = true, fields
	return fields, true
}

type outSum struct {
	fields map[int][]*Expr
	ok     bool
}

// escapeExpr models what a call may have written through a pointer argument.
func (rd *reachDefs) escapeExpr(d rdDef) *Expr {
	if d.esc == nil {
		return &Expr{Op: "unknown", Name: "escape"}
	}
	cc := d.esc.Common()
	name := ""
	if cc.IsInvoke() {
		name = cc.Method.Name()
	} else if sc := cc.StaticCallee(); sc != nil {
		name = sc.Name()
	}
	switch name {
	case "MustUnmarshal", "Unmarshal", "MustUnmarshalLengthPrefixed", "UnmarshalLengthPrefixed", "MustUnmarshalJSON", "UnmarshalJSON":
		if len(cc.Args) >= 1 {
			src := rd.b.expr(cc.Args[0])
			if src.Op == "state" {
				return src
			}
			return &Expr{Op: "decode", Args: []*Expr{src}, Call: d.esc}
		}
	}
	return &Expr{Op: "out", Name: calleeName(cc), Call: d.esc}
}

// ---------------------------------------------------------------------------------------
// summaries and inlining

// Summary returns the Expr of fn's i-th result in terms of fn's parameters.
func (w *World) Summary(fn *ssa.Function) *Expr {
	if e, ok := w.sumCache[fn]; ok {
		return e
	}
	if w.building[fn] {
		return &Expr{Op: "unknown", Name: "recursive:" + FuncName(fn)}
	}
	w.building[fn] = true
	defer delete(w.building, fn)
	b := w.builderFor(fn)
	nres := fn.Signature.Results().Len()
	alts := make([][]*Expr, nres)
	// a function with an error result is summarised by its success-capable returns: what a certainly-failing return
	// hands back besides the error (zero values) is not what a caller that checks the error goes on with
	failing := map[*ssa.Return]bool{}
	if ErrIndex(fn) >= 0 {
		ok := map[*ssa.Return]bool{}
		for _, r := range w.SuccessReturns(fn) {
			ok[r] = true
		}
		if len(ok) > 0 {
			for _, r := range Returns(fn) {
				if !ok[r] {
					failing[r] = true
				}
			}
		}
	}
	for _, blk := range fn.Blocks {
		if r, ok := blk.Instrs[len(blk.Instrs)-1].(*ssa.Return); ok {
			if failing[r] {
				continue
			}
			empties := w.emptyAt(fn, r, b)
			for i, v := range r.Results {
				// a record created here and handed back by pointer: what it holds at this return (its fields may have been
				// filled in by helpers it was handed to)
				if al, ok := v.(*ssa.Alloc); ok && al.Heap && b.rd != nil && !b.rd.captured[al] {
					if _, isStruct := deref(al.Type()).Underlying().(*types.Struct); isStruct {
						if c := b.rd.at(r, al, nil); c != nil && c.Op == "struct" {
							alts[i] = append(alts[i], &Expr{Op: "ref", Args: []*Expr{c}, V: al})
							continue
						}
					}
				}
				alts[i] = append(alts[i], annotateEmpty(b.expr(v), empties))
			}
		}
	}
	t := &Expr{Op: "tuple"}
	for i := 0; i < nres; i++ {
		if len(alts[i]) == 0 {
			t.Args = append(t.Args, &Expr{Op: "unknown", Name: "noreturn"})
		} else {
			t.Args = append(t.Args, mkPhi(alts[i]))
		}
	}
	w.sumCache[fn] = t
	return t
}

// Subst replaces parameters of fn in e by the corresponding argument expressions.
func Subst(e *Expr, params map[string]*Expr) *Expr {
	if e == nil {
		return nil
	}
	if e.Op == "param" {
		if r, ok := params[e.Name]; ok {
			return r
		}
		return e
	}
	if e.Op == "free" {
		// a captured variable of a closure, when the closure's creation site is known (calleeEnv)
		if r, ok := params["free:"+e.Name]; ok {
			return r
		}
		return e
	}
	if len(e.Args) == 0 {
		if len(e.Eq) > 0 {
			ne := *e
			ne.Eq = make([]*Expr, len(e.Eq))
			for i, q := range e.Eq {
				ne.Eq[i] = Subst(q, params)
			}
			return &ne
		}
		return e
	}
	changed := false
	args := make([]*Expr, len(e.Args))
	for i, a := range e.Args {
		args[i] = Subst(a, params)
		if args[i] != a {
			changed = true
		}
	}
	if !changed {
		return e
	}
	ne := *e
	ne.Args = args
	ne.str = ""
	switch ne.Op {
	case "field":
		return fieldOf(args[0], ne.Name)
	case "res":
		var i int
		fmt.Sscan(ne.Name, &i)
		return resOf(args[0], i)
	case "phi":
		return mkPhi(args)
	}
	return &ne
}

// Plumbing reports whether fn is a transparent helper for origin purposes: an in-scope function with
// a body, outside the modules' types packages (whose key builders, constructors and calculators are
// the anchors rules match on), that — transitively — touches no store, bank, event manager or global
// and writes through none of its parameters. Extracting part of an expression into such a helper
// (or bundling values in a struct built by one) must not change what a rule sees.
func (w *World) Plumbing(fn *ssa.Function) bool {
	if v, ok := w.plumb[fn]; ok {
		return v
	}
	if w.plumb == nil {
		w.plumb = map[*ssa.Function]bool{}
	}
	w.plumb[fn] = false // recursion: not plumbing
	ok := w.plumbing(fn)
	if os.Getenv("MCDEBUG") == "plumb" {
		fmt.Fprintln(os.Stderr, "plumbing", FuncName(fn), ok)
	}
	w.plumb[fn] = ok
	return ok
}

func (w *World) plumbing(fn *ssa.Function) bool {
	if fn == nil || len(fn.Blocks) == 0 || !w.inSet[fn] || w.IsGenerated(fn) || fn.Signature.Results().Len() == 0 {
		return false
	}
	if pk := FnPkg(fn); pk == nil || strings.HasSuffix(pk.Path(), "/types") && ast.IsExported(fn.Name()) {
		// the exported functions of the types packages are the vocabulary rules are written in; their unexported helpers are not
		return false
	}
	for _, e := range w.EffectsOf(fn) {
		switch e.Kind {
		case "Panic", "Float", "MapRange", "WallClock":
		default:
			return false
		}
	}
	for _, b := range fn.Blocks {
		for _, in := range b.Instrs {
			switch x := in.(type) {
			case *ssa.Store:
				root := x.Addr
				for {
					if fa, ok := root.(*ssa.FieldAddr); ok {
						root = fa.X
					} else if ia, ok := root.(*ssa.IndexAddr); ok {
						root = ia.X
					} else {
						break
					}
				}
				if al, ok := root.(*ssa.Alloc); !ok || al.Parent() != fn {
					return false
				}
			case *ssa.MapUpdate:
				if _, ok := x.Map.(*ssa.MakeMap); !ok {
					return false
				}
			case *ssa.Go, *ssa.Defer:
				return false
			case ssa.CallInstruction:
				cc := x.Common()
				if _, isB := cc.Value.(*ssa.Builtin); isB {
					continue
				}
				cs := w.CalleesOf(x)
				if len(cs) == 0 {
					// an out-of-scope callee: fine when static (SDK/stdlib value functions); a dynamic call could do anything
					if cc.StaticCallee() == nil && !cc.IsInvoke() && funcVarOf(cc.Value) == nil {
						// a callback handed in as a parameter stays visible in the inlined expression (dyn(<the argument>, ...)):
						// nothing it does is hidden from a rule; any other dynamic call could do anything
						if _, isParam := cc.Value.(*ssa.Parameter); !isParam {
							return false
						}
					}
					if cc.IsInvoke() && !pureIfaceMethod(cc) {
						return false
					}
					continue
				}
				for _, g := range cs {
					if !w.Plumbing(g) && !w.effectFree(g, map[*ssa.Function]bool{}) {
						return false
					}
				}
			}
		}
	}
	return true
}

// pureIfaceMethod: an interface method of an out-of-scope type that is known not to change state
// (sdk.Msg / sdk.Tx accessors, Stringer, error).
func pureIfaceMethod(cc *ssa.CallCommon) bool {
	switch cc.Method.Name() {
	case "String", "Error", "GetMsgs", "GetSigners", "GetFee", "GetGas", "FeePayer", "FeeGranter", "ValidateBasic", "Route", "Type", "Equals", "Empty", "Bytes", "Len":
		return true
	}
	return false
}

// effectFree: g (a types-package function, not plumbing by definition) and everything it calls in scope has no effects.
func (w *World) effectFree(g *ssa.Function, busy map[*ssa.Function]bool) bool {
	if busy[g] {
		return true
	}
	busy[g] = true
	for _, e := range w.EffectsOf(g) {
		switch e.Kind {
		case "Panic", "Float", "MapRange", "WallClock":
		default:
			return false
		}
	}
	for _, ed := range w.callees[g] {
		if !w.effectFree(ed.To, busy) {
			return false
		}
	}
	return true
}

// inlinePlumbing replaces the call expression of a plumbing helper by what its success-capable
// returns hand back (the values of a failing return are not used by a caller that checks the error;
// the flat view decides whether it does). Predicates and error results stay opaque: conditions are
// looked through path-sensitively by the guard primitives, which need the call itself.
func (w *World) inlinePlumbing(e *Expr) *Expr {
	fn := e.Callee
	res := fn.Signature.Results()
	keep := make([]bool, res.Len())
	n := 0
	for i := 0; i < res.Len(); i++ {
		t := res.At(i).Type()
		if isErrorType(t) || t.String() == "bool" || w.enumResult(fn, i) {
			// (a verdict — an error, a bool, an enumeration constant per return — stays a call: what it implies is read
			// off the helper's returns by the guard primitives, wherever the verdict travels)
			keep[i] = true
		} else {
			n++
		}
	}
	if n == 0 {
		return nil
	}
	sum, ok := w.plumbSum[fn]
	if !ok {
		if w.building[fn] {
			return nil
		}
		w.building[fn] = true
		bb := w.builderFor(fn)
		alts := make([][]*Expr, res.Len())
		for _, r := range w.SuccessReturns(fn) {
			empties := w.emptyAt(fn, r, bb)
			for i, v := range r.Results {
				if !keep[i] {
					alts[i] = append(alts[i], annotateEmpty(bb.expr(v), empties))
				}
			}
		}
		delete(w.building, fn)
		sum = &Expr{Op: "tuple"}
		for i := 0; i < res.Len(); i++ {
			switch {
			case keep[i]:
				sum.Args = append(sum.Args, nil)
			case len(alts[i]) == 0:
				sum = nil
			default:
				sum.Args = append(sum.Args, mkPhi(alts[i]))
			}
			if sum == nil {
				break
			}
		}
		if w.plumbSum == nil {
			w.plumbSum = map[*ssa.Function]*Expr{}
		}
		w.plumbSum[fn] = sum
	}
	if sum == nil {
		return nil
	}
	params := map[string]*Expr{}
	for i, p := range fn.Params {
		if i < len(e.Args) {
			params[p.Name()] = e.Args[i]
		}
	}
	out := &Expr{Op: "tuple"}
	for i, a := range sum.Args {
		if a == nil {
			out.Args = append(out.Args, &Expr{Op: "res", Name: fmt.Sprint(i), Args: []*Expr{e}})
			continue
		}
		x := Subst(a, params)
		// a container filled inside the helper has no origin expression for its contents: keep the call
		if opaque(x) || x.size() > 600 || x.Any(func(z *Expr) bool { return z.Op == "makemap" || z.Op == "makeslice" || z.Op == "makechan" }) {
			return nil
		}
		out.Args = append(out.Args, x)
	}
	if len(out.Args) == 1 {
		return out.Args[0]
	}
	return out
}

// Inline returns the substituted summary of an in-scope call expression (a "tuple" or single
// value), or nil when the callee is not resolvable.
func (w *World) Inline(e *Expr) *Expr {
	if e.Op != "call" || e.Callee == nil || e.Callee.Blocks == nil {
		return nil
	}
	if out := w.inlineConstArgs(e); out != nil {
		return out
	}
	sum := w.Summary(e.Callee)
	params := map[string]*Expr{}
	ps := e.Callee.Params
	args := e.Args
	if e.Call != nil && e.Call.Common().IsInvoke() {
		// receiver is Args[0]
	}
	for i, p := range ps {
		if i < len(args) {
			params[p.Name()] = args[i]
		}
	}
	out := Subst(sum, params)
	if out.Op == "tuple" && len(out.Args) == 1 {
		return out.Args[0]
	}
	return out
}

// Expand inlines in-scope calls recursively up to depth.
func (w *World) Expand(e *Expr, depth int) *Expr {
	budget := maxExprNodes
	return w.expand(e, depth, &budget, nil)
}

// ExpandKeep is Expand with the calls of the functions accepted by keep left in place (the vocabulary a
// rule is written in: the exported calculators and key builders of the types packages).
func (w *World) ExpandKeep(e *Expr, depth int, keep func(*ssa.Function) bool) *Expr {
	budget := maxExprNodes
	return w.expand(e, depth, &budget, keep)
}

// TypesVocabulary: the exported functions and methods of the modules' types packages.
func TypesVocabulary(f *ssa.Function) bool {
	pk := FnPkg(f)
	return pk != nil && strings.HasSuffix(pk.Path(), "/types") && ast.IsExported(f.Name())
}

func (w *World) expand(e *Expr, depth int, budget *int, keep func(*ssa.Function) bool) *Expr {
	if e == nil || *budget <= 0 {
		return e
	}
	*budget--
	if e.Op == "call" && e.Callee == nil && e.Name == "dyn" && len(e.Args) > 0 && e.Args[0].Op == "func" && e.Args[0].Callee != nil {
		// a call through a function value that turned out to be a plain function (a descriptor's field, an argument)
		ne := *e
		ne.str = ""
		ne.Name = e.Args[0].Name
		ne.Callee = w.unwrap(e.Args[0].Callee)
		ne.Args = e.Args[1:]
		if ne.Callee != nil && w.inSet[ne.Callee] {
			return w.expand(&ne, depth, budget, keep)
		}
	}
	if e.Op == "call" && e.Callee == nil && e.Name == "dyn" && len(e.Args) > 0 && e.Args[0].Op == "closure" && e.Args[0].Callee != nil && depth > 0 {
		// a call of a closure that was handed in as an argument (known after instantiation): its body, with the
		// call's arguments for its parameters; captured variables stay symbolic
		ne := *e
		ne.str = ""
		cl := e.Args[0]
		ne.Name = cl.Name
		ne.Callee = cl.Callee
		ne.Args = e.Args[1:]
		if len(ne.Callee.Blocks) > 0 && w.inSet[ne.Callee] {
			if in := w.Inline(&ne); in != nil && !opaque(in) {
				free := map[string]*Expr{}
				for i, f := range cl.Fields {
					if i < len(cl.Args) {
						free["free:"+f] = cl.Args[i]
					}
				}
				return w.expand(Subst(in, free), depth-1, budget, keep)
			}
		}
	}
	if e.Op == "call" && e.Callee != nil && depth > 0 && keep != nil && keep(e.Callee) {
		// a vocabulary call stays; its arguments are expanded
		ne := *e
		ne.str = ""
		ne.Args = make([]*Expr, len(e.Args))
		for i, a := range e.Args {
			ne.Args[i] = w.expand(a, depth, budget, keep)
		}
		return &ne
	}
	if e.Op == "field" && len(e.Args) == 1 && depth > 0 {
		// a field of the record an in-scope call hands back: project the field out of the call's summary first — the
		// record as a whole may hold parts without an origin expression (a marker worked out in a loop) next to fields
		// that are plainly the call's arguments
		base, idx := e.Args[0], -1
		if base.Op == "res" && len(base.Args) == 1 {
			fmt.Sscan(base.Name, &idx)
			base = base.Args[0]
		}
		if base.Op == "call" && base.Callee != nil && (keep == nil || !keep(base.Callee)) {
			ne := *base
			ne.str = ""
			ne.Args = make([]*Expr, len(base.Args))
			for i, a := range base.Args {
				ne.Args[i] = w.expand(a, depth, budget, keep)
			}
			if in := w.Inline(&ne); in != nil {
				if idx >= 0 {
					if in.Op == "tuple" && idx < len(in.Args) {
						in = in.Args[idx]
					} else {
						in = nil
					}
				} else if in.Op == "tuple" {
					in = nil
				}
				if in != nil {
					if proj := fieldOf(in, e.Name); !(proj.Op == "field" && len(proj.Args) == 1 && proj.Args[0] == in) && !opaque(proj) {
						return w.expand(proj, depth-1, budget, keep)
					}
				}
			}
		}
	}
	if e.Op == "call" && e.Callee != nil && depth > 0 {
		// expand arguments first
		ne := *e
		ne.str = ""
		ne.Args = make([]*Expr, len(e.Args))
		for i, a := range e.Args {
			ne.Args[i] = w.expand(a, depth, budget, keep)
		}
		if in := w.Inline(&ne); in != nil && !opaque(in) {
			return w.expand(in, depth-1, budget, keep)
		}
		return &ne
	}
	if len(e.Args) == 0 {
		return e
	}
	if e.Op == "state" && len(e.Args) == 1 && e.Args[0].Op == "call" {
		// keep the key builder call, expand only its arguments
		k := *e.Args[0]
		k.str = ""
		k.Args = make([]*Expr, len(e.Args[0].Args))
		for i, a := range e.Args[0].Args {
			k.Args[i] = w.expand(a, depth, budget, keep)
		}
		ne := *e
		ne.str = ""
		ne.Args = []*Expr{&k}
		return &ne
	}
	changed := false
	args := make([]*Expr, len(e.Args))
	for i, a := range e.Args {
		args[i] = w.expand(a, depth, budget, keep)
		if args[i] != a {
			changed = true
		}
	}
	if !changed {
		return e
	}
	ne := *e
	ne.Args = args
	ne.str = ""
	switch ne.Op {
	case "field":
		return fieldOf(args[0], ne.Name)
	case "res":
		var i int
		fmt.Sscan(ne.Name, &i)
		return resOf(args[0], i)
	case "phi":
		return mkPhi(args)
	}
	return &ne
}

// arrayLit recognises the go/ssa lowering of a slice literal or variadic argument list:
// a fresh array Alloc whose elements are stored once through constant IndexAddrs, then sliced.
func (b *builder) arrayLit(sl *ssa.Slice) *Expr {
	a, ok := sl.X.(*ssa.Alloc)
	if !ok || sl.Low != nil || sl.High != nil {
		return nil
	}
	arr, ok := deref(a.Type()).Underlying().(*types.Array)
	if !ok {
		return nil
	}
	n := int(arr.Len())
	if n > 64 {
		return nil
	}
	elems := make([]*Expr, n)
	refs := a.Referrers()
	if refs == nil {
		return nil
	}
	for _, r := range *refs {
		switch x := r.(type) {
		case *ssa.IndexAddr:
			c, ok := x.Index.(*ssa.Const)
			if !ok || c.Value == nil {
				return nil
			}
			i64, ok := constInt(c)
			if !ok || i64 < 0 || int(i64) >= n {
				return nil
			}
			var stored ssa.Value
			cnt := 0
			// a struct element written field by field ({label: ..., value: ...} in a table literal)
			st0, isStruct := arr.Elem().Underlying().(*types.Struct)
			var fields map[int]*Expr
			if xr := x.Referrers(); xr != nil {
				for _, rr := range *xr {
					if st, ok := rr.(*ssa.Store); ok && st.Addr == x {
						stored = st.Val
						cnt++
					} else if fa, ok := rr.(*ssa.FieldAddr); ok && isStruct && fa.X == x {
						fr := fa.Referrers()
						if fr == nil || len(*fr) != 1 {
							return nil
						}
						fs, ok := (*fr)[0].(*ssa.Store)
						if !ok || fs.Addr != fa {
							return nil
						}
						if fields == nil {
							fields = map[int]*Expr{}
						}
						fields[fa.Field] = b.expr(fs.Val)
					} else {
						return nil
					}
				}
			}
			if fields != nil && cnt == 0 {
				se := &Expr{Op: "struct", Name: typeShort(arr.Elem()), T: arr.Elem()}
				for fi := 0; fi < st0.NumFields(); fi++ {
					se.Fields = append(se.Fields, st0.Field(fi).Name())
					if fe, ok := fields[fi]; ok {
						se.Args = append(se.Args, fe)
					} else {
						se.Args = append(se.Args, &Expr{Op: "zero", Name: typeShort(st0.Field(fi).Type())})
					}
				}
				elems[i64] = se
				continue
			}
			if cnt != 1 {
				return nil
			}
			elems[i64] = b.expr(stored)
		case *ssa.Slice:
			// the slicing itself
		default:
			return nil
		}
	}
	for i := range elems {
		if elems[i] == nil {
			elems[i] = &Expr{Op: "zero", Name: typeShort(arr.Elem())}
		}
	}
	return &Expr{Op: "list", Args: elems}
}

func constInt(c *ssa.Const) (int64, bool) {
	if c.Value == nil {
		return 0, false
	}
	v, ok := constant.Int64Val(constant.ToInt(c.Value))
	return v, ok
}

// opaque: the inlined summary says less than the call itself (captured variables, unknowns).
func opaque(e *Expr) bool {
	for _, a := range e.Alts() {
		switch a.Op {
		case "captured", "unknown", "loop", "alloc":
			return true
		case "tuple":
			for _, x := range a.Args {
				if opaque(x) {
					return true
				}
			}
		}
	}
	return false
}

// encodedInt recognises  bz := make([]byte, N); binary.<Order>.PutUintN(bz, x)  and returns
// enc:<order><bits>(x). Any other use of the buffer that could write to it defeats the match.
func (b *builder) encodedInt(sl *ssa.Slice) *Expr {
	a, ok := sl.X.(*ssa.Alloc)
	if !ok {
		return nil
	}
	arr, ok := deref(a.Type()).Underlying().(*types.Array)
	if !ok {
		return nil
	}
	if bt, ok := arr.Elem().Underlying().(*types.Basic); !ok || bt.Kind() != types.Uint8 {
		return nil
	}
	if ar := a.Referrers(); ar == nil || len(*ar) != 1 {
		return nil // the array is used other than through this slice
	}
	var enc *Expr
	vals := []ssa.Value{sl}
	// the slice may be stored into a named result and reloaded; follow simple local copies
	seen := map[ssa.Value]bool{}
	for len(vals) > 0 {
		v := vals[0]
		vals = vals[1:]
		if seen[v] {
			continue
		}
		seen[v] = true
		refs := v.Referrers()
		if refs == nil {
			continue
		}
		for _, r := range *refs {
			switch x := r.(type) {
			case *ssa.Call:
				cc := x.Common()
				sc := cc.StaticCallee()
				if sc == nil || FnPkg(sc) == nil || FnPkg(sc).Path() != "encoding/binary" {
					continue
				}
				if len(cc.Args) == 3 && cc.Args[1] == v {
					recv := typeShort(cc.Args[0].Type())
					order := "?"
					if strings.Contains(recv, "bigEndian") {
						order = "be"
					} else if strings.Contains(recv, "littleEndian") {
						order = "le"
					}
					bits := strings.TrimPrefix(sc.Name(), "PutUint")
					if enc != nil {
						return nil
					}
					enc = &Expr{Op: "enc", Name: order + bits, Args: []*Expr{b.expr(cc.Args[2])}}
				} else if len(cc.Args) == 2 && cc.Args[0] == v && (sc.Name() == "PutUvarint" || sc.Name() == "PutVarint") {
					if enc != nil {
						return nil
					}
					enc = &Expr{Op: "enc", Name: "varint", Args: []*Expr{b.expr(cc.Args[1])}}
				}
			case *ssa.Store:
				if x.Val == v {
					if al, ok := x.Addr.(*ssa.Alloc); ok {
						// reloaded copies
						if ar := al.Referrers(); ar != nil {
							for _, rr := range *ar {
								if u, ok := rr.(*ssa.UnOp); ok && u.Op == token.MUL {
									vals = append(vals, u)
								}
							}
						}
					}
				}
			case *ssa.IndexAddr:
				return nil // element writes
			}
		}
	}
	return enc
}

// argReadOnly: the in-scope callee provably does not write through its ai-th argument
// (no store rooted at the parameter, parameter not passed on, not captured, not returned).
func (w *World) argReadOnly(call ssa.CallInstruction, ai int, depth int) bool {
	cc := call.Common()
	if cc.IsInvoke() || depth > 2 {
		return false
	}
	sc := cc.StaticCallee()
	if sc == nil {
		return false
	}
	sc = w.unwrap(sc)
	if sc == nil || sc.Blocks == nil || !w.inSet[sc] || ai >= len(sc.Params) {
		return false
	}
	p := sc.Params[ai]
	derived := map[ssa.Value]bool{p: true}
	changed := true
	for changed {
		changed = false
		for _, blk := range sc.Blocks {
			for _, in := range blk.Instrs {
				switch x := in.(type) {
				case *ssa.FieldAddr:
					if derived[x.X] && !derived[x] {
						derived[x] = true
						changed = true
					}
				case *ssa.IndexAddr:
					if derived[x.X] && !derived[x] {
						derived[x] = true
						changed = true
					}
				case *ssa.Phi:
					for _, e := range x.Edges {
						if derived[e] && !derived[x] {
							derived[x] = true
							changed = true
						}
					}
				}
			}
		}
	}
	for _, blk := range sc.Blocks {
		for _, in := range blk.Instrs {
			switch x := in.(type) {
			case *ssa.Store:
				if derived[x.Addr] || derived[x.Val] {
					return false
				}
			case ssa.CallInstruction:
				c2 := x.Common()
				for j, a := range c2.Args {
					if derived[stripConv(a)] {
						if !w.argReadOnly(x, j, depth+1) {
							return false
						}
					}
				}
				if c2.IsInvoke() && derived[stripConv(c2.Value)] {
					return false
				}
			case *ssa.MakeClosure:
				for _, bd := range x.Bindings {
					if derived[bd] {
						return false
					}
				}
			case *ssa.Return:
				for _, rv := range x.Results {
					if derived[stripConv(rv)] {
						return false
					}
				}
			case *ssa.MakeInterface:
				if derived[x.X] {
					// escapes into an interface value; only acceptable when unused beyond a nil check
					if refs := x.Referrers(); refs != nil && len(*refs) > 0 {
						return false
					}
				}
			}
		}
	}
	return true
}

// counter recognises a loop-carried integer that starts at 0 and is incremented by 1 on
// exactly one conditional edge:   n := 0; for ... { if C { n = n + 1 } }   and returns
// counter(C). Merge phis inside the loop that only forward the counter resolve to the same.
func (b *builder) counter(p *ssa.Phi) *Expr {
	if !isNumeric(p.Type()) {
		return nil
	}
	// find the header phi of the strongly connected phi/+1 component containing p
	comp := map[ssa.Value]bool{}
	var incs []*ssa.BinOp
	inits := 0
	bad := false
	var visit func(v ssa.Value)
	visit = func(v ssa.Value) {
		if comp[v] || bad {
			return
		}
		switch x := v.(type) {
		case *ssa.Phi:
			comp[v] = true
			for _, e := range x.Edges {
				visit(e)
			}
		case *ssa.BinOp:
			c, ok := x.Y.(*ssa.Const)
			if x.Op != token.ADD || !ok {
				bad = true
				return
			}
			if n, ok := constInt(c); !ok || n != 1 {
				bad = true
				return
			}
			comp[v] = true
			incs = append(incs, x)
			visit(x.X)
		case *ssa.Const:
			if n, ok := constInt(x); !ok || n != 0 {
				bad = true
				return
			}
			inits++
		default:
			bad = true
		}
	}
	visit(p)
	if bad || len(incs) != 1 || inits == 0 {
		return nil
	}
	inc := incs[0]
	blk := inc.Block()
	if len(blk.Preds) != 1 {
		return nil
	}
	pred := blk.Preds[0]
	iff, ok := pred.Instrs[len(pred.Instrs)-1].(*ssa.If)
	if !ok {
		return nil
	}
	pol := "true"
	if pred.Succs[0] != blk {
		pol = "false"
	}
	cond := b.expr(iff.Cond)
	return &Expr{Op: "counter", Name: pol, Args: []*Expr{cond}}
}

// FieldName returns the name of field i of the (pointer to) struct type t.
func FieldName(t types.Type, i int) string { return fieldName(t, i) }

// funcVarOf: v is a load of a package-level variable of function type.
func funcVarOf(v ssa.Value) *ssa.Global {
	u, ok := v.(*ssa.UnOp)
	if !ok || u.Op != token.MUL {
		return nil
	}
	g, ok := u.X.(*ssa.Global)
	if !ok {
		return nil
	}
	if _, isFn := deref(g.Type()).Underlying().(*types.Signature); !isFn {
		return nil
	}
	return g
}

// PathTuples resolves the results of a return instruction path by path: walking the CFG
// backwards from the return, every result that is a phi or a load of a local is resolved
// along each incoming path separately, so that the values of one tuple belong to the same
// execution path. ok=false when the walk does not terminate within the bounds.
func (w *World) PathTuples(ret *ssa.Return, maxPaths int) ([][]*Expr, bool) {
	fn := ret.Parent()
	b := w.builderFor(fn)
	type pend struct {
		phi   *ssa.Phi
		alloc *ssa.Alloc
		done  *Expr
	}
	start := make([]pend, len(ret.Results))
	for i, v := range ret.Results {
		switch x := v.(type) {
		case *ssa.Phi:
			start[i] = pend{phi: x}
		case *ssa.UnOp:
			if a, ok := x.X.(*ssa.Alloc); ok && x.Op == token.MUL && !b.rd.captured[a] {
				start[i] = pend{alloc: a}
			} else {
				start[i] = pend{done: b.expr(v)}
			}
		default:
			start[i] = pend{done: b.expr(v)}
		}
	}
	var out [][]*Expr
	ok := true
	// the branch outcomes passed on the way back from the return, on verdict enumerations handed back by in-scope helpers
	// (`switch verdict {case A: ...; case B: ...}` with no default): a path on which the verdict is none of the constants
	// its helper can return is not a path
	type enumCons struct {
		v    ssa.Value
		k    string
		same bool // v == k on this path (false: v != k)
	}
	var cons []enumCons
	feasible := func() bool {
		by := map[ssa.Value][]enumCons{}
		for _, c := range cons {
			by[c.v] = append(by[c.v], c)
		}
		for v, cs := range by {
			set, known := w.enumReturnSet(v)
			if !known {
				continue
			}
			left := 0
			for k := range set {
				okk := true
				for _, c := range cs {
					if c.same && c.k != k || !c.same && c.k == k {
						okk = false
					}
				}
				if okk {
					left++
				}
			}
			if left == 0 {
				return false
			}
		}
		return true
	}
	addCons := func(p, blk *ssa.BasicBlock) {
		if iff, isIf := p.Instrs[len(p.Instrs)-1].(*ssa.If); isIf && len(p.Succs) == 2 && p.Succs[0] != p.Succs[1] {
			if bo, isB := iff.Cond.(*ssa.BinOp); isB && (bo.Op == token.EQL || bo.Op == token.NEQ) {
				var ev ssa.Value
				var ck *ssa.Const
				if c1, okc := bo.Y.(*ssa.Const); okc {
					ev, ck = bo.X, c1
				} else if c1, okc := bo.X.(*ssa.Const); okc {
					ev, ck = bo.Y, c1
				}
				if ck != nil && ck.Value != nil && ck.Value.Kind() == constant.Int {
					truth := p.Succs[0] == blk
					cons = append(cons, enumCons{v: ev, k: ck.Value.ExactString(), same: (bo.Op == token.EQL) == truth})
				}
			}
		}
	}
	var reachesEntryFeasibly func(blk *ssa.BasicBlock, depth int) bool
	onPath := map[*ssa.BasicBlock]bool{}
	reachesEntryFeasibly = func(blk *ssa.BasicBlock, depth int) bool {
		if len(blk.Preds) == 0 {
			return feasible()
		}
		if depth > 24 || onPath[blk] {
			return true // give up: keep the tuple
		}
		if !feasible() {
			return false
		}
		onPath[blk] = true
		defer delete(onPath, blk)
		for _, p := range blk.Preds {
			mark := len(cons)
			addCons(p, blk)
			r := reachesEntryFeasibly(p, depth+1)
			cons = cons[:mark]
			if r {
				return true
			}
		}
		return false
	}
	var walk func(blk *ssa.BasicBlock, from int, st []pend, depth int)
	walk = func(blk *ssa.BasicBlock, from int, st []pend, depth int) {
		if !ok {
			return
		}
		if depth > 24 || len(out) > maxPaths {
			ok = false
			return
		}
		cur := append([]pend{}, st...)
		// resolve loads whose defining store lies in this block
		for i := range cur {
			if cur[i].alloc == nil {
				continue
			}
			for j := from - 1; j >= 0; j-- {
				in := blk.Instrs[j]
				if in == ssa.Instruction(cur[i].alloc) {
					cur[i] = pend{done: &Expr{Op: "zero", Name: typeShort(deref(cur[i].alloc.Type()))}}
					break
				}
				if s, isStore := in.(*ssa.Store); isStore && s.Addr == ssa.Value(cur[i].alloc) {
					switch x := s.Val.(type) {
					case *ssa.Phi:
						cur[i] = pend{phi: x}
					default:
						cur[i] = pend{done: b.expr(s.Val)}
					}
					break
				}
			}
		}
		pending := false
		for i := range cur {
			if cur[i].done == nil {
				// a phi defined in another block than this one cannot be split here: resolve as a whole
				if cur[i].phi != nil && cur[i].phi.Block() != blk {
					cur[i] = pend{done: b.expr(cur[i].phi)}
					continue
				}
				pending = true
			}
		}
		if !pending || len(blk.Preds) == 0 {
			t := make([]*Expr, len(cur))
			for i := range cur {
				switch {
				case cur[i].done != nil:
					t[i] = cur[i].done
				case cur[i].phi != nil:
					t[i] = b.expr(cur[i].phi)
				default:
					t[i] = &Expr{Op: "zero", Name: "unset"}
				}
			}
			// a result that mentions another result's variable (`return claim, deposit.Sub(claim)`) means what that variable
			// holds on this path
			for i := range start {
				if start[i].phi == nil && start[i].alloc == nil || t[i] == nil {
					continue
				}
				whole := b.expr(ret.Results[i])
				if EqualExpr(whole, t[i]) {
					continue
				}
				for j := range t {
					if j != i && t[j] != nil {
						t[j] = Replace(t[j], whole, t[i])
					}
				}
			}
			// the values are resolved; the way from the entry to here may still contradict the verdicts tested so far
			if reachesEntryFeasibly(blk, 0) {
				out = append(out, t)
			}
			return
		}
		for k, p := range blk.Preds {
			mark := len(cons)
			addCons(p, blk)
			next := append([]pend{}, cur...)
			for i := range next {
				if next[i].done == nil && next[i].phi != nil {
					e := next[i].phi.Edges[k]
					switch x := e.(type) {
					case *ssa.Phi:
						next[i] = pend{phi: x}
					case *ssa.UnOp:
						if a, okA := x.X.(*ssa.Alloc); okA && x.Op == token.MUL && !b.rd.captured[a] {
							next[i] = pend{alloc: a}
						} else {
							next[i] = pend{done: b.expr(e)}
						}
					default:
						next[i] = pend{done: b.expr(e)}
					}
				}
			}
			walk(p, len(p.Instrs), next, depth+1)
			cons = cons[:mark]
		}
	}
	walk(ret.Block(), InstrIndex(ret), start, 0)
	return out, ok
}

// enumReturnSet: v is the (enumeration-typed) result of an in-scope call all of whose success returns hand back a
// constant there: the set of those constants.
func (w *World) enumReturnSet(v ssa.Value) (map[string]bool, bool) {
	var call *ssa.Call
	ri := 0
	switch x := v.(type) {
	case *ssa.Call:
		call = x
	case *ssa.Extract:
		c, ok := x.Tuple.(*ssa.Call)
		if !ok {
			return nil, false
		}
		call, ri = c, x.Index
	default:
		return nil, false
	}
	if _, named := v.Type().(*types.Named); !named {
		return nil, false
	}
	g := w.PreferredCallee(call)
	if g == nil || len(g.Blocks) == 0 || !w.inSet[g] {
		return nil, false
	}
	set := map[string]bool{}
	rets := Returns(g)
	if ErrIndex(g) >= 0 {
		if sr := w.SuccessReturns(g); len(sr) > 0 {
			rets = sr
		}
	}
	for _, r := range rets {
		if ri >= len(r.Results) {
			return nil, false
		}
		c, ok := r.Results[ri].(*ssa.Const)
		if !ok || c.Value == nil || c.Value.Kind() != constant.Int {
			return nil, false
		}
		set[c.Value.ExactString()] = true
	}
	return set, len(set) > 0
}

// GlobalName is the repo-relative name of a package-level variable.
func GlobalName(g *ssa.Global) string { return globalName(g) }

// Replace returns e with every occurrence of the sub-expression `old` (by identity or equal text) replaced by `new`.
func Replace(e, old, new *Expr) *Expr {
	if e == nil {
		return nil
	}
	if e == old || EqualExpr(e, old) {
		return new
	}
	if len(e.Args) == 0 {
		return e
	}
	ne := *e
	ne.str = ""
	ne.Args = make([]*Expr, len(e.Args))
	changed := false
	for i, a := range e.Args {
		ne.Args[i] = Replace(a, old, new)
		if ne.Args[i] != a {
			changed = true
		}
	}
	if !changed {
		return e
	}
	switch ne.Op {
	case "field":
		return fieldOf(ne.Args[0], ne.Name)
	case "res":
		var i int
		fmt.Sscan(ne.Name, &i)
		return resOf(ne.Args[0], i)
	case "phi":
		return mkPhi(ne.Args)
	}
	return &ne
}

// UnrollLists rewrites "element of a literal list at a non-constant index" into the alternatives it
// can denote (a phi of the elements), distributing field selections over them: the value a table-driven
// loop looks at in some iteration.
func UnrollLists(e *Expr) *Expr {
	if e == nil || len(e.Args) == 0 {
		return e
	}
	args := make([]*Expr, len(e.Args))
	changed := false
	for i, a := range e.Args {
		args[i] = UnrollLists(a)
		if args[i] != a {
			changed = true
		}
	}
	if e.Op == "elem" && len(args) == 2 && args[0].Op == "list" && args[1].Op != "const" && len(args[0].Args) > 0 {
		return mkPhi(append([]*Expr{}, args[0].Args...))
	}
	if !changed {
		return e
	}
	ne := *e
	ne.Args = args
	ne.str = ""
	switch ne.Op {
	case "field":
		return fieldOf(args[0], ne.Name)
	case "phi":
		return mkPhi(args)
	}
	return &ne
}

// cellCounter recognises a counter kept in a memory cell (a local, or a field of a local struct: `count.accepts++`
// under a condition inside a loop): the cell starts at zero, and its only other definition is cell = cell + 1 in a
// block entered on one edge of a condition. It is described like a register counter: counter(cond).
func (rd *reachDefs) cellCounterMemo(a ssa.Value, path []int) *Expr {
	if rd.cnt == nil {
		rd.cnt = map[rdKey]*Expr{}
		rd.cntBusy = map[rdKey]bool{}
	}
	k := rdKey{nil, a, pathKey(path)}
	if e, ok := rd.cnt[k]; ok {
		return e
	}
	if rd.cntBusy[k] {
		return nil
	}
	rd.cntBusy[k] = true
	e := rd.cellCounter(a, path)
	delete(rd.cntBusy, k)
	rd.cnt[k] = e
	return e
}

func (rd *reachDefs) cellCounter(a ssa.Value, path []int) *Expr {
	al, ok := a.(*ssa.Alloc)
	if !ok || !isNumeric(cellTypeOf(a, path)) {
		return nil
	}
	var inc *ssa.Store
	for _, d := range rd.defs[al] {
		if d.esc != nil {
			return nil
		}
		switch {
		case pathKey(d.path) == pathKey(path):
			if c, ok := d.val.(*ssa.Const); ok {
				if n, ok := constInt(c); ok && n == 0 {
					continue
				}
				return nil
			}
			bo, ok := d.val.(*ssa.BinOp)
			if !ok || bo.Op != token.ADD || inc != nil {
				return nil
			}
			c, ok := bo.Y.(*ssa.Const)
			if !ok {
				return nil
			}
			if n, ok := constInt(c); !ok || n != 1 {
				return nil
			}
			ld, ok := bo.X.(*ssa.UnOp)
			if !ok || ld.Op != token.MUL {
				return nil
			}
			r2, p2 := addrPath(ld.X)
			if r2 != ssa.Value(al) || pathKey(p2) != pathKey(path) {
				return nil
			}
			inc = d.in.(*ssa.Store)
		case hasPrefix(path, d.path):
			// an enclosing cell written as a whole: only the zero value keeps the pattern
			if c, ok := d.val.(*ssa.Const); !ok || c.Value != nil {
				return nil
			}
		case hasPrefix(d.path, path):
			return nil
		}
	}
	if inc == nil {
		return nil
	}
	blk := inc.Block()
	if len(blk.Preds) != 1 {
		return nil
	}
	pred := blk.Preds[0]
	iff, ok := pred.Instrs[len(pred.Instrs)-1].(*ssa.If)
	if !ok {
		return nil
	}
	pol := "true"
	if pred.Succs[0] != blk {
		pol = "false"
	}
	return &Expr{Op: "counter", Name: pol, Args: []*Expr{rd.b.expr(iff.Cond)}}
}

// initOnlyField: the value the package initialiser stores into field `path` of global g, when that is the only
// store to g (or any part of it) in the whole in-scope program. nil otherwise.
func (w *World) initOnlyField(g *ssa.Global, path []int) *Expr {
	k := [2]any{g, pathKey(path)}
	if w.initFields == nil {
		w.initFields = map[[2]any]*Expr{}
	}
	if e, ok := w.initFields[k]; ok {
		return e
	}
	w.initFields[k] = nil
	if g.Pkg == nil {
		return nil
	}
	initFn := g.Pkg.Func("init")
	if initFn == nil {
		return nil
	}
	// any write outside the initialiser disqualifies the global
	for _, f := range w.Funcs {
		if f == initFn || f.Pkg != g.Pkg && !w.inSet[f] {
			continue
		}
		for _, b := range f.Blocks {
			for _, in := range b.Instrs {
				if st, ok := in.(*ssa.Store); ok {
					if root, _ := addrPath(st.Addr); root == ssa.Value(g) {
						return nil
					}
				}
			}
		}
	}
	var val ssa.Value
	n := 0
	for _, b := range initFn.Blocks {
		for _, in := range b.Instrs {
			st, ok := in.(*ssa.Store)
			if !ok {
				continue
			}
			root, p := addrPath(st.Addr)
			if root != ssa.Value(g) {
				continue
			}
			if pathKey(p) == pathKey(path) {
				n++
				val = st.Val
			} else if hasPrefix(path, p) || hasPrefix(p, path) {
				return nil // written as part of a larger / smaller cell: not handled
			}
		}
	}
	if n != 1 {
		return nil
	}
	e := w.builderFor(initFn).expr(val)
	if opaque(e) {
		return nil
	}
	w.initFields[k] = e
	return e
}

// InitOnlyValue: the value the package initialiser assigns to global g (nil unless that is its only assignment).
func (w *World) InitOnlyValue(g *ssa.Global) *Expr { return w.initOnlyField(g, nil) }

// EqualExpr: structural equality (String() is truncated for long expressions and must not be used to identify them).
func EqualExpr(a, b *Expr) bool {
	if a == b {
		return true
	}
	if a == nil || b == nil || a.Op != b.Op || a.Name != b.Name || len(a.Args) != len(b.Args) || len(a.Fields) != len(b.Fields) {
		return false
	}
	for i := range a.Fields {
		if a.Fields[i] != b.Fields[i] {
			return false
		}
	}
	for i := range a.Args {
		if !EqualExpr(a.Args[i], b.Args[i]) {
			return false
		}
	}
	return true
}

// emptyAt: the string values known to be empty at return r — every path to r passes the empty side of a test
// `len(x) == 0` / `x == ""` (in any of its spellings).
func (w *World) emptyAt(fn *ssa.Function, r *ssa.Return, b *builder) []*Expr {
	var out []*Expr
	for _, blk := range fn.Blocks {
		if len(blk.Instrs) == 0 {
			continue
		}
		iff, ok := blk.Instrs[len(blk.Instrs)-1].(*ssa.If)
		if !ok {
			continue
		}
		cond := iff.Cond
		neg := false
		for {
			if u, ok := cond.(*ssa.UnOp); ok && u.Op == token.NOT {
				cond, neg = u.X, !neg
				continue
			}
			break
		}
		bo, ok := cond.(*ssa.BinOp)
		if !ok {
			continue
		}
		// subject: the string whose emptiness is tested; emptyWhen: the truth value of the comparison that means "empty"
		var subject ssa.Value
		emptyWhen := true
		isLen := func(v ssa.Value) ssa.Value {
			c, ok := v.(*ssa.Call)
			if !ok {
				return nil
			}
			if bi, ok := c.Call.Value.(*ssa.Builtin); ok && bi.Name() == "len" && len(c.Call.Args) == 1 {
				return c.Call.Args[0]
			}
			return nil
		}
		constIs := func(v ssa.Value, s string) bool {
			c, ok := v.(*ssa.Const)
			return ok && c.Value != nil && c.Value.ExactString() == s
		}
		x, y := bo.X, bo.Y
		switch {
		case isLen(x) != nil && constIs(y, "0"):
			subject = isLen(x)
			switch bo.Op {
			case token.EQL, token.LEQ:
			case token.NEQ, token.GTR:
				emptyWhen = false
			default:
				subject = nil
			}
		case isLen(x) != nil && constIs(y, "1") && (bo.Op == token.LSS || bo.Op == token.GEQ):
			subject = isLen(x)
			emptyWhen = bo.Op == token.LSS
		case constIs(y, `""`) && (bo.Op == token.EQL || bo.Op == token.NEQ):
			subject = x
			emptyWhen = bo.Op == token.EQL
		case constIs(x, `""`) && (bo.Op == token.EQL || bo.Op == token.NEQ):
			subject = y
			emptyWhen = bo.Op == token.EQL
		}
		if subject == nil {
			continue
		}
		if bt, ok := subject.Type().Underlying().(*types.Basic); !ok || bt.Kind() != types.String {
			continue
		}
		if neg {
			emptyWhen = !emptyWhen
		}
		// the successor taken when the subject is NOT empty: with it deleted, is r still reachable?
		nonEmptySucc := 0
		if emptyWhen {
			nonEmptySucc = 1
		}
		// every path to r passes the empty side <=> deleting the empty side's edge makes r unreachable
		emptySucc := 1 - nonEmptySucc
		if !Reaches(fn, r, Cut{Edges: map[[2]int]bool{{blk.Index, emptySucc}: true}}) {
			out = append(out, b.expr(subject))
		}
	}
	return out
}

// annotateEmpty marks the empty string leaves of e (zero:string, "") with the values known empty where e was produced.
func annotateEmpty(e *Expr, empties []*Expr) *Expr {
	if e == nil || len(empties) == 0 {
		return e
	}
	if len(e.Args) == 0 {
		if e.Op == "zero" && e.Name == "string" || e.Op == "const" && e.Name == `""` {
			ne := *e
			ne.Eq = empties
			return &ne
		}
		return e
	}
	changed := false
	args := make([]*Expr, len(e.Args))
	for i, a := range e.Args {
		args[i] = annotateEmpty(a, empties)
		if args[i] != a {
			changed = true
		}
	}
	if !changed {
		return e
	}
	ne := *e
	ne.Args = args
	return &ne
}

// MkPhi merges alternatives into one expression (duplicates dropped, nested alternatives flattened).
func MkPhi(alts []*Expr) *Expr { return mkPhi(alts) }

// FieldOf projects a field out of a record expression.
func FieldOf(base *Expr, name string) *Expr { return fieldOf(base, name) }

// builtAlts: the elements a list can hold when it is built by appends alone: append(base, e1, e2...) chains starting from
// an empty list (make, nil, a zero value), possibly loop-carried. ok=false when the list has any other origin.
func builtAlts(e *Expr, depth int) ([]*Expr, bool) {
	if e == nil || depth > 8 {
		return nil, false
	}
	switch {
	case e.Op == "phi":
		var out []*Expr
		for _, a := range e.Args {
			xs, ok := builtAlts(a, depth+1)
			if !ok {
				return nil, false
			}
			out = append(out, xs...)
		}
		return out, true
	case e.Op == "loop" || e.Op == "makeslice" || e.Op == "zero" || e.Op == "const" && e.Name == "nil":
		return nil, true
	case e.Op == "call" && e.Name == "builtin:append" && len(e.Args) == 2:
		if e.Call != nil && elementsAssigned(e.Call) {
			return nil, false // elements are also updated in place: the appended values are not all the list can hold
		}
		base, ok := builtAlts(e.Args[0], depth+1)
		if !ok {
			return nil, false
		}
		if e.Args[1].Op == "list" {
			return append(base, e.Args[1].Args...), true
		}
		more, ok := builtAlts(e.Args[1], depth+1)
		if !ok {
			return nil, false
		}
		return append(base, more...), true
	case e.Op == "conv" && len(e.Args) == 1:
		return builtAlts(e.Args[0], depth+1)
	}
	return nil, false
}

// BuiltSites: the append calls that put elements into a list built by appends alone (see builtAlts).
func BuiltSites(e *Expr) ([]ssa.CallInstruction, bool) {
	var out []ssa.CallInstruction
	var visit func(e *Expr, depth int) bool
	visit = func(e *Expr, depth int) bool {
		if e == nil || depth > 8 {
			return false
		}
		switch {
		case e.Op == "phi":
			for _, a := range e.Args {
				if !visit(a, depth+1) {
					return false
				}
			}
			return true
		case e.Op == "loop" || e.Op == "makeslice" || e.Op == "zero" || e.Op == "const" && e.Name == "nil":
			return true
		case e.Op == "call" && e.Name == "builtin:append" && len(e.Args) == 2:
			if e.Call != nil && elementsAssigned(e.Call) {
				return false
			}
			if !visit(e.Args[0], depth+1) {
				return false
			}
			if e.Args[1].Op != "list" && !visit(e.Args[1], depth+1) {
				return false
			}
			if e.Call != nil {
				out = append(out, e.Call)
			}
			return true
		case e.Op == "conv" && len(e.Args) == 1:
			return visit(e.Args[0], depth+1)
		}
		return false
	}
	if !visit(e, 0) {
		return nil, false
	}
	return out, true
}

// elementsAssigned: the function containing the append also stores into elements of a slice of the same type
// (`xs[i].f = v`, `xs[i] = v`): the list is not built by appends alone.
func elementsAssigned(call ssa.CallInstruction) bool {
	fn := call.Parent()
	v := call.Value()
	if fn == nil || v == nil {
		return false
	}
	want := v.Type().String()
	for _, b := range fn.Blocks {
		for _, in := range b.Instrs {
			st, ok := in.(*ssa.Store)
			if !ok {
				continue
			}
			a := st.Addr
			for {
				if fa, ok := a.(*ssa.FieldAddr); ok {
					a = fa.X
					continue
				}
				break
			}
			if ia, ok := a.(*ssa.IndexAddr); ok && ia.X.Type().String() == want {
				return true
			}
		}
	}
	return false
}

// outWhole summarises what the record behind the ai-th parameter of fn (a pointer to a struct) holds when fn returns
// successfully, in fn's own terms (`param:<p>` standing for what the caller handed in): the reaching definitions of
// the whole cell at the success returns. ok=false when the pointer is used in a way the reaching definitions do not
// model (stored somewhere, captured, returned, handed to code outside the analysed set).
func (w *World) outWhole(fn *ssa.Function, ai int, depth int) (*Expr, bool) {
	if depth > 4 || ai >= len(fn.Params) || len(fn.Blocks) == 0 {
		return nil, false
	}
	p := fn.Params[ai]
	if _, isPtr := p.Type().Underlying().(*types.Pointer); !isPtr {
		return nil, false
	}
	if _, isStruct := deref(p.Type()).Underlying().(*types.Struct); !isStruct {
		return nil, false
	}
	var okUse func(v ssa.Value) bool
	okUse = func(v ssa.Value) bool {
		refs := v.Referrers()
		if refs == nil {
			return true
		}
		for _, r := range *refs {
			switch x := r.(type) {
			case *ssa.DebugRef, *ssa.UnOp, *ssa.BinOp:
			case *ssa.Store:
				if x.Addr != v {
					return false // the pointer itself is stored somewhere
				}
			case *ssa.FieldAddr:
				if !okUse(x) {
					return false
				}
			case *ssa.Call:
				h := x.Call.StaticCallee()
				if h == nil {
					return false
				}
				h = w.unwrap(h)
				if h == nil || !w.inSet[h] || len(h.Blocks) == 0 {
					return false
				}
				for aj, a := range x.Call.Args {
					if a != v {
						continue
					}
					if w.argReadOnly(x, aj, 0) {
						continue
					}
					if _, ok := w.outFields(h, aj); ok {
						continue
					}
					if _, ok := w.outWhole(h, aj, depth+1); !ok {
						return false
					}
				}
			default:
				return false
			}
		}
		return true
	}
	if !okUse(p) {
		return nil, false
	}
	b := w.builderFor(fn)
	if b.rd == nil {
		return nil, false
	}
	rets := Returns(fn)
	if ErrIndex(fn) >= 0 {
		if sr := w.SuccessReturns(fn); len(sr) > 0 {
			rets = sr
		}
	}
	var alts []*Expr
	for _, ret := range rets {
		alts = append(alts, b.rd.at(ret, p, nil))
	}
	if len(alts) == 0 {
		return nil, false
	}
	e := mkPhi(alts)
	if opaque(e) {
		return nil, false
	}
	return e, true
}

// StripZeroAlts drops, everywhere in e, the empty alternatives of merged values (the "not found" default of a getter next
// to what it read): for comparing two descriptions of one computation that were narrowed at different places.
func StripZeroAlts(e *Expr) *Expr {
	if e == nil || len(e.Args) == 0 {
		return e
	}
	args := make([]*Expr, len(e.Args))
	changed := false
	for i, a := range e.Args {
		args[i] = StripZeroAlts(a)
		if args[i] != a {
			changed = true
		}
	}
	if e.Op == "phi" {
		var keep []*Expr
		for _, a := range args {
			if a.Op != "zero" {
				keep = append(keep, a)
			}
		}
		if len(keep) > 0 && len(keep) < len(args) {
			return mkPhi(keep)
		}
	}
	if !changed {
		return e
	}
	ne := *e
	ne.Args = args
	ne.str = ""
	switch ne.Op {
	case "field":
		return fieldOf(args[0], ne.Name)
	case "phi":
		return mkPhi(args)
	}
	return &ne
}

// enumResult: result i of fn has a named integer type and every (success) return hands back a constant there: a verdict
// enumeration.
func (w *World) enumResult(fn *ssa.Function, i int) bool {
	res := fn.Signature.Results()
	if i >= res.Len() {
		return false
	}
	t := res.At(i).Type()
	if _, named := t.(*types.Named); !named {
		return false
	}
	bt, ok := t.Underlying().(*types.Basic)
	if !ok || bt.Info()&types.IsInteger == 0 {
		return false
	}
	n := 0
	for _, r := range Returns(fn) {
		if i >= len(r.Results) {
			return false
		}
		c, isC := r.Results[i].(*ssa.Const)
		if !isC || c.Value == nil {
			return false
		}
		n++
	}
	return n >= 2
}

// BuiltItem is one element appended to a list built by appends alone, with the append that put it there.
type BuiltItem struct {
	Item *Expr
	Site ssa.CallInstruction
}

// BuiltItems: the elements of a list built by appends alone, each with its append call (nil, false when the list has any
// other origin, or an append's call is not known).
func BuiltItems(e *Expr) ([]BuiltItem, bool) {
	var out []BuiltItem
	var visit func(e *Expr, depth int) bool
	visit = func(e *Expr, depth int) bool {
		if e == nil || depth > 8 {
			return false
		}
		switch {
		case e.Op == "phi":
			for _, a := range e.Args {
				if !visit(a, depth+1) {
					return false
				}
			}
			return true
		case e.Op == "loop" || e.Op == "makeslice" || e.Op == "zero" || e.Op == "const" && e.Name == "nil":
			return true
		case e.Op == "call" && e.Name == "builtin:append" && len(e.Args) == 2:
			if e.Call == nil || elementsAssigned(e.Call) || e.Args[1].Op != "list" {
				return false
			}
			if !visit(e.Args[0], depth+1) {
				return false
			}
			for _, it := range e.Args[1].Args {
				out = append(out, BuiltItem{it, e.Call})
			}
			return true
		case e.Op == "conv" && len(e.Args) == 1:
			return visit(e.Args[0], depth+1)
		}
		return false
	}
	if !visit(e, 0) {
		return nil, false
	}
	return out, true
}

// EnumResult: result i of fn is an enumeration verdict (a named integer type, a constant at every return).
func (w *World) EnumResult(fn *ssa.Function, i int) bool { return fn != nil && w.enumResult(fn, i) }

// nonNilAt: the SSA value x is known not to be nil whenever control is in block p: some dominator of p (p included) is
// entered only through the side of a test `x == nil` / `x != nil` on which x is not nil.
func nonNilAt(x ssa.Value, p *ssa.BasicBlock) bool {
	switch x.Type().Underlying().(type) {
	case *types.Slice, *types.Pointer, *types.Map, *types.Interface:
	default:
		return false
	}
	for d := p; d != nil; d = d.Idom() {
		if len(d.Preds) != 1 {
			continue
		}
		q := d.Preds[0]
		iff, ok := q.Instrs[len(q.Instrs)-1].(*ssa.If)
		if !ok || len(q.Succs) != 2 || q.Succs[0] == q.Succs[1] {
			continue
		}
		bo, ok := iff.Cond.(*ssa.BinOp)
		if !ok || bo.Op != token.EQL && bo.Op != token.NEQ {
			continue
		}
		var other ssa.Value
		if isNilConst(bo.Y) {
			other = bo.X
		} else if isNilConst(bo.X) {
			other = bo.Y
		}
		if other != x {
			continue
		}
		notNilSide := 1 // x == nil: the false side
		if bo.Op == token.NEQ {
			notNilSide = 0
		}
		if q.Succs[notNilSide] == d {
			return true
		}
	}
	return false
}

// inlineConstArgs: the call hands constants to parameters the callee decides on (`unitFee(ctx, k, feeKindRegister)` with
// `switch kind { case feeKindRegister: ... }`): only the returns that can be reached with those constants count. nil when no
// argument is a constant the callee tests.
func (w *World) inlineConstArgs(e *Expr) *Expr {
	g := e.Callee
	if g == nil || len(g.Blocks) == 0 || w.constBusy[g] {
		return nil
	}
	consts := map[string]string{}
	for i, p := range g.Params {
		if i < len(e.Args) && e.Args[i] != nil && e.Args[i].Op == "const" && e.Args[i].Name != "nil" {
			if bt, ok := p.Type().Underlying().(*types.Basic); ok && bt.Info()&(types.IsInteger|types.IsString|types.IsBoolean) != 0 {
				consts[p.Name()] = e.Args[i].Name
			}
		}
	}
	if len(consts) == 0 {
		return nil
	}
	if w.constBusy == nil {
		w.constBusy = map[*ssa.Function]bool{}
	}
	w.constBusy[g] = true
	defer delete(w.constBusy, g)
	cut := w.EstablishedEdges(g, func(p Pred) bool {
		op, x, y, ok := p.Cmp()
		if !ok {
			return false
		}
		if y.Op == "param" && x.Op == "const" {
			x, y = y, x
		}
		k, has := consts[x.Name]
		if x.Op != "param" || !has || y.Op != "const" {
			return false
		}
		switch op {
		case "==":
			return y.Name != k
		case "!=":
			return y.Name == k
		}
		return false
	}, 0)
	if len(cut) == 0 {
		return nil
	}
	b := w.builderFor(g)
	nres := g.Signature.Results().Len()
	alts := make([][]*Expr, nres)
	for _, ret := range Returns(g) {
		if !Reaches(g, ret, Cut{Edges: cut}) {
			continue
		}
		for i, v := range ret.Results {
			alts[i] = append(alts[i], b.expr(v))
		}
	}
	t := &Expr{Op: "tuple"}
	for i := 0; i < nres; i++ {
		if len(alts[i]) == 0 {
			return nil
		}
		t.Args = append(t.Args, mkPhi(alts[i]))
	}
	params := map[string]*Expr{}
	for i, p := range g.Params {
		if i < len(e.Args) {
			params[p.Name()] = e.Args[i]
		}
	}
	out := Subst(t, params)
	if out.Op == "tuple" && len(out.Args) == 1 {
		return out.Args[0]
	}
	return out
}
