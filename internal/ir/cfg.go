package ir

import (
	"fmt"
	"go/constant"
	"go/token"
	"go/types"
	"os"
	"strings"

	"golang.org/x/tools/go/ssa"
)

// Cut describes a CFG from which edges were deleted and in which some instructions act as
// barriers (control does not continue past them).
type Cut struct {
	Edges   map[[2]int]bool // (block index, successor index) deleted
	Barrier func(ssa.Instruction) bool
}

// Reaches reports whether `target` can be reached from the function entry in the cut CFG.
// A barrier instruction equal to the target counts as reached.
func Reaches(fn *ssa.Function, target ssa.Instruction, cut Cut) bool {
	return ReachesFrom(fn, fn.Blocks[0], 0, target, cut)
}

// ReachesFrom is Reaches starting at instruction index `idx` of block `from`.
func ReachesFrom(fn *ssa.Function, from *ssa.BasicBlock, idx int, target ssa.Instruction, cut Cut) bool {
	if len(fn.Blocks) == 0 {
		return false
	}
	type st struct {
		b *ssa.BasicBlock
		i int
	}
	seen := map[int]bool{}
	q := []st{{from, idx}}
	first := true
	for len(q) > 0 {
		s := q[0]
		q = q[1:]
		if !first || s.i == 0 {
			if seen[s.b.Index] {
				continue
			}
			seen[s.b.Index] = true
		}
		first = false
		stopped := false
		for i := s.i; i < len(s.b.Instrs); i++ {
			in := s.b.Instrs[i]
			if in == target {
				return true
			}
			if cut.Barrier != nil && cut.Barrier(in) {
				stopped = true
				break
			}
		}
		if stopped {
			continue
		}
		for si, succ := range s.b.Succs {
			if cut.Edges != nil && cut.Edges[[2]int{s.b.Index, si}] {
				continue
			}
			if !seen[succ.Index] {
				q = append(q, st{succ, 0})
			}
		}
	}
	return false
}

// Pred is a predicate established on a CFG edge (or asked about a value).
type Pred struct {
	E   *Expr // condition expression, in terms of the top-level function (after substitution)
	Pol bool  // the condition has this truth value
	Fn  *ssa.Function
	V   ssa.Value
}

// Cmp returns the comparison that holds when the predicate holds, normalised so that the
// negation is folded into the operator: (op, x, y). ok=false when E is not a comparison.
func (p Pred) Cmp() (op string, x, y *Expr, ok bool) {
	e := p.E
	pol := p.Pol
	for e != nil && e.Op == "un" && e.Name == "!" {
		e = e.Args[0]
		pol = !pol
	}
	if e == nil || e.Op != "bin" {
		return "", nil, nil, false
	}
	op = e.Name
	if !pol {
		switch op {
		case "==":
			op = "!="
		case "!=":
			op = "=="
		case "<":
			op = ">="
		case "<=":
			op = ">"
		case ">":
			op = "<="
		case ">=":
			op = "<"
		default:
			return "", nil, nil, false
		}
	}
	switch op {
	case "==", "!=", "<", "<=", ">", ">=":
		return op, e.Args[0], e.Args[1], true
	}
	return "", nil, nil, false
}

type Matcher func(Pred) bool

type env struct {
	params map[string]*Expr
	up     *env
	call   ssa.CallInstruction // the call this environment instantiates (nil at the top)
	caller *env                // the environment of the function containing call
	// closure: the environment is that of a closure body; the instruction that created the closure (its bindings are the
	// captured variables) and the environment of the creating function
	closure    *ssa.MakeClosure
	closureEnv *env
}

func (e *env) apply(x *Expr) *Expr {
	for c := e; c != nil; c = c.up {
		x = Subst(x, c.params)
	}
	return x
}

// Guarded reports whether `site` (an instruction of fn) is unreachable from fn's entry once
// every edge that establishes a predicate accepted by m is deleted. Helper functions that
// return bool or error are looked into up to `depth` calls.
func (w *World) Guarded(fn *ssa.Function, site ssa.Instruction, m Matcher, depth int) bool {
	if w.guarded(fn, site, m, nil, depth, map[holdKey]bool{}) {
		return true
	}
	// the same question on the call-expanded view, whose walk carries what the helpers on the way returned (a verdict
	// enumeration the caller switches on, a record of flags): paths that contradict those facts are not paths
	if len(fn.Blocks) == 0 || site.Parent() != fn {
		return false
	}
	root := w.FlatRoot(fn)
	return w.FlatReaches(root, nil, &FlatCut{Matcher: m, Depth: depth}, func(p FPos) bool { return p.Ctx == root && p.In == site }) == nil
}

type holdKey struct {
	v   ssa.Value
	pol bool
}

func (w *World) guarded(fn *ssa.Function, site ssa.Instruction, m Matcher, en *env, depth int, busy map[holdKey]bool) bool {
	cut := Cut{Edges: w.establishedEdges(fn, m, en, depth, busy)}
	return !Reaches(fn, site, cut)
}

// EstablishedEdges returns the edges of fn on which a predicate accepted by m holds.
func (w *World) EstablishedEdges(fn *ssa.Function, m Matcher, depth int) map[[2]int]bool {
	return w.establishedEdges(fn, m, nil, depth, map[holdKey]bool{})
}

func (w *World) establishedEdges(fn *ssa.Function, m Matcher, en *env, depth int, busy map[holdKey]bool) map[[2]int]bool {
	edges := map[[2]int]bool{}
	for _, b := range fn.Blocks {
		if len(b.Instrs) == 0 {
			continue
		}
		iff, ok := b.Instrs[len(b.Instrs)-1].(*ssa.If)
		if !ok {
			continue
		}
		if w.holds(fn, iff.Cond, true, m, en, depth, busy) {
			edges[[2]int{b.Index, 0}] = true
		}
		if w.holds(fn, iff.Cond, false, m, en, depth, busy) {
			edges[[2]int{b.Index, 1}] = true
		}
	}
	return edges
}

func isErrorType(t types.Type) bool {
	return t != nil && t.String() == "error"
}

// holds: "v == pol" implies some predicate accepted by m.
func (w *World) holds(fn *ssa.Function, v ssa.Value, pol bool, m Matcher, en *env, depth int, busy map[holdKey]bool) bool {
	e := en.apply(w.ExprOf(v))
	if m(Pred{E: e, Pol: pol, Fn: fn, V: v}) {
		return true
	}
	k := holdKey{v, pol}
	if busy[k] {
		return true // coinductive: loop-carried phi
	}
	if handled, res := w.holdsVerdictExpr(e, pol, m, depth, busy, k); handled {
		return res
	}
	switch x := v.(type) {
	case *ssa.Phi:
		busy[k] = true
		defer delete(busy, k)
		for i, op := range x.Edges {
			if c, ok := op.(*ssa.Const); ok && c.Value != nil && constBool(c) != pol {
				continue
			}
			if w.holds(fn, op, pol, m, en, depth, busy) {
				continue
			}
			// is the incoming edge itself only taken when an accepted predicate holds?
			pred := x.Block().Preds[i]
			term := pred.Instrs[len(pred.Instrs)-1]
			cut := Cut{Edges: w.establishedEdges(fn, m, en, depth, busy)}
			if !Reaches(fn, term, cut) {
				continue
			}
			allCut := true
			for si, s := range pred.Succs {
				if s == x.Block() && !cut.Edges[[2]int{pred.Index, si}] {
					allCut = false
				}
			}
			if allCut {
				continue
			}
			return false
		}
		return true
	case *ssa.Field, *ssa.UnOp:
		// a verdict carried in a record (`t.stale`, `plan.prune`): decide it where the field was computed — in the function
		// that built the record, however many calls the record was handed through
		var base ssa.Value
		var fi int
		switch y := x.(type) {
		case *ssa.Field:
			base, fi = y.X, y.Field
		case *ssa.UnOp:
			if y.Op == token.NOT {
				return w.holds(fn, y.X, !pol, m, en, depth, busy)
			}
			fa, ok := y.X.(*ssa.FieldAddr)
			if y.Op != token.MUL || !ok {
				return false
			}
			base, fi = fa.X, fa.Field
		}
		if bt, ok := v.Type().Underlying().(*types.Basic); !ok || bt.Kind() != types.Bool {
			return false
		}
		srcs, ok := w.fieldSources(fn, base, fi, en, v.(ssa.Instruction), 0)
		if !ok || len(srcs) == 0 {
			return false
		}
		busy[k] = true
		defer delete(busy, k)
		for _, s := range srcs {
			if s.v == nil {
				// the field keeps its zero value (false) on this way
				if pol {
					continue
				}
				return false
			}
			if s.partial && !pol {
				return false // the field may also still be false without the stored value saying so
			}
			if !w.holds(s.fn, s.v, pol, m, s.en, depth, busy) {
				return false
			}
		}
		return true
	case *ssa.Parameter:
		// a condition handed to a helper as a bool argument: decide it where it was computed
		if en != nil && en.call != nil && x.Parent() != nil {
			cc := en.call.Common()
			var args []ssa.Value
			if cc.IsInvoke() {
				args = append(args, cc.Value)
			}
			args = append(args, cc.Args...)
			for i, p := range x.Parent().Params {
				if p == x && i < len(args) && en.call.Parent() != nil {
					busy[k] = true
					defer delete(busy, k)
					return w.holds(en.call.Parent(), args[i], pol, m, en.caller, depth, busy)
				}
			}
		}
	case *ssa.Call, *ssa.Extract:
		if depth <= 0 {
			return false
		}
		var call *ssa.Call
		ri := 0
		switch y := x.(type) {
		case *ssa.Call:
			call = y
			if y.Call.Signature().Results().Len() != 1 {
				return false
			}
		case *ssa.Extract:
			c, ok := y.Tuple.(*ssa.Call)
			if !ok || y.Type().String() != "bool" {
				return false
			}
			call, ri = c, y.Index
		}
		g, sub := w.calleeEnv(call, en)
		if g == nil {
			return false
		}
		busy[k] = true
		defer delete(busy, k)
		for _, blk := range g.Blocks {
			r, ok := blk.Instrs[len(blk.Instrs)-1].(*ssa.Return)
			if !ok || ri >= len(r.Results) {
				continue
			}
			o := r.Results[ri]
			if c, ok := o.(*ssa.Const); ok && c.Value != nil && constBool(c) != pol {
				continue
			}
			if w.holds(g, o, pol, m, sub, depth-1, busy) {
				continue
			}
			if w.guarded(g, r, m, sub, depth-1, busy) {
				continue
			}
			return false
		}
		return true
	case *ssa.BinOp:
		if ok, res := w.holdsFlag(fn, x, pol, m, en, depth, busy, k); ok {
			return res
		}
		// err == nil / err != nil on the error result of an in-scope helper
		if (x.Op == token.EQL || x.Op == token.NEQ) && depth > 0 {
			var other ssa.Value
			if isNilConst(x.Y) {
				other = x.X
			} else if isNilConst(x.X) {
				other = x.Y
			}
			if other == nil || !isErrorType(other.Type()) {
				return false
			}
			errIsNil := (x.Op == token.EQL) == pol
			if !errIsNil {
				return false
			}
			call, idx := errSource(other)
			if call == nil {
				return false
			}
			busy[k] = true
			defer delete(busy, k)
			return w.errNilImplies(call, idx, m, en, depth, busy)
		}
	}
	return false
}

// errNilImplies: "the error result idx of call is nil" implies a predicate accepted by m — because every
// return of the callee that can yield nil is guarded by one, or hands on the verdict of another call for
// which the same holds (`return d.checkMaxSlots(ctx, tx)` as the last step of a validate phase).
func (w *World) errNilImplies(call *ssa.Call, idx int, m Matcher, en *env, depth int, busy map[holdKey]bool) bool {
	if depth <= 0 {
		return false
	}
	g, sub := w.calleeEnv(call, en)
	if g == nil {
		return false
	}
	for _, blk := range g.Blocks {
		r, ok := blk.Instrs[len(blk.Instrs)-1].(*ssa.Return)
		if !ok || idx >= len(r.Results) {
			continue
		}
		if w.ProvablyNonNil(g, r, r.Results[idx]) {
			continue
		}
		if w.guarded(g, r, m, sub, depth-1, busy) {
			continue
		}
		if c2, i2 := errSource(r.Results[idx]); c2 != nil && c2.Parent() == g {
			e2 := sub.apply(w.ExprOf(r.Results[idx]))
			nilE := &Expr{Op: "const", Name: "nil"}
			if m(Pred{E: &Expr{Op: "bin", Name: "==", Args: []*Expr{e2, nilE}}, Pol: true, Fn: g, V: r.Results[idx]}) {
				continue
			}
			if w.errNilImplies(c2, i2, m, sub, depth-1, busy) {
				continue
			}
		}
		return false
	}
	return true
}

func constBool(c *ssa.Const) bool {
	return c.Value != nil && c.Value.String() == "true"
}

func isNilConst(v ssa.Value) bool {
	c, ok := v.(*ssa.Const)
	return ok && c.Value == nil
}

// errSource finds the call producing an error value (directly or through Extract / a phi of
// one call and nil).
func errSource(v ssa.Value) (*ssa.Call, int) {
	switch x := v.(type) {
	case *ssa.Call:
		return x, 0
	case *ssa.Extract:
		if c, ok := x.Tuple.(*ssa.Call); ok {
			return c, x.Index
		}
	}
	return nil, 0
}

// dynCallee resolves a call through a function-typed parameter in the context it is made in: the
// argument handed in at the call that instantiates the enclosing function (followed up the chain of
// environments) must be a function, a closure or a bound method value. It returns the target, the
// closure that carries its bindings (nil for a plain function) and the environment the closure was
// created in.
func (w *World) dynCallee(v ssa.Value, en *env) (*ssa.Function, *ssa.MakeClosure, *env) {
	for depth := 0; depth < 8; depth++ {
		switch x := v.(type) {
		case *ssa.Function:
			if u := w.unwrap(x); u != nil && w.inSet[u] && len(u.Blocks) > 0 {
				return u, nil, en
			}
			return nil, nil, nil
		case *ssa.MakeClosure:
			f0, ok := x.Fn.(*ssa.Function)
			if !ok {
				return nil, nil, nil
			}
			if u := w.unwrap(f0); u != nil && w.inSet[u] && len(u.Blocks) > 0 {
				return u, x, en
			}
			return nil, nil, nil
		case *ssa.ChangeType:
			v = x.X
			continue
		case *ssa.Parameter:
			if en == nil || en.call == nil || x.Parent() == nil {
				return nil, nil, nil
			}
			cc := en.call.Common()
			var args []ssa.Value
			if cc.IsInvoke() {
				args = append(args, cc.Value)
			}
			args = append(args, cc.Args...)
			ps := x.Parent().Params
			shift := len(ps) - len(args) // a bound method value: the receiver is not among the arguments
			idx := -1
			for i, p := range ps {
				if p == x {
					idx = i - shift
				}
			}
			if shift < 0 || idx < 0 || idx >= len(args) {
				return nil, nil, nil
			}
			v, en = args[idx], en.caller
			continue
		}
		return nil, nil, nil
	}
	return nil, nil, nil
}

// calleeEnv resolves the single in-scope callee of a call (statically, by the preferred implementer, or
// through a function-typed parameter in context) and the environment instantiating its parameters.
func (w *World) calleeEnv(call ssa.CallInstruction, en *env) (*ssa.Function, *env) {
	cc := call.Common()
	_, isClosureLit := cc.Value.(*ssa.MakeClosure)
	if cc.IsInvoke() || cc.StaticCallee() != nil || isClosureLit {
		if g := w.PreferredCallee(call); g != nil {
			return g, w.callEnv(g, call, en)
		}
		return nil, nil
	}
	g, mc, men := w.dynCallee(cc.Value, en)
	if g == nil {
		// not resolvable in this context: the single function ever handed in, if there is exactly one
		if g1 := w.PreferredCallee(call); g1 != nil && len(g1.Params) == len(cc.Args) && len(g1.FreeVars) == 0 {
			return g1, w.callEnv(g1, call, en)
		}
		return nil, nil
	}
	params := map[string]*Expr{}
	args := cc.Args
	ps := g.Params
	if mc != nil && len(ps) == len(args)+len(mc.Bindings) && len(g.FreeVars) == 0 {
		// bound method value: the bindings are the leading parameters (the receiver)
		for i, b := range mc.Bindings {
			params[ps[i].Name()] = men.apply(w.ExprOf(b))
		}
		ps = ps[len(mc.Bindings):]
	}
	for i, p := range ps {
		if i < len(args) {
			params[p.Name()] = en.apply(w.ExprOf(args[i]))
		}
	}
	if mc != nil && len(g.FreeVars) == len(mc.Bindings) {
		// a closure: a captured variable that is assigned exactly once where it is declared (typically a parameter of the
		// enclosing function) has that value whenever the closure runs
		for i, fv := range g.FreeVars {
			if v := singleAssignment(mc.Bindings[i]); v != nil {
				params["free:"+fv.Name()] = men.apply(w.ResolveCaptured(w.ExprOf(v)))
			}
		}
	}
	return g, &env{params: params, call: call, caller: en, closure: mc, closureEnv: men}
}

// singleAssignment: the binding is the address of a local that is stored to exactly once in its function and
// never through a closure; returns the stored value.
func singleAssignment(b ssa.Value) ssa.Value {
	al, ok := b.(*ssa.Alloc)
	if !ok || al.Referrers() == nil {
		return nil
	}
	var val ssa.Value
	n := 0
	for _, r := range *al.Referrers() {
		switch x := r.(type) {
		case *ssa.Store:
			if x.Addr == ssa.Value(al) {
				n++
				val = x.Val
			}
		case *ssa.MakeClosure:
			// does the closure assign its free variable?
			if fn, ok := x.Fn.(*ssa.Function); ok {
				for i, bd := range x.Bindings {
					if bd != ssa.Value(al) || i >= len(fn.FreeVars) {
						continue
					}
					if refs := fn.FreeVars[i].Referrers(); refs != nil {
						for _, fr := range *refs {
							if st, ok := fr.(*ssa.Store); ok && st.Addr == ssa.Value(fn.FreeVars[i]) {
								return nil
							}
						}
					}
				}
			}
		}
	}
	if n == 1 {
		return val
	}
	return nil
}

// paramSpill: al is a parameter moved to the heap because a function literal reads it — assigned once (from the
// parameter, on entry) and afterwards only read, here and in the literals that capture it.
func paramSpill(al *ssa.Alloc) *ssa.Parameter {
	if al.Referrers() == nil {
		return nil
	}
	onlyReads := func(v ssa.Value) bool {
		refs := v.Referrers()
		if refs == nil {
			return true
		}
		for _, r := range *refs {
			switch x := r.(type) {
			case *ssa.UnOp, *ssa.DebugRef:
			case *ssa.FieldAddr:
				if x.Referrers() != nil {
					for _, rr := range *x.Referrers() {
						switch rr.(type) {
						case *ssa.UnOp, *ssa.DebugRef:
						default:
							return false
						}
					}
				}
			case *ssa.Store:
				if x.Addr != v {
					return false
				}
			case *ssa.MakeClosure:
			default:
				return false
			}
		}
		return true
	}
	if !onlyReads(al) {
		return nil
	}
	var p *ssa.Parameter
	n := 0
	for _, r := range *al.Referrers() {
		switch x := r.(type) {
		case *ssa.Store:
			n++
			p, _ = x.Val.(*ssa.Parameter)
		case *ssa.MakeClosure:
			fn, ok := x.Fn.(*ssa.Function)
			if !ok {
				return nil
			}
			for i, bd := range x.Bindings {
				if bd != ssa.Value(al) {
					continue
				}
				if i >= len(fn.FreeVars) {
					return nil
				}
				fv := fn.FreeVars[i]
				if !onlyReads(fv) {
					return nil
				}
				if refs := fv.Referrers(); refs != nil {
					for _, fr := range *refs {
						if _, isStore := fr.(*ssa.Store); isStore {
							return nil
						}
						if _, isMC := fr.(*ssa.MakeClosure); isMC {
							return nil // handed on to a nested literal: not followed
						}
					}
				}
			}
		}
	}
	if n == 1 {
		return p
	}
	return nil
}

func (w *World) callEnv(g *ssa.Function, call ssa.CallInstruction, up *env) *env {
	cc := call.Common()
	params := map[string]*Expr{}
	var args []ssa.Value
	if cc.IsInvoke() {
		args = append(args, cc.Value)
	}
	args = append(args, cc.Args...)
	for i, p := range g.Params {
		if i < len(args) {
			if al, ok := stripConv(args[i]).(*ssa.Alloc); ok && al.Parent() != nil {
				b := w.builderFor(al.Parent())
				if !b.rd.captured[al] {
					params[p.Name()] = up.apply(&Expr{Op: "ref", Args: []*Expr{b.rd.at(call, al, nil)}, V: al})
					continue
				}
			}
			if cv, ok := stripConv(args[i]).(*ssa.Call); ok && cv.Parent() != nil {
				b := w.builderFor(cv.Parent())
				if b.rd != nil && b.rd.trackedRecord(cv) != nil {
					params[p.Name()] = up.apply(&Expr{Op: "ref", Args: []*Expr{b.rd.at(call, cv, nil)}, V: cv})
					continue
				}
			}
			params[p.Name()] = up.apply(w.ExprOf(args[i]))
		}
	}
	// parameters were already mapped into top-level terms: no need to chain
	return &env{params: params, call: call, caller: up}
}

var errCtorPkgs = map[string]bool{
	"cosmossdk.io/errors":                       true,
	"github.com/cosmos/cosmos-sdk/types/errors": true,
	"errors":                        true,
	"fmt":                           true,
	"google.golang.org/grpc/status": true,
	"github.com/pkg/errors":         true,
	"github.com/cosmos/cosmos-sdk/x/gov/types":       false,
	"github.com/cosmos/cosmos-sdk/x/auth/migrations": false,
}

// ProvablyNonNil reports whether the error value v returned by `ret` is certainly non-nil.
func (w *World) ProvablyNonNil(fn *ssa.Function, ret ssa.Instruction, v ssa.Value) bool {
	return w.nonNil(fn, ret, v, 0)
}

func (w *World) nonNil(fn *ssa.Function, at ssa.Instruction, v ssa.Value, depth int) bool {
	if depth > 6 {
		return false
	}
	switch x := v.(type) {
	case *ssa.Const:
		return false
	case *ssa.MakeInterface:
		return true
	case *ssa.UnOp:
		if x.Op == token.MUL {
			if _, ok := x.X.(*ssa.Global); ok {
				return true // registered sentinel errors are package-level non-nil values
			}
			if al, ok := x.X.(*ssa.Alloc); ok {
				// result spilled around `rundefers`: take the store that precedes the load in its block
				blk := x.Block()
				idx := InstrIndex(x)
				for i := idx - 1; i >= 0; i-- {
					if st, ok := blk.Instrs[i].(*ssa.Store); ok && st.Addr == ssa.Value(al) {
						return w.nonNil(fn, st, st.Val, depth+1)
					}
				}
			}
		}
	case *ssa.Phi:
		for _, e := range x.Edges {
			if !w.nonNil(fn, at, e, depth+1) {
				return testedNonNil(fn, at, v)
			}
		}
		return true
	case *ssa.Extract:
		// one result of an in-scope helper (e.g. `return failed(err)` handing back zero values and the error)
		if c, ok := x.Tuple.(*ssa.Call); ok && w.helperResultNonNil(fn, at, c, x.Index, depth) {
			return true
		}
	case *ssa.Call:
		cc := x.Common()
		if w.helperResultNonNil(fn, at, x, 0, depth) {
			return true
		}
		// sdkerrors.Wrap / Wrapf are package-level function variables (aliases of errorsmod.Wrap)
		if u, ok := cc.Value.(*ssa.UnOp); ok && u.Op == token.MUL {
			if g, ok := u.X.(*ssa.Global); ok && g.Pkg != nil && errCtorPkgs[g.Pkg.Pkg.Path()] && (g.Name() == "Wrap" || g.Name() == "Wrapf") {
				if len(cc.Args) > 0 {
					return w.nonNil(fn, at, cc.Args[0], depth+1)
				}
			}
		}
		if sc := cc.StaticCallee(); sc != nil {
			pk := FnPkg(sc)
			if pk != nil && errCtorPkgs[pk.Path()] {
				switch sc.Name() {
				case "New", "Errorf", "Error", "Newf":
					return true
				case "Wrap", "Wrapf", "WithType":
					if len(cc.Args) > 0 {
						return w.nonNil(fn, at, cc.Args[0], depth+1)
					}
				}
			}
		}
	}
	return testedNonNil(fn, at, v)
}

// helperResultNonNil: result idx of the call is certainly non-nil because every return of the (single, in-scope)
// callee yields there a value that is non-nil inside the callee, or one of its parameters whose argument is
// certainly non-nil at the call site. Closures are looked into too (a local `failed := func(err error) (...)`).
func (w *World) helperResultNonNil(fn *ssa.Function, at ssa.Instruction, call *ssa.Call, idx int, depth int) bool {
	cc := call.Common()
	var g *ssa.Function
	if sc := cc.StaticCallee(); sc != nil {
		g = sc
	} else if mc, ok := cc.Value.(*ssa.MakeClosure); ok {
		g, _ = mc.Fn.(*ssa.Function)
	}
	if g == nil || len(g.Blocks) == 0 || !w.InSet(g) && g.Parent() == nil {
		return false
	}
	if pk := FnPkg(g); pk != nil && errCtorPkgs[pk.Path()] {
		return false
	}
	rets := Returns(g)
	if len(rets) == 0 {
		return false
	}
	for _, r := range rets {
		if idx >= len(r.Results) {
			return false
		}
		rv := r.Results[idx]
		if p, ok := rv.(*ssa.Parameter); ok {
			pi := -1
			for i, q := range g.Params {
				if q == p {
					pi = i
				}
			}
			if pi < 0 || pi >= len(cc.Args) || !w.nonNil(fn, call, cc.Args[pi], depth+1) {
				return false
			}
			continue
		}
		if !w.nonNil(g, r, rv, depth+1) {
			return false
		}
	}
	return true
}

// testedNonNil: `at` is reachable only through an edge on which v != nil holds.
func testedNonNil(fn *ssa.Function, at ssa.Instruction, v ssa.Value) bool {
	edges := map[[2]int]bool{}
	for _, b := range fn.Blocks {
		iff, ok := b.Instrs[len(b.Instrs)-1].(*ssa.If)
		if !ok {
			continue
		}
		bo, ok := iff.Cond.(*ssa.BinOp)
		if !ok {
			continue
		}
		var other ssa.Value
		if isNilConst(bo.Y) {
			other = bo.X
		} else if isNilConst(bo.X) {
			other = bo.Y
		}
		if other != v {
			continue
		}
		switch bo.Op {
		case token.NEQ:
			edges[[2]int{b.Index, 0}] = true
		case token.EQL:
			edges[[2]int{b.Index, 1}] = true
		}
	}
	if len(edges) == 0 {
		return false
	}
	return !Reaches(fn, at, Cut{Edges: edges})
}

// Returns lists fn's return instructions.
func Returns(fn *ssa.Function) []*ssa.Return {
	var out []*ssa.Return
	for _, b := range fn.Blocks {
		if len(b.Instrs) == 0 {
			continue
		}
		if r, ok := b.Instrs[len(b.Instrs)-1].(*ssa.Return); ok {
			out = append(out, r)
		}
	}
	return out
}

// ErrIndex returns the index of the (last) error result of fn, or -1.
func ErrIndex(fn *ssa.Function) int {
	rs := fn.Signature.Results()
	for i := rs.Len() - 1; i >= 0; i-- {
		if isErrorType(rs.At(i).Type()) {
			return i
		}
	}
	return -1
}

// SuccessReturns lists the returns of fn that may return a nil error (all returns when fn has
// no error result).
func (w *World) SuccessReturns(fn *ssa.Function) []*ssa.Return {
	idx := ErrIndex(fn)
	var out []*ssa.Return
	for _, r := range Returns(fn) {
		if idx >= 0 && idx < len(r.Results) && w.ProvablyNonNil(fn, r, r.Results[idx]) {
			continue
		}
		out = append(out, r)
	}
	return out
}

// MustPass reports whether every success-capable return of fn is unreachable once the
// instructions accepted by `barrier` stop control flow. It returns the offending returns.
func (w *World) MustPass(fn *ssa.Function, barrier func(ssa.Instruction) bool, extra map[[2]int]bool) []*ssa.Return {
	var bad []*ssa.Return
	for _, r := range w.SuccessReturns(fn) {
		if Reaches(fn, r, Cut{Barrier: barrier, Edges: extra}) {
			bad = append(bad, r)
		}
	}
	return bad
}

// Precedes reports whether B is unreachable from entry when A-instructions are barriers
// (every path to B passes an A), under optional deleted edges.
func Precedes(fn *ssa.Function, isA func(ssa.Instruction) bool, b ssa.Instruction, extra map[[2]int]bool) bool {
	return !Reaches(fn, b, Cut{Barrier: func(in ssa.Instruction) bool { return in != b && isA(in) }, Edges: extra})
}

// CallsTo lists call instructions in fn whose resolved in-scope callee set contains a
// function accepted by pred, or (ext) whose external callee name matches.
func (w *World) CallsTo(fn *ssa.Function, pred func(*ssa.Function) bool) []ssa.CallInstruction {
	var out []ssa.CallInstruction
	for _, b := range fn.Blocks {
		for _, in := range b.Instrs {
			if c, ok := in.(ssa.CallInstruction); ok {
				for _, t := range w.CalleesOf(c) {
					if pred(t) {
						out = append(out, c)
						break
					}
				}
			}
		}
	}
	return out
}

// AbortBlock: the block ends in panic.
func AbortBlock(b *ssa.BasicBlock) bool {
	if len(b.Instrs) == 0 {
		return false
	}
	_, ok := b.Instrs[len(b.Instrs)-1].(*ssa.Panic)
	return ok
}

// ShortFn trims a function name for messages.
func ShortFn(f *ssa.Function) string {
	s := FuncName(f)
	if i := strings.LastIndex(s, "/"); i >= 0 && !strings.Contains(s[i:], ")") {
		return s
	}
	return s
}

// Value is re-exported for debugging helpers.
type Value = ssa.Value

// DumpPreds prints the If conditions of fn (debugging aid).
func (w *World) DumpPreds(fn *ssa.Function) {
	for _, b := range fn.Blocks {
		if len(b.Instrs) == 0 {
			continue
		}
		if iff, ok := b.Instrs[len(b.Instrs)-1].(*ssa.If); ok {
			println(b.Index, w.InstrPos(iff), w.Expand(w.ExprOf(iff.Cond), 3).String())
		}
	}
}

// BackEdges returns the (source block, header block) pairs of fn's natural loops: edges whose
// target dominates their source.
func BackEdges(fn *ssa.Function) [][2]*ssa.BasicBlock {
	var out [][2]*ssa.BasicBlock
	for _, b := range fn.Blocks {
		for _, s := range b.Succs {
			if s.Dominates(b) {
				out = append(out, [2]*ssa.BasicBlock{b, s})
			}
		}
	}
	return out
}

// InstrIndex returns the index of in within its block.
func InstrIndex(in ssa.Instruction) int {
	for i, x := range in.Block().Instrs {
		if x == in {
			return i
		}
	}
	return -1
}

// AfterReachesBackEdgeWithout reports the loop back edges (of loops containing `from`) that
// can be reached from just after `from` without executing an instruction accepted by
// `required`. Blocks ending in panic are abort paths and never reach a back edge.
func AfterReachesBackEdgeWithout(fn *ssa.Function, from ssa.Instruction, required func(ssa.Instruction) bool) []*ssa.BasicBlock {
	return AfterReachesBackEdgeWithoutCut(fn, from, required, nil)
}

// AfterReachesBackEdgeWithoutCut is AfterReachesBackEdgeWithout on a CFG from which the given
// edges were deleted (used for "whenever G holds, R happens before the next iteration").
func AfterReachesBackEdgeWithoutCut(fn *ssa.Function, from ssa.Instruction, required func(ssa.Instruction) bool, edges map[[2]int]bool) []*ssa.BasicBlock {
	var bad []*ssa.BasicBlock
	fb := from.Block()
	for _, be := range BackEdges(fn) {
		src, hdr := be[0], be[1]
		if !hdr.Dominates(fb) {
			continue
		}
		term := src.Instrs[len(src.Instrs)-1]
		// a back edge that was itself deleted cannot be taken
		live := false
		for si, su := range src.Succs {
			if su == hdr && !edges[[2]int{src.Index, si}] {
				live = true
			}
		}
		if !live {
			continue
		}
		// stop at the header so that only the current iteration is examined
		cut := Cut{Edges: edges, Barrier: func(in ssa.Instruction) bool {
			return required(in) || (in.Block() == hdr && in == hdr.Instrs[0] && hdr != fb)
		}}
		if ReachesFrom(fn, fb, InstrIndex(from)+1, term, cut) {
			bad = append(bad, src)
		}
	}
	return bad
}

// EnclosingLoopHeader returns the innermost loop header dominating in's block, or nil.
func EnclosingLoopHeader(fn *ssa.Function, in ssa.Instruction) *ssa.BasicBlock {
	var best *ssa.BasicBlock
	for _, be := range BackEdges(fn) {
		hdr := be[1]
		// (in the loop: the header dominates it and it reaches the latch without leaving through the header — code after
		// an inner loop is dominated by that loop's header and reaches its latch again on the next turn of the outer loop)
		inLoop := in.Block() == hdr || in.Block() == be[0] || ReachesFrom(fn, in.Block(), 0, be[0].Instrs[len(be[0].Instrs)-1], Cut{Barrier: func(x ssa.Instruction) bool { return x.Block() == hdr }})
		if hdr.Dominates(in.Block()) && inLoop {
			if best == nil || best.Dominates(hdr) {
				best = hdr
			}
		}
	}
	return best
}

// ErrIndexOfCall returns the index of the error result of a call's signature, or -1.
func ErrIndexOfCall(call ssa.CallInstruction) int {
	rs := call.Common().Signature().Results()
	for i := rs.Len() - 1; i >= 0; i-- {
		if isErrorType(rs.At(i).Type()) {
			return i
		}
	}
	return -1
}

// ResolveCaptured replaces, in e, every variable that is captured by a closure but assigned exactly once (where it is
// declared, never by a closure) by the value it was given — `recv, err := parse(req.X)` followed by closures reading recv.
func (w *World) ResolveCaptured(e *Expr) *Expr {
	for i := 0; i < 4; i++ {
		var hit, val *Expr
		e.Walk(func(x *Expr) bool {
			if hit != nil {
				return false
			}
			if x.Op == "captured" {
				if al, ok := x.V.(*ssa.Alloc); ok {
					if v := singleAssignment(al); v != nil {
						hit, val = x, w.ExprOf(v)
						return false
					}
				}
			}
			return true
		})
		if hit == nil {
			return e
		}
		e = Replace(e, hit, val)
	}
	return e
}

// LostUpdate is a store into a field of a local record after which the record (or that field) is never read again before it
// is overwritten or goes out of scope: a value computed and dropped — typically an update made to a copy (`for _, s := range
// xs { s.n += d }`, `s := xs[i]; s.n += d`) where the element itself was meant.
type LostUpdate struct {
	Store *ssa.Store
	Alloc *ssa.Alloc
	Field string
}

// LostUpdates finds the lost field updates of fn. Only locals whose address never leaves the function are judged
// (no call argument, closure capture, or copy of the address), so that every read of the record is visible.
func LostUpdates(fn *ssa.Function) []LostUpdate {
	var out []LostUpdate
	for _, b := range fn.Blocks {
		for _, in := range b.Instrs {
			al, ok := in.(*ssa.Alloc)
			if !ok || al.Referrers() == nil {
				continue
			}
			if _, isStruct := al.Type().Underlying().(*types.Pointer).Elem().Underlying().(*types.Struct); !isStruct {
				continue
			}
			escapes := false
			reads := map[ssa.Instruction]int{} // load instruction -> field index read (-1: whole record)
			kills := map[ssa.Instruction]int{} // store instruction -> field index overwritten (-1: whole record)
			var fstores []*ssa.Store
			fieldOf := map[*ssa.Store]int{}
			for _, r := range *al.Referrers() {
				switch x := r.(type) {
				case *ssa.DebugRef:
				case *ssa.UnOp:
					reads[x] = -1
				case *ssa.Store:
					if x.Addr == ssa.Value(al) {
						kills[x] = -1
					} else {
						escapes = true // the address itself is stored somewhere
					}
				case *ssa.FieldAddr:
					if x.Referrers() == nil {
						continue
					}
					for _, rr := range *x.Referrers() {
						switch y := rr.(type) {
						case *ssa.DebugRef:
						case *ssa.UnOp:
							reads[y] = x.Field
						case *ssa.Store:
							if y.Addr == ssa.Value(x) {
								kills[y] = x.Field
								fstores = append(fstores, y)
								fieldOf[y] = x.Field
							} else {
								escapes = true
							}
						default:
							// nested field / element address, method call on the field's address, ...: treated as a read of
							// the field that may also hand the address on
							escapes = true
						}
					}
				default:
					escapes = true
				}
			}
			// only a copy of existing data is judged (the record was assigned as a whole from somewhere): a record built
			// field by field may well set fields nobody reads locally
			isCopy := false
			for k, f := range kills {
				if st, ok := k.(*ssa.Store); ok && f == -1 {
					if c, isC := st.Val.(*ssa.Const); !isC || c.Value != nil {
						isCopy = true
					}
				}
			}
			if escapes || !isCopy {
				continue
			}
			for _, st := range fstores {
				f := fieldOf[st]
				if !readAfter(fn, st, f, reads, kills) {
					out = append(out, LostUpdate{Store: st, Alloc: al, Field: FieldName(al.Type(), f)})
				}
			}
		}
	}
	return out
}

// readAfter: some path from just after st reaches a read of field f (or of the whole record) before a store that overwrites it.
func readAfter(fn *ssa.Function, st *ssa.Store, f int, reads, kills map[ssa.Instruction]int) bool {
	type pt struct {
		b *ssa.BasicBlock
		i int
	}
	seen := map[*ssa.BasicBlock]bool{}
	var q []pt
	q = append(q, pt{st.Block(), InstrIndex(st) + 1})
	for len(q) > 0 {
		p := q[0]
		q = q[1:]
		killed := false
		for i := p.i; i < len(p.b.Instrs); i++ {
			in := p.b.Instrs[i]
			if rf, ok := reads[in]; ok && (rf == -1 || rf == f) {
				return true
			}
			if kf, ok := kills[in]; ok && (kf == -1 || kf == f) {
				killed = true
				break
			}
		}
		if killed {
			continue
		}
		for _, s := range p.b.Succs {
			if !seen[s] {
				seen[s] = true
				q = append(q, pt{s, 0})
			}
		}
	}
	return false
}

// fieldSrc is one way a record field got its value: value v computed in function fn under environment en (v nil: the
// field was left at its zero value); partial: the store does not lie on every path to the point where the record is read.
type fieldSrc struct {
	fn      *ssa.Function
	v       ssa.Value
	en      *env
	partial bool
}

// fieldSources follows field fi of the record `base` (a struct value or a pointer to one, in function fn under en) back to
// the stores that gave it its value: through a local the record lives in (one store to the field, the local's address
// never leaving the function), through a by-value or pointer parameter to the caller's argument, and through the result
// of an in-scope call to what the callee returns. at: the instruction reading the record. ok=false: not traceable.
func (w *World) fieldSources(fn *ssa.Function, base ssa.Value, fi int, en *env, at ssa.Instruction, depth int) ([]fieldSrc, bool) {
	if depth > 6 {
		return nil, false
	}
	for {
		switch y := base.(type) {
		case *ssa.UnOp:
			if y.Op == token.MUL {
				base = y.X
				continue
			}
		case *ssa.ChangeType:
			base = y.X
			continue
		}
		break
	}
	switch b := base.(type) {
	case *ssa.Alloc:
		if p := spilledParam(b); p != nil {
			return w.fieldSources(fn, p, fi, en, at, depth+1)
		}
		if !localRecord(b) {
			return nil, false
		}
		// the record assigned as a whole from one value (`t := build(...)` with t's fields read later)?
		var whole []ssa.Value
		var fstores []*ssa.Store
		for _, r := range *b.Referrers() {
			switch x := r.(type) {
			case *ssa.Store:
				if x.Addr == ssa.Value(b) {
					if c, isC := x.Val.(*ssa.Const); !isC || c.Value != nil {
						whole = append(whole, x.Val)
					}
				}
			case *ssa.FieldAddr:
				if x.Field != fi {
					continue
				}
				for _, rr := range *x.Referrers() {
					if st, ok := rr.(*ssa.Store); ok && st.Addr == ssa.Value(x) {
						fstores = append(fstores, st)
					}
				}
			}
		}
		switch {
		case len(whole) == 1 && len(fstores) == 0:
			return w.fieldSources(fn, whole[0], fi, en, at, depth+1)
		case len(whole) == 0 && len(fstores) == 1:
			st := fstores[0]
			partial := true
			if at != nil && at.Parent() == fn && at.Block() != nil {
				partial = !st.Block().Dominates(at.Block())
			}
			return []fieldSrc{{fn: fn, v: st.Val, en: en, partial: partial}}, true
		case len(whole) == 0 && len(fstores) == 0:
			return []fieldSrc{{fn: fn, en: en}}, true
		}
		return nil, false
	case *ssa.Parameter:
		if en == nil || en.call == nil || b.Parent() == nil || en.call.Parent() == nil {
			return nil, false
		}
		cc := en.call.Common()
		var args []ssa.Value
		if cc.IsInvoke() {
			args = append(args, cc.Value)
		}
		args = append(args, cc.Args...)
		ps := b.Parent().Params
		shift := len(ps) - len(args)
		for i, p := range ps {
			if p == b && shift >= 0 && i-shift >= 0 && i-shift < len(args) {
				return w.fieldSources(en.call.Parent(), args[i-shift], fi, en.caller, en.call, depth+1)
			}
		}
		return nil, false
	case *ssa.Call, *ssa.Extract:
		var call *ssa.Call
		ri := 0
		switch y := b.(type) {
		case *ssa.Call:
			call = y
		case *ssa.Extract:
			c, ok := y.Tuple.(*ssa.Call)
			if !ok {
				return nil, false
			}
			call, ri = c, y.Index
		}
		g, sub := w.calleeEnv(call, en)
		if g == nil || len(g.Blocks) == 0 {
			return nil, false
		}
		var out []fieldSrc
		ei := ErrIndex(g)
		for _, blk := range g.Blocks {
			r, ok := blk.Instrs[len(blk.Instrs)-1].(*ssa.Return)
			if !ok || ri >= len(r.Results) {
				continue
			}
			if ei >= 0 && ei != ri && ei < len(r.Results) && w.ProvablyNonNil(g, r, r.Results[ei]) {
				continue // the record of a failed call is not used
			}
			ss, ok := w.fieldSources(g, r.Results[ri], fi, sub, r, depth+1)
			if !ok {
				return nil, false
			}
			out = append(out, ss...)
		}
		return out, true
	}
	return nil, false
}

// localRecord: the address of the local never leaves its function (only field addresses that are stored to or loaded
// from, whole loads and whole stores), so its stores are all the definitions there are.
func localRecord(al *ssa.Alloc) bool {
	if al.Referrers() == nil {
		return false
	}
	for _, r := range *al.Referrers() {
		switch x := r.(type) {
		case *ssa.DebugRef, *ssa.UnOp:
		case *ssa.Store:
			if x.Addr != ssa.Value(al) {
				return false
			}
		case *ssa.FieldAddr:
			if x.Referrers() == nil {
				continue
			}
			for _, rr := range *x.Referrers() {
				switch y := rr.(type) {
				case *ssa.DebugRef, *ssa.UnOp:
				case *ssa.Store:
					if y.Addr != ssa.Value(x) {
						return false
					}
				default:
					return false
				}
			}
		default:
			return false
		}
	}
	return true
}

// holdsFlag decides a flag test `rec.flags&C != 0` (or == 0) where the flags field of a record is built up by
// `rec.flags |= K` statements in the function that makes the record (an option set prepared once and consulted later):
// "bit C set" implies whatever guards every statement that sets it; "bit C clear" implies whatever must hold for the maker to
// finish without executing any of them (its success returns being reached with those statements as barriers).
// handled=false: not such a test.
func (w *World) holdsFlag(fn *ssa.Function, x *ssa.BinOp, pol bool, m Matcher, en *env, depth int, busy map[holdKey]bool, k holdKey) (handled, result bool) {
	if x.Op != token.EQL && x.Op != token.NEQ {
		return false, false
	}
	intConst := func(v ssa.Value) (uint64, bool) {
		c, ok := v.(*ssa.Const)
		if !ok || c.Value == nil || c.Value.Kind() != constant.Int {
			return 0, false
		}
		u, exact := constant.Uint64Val(c.Value)
		return u, exact
	}
	var and *ssa.BinOp
	var cmpWith uint64
	if c, ok := intConst(x.Y); ok {
		and, _ = x.X.(*ssa.BinOp)
		cmpWith = c
	} else if c, ok := intConst(x.X); ok {
		and, _ = x.Y.(*ssa.BinOp)
		cmpWith = c
	}
	if and == nil || and.Op != token.AND {
		return false, false
	}
	var mask uint64
	var val ssa.Value
	if c, ok := intConst(and.Y); ok {
		mask, val = c, and.X
	} else if c, ok := intConst(and.X); ok {
		mask, val = c, and.Y
	} else {
		return false, false
	}
	if mask == 0 || cmpWith != 0 && cmpWith != mask {
		return false, false
	}
	// bitSet: the truth of the comparison that means "all mask bits... (one bit masks in practice) are set"
	bitSet := (x.Op == token.NEQ) == (cmpWith == 0)
	if !pol {
		bitSet = !bitSet
	}
	var base ssa.Value
	fi := -1
	switch y := val.(type) {
	case *ssa.Field:
		base, fi = y.X, y.Field
	case *ssa.UnOp:
		if fa, ok := y.X.(*ssa.FieldAddr); ok && y.Op == token.MUL {
			base, fi = fa.X, fa.Field
		}
	}
	if base == nil {
		return false, false
	}
	al, g, genv, ok := w.recordOrigin(fn, base, en, 0)
	if !ok || depth <= 0 {
		return true, false
	}
	// every store to the flags field ORs a constant into it
	var setters []ssa.Instruction
	for _, r := range *al.Referrers() {
		fa, ok := r.(*ssa.FieldAddr)
		if !ok || fa.Field != fi || fa.Referrers() == nil {
			continue
		}
		for _, rr := range *fa.Referrers() {
			st, ok := rr.(*ssa.Store)
			if !ok || st.Addr != ssa.Value(fa) {
				continue
			}
			if c, ok := intConst(st.Val); ok {
				if c&mask != 0 {
					setters = append(setters, st)
				}
				continue
			}
			or, ok := st.Val.(*ssa.BinOp)
			if !ok || or.Op != token.OR {
				return true, false
			}
			var kc uint64
			var other ssa.Value
			if c, ok := intConst(or.Y); ok {
				kc, other = c, or.X
			} else if c, ok := intConst(or.X); ok {
				kc, other = c, or.Y
			} else {
				return true, false
			}
			ld, ok := other.(*ssa.UnOp)
			if !ok || ld.Op != token.MUL {
				return true, false
			}
			fa2, ok := ld.X.(*ssa.FieldAddr)
			if !ok || fa2.X != ssa.Value(al) || fa2.Field != fi {
				return true, false
			}
			if kc&mask != 0 {
				setters = append(setters, st)
			}
		}
	}
	busy[k] = true
	defer delete(busy, k)
	if bitSet {
		if len(setters) == 0 {
			return true, true // never set: the test cannot come out this way
		}
		for _, st := range setters {
			if !w.guarded(g, st, m, genv, depth-1, busy) {
				return true, false
			}
		}
		return true, true
	}
	isSetter := func(in ssa.Instruction) bool {
		for _, st := range setters {
			if st == in {
				return true
			}
		}
		return false
	}
	edges := w.establishedEdges(g, m, genv, depth-1, busy)
	rets := Returns(g)
	if ErrIndex(g) >= 0 {
		if sr := w.SuccessReturns(g); len(sr) > 0 {
			rets = sr
		}
	}
	for _, r := range rets {
		if Reaches(g, r, Cut{Edges: edges, Barrier: isSetter}) {
			return true, false
		}
	}
	return true, true
}

// recordOrigin follows a record value (a struct or a pointer to one, in function fn under en) back to the local it was
// built in: through by-value/pointer parameters to the caller's argument, through captured variables of a closure to
// the variable captured, through locals assigned as a whole exactly once, and through the results of in-scope calls
// (every success return handing back the same local). Returns that local, its function and that function's environment.
func (w *World) recordOrigin(fn *ssa.Function, base ssa.Value, en *env, depth int) (*ssa.Alloc, *ssa.Function, *env, bool) {
	if depth > 8 {
		return nil, nil, nil, false
	}
	for {
		switch y := base.(type) {
		case *ssa.UnOp:
			if y.Op == token.MUL {
				base = y.X
				continue
			}
		case *ssa.ChangeType:
			base = y.X
			continue
		}
		break
	}
	switch b := base.(type) {
	case *ssa.Alloc:
		if p := spilledParam(b); p != nil {
			return w.recordOrigin(fn, p, en, depth+1)
		}
		if !localRecord(b) {
			// a variable captured by a closure and assigned once: what it was assigned
			if v := singleAssignment(b); v != nil {
				return w.recordOrigin(fn, v, en, depth+1)
			}
			return nil, nil, nil, false
		}
		var whole []ssa.Value
		nField := 0
		for _, r := range *b.Referrers() {
			switch x := r.(type) {
			case *ssa.Store:
				if c, isC := x.Val.(*ssa.Const); !isC || c.Value != nil {
					whole = append(whole, x.Val)
				}
			case *ssa.FieldAddr:
				if x.Referrers() == nil {
					continue
				}
				for _, rr := range *x.Referrers() {
					if _, ok := rr.(*ssa.Store); ok {
						nField++
					}
				}
			}
		}
		switch {
		case len(whole) == 0:
			return b, fn, en, true
		case len(whole) == 1 && nField == 0:
			return w.recordOrigin(fn, whole[0], en, depth+1)
		}
		return nil, nil, nil, false
	case *ssa.Parameter:
		if en == nil || en.call == nil || b.Parent() == nil || en.call.Parent() == nil {
			return nil, nil, nil, false
		}
		cc := en.call.Common()
		var args []ssa.Value
		if cc.IsInvoke() {
			args = append(args, cc.Value)
		}
		args = append(args, cc.Args...)
		ps := b.Parent().Params
		shift := len(ps) - len(args)
		for i, p := range ps {
			if p == b && shift >= 0 && i-shift >= 0 && i-shift < len(args) {
				return w.recordOrigin(en.call.Parent(), args[i-shift], en.caller, depth+1)
			}
		}
		return nil, nil, nil, false
	case *ssa.FreeVar:
		for e := en; e != nil; e = e.caller {
			if e.closure == nil {
				continue
			}
			g, ok := e.closure.Fn.(*ssa.Function)
			if !ok || g != b.Parent() {
				continue
			}
			for i, fv := range g.FreeVars {
				if fv == b && i < len(e.closure.Bindings) {
					return w.recordOrigin(e.closure.Parent(), e.closure.Bindings[i], e.closureEnv, depth+1)
				}
			}
		}
		return nil, nil, nil, false
	case *ssa.Call, *ssa.Extract:
		var call *ssa.Call
		ri := 0
		switch y := b.(type) {
		case *ssa.Call:
			call = y
		case *ssa.Extract:
			c, ok := y.Tuple.(*ssa.Call)
			if !ok {
				return nil, nil, nil, false
			}
			call, ri = c, y.Index
		}
		g, sub := w.calleeEnv(call, en)
		if g == nil || len(g.Blocks) == 0 {
			return nil, nil, nil, false
		}
		rets := Returns(g)
		if ErrIndex(g) >= 0 {
			if sr := w.SuccessReturns(g); len(sr) > 0 {
				rets = sr
			}
		}
		var al *ssa.Alloc
		var og *ssa.Function
		var oen *env
		for _, r := range rets {
			if ri >= len(r.Results) {
				return nil, nil, nil, false
			}
			a2, g2, e2, ok := w.recordOrigin(g, r.Results[ri], sub, depth+1)
			if !ok || al != nil && a2 != al {
				return nil, nil, nil, false
			}
			al, og, oen = a2, g2, e2
		}
		return al, og, oen, al != nil
	}
	return nil, nil, nil, false
}

// SingleAssignment: the binding is the address of a local stored to exactly once (and never by a closure): the value stored.
func SingleAssignment(b ssa.Value) ssa.Value { return singleAssignment(b) }

// holdsVerdictExpr: the condition compares, with a constant, a verdict that has travelled through data — the enumeration
// result of an in-scope helper stored in a record or a list element and read back (`imp.queue == requeueRaised` where the
// element was built with `queue: requeueForStatus(po.Status)`): the origin expression still names the call, and what the
// verdict implies is read off the helper's returns with the call's arguments for its parameters. handled=false: not such
// a comparison.
func (w *World) holdsVerdictExpr(e *Expr, pol bool, m Matcher, depth int, busy map[holdKey]bool, k holdKey) (bool, bool) {
	if e == nil || e.Op != "bin" || (e.Name != "==" && e.Name != "!=") || len(e.Args) != 2 || depth <= 0 {
		return false, false
	}
	var kc, x *Expr
	switch {
	case e.Args[1].Op == "const":
		kc, x = e.Args[1], e.Args[0]
	case e.Args[0].Op == "const":
		kc, x = e.Args[0], e.Args[1]
	default:
		return false, false
	}
	if !x.Any(func(z *Expr) bool { return z.Op == "call" || z.Op == "elem" || z.Op == "field" }) {
		return false, false
	}
	// a discriminating field of an element of a list collected beforehand (`op.kind == opRegister` where the elements
	// were appended as chargedOp{kind: opRegister} under one test and chargedOp{kind: opRecord} under another): the
	// elements whose field has (has not) that constant are the ones appended at those places, under what guards them
	if os.Getenv("MCDEBUG") == "verdict" {
		fmt.Fprintln(os.Stderr, "verdict raw", kc.Name, "<-", x.String())
	}
	if x.Op == "field" && len(x.Args) == 1 && x.Args[0].Op == "elem" && len(x.Args[0].Args) >= 1 {
		lst := x.Args[0].Args[0]
		var host *ssa.Function
		sub := (*env)(nil)
		if lst.Op == "call" && lst.Callee != nil {
			host = lst.Callee
			params := map[string]*Expr{}
			for i, p := range host.Params {
				if i < len(lst.Args) {
					params[p.Name()] = lst.Args[i]
				}
			}
			sub = &env{params: params}
		}
		if items, ok := BuiltItems(w.Expand(lst, 4)); ok && len(items) > 0 {
			want := (e.Name == "==") == pol
			decided := true
			for _, it := range items {
				fv := fieldOf(it.Item, x.Name)
				if fv.Op != "const" && fv.Op != "zero" {
					decided = false
					break
				}
			}
			if decided {
				busy[k] = true
				defer delete(busy, k)
				for _, it := range items {
					fv := fieldOf(it.Item, x.Name)
					same := fv.Op == "const" && fv.Name == kc.Name || fv.Op == "zero" && (kc.Name == "0" || strings.HasSuffix(kc.Name, "."+zeroEnumName(kc)))
					if same != want {
						continue
					}
					g := it.Site.Parent()
					en2 := sub
					if host == nil || g != host {
						en2 = nil
					}
					if g == nil || !w.guarded(g, it.Site, m, en2, depth-1, busy) {
						return true, false
					}
				}
				return true, true
			}
		}
	}
	keepEnum := func(f *ssa.Function) bool {
		for i := 0; i < f.Signature.Results().Len(); i++ {
			if w.enumResult(f, i) {
				return true
			}
		}
		return false
	}
	x = w.ExpandKeep(x, 4, keepEnum)
	if os.Getenv("MCDEBUG") == "verdict" {
		fmt.Fprintln(os.Stderr, "verdict expr", kc.Name, "<-", x.String())
	}
	ri := 0
	if x.Op == "res" && len(x.Args) == 1 {
		fmt.Sscan(x.Name, &ri)
		x = x.Args[0]
	}
	if x.Op != "call" || x.Callee == nil || !w.enumResult(x.Callee, ri) {
		return false, false
	}
	g := x.Callee
	params := map[string]*Expr{}
	for i, p := range g.Params {
		if i < len(x.Args) {
			params[p.Name()] = x.Args[i]
		}
	}
	sub := &env{params: params}
	want := (e.Name == "==") == pol // the verdict equals the constant
	busy[k] = true
	defer delete(busy, k)
	for _, r := range Returns(g) {
		c, ok := r.Results[ri].(*ssa.Const)
		if !ok {
			return true, false
		}
		if (constName(c) == kc.Name) != want {
			continue
		}
		if !w.guarded(g, r, m, sub, depth-1, busy) {
			return true, false
		}
	}
	return true, true
}

// zeroEnumName: placeholder for matching a zero-valued enumeration field against a named constant (not resolvable from the
// name alone: returns a name that matches nothing).
func zeroEnumName(*Expr) string { return "\x00" }
