package ir

import (
	"go/token"
	"go/types"
	"strings"

	"golang.org/x/tools/go/ssa"
)

// Cut describes a CFG from which edges were deleted and in which some instructions act as
// barriers (control does not continue past them).
type Cut struct {
	Edges   map[[2]int]bool // (block index, successor index) deleted
	Barrier func(ssa.Instruction) bool
}

// Reaches reports whether `target` can be reached from the function entry in the cut CFG.
// A barrier instruction equal to the target counts as reached.
func Reaches(fn *ssa.Function, target ssa.Instruction, cut Cut) bool {
	return ReachesFrom(fn, fn.Blocks[0], 0, target, cut)
}

// ReachesFrom is Reaches starting at instruction index `idx` of block `from`.
func ReachesFrom(fn *ssa.Function, from *ssa.BasicBlock, idx int, target ssa.Instruction, cut Cut) bool {
	if len(fn.Blocks) == 0 {
		return false
	}
	type st struct {
		b *ssa.BasicBlock
		i int
	}
	seen := map[int]bool{}
	q := []st{{from, idx}}
	first := true
	for len(q) > 0 {
		s := q[0]
		q = q[1:]
		if !first || s.i == 0 {
			if seen[s.b.Index] {
				continue
			}
			seen[s.b.Index] = true
		}
		first = false
		stopped := false
		for i := s.i; i < len(s.b.Instrs); i++ {
			in := s.b.Instrs[i]
			if in == target {
				return true
			}
			if cut.Barrier != nil && cut.Barrier(in) {
				stopped = true
				break
			}
		}
		if stopped {
			continue
		}
		for si, succ := range s.b.Succs {
			if cut.Edges != nil && cut.Edges[[2]int{s.b.Index, si}] {
				continue
			}
			if !seen[succ.Index] {
				q = append(q, st{succ, 0})
			}
		}
	}
	return false
}

// Pred is a predicate established on a CFG edge (or asked about a value).
type Pred struct {
	E   *Expr // condition expression, in terms of the top-level function (after substitution)
	Pol bool  // the condition has this truth value
	Fn  *ssa.Function
	V   ssa.Value
}

// Cmp returns the comparison that holds when the predicate holds, normalised so that the
// negation is folded into the operator: (op, x, y). ok=false when E is not a comparison.
func (p Pred) Cmp() (op string, x, y *Expr, ok bool) {
	e := p.E
	pol := p.Pol
	for e != nil && e.Op == "un" && e.Name == "!" {
		e = e.Args[0]
		pol = !pol
	}
	if e == nil || e.Op != "bin" {
		return "", nil, nil, false
	}
	op = e.Name
	if !pol {
		switch op {
		case "==":
			op = "!="
		case "!=":
			op = "=="
		case "<":
			op = ">="
		case "<=":
			op = ">"
		case ">":
			op = "<="
		case ">=":
			op = "<"
		default:
			return "", nil, nil, false
		}
	}
	switch op {
	case "==", "!=", "<", "<=", ">", ">=":
		return op, e.Args[0], e.Args[1], true
	}
	return "", nil, nil, false
}

type Matcher func(Pred) bool

type env struct {
	params map[string]*Expr
	up     *env
	call   ssa.CallInstruction // the call this environment instantiates (nil at the top)
	caller *env                // the environment of the function containing call
}

func (e *env) apply(x *Expr) *Expr {
	for c := e; c != nil; c = c.up {
		x = Subst(x, c.params)
	}
	return x
}

// Guarded reports whether `site` (an instruction of fn) is unreachable from fn's entry once
// every edge that establishes a predicate accepted by m is deleted. Helper functions that
// return bool or error are looked into up to `depth` calls.
func (w *World) Guarded(fn *ssa.Function, site ssa.Instruction, m Matcher, depth int) bool {
	return w.guarded(fn, site, m, nil, depth, map[holdKey]bool{})
}

type holdKey struct {
	v   ssa.Value
	pol bool
}

func (w *World) guarded(fn *ssa.Function, site ssa.Instruction, m Matcher, en *env, depth int, busy map[holdKey]bool) bool {
	cut := Cut{Edges: w.establishedEdges(fn, m, en, depth, busy)}
	return !Reaches(fn, site, cut)
}

// EstablishedEdges returns the edges of fn on which a predicate accepted by m holds.
func (w *World) EstablishedEdges(fn *ssa.Function, m Matcher, depth int) map[[2]int]bool {
	return w.establishedEdges(fn, m, nil, depth, map[holdKey]bool{})
}

func (w *World) establishedEdges(fn *ssa.Function, m Matcher, en *env, depth int, busy map[holdKey]bool) map[[2]int]bool {
	edges := map[[2]int]bool{}
	for _, b := range fn.Blocks {
		if len(b.Instrs) == 0 {
			continue
		}
		iff, ok := b.Instrs[len(b.Instrs)-1].(*ssa.If)
		if !ok {
			continue
		}
		if w.holds(fn, iff.Cond, true, m, en, depth, busy) {
			edges[[2]int{b.Index, 0}] = true
		}
		if w.holds(fn, iff.Cond, false, m, en, depth, busy) {
			edges[[2]int{b.Index, 1}] = true
		}
	}
	return edges
}

func isErrorType(t types.Type) bool {
	return t != nil && t.String() == "error"
}

// holds: "v == pol" implies some predicate accepted by m.
func (w *World) holds(fn *ssa.Function, v ssa.Value, pol bool, m Matcher, en *env, depth int, busy map[holdKey]bool) bool {
	e := en.apply(w.ExprOf(v))
	if m(Pred{E: e, Pol: pol, Fn: fn, V: v}) {
		return true
	}
	k := holdKey{v, pol}
	if busy[k] {
		return true // coinductive: loop-carried phi
	}
	switch x := v.(type) {
	case *ssa.UnOp:
		if x.Op == token.NOT {
			return w.holds(fn, x.X, !pol, m, en, depth, busy)
		}
	case *ssa.Phi:
		busy[k] = true
		defer delete(busy, k)
		for i, op := range x.Edges {
			if c, ok := op.(*ssa.Const); ok && c.Value != nil && constBool(c) != pol {
				continue
			}
			if w.holds(fn, op, pol, m, en, depth, busy) {
				continue
			}
			// is the incoming edge itself only taken when an accepted predicate holds?
			pred := x.Block().Preds[i]
			term := pred.Instrs[len(pred.Instrs)-1]
			cut := Cut{Edges: w.establishedEdges(fn, m, en, depth, busy)}
			if !Reaches(fn, term, cut) {
				continue
			}
			allCut := true
			for si, s := range pred.Succs {
				if s == x.Block() && !cut.Edges[[2]int{pred.Index, si}] {
					allCut = false
				}
			}
			if allCut {
				continue
			}
			return false
		}
		return true
	case *ssa.Parameter:
		// a condition handed to a helper as a bool argument: decide it where it was computed
		if en != nil && en.call != nil && x.Parent() != nil {
			cc := en.call.Common()
			var args []ssa.Value
			if cc.IsInvoke() {
				args = append(args, cc.Value)
			}
			args = append(args, cc.Args...)
			for i, p := range x.Parent().Params {
				if p == x && i < len(args) && en.call.Parent() != nil {
					busy[k] = true
					defer delete(busy, k)
					return w.holds(en.call.Parent(), args[i], pol, m, en.caller, depth, busy)
				}
			}
		}
	case *ssa.Call, *ssa.Extract:
		if depth <= 0 {
			return false
		}
		var call *ssa.Call
		ri := 0
		switch y := x.(type) {
		case *ssa.Call:
			call = y
			if y.Call.Signature().Results().Len() != 1 {
				return false
			}
		case *ssa.Extract:
			c, ok := y.Tuple.(*ssa.Call)
			if !ok || y.Type().String() != "bool" {
				return false
			}
			call, ri = c, y.Index
		}
		g, sub := w.calleeEnv(call, en)
		if g == nil {
			return false
		}
		busy[k] = true
		defer delete(busy, k)
		for _, blk := range g.Blocks {
			r, ok := blk.Instrs[len(blk.Instrs)-1].(*ssa.Return)
			if !ok || ri >= len(r.Results) {
				continue
			}
			o := r.Results[ri]
			if c, ok := o.(*ssa.Const); ok && c.Value != nil && constBool(c) != pol {
				continue
			}
			if w.holds(g, o, pol, m, sub, depth-1, busy) {
				continue
			}
			if w.guarded(g, r, m, sub, depth-1, busy) {
				continue
			}
			return false
		}
		return true
	case *ssa.BinOp:
		// err == nil / err != nil on the error result of an in-scope helper
		if (x.Op == token.EQL || x.Op == token.NEQ) && depth > 0 {
			var other ssa.Value
			if isNilConst(x.Y) {
				other = x.X
			} else if isNilConst(x.X) {
				other = x.Y
			}
			if other == nil || !isErrorType(other.Type()) {
				return false
			}
			errIsNil := (x.Op == token.EQL) == pol
			if !errIsNil {
				return false
			}
			call, idx := errSource(other)
			if call == nil {
				return false
			}
			busy[k] = true
			defer delete(busy, k)
			return w.errNilImplies(call, idx, m, en, depth, busy)
		}
	}
	return false
}

// errNilImplies: "the error result idx of call is nil" implies a predicate accepted by m — because every
// return of the callee that can yield nil is guarded by one, or hands on the verdict of another call for
// which the same holds (`return d.checkMaxSlots(ctx, tx)` as the last step of a validate phase).
func (w *World) errNilImplies(call *ssa.Call, idx int, m Matcher, en *env, depth int, busy map[holdKey]bool) bool {
	if depth <= 0 {
		return false
	}
	g, sub := w.calleeEnv(call, en)
	if g == nil {
		return false
	}
	for _, blk := range g.Blocks {
		r, ok := blk.Instrs[len(blk.Instrs)-1].(*ssa.Return)
		if !ok || idx >= len(r.Results) {
			continue
		}
		if w.ProvablyNonNil(g, r, r.Results[idx]) {
			continue
		}
		if w.guarded(g, r, m, sub, depth-1, busy) {
			continue
		}
		if c2, i2 := errSource(r.Results[idx]); c2 != nil && c2.Parent() == g {
			e2 := sub.apply(w.ExprOf(r.Results[idx]))
			nilE := &Expr{Op: "const", Name: "nil"}
			if m(Pred{E: &Expr{Op: "bin", Name: "==", Args: []*Expr{e2, nilE}}, Pol: true, Fn: g, V: r.Results[idx]}) {
				continue
			}
			if w.errNilImplies(c2, i2, m, sub, depth-1, busy) {
				continue
			}
		}
		return false
	}
	return true
}

func constBool(c *ssa.Const) bool {
	return c.Value != nil && c.Value.String() == "true"
}

func isNilConst(v ssa.Value) bool {
	c, ok := v.(*ssa.Const)
	return ok && c.Value == nil
}

// errSource finds the call producing an error value (directly or through Extract / a phi of
// one call and nil).
func errSource(v ssa.Value) (*ssa.Call, int) {
	switch x := v.(type) {
	case *ssa.Call:
		return x, 0
	case *ssa.Extract:
		if c, ok := x.Tuple.(*ssa.Call); ok {
			return c, x.Index
		}
	}
	return nil, 0
}

// dynCallee resolves a call through a function-typed parameter in the context it is made in: the
// argument handed in at the call that instantiates the enclosing function (followed up the chain of
// environments) must be a function, a closure or a bound method value. It returns the target, the
// closure that carries its bindings (nil for a plain function) and the environment the closure was
// created in.
func (w *World) dynCallee(v ssa.Value, en *env) (*ssa.Function, *ssa.MakeClosure, *env) {
	for depth := 0; depth < 8; depth++ {
		switch x := v.(type) {
		case *ssa.Function:
			if u := w.unwrap(x); u != nil && w.inSet[u] && len(u.Blocks) > 0 {
				return u, nil, en
			}
			return nil, nil, nil
		case *ssa.MakeClosure:
			f0, ok := x.Fn.(*ssa.Function)
			if !ok {
				return nil, nil, nil
			}
			if u := w.unwrap(f0); u != nil && w.inSet[u] && len(u.Blocks) > 0 {
				return u, x, en
			}
			return nil, nil, nil
		case *ssa.ChangeType:
			v = x.X
			continue
		case *ssa.Parameter:
			if en == nil || en.call == nil || x.Parent() == nil {
				return nil, nil, nil
			}
			cc := en.call.Common()
			var args []ssa.Value
			if cc.IsInvoke() {
				args = append(args, cc.Value)
			}
			args = append(args, cc.Args...)
			ps := x.Parent().Params
			shift := len(ps) - len(args) // a bound method value: the receiver is not among the arguments
			idx := -1
			for i, p := range ps {
				if p == x {
					idx = i - shift
				}
			}
			if shift < 0 || idx < 0 || idx >= len(args) {
				return nil, nil, nil
			}
			v, en = args[idx], en.caller
			continue
		}
		return nil, nil, nil
	}
	return nil, nil, nil
}

// calleeEnv resolves the single in-scope callee of a call (statically, by the preferred implementer, or
// through a function-typed parameter in context) and the environment instantiating its parameters.
func (w *World) calleeEnv(call ssa.CallInstruction, en *env) (*ssa.Function, *env) {
	cc := call.Common()
	_, isClosureLit := cc.Value.(*ssa.MakeClosure)
	if cc.IsInvoke() || cc.StaticCallee() != nil || isClosureLit {
		if g := w.PreferredCallee(call); g != nil {
			return g, w.callEnv(g, call, en)
		}
		return nil, nil
	}
	g, mc, men := w.dynCallee(cc.Value, en)
	if g == nil {
		// not resolvable in this context: the single function ever handed in, if there is exactly one
		if g1 := w.PreferredCallee(call); g1 != nil && len(g1.Params) == len(cc.Args) && len(g1.FreeVars) == 0 {
			return g1, w.callEnv(g1, call, en)
		}
		return nil, nil
	}
	params := map[string]*Expr{}
	args := cc.Args
	ps := g.Params
	if mc != nil && len(ps) == len(args)+len(mc.Bindings) && len(g.FreeVars) == 0 {
		// bound method value: the bindings are the leading parameters (the receiver)
		for i, b := range mc.Bindings {
			params[ps[i].Name()] = men.apply(w.ExprOf(b))
		}
		ps = ps[len(mc.Bindings):]
	}
	for i, p := range ps {
		if i < len(args) {
			params[p.Name()] = en.apply(w.ExprOf(args[i]))
		}
	}
	if mc != nil && len(g.FreeVars) == len(mc.Bindings) {
		// a closure: a captured variable that is assigned exactly once where it is declared (typically a parameter of the
		// enclosing function) has that value whenever the closure runs
		for i, fv := range g.FreeVars {
			if v := singleAssignment(mc.Bindings[i]); v != nil {
				params["free:"+fv.Name()] = men.apply(w.ExprOf(v))
			}
		}
	}
	return g, &env{params: params, call: call, caller: en}
}

// singleAssignment: the binding is the address of a local that is stored to exactly once in its function and
// never through a closure; returns the stored value.
func singleAssignment(b ssa.Value) ssa.Value {
	al, ok := b.(*ssa.Alloc)
	if !ok || al.Referrers() == nil {
		return nil
	}
	var val ssa.Value
	n := 0
	for _, r := range *al.Referrers() {
		switch x := r.(type) {
		case *ssa.Store:
			if x.Addr == ssa.Value(al) {
				n++
				val = x.Val
			}
		case *ssa.MakeClosure:
			// does the closure assign its free variable?
			if fn, ok := x.Fn.(*ssa.Function); ok {
				for i, bd := range x.Bindings {
					if bd != ssa.Value(al) || i >= len(fn.FreeVars) {
						continue
					}
					if refs := fn.FreeVars[i].Referrers(); refs != nil {
						for _, fr := range *refs {
							if st, ok := fr.(*ssa.Store); ok && st.Addr == ssa.Value(fn.FreeVars[i]) {
								return nil
							}
						}
					}
				}
			}
		}
	}
	if n == 1 {
		return val
	}
	return nil
}

func (w *World) callEnv(g *ssa.Function, call ssa.CallInstruction, up *env) *env {
	cc := call.Common()
	params := map[string]*Expr{}
	var args []ssa.Value
	if cc.IsInvoke() {
		args = append(args, cc.Value)
	}
	args = append(args, cc.Args...)
	for i, p := range g.Params {
		if i < len(args) {
			if al, ok := stripConv(args[i]).(*ssa.Alloc); ok && al.Parent() != nil {
				b := w.builderFor(al.Parent())
				if !b.rd.captured[al] {
					params[p.Name()] = up.apply(&Expr{Op: "ref", Args: []*Expr{b.rd.at(call, al, nil)}, V: al})
					continue
				}
			}
			params[p.Name()] = up.apply(w.ExprOf(args[i]))
		}
	}
	// parameters were already mapped into top-level terms: no need to chain
	return &env{params: params, call: call, caller: up}
}

var errCtorPkgs = map[string]bool{
	"cosmossdk.io/errors":                       true,
	"github.com/cosmos/cosmos-sdk/types/errors": true,
	"errors":                        true,
	"fmt":                           true,
	"google.golang.org/grpc/status": true,
	"github.com/pkg/errors":         true,
	"github.com/cosmos/cosmos-sdk/x/gov/types":       false,
	"github.com/cosmos/cosmos-sdk/x/auth/migrations": false,
}

// ProvablyNonNil reports whether the error value v returned by `ret` is certainly non-nil.
func (w *World) ProvablyNonNil(fn *ssa.Function, ret ssa.Instruction, v ssa.Value) bool {
	return w.nonNil(fn, ret, v, 0)
}

func (w *World) nonNil(fn *ssa.Function, at ssa.Instruction, v ssa.Value, depth int) bool {
	if depth > 6 {
		return false
	}
	switch x := v.(type) {
	case *ssa.Const:
		return false
	case *ssa.MakeInterface:
		return true
	case *ssa.UnOp:
		if x.Op == token.MUL {
			if _, ok := x.X.(*ssa.Global); ok {
				return true // registered sentinel errors are package-level non-nil values
			}
			if al, ok := x.X.(*ssa.Alloc); ok {
				// result spilled around `rundefers`: take the store that precedes the load in its block
				blk := x.Block()
				idx := InstrIndex(x)
				for i := idx - 1; i >= 0; i-- {
					if st, ok := blk.Instrs[i].(*ssa.Store); ok && st.Addr == ssa.Value(al) {
						return w.nonNil(fn, st, st.Val, depth+1)
					}
				}
			}
		}
	case *ssa.Phi:
		for _, e := range x.Edges {
			if !w.nonNil(fn, at, e, depth+1) {
				return testedNonNil(fn, at, v)
			}
		}
		return true
	case *ssa.Extract:
		// one result of an in-scope helper (e.g. `return failed(err)` handing back zero values and the error)
		if c, ok := x.Tuple.(*ssa.Call); ok && w.helperResultNonNil(fn, at, c, x.Index, depth) {
			return true
		}
	case *ssa.Call:
		cc := x.Common()
		if w.helperResultNonNil(fn, at, x, 0, depth) {
			return true
		}
		// sdkerrors.Wrap / Wrapf are package-level function variables (aliases of errorsmod.Wrap)
		if u, ok := cc.Value.(*ssa.UnOp); ok && u.Op == token.MUL {
			if g, ok := u.X.(*ssa.Global); ok && g.Pkg != nil && errCtorPkgs[g.Pkg.Pkg.Path()] && (g.Name() == "Wrap" || g.Name() == "Wrapf") {
				if len(cc.Args) > 0 {
					return w.nonNil(fn, at, cc.Args[0], depth+1)
				}
			}
		}
		if sc := cc.StaticCallee(); sc != nil {
			pk := FnPkg(sc)
			if pk != nil && errCtorPkgs[pk.Path()] {
				switch sc.Name() {
				case "New", "Errorf", "Error", "Newf":
					return true
				case "Wrap", "Wrapf", "WithType":
					if len(cc.Args) > 0 {
						return w.nonNil(fn, at, cc.Args[0], depth+1)
					}
				}
			}
		}
	}
	return testedNonNil(fn, at, v)
}

// helperResultNonNil: result idx of the call is certainly non-nil because every return of the (single, in-scope)
// callee yields there a value that is non-nil inside the callee, or one of its parameters whose argument is
// certainly non-nil at the call site. Closures are looked into too (a local `failed := func(err error) (...)`).
func (w *World) helperResultNonNil(fn *ssa.Function, at ssa.Instruction, call *ssa.Call, idx int, depth int) bool {
	cc := call.Common()
	var g *ssa.Function
	if sc := cc.StaticCallee(); sc != nil {
		g = sc
	} else if mc, ok := cc.Value.(*ssa.MakeClosure); ok {
		g, _ = mc.Fn.(*ssa.Function)
	}
	if g == nil || len(g.Blocks) == 0 || !w.InSet(g) && g.Parent() == nil {
		return false
	}
	if pk := FnPkg(g); pk != nil && errCtorPkgs[pk.Path()] {
		return false
	}
	rets := Returns(g)
	if len(rets) == 0 {
		return false
	}
	for _, r := range rets {
		if idx >= len(r.Results) {
			return false
		}
		rv := r.Results[idx]
		if p, ok := rv.(*ssa.Parameter); ok {
			pi := -1
			for i, q := range g.Params {
				if q == p {
					pi = i
				}
			}
			if pi < 0 || pi >= len(cc.Args) || !w.nonNil(fn, call, cc.Args[pi], depth+1) {
				return false
			}
			continue
		}
		if !w.nonNil(g, r, rv, depth+1) {
			return false
		}
	}
	return true
}

// testedNonNil: `at` is reachable only through an edge on which v != nil holds.
func testedNonNil(fn *ssa.Function, at ssa.Instruction, v ssa.Value) bool {
	edges := map[[2]int]bool{}
	for _, b := range fn.Blocks {
		iff, ok := b.Instrs[len(b.Instrs)-1].(*ssa.If)
		if !ok {
			continue
		}
		bo, ok := iff.Cond.(*ssa.BinOp)
		if !ok {
			continue
		}
		var other ssa.Value
		if isNilConst(bo.Y) {
			other = bo.X
		} else if isNilConst(bo.X) {
			other = bo.Y
		}
		if other != v {
			continue
		}
		switch bo.Op {
		case token.NEQ:
			edges[[2]int{b.Index, 0}] = true
		case token.EQL:
			edges[[2]int{b.Index, 1}] = true
		}
	}
	if len(edges) == 0 {
		return false
	}
	return !Reaches(fn, at, Cut{Edges: edges})
}

// Returns lists fn's return instructions.
func Returns(fn *ssa.Function) []*ssa.Return {
	var out []*ssa.Return
	for _, b := range fn.Blocks {
		if len(b.Instrs) == 0 {
			continue
		}
		if r, ok := b.Instrs[len(b.Instrs)-1].(*ssa.Return); ok {
			out = append(out, r)
		}
	}
	return out
}

// ErrIndex returns the index of the (last) error result of fn, or -1.
func ErrIndex(fn *ssa.Function) int {
	rs := fn.Signature.Results()
	for i := rs.Len() - 1; i >= 0; i-- {
		if isErrorType(rs.At(i).Type()) {
			return i
		}
	}
	return -1
}

// SuccessReturns lists the returns of fn that may return a nil error (all returns when fn has
// no error result).
func (w *World) SuccessReturns(fn *ssa.Function) []*ssa.Return {
	idx := ErrIndex(fn)
	var out []*ssa.Return
	for _, r := range Returns(fn) {
		if idx >= 0 && idx < len(r.Results) && w.ProvablyNonNil(fn, r, r.Results[idx]) {
			continue
		}
		out = append(out, r)
	}
	return out
}

// MustPass reports whether every success-capable return of fn is unreachable once the
// instructions accepted by `barrier` stop control flow. It returns the offending returns.
func (w *World) MustPass(fn *ssa.Function, barrier func(ssa.Instruction) bool, extra map[[2]int]bool) []*ssa.Return {
	var bad []*ssa.Return
	for _, r := range w.SuccessReturns(fn) {
		if Reaches(fn, r, Cut{Barrier: barrier, Edges: extra}) {
			bad = append(bad, r)
		}
	}
	return bad
}

// Precedes reports whether B is unreachable from entry when A-instructions are barriers
// (every path to B passes an A), under optional deleted edges.
func Precedes(fn *ssa.Function, isA func(ssa.Instruction) bool, b ssa.Instruction, extra map[[2]int]bool) bool {
	return !Reaches(fn, b, Cut{Barrier: func(in ssa.Instruction) bool { return in != b && isA(in) }, Edges: extra})
}

// CallsTo lists call instructions in fn whose resolved in-scope callee set contains a
// function accepted by pred, or (ext) whose external callee name matches.
func (w *World) CallsTo(fn *ssa.Function, pred func(*ssa.Function) bool) []ssa.CallInstruction {
	var out []ssa.CallInstruction
	for _, b := range fn.Blocks {
		for _, in := range b.Instrs {
			if c, ok := in.(ssa.CallInstruction); ok {
				for _, t := range w.CalleesOf(c) {
					if pred(t) {
						out = append(out, c)
						break
					}
				}
			}
		}
	}
	return out
}

// AbortBlock: the block ends in panic.
func AbortBlock(b *ssa.BasicBlock) bool {
	if len(b.Instrs) == 0 {
		return false
	}
	_, ok := b.Instrs[len(b.Instrs)-1].(*ssa.Panic)
	return ok
}

// ShortFn trims a function name for messages.
func ShortFn(f *ssa.Function) string {
	s := FuncName(f)
	if i := strings.LastIndex(s, "/"); i >= 0 && !strings.Contains(s[i:], ")") {
		return s
	}
	return s
}

// Value is re-exported for debugging helpers.
type Value = ssa.Value

// DumpPreds prints the If conditions of fn (debugging aid).
func (w *World) DumpPreds(fn *ssa.Function) {
	for _, b := range fn.Blocks {
		if len(b.Instrs) == 0 {
			continue
		}
		if iff, ok := b.Instrs[len(b.Instrs)-1].(*ssa.If); ok {
			println(b.Index, w.InstrPos(iff), w.Expand(w.ExprOf(iff.Cond), 3).String())
		}
	}
}

// BackEdges returns the (source block, header block) pairs of fn's natural loops: edges whose
// target dominates their source.
func BackEdges(fn *ssa.Function) [][2]*ssa.BasicBlock {
	var out [][2]*ssa.BasicBlock
	for _, b := range fn.Blocks {
		for _, s := range b.Succs {
			if s.Dominates(b) {
				out = append(out, [2]*ssa.BasicBlock{b, s})
			}
		}
	}
	return out
}

// InstrIndex returns the index of in within its block.
func InstrIndex(in ssa.Instruction) int {
	for i, x := range in.Block().Instrs {
		if x == in {
			return i
		}
	}
	return -1
}

// AfterReachesBackEdgeWithout reports the loop back edges (of loops containing `from`) that
// can be reached from just after `from` without executing an instruction accepted by
// `required`. Blocks ending in panic are abort paths and never reach a back edge.
func AfterReachesBackEdgeWithout(fn *ssa.Function, from ssa.Instruction, required func(ssa.Instruction) bool) []*ssa.BasicBlock {
	return AfterReachesBackEdgeWithoutCut(fn, from, required, nil)
}

// AfterReachesBackEdgeWithoutCut is AfterReachesBackEdgeWithout on a CFG from which the given
// edges were deleted (used for "whenever G holds, R happens before the next iteration").
func AfterReachesBackEdgeWithoutCut(fn *ssa.Function, from ssa.Instruction, required func(ssa.Instruction) bool, edges map[[2]int]bool) []*ssa.BasicBlock {
	var bad []*ssa.BasicBlock
	fb := from.Block()
	for _, be := range BackEdges(fn) {
		src, hdr := be[0], be[1]
		if !hdr.Dominates(fb) {
			continue
		}
		term := src.Instrs[len(src.Instrs)-1]
		// a back edge that was itself deleted cannot be taken
		live := false
		for si, su := range src.Succs {
			if su == hdr && !edges[[2]int{src.Index, si}] {
				live = true
			}
		}
		if !live {
			continue
		}
		// stop at the header so that only the current iteration is examined
		cut := Cut{Edges: edges, Barrier: func(in ssa.Instruction) bool {
			return required(in) || (in.Block() == hdr && in == hdr.Instrs[0] && hdr != fb)
		}}
		if ReachesFrom(fn, fb, InstrIndex(from)+1, term, cut) {
			bad = append(bad, src)
		}
	}
	return bad
}

// EnclosingLoopHeader returns the innermost loop header dominating in's block, or nil.
func EnclosingLoopHeader(fn *ssa.Function, in ssa.Instruction) *ssa.BasicBlock {
	var best *ssa.BasicBlock
	for _, be := range BackEdges(fn) {
		hdr := be[1]
		if hdr.Dominates(in.Block()) && ReachesFrom(fn, in.Block(), 0, be[0].Instrs[len(be[0].Instrs)-1], Cut{}) {
			if best == nil || best.Dominates(hdr) {
				best = hdr
			}
		}
	}
	return best
}

// ErrIndexOfCall returns the index of the error result of a call's signature, or -1.
func ErrIndexOfCall(call ssa.CallInstruction) int {
	rs := call.Common().Signature().Results()
	for i := rs.Len() - 1; i >= 0; i-- {
		if isErrorType(rs.At(i).Type()) {
			return i
		}
	}
	return -1
}
