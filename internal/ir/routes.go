package ir

import (
	"go/types"
	"sort"
	"strings"

	"golang.org/x/tools/go/ssa"
)

// EffectSite is an effect together with the function containing it.
type EffectSite struct {
	Effect
}

// AllEffects returns the effects of all in-scope, non-generated, non-fixture functions that
// satisfy pred.
func (w *World) AllEffects(pred func(Effect) bool) []Effect {
	var out []Effect
	for _, f := range w.Funcs {
		if w.IsGenerated(f) || IsFixture(f) {
			continue
		}
		for _, e := range w.EffectsOf(f) {
			if pred(e) {
				out = append(out, e)
			}
		}
	}
	return out
}

// FixtureEffects is AllEffects restricted to fixture functions.
func (w *World) FixtureEffects(pred func(Effect) bool) []Effect {
	var out []Effect
	for _, f := range w.Funcs {
		if !IsFixture(f) {
			continue
		}
		for _, e := range w.EffectsOf(f) {
			if pred(e) {
				out = append(out, e)
			}
		}
	}
	return out
}

// BackwardClosure returns every in-scope function from which one of `targets` is reachable.
func (w *World) BackwardClosure(targets []*ssa.Function) map[*ssa.Function]bool {
	seen := map[*ssa.Function]bool{}
	q := append([]*ssa.Function{}, targets...)
	for _, t := range targets {
		seen[t] = true
	}
	for len(q) > 0 {
		f := q[0]
		q = q[1:]
		for _, e := range w.callers[f] {
			if !seen[e.From] {
				seen[e.From] = true
				q = append(q, e.From)
			}
		}
	}
	return seen
}

type RootHit struct {
	Kind string
	Root *ssa.Function
	Path []string
	Eff  Effect
}

// RootKinds is the list of top-level root kinds used by who-may-reach rules.
var RootKinds = []string{"MSG", "ANTEALL", "BEGIN", "END", "INITGEN", "EXPORTGEN", "QUERY", "INV", "MIGR", "MSGIFACE"}

// WhoReaches lists, for every root of the given kinds, the effects satisfying pred that are
// reachable from it (one hit per root and effect site).
func (w *World) WhoReaches(kinds []string, pred func(Effect) bool) []RootHit {
	var hits []RootHit
	for _, k := range kinds {
		for _, r := range w.Roots[k] {
			reach := w.Reachable([]*ssa.Function{r})
			var fs []*ssa.Function
			for f := range reach {
				fs = append(fs, f)
			}
			sort.Slice(fs, func(i, j int) bool { return FuncName(fs[i]) < FuncName(fs[j]) })
			for _, f := range fs {
				for _, e := range w.EffectsOf(f) {
					if pred(e) {
						hits = append(hits, RootHit{Kind: k, Root: r, Path: w.PathTo(reach, f), Eff: e})
					}
				}
			}
		}
	}
	return hits
}

// SubRootKind returns the most specific kind label of a root, e.g. "MSG:stream.ClaimStream".
func (w *World) SubRootKind(kind string, r *ssa.Function) string {
	if kind == "ANTEALL" {
		for _, f := range w.Roots["ANTE"] {
			if f == r {
				return "ANTE:" + ModuleOf(r)
			}
		}
		return "ANTEALL"
	}
	best := kind
	for k, fs := range w.Roots {
		if len(k) > len(best) && len(k) > len(kind) && k[:len(kind)] == kind && k[len(kind)] == ':' {
			for _, f := range fs {
				if f == r {
					best = k
				}
			}
		}
	}
	return best
}

// Up describes one way an expression inside fn is instantiated from an outermost caller.
type Up struct {
	Top   *ssa.Function     // outermost function in which E is expressed
	Chain []ssa.Instruction // call sites from Top down to fn
	E     *Expr
}

// OriginsUp substitutes e (in terms of fn's parameters) through every caller chain until the
// expression no longer depends on parameters (other than receivers and ctx) or there are no
// more callers. Only direct calls (static / invoke) are followed.
func (w *World) OriginsUp(fn *ssa.Function, e *Expr, maxDepth int) []Up {
	var out []Up
	var rec func(f *ssa.Function, e *Expr, chain []ssa.Instruction, depth int, seen map[*ssa.Function]bool)
	rec = func(f *ssa.Function, e *Expr, chain []ssa.Instruction, depth int, seen map[*ssa.Function]bool) {
		deps := paramDeps(f, e)
		var callers []Edge
		for _, ed := range w.callers[f] {
			if ed.Kind == "static" || ed.Kind == "invoke" {
				callers = append(callers, ed)
			}
		}
		if !deps || len(callers) == 0 || depth >= maxDepth || seen[f] || w.IsRoot(f) {
			out = append(out, Up{Top: f, Chain: chain, E: e})
			return
		}
		seen[f] = true
		for _, ed := range callers {
			call := ed.Site.(ssa.CallInstruction)
			en := w.callEnv(f, call, nil)
			ne := Subst(e, en.params)
			rec(ed.From, ne, append([]ssa.Instruction{ed.Site}, chain...), depth+1, seen)
		}
		delete(seen, f)
	}
	rec(fn, e, nil, 0, map[*ssa.Function]bool{})
	return out
}

// paramDeps: does e mention a non-receiver, non-ctx parameter of f?
func paramDeps(f *ssa.Function, e *Expr) bool {
	recv := ""
	if f.Signature.Recv() != nil && len(f.Params) > 0 && keeperLike(f.Params[0].Type(), 0) {
		// the receiver of a keeper / server / decorator method is the long-lived module object, the same at every call;
		// the receiver of a small descriptor or bundle struct is an argument like any other
		recv = f.Params[0].Name()
	}
	return e.Any(func(x *Expr) bool { return x.Op == "param" && x.Name != recv })
}

// keeperLike: the (pointer to a) struct holds a store key, directly or in a nested / embedded struct.
func keeperLike(t types.Type, depth int) bool {
	if depth > 3 {
		return false
	}
	st, ok := deref(t).Underlying().(*types.Struct)
	if !ok {
		return false
	}
	for i := 0; i < st.NumFields(); i++ {
		ft := st.Field(i).Type()
		if strings.Contains(ft.String(), "StoreKey") {
			return true
		}
		if _, isStruct := deref(ft).Underlying().(*types.Struct); isStruct && keeperLike(ft, depth+1) {
			return true
		}
	}
	return false
}

// OriginsUpTo instantiates e (in fn's terms) along every direct-call chain root→…→fn and
// returns it in root's terms.
func (w *World) OriginsUpTo(fn *ssa.Function, e *Expr, root *ssa.Function, maxDepth int) []Up {
	within := w.Reachable([]*ssa.Function{root})
	var out []Up
	var rec func(f *ssa.Function, e *Expr, chain []ssa.Instruction, depth int, seen map[*ssa.Function]bool)
	rec = func(f *ssa.Function, e *Expr, chain []ssa.Instruction, depth int, seen map[*ssa.Function]bool) {
		if f == root {
			out = append(out, Up{Top: f, Chain: chain, E: e})
			return
		}
		if depth >= maxDepth || seen[f] {
			return
		}
		seen[f] = true
		for _, ed := range w.callers[f] {
			if ed.Kind != "static" && ed.Kind != "invoke" {
				continue
			}
			if _, ok := within[ed.From]; !ok {
				continue
			}
			call := ed.Site.(ssa.CallInstruction)
			en := w.callEnv(f, call, nil)
			rec(ed.From, Subst(e, en.params), append([]ssa.Instruction{ed.Site}, chain...), depth+1, seen)
		}
		delete(seen, f)
	}
	rec(fn, e, nil, 0, map[*ssa.Function]bool{})
	return out
}

// IsRoot reports whether f is one of the discovered ABCI roots.
func (w *World) IsRoot(f *ssa.Function) bool {
	if w.rootSet == nil {
		w.rootSet = map[*ssa.Function]bool{}
		for _, fs := range w.Roots {
			for _, g := range fs {
				w.rootSet[g] = true
			}
		}
	}
	return w.rootSet[f]
}
