// Package ir holds the shared static-analysis vocabulary: the set of repo functions, the
// repo-restricted call graph, ABCI roots, call-site effects, value origins (Expr) and the
// CFG queries (cut-reachability guards, must-pass-through, ordering).
package ir

import (
	"fmt"
	"go/token"
	"go/types"
	"sort"
	"strings"

	"golang.org/x/tools/go/packages"
	"golang.org/x/tools/go/ssa"
	"golang.org/x/tools/go/ssa/ssautil"

	"mcverif/internal/load"
)

// MemoGet describes an accepted getter of a content-validated memo (props/memo.go): a hit hands out, as result i,
// Results[i] — a term over the constant MemoMarker — applied to the argument the caller presents as witness.
type MemoGet struct {
	Witness int
	Results map[int]*Expr
}

const MemoMarker = "<witness>"

// SetMemoGetters installs the accepted memo getters and drops every cached origin expression, summary and effect list
// (they may have been built while the getters were still opaque).
func (w *World) SetMemoGetters(m map[*ssa.Function]*MemoGet) {
	w.memoGet = m
	w.exprCache = map[exprKey]*Expr{}
	w.builders = nil
	w.sumCache = map[*ssa.Function]*Expr{}
	w.building = map[*ssa.Function]bool{}
	w.plumb, w.plumbSum, w.outCache, w.pureMemo, w.effCache, w.initFields = nil, nil, nil, nil, nil, nil
}

type World struct {
	memoGet map[*ssa.Function]*MemoGet
	// MemosInstalled / MemoNames: set by props.(*Ctx).InstallMemos
	MemosInstalled bool
	MemoNames      []string
	pureMemo       map[*ssa.Function]bool
	constBusy      map[*ssa.Function]bool
	plumb          map[*ssa.Function]bool
	plumbSum       map[*ssa.Function]*Expr
	dynTargets     map[ssa.CallInstruction][]*ssa.Function
	addrTaken      map[string][]*ssa.Function
	hooked         bool
	initFields     map[[2]any]*Expr
	outCache       map[[2]any]*outSum
	P              *load.Program
	Prog           *ssa.Program
	Funcs          []*ssa.Function // every SSA function (incl. closures, methods) of repo + fixture packages
	inSet          map[*ssa.Function]bool

	// named (non-interface) types declared in repo/fixture packages, for CHA
	namedTypes []*types.Named

	callees map[*ssa.Function][]Edge
	callers map[*ssa.Function][]Edge

	exprCache map[exprKey]*Expr
	builders  map[*ssa.Function]*builder
	effCache  map[*ssa.Function][]Effect
	rootSet   map[*ssa.Function]bool
	sumCache  map[*ssa.Function]*Expr
	building  map[*ssa.Function]bool

	Roots map[string][]*ssa.Function // kind -> functions
}

type Edge struct {
	From *ssa.Function
	To   *ssa.Function
	Site ssa.Instruction // call instruction or MakeClosure / function-value reference
	Kind string          // "static", "invoke", "closure", "funcval"
}

func NewWorld(p *load.Program) *World {
	w := &World{P: p, Prog: p.SSA, inSet: map[*ssa.Function]bool{}, callees: map[*ssa.Function][]Edge{}, callers: map[*ssa.Function][]Edge{},
		exprCache: map[exprKey]*Expr{}, sumCache: map[*ssa.Function]*Expr{}, building: map[*ssa.Function]bool{}, Roots: map[string][]*ssa.Function{}}
	w.collectFuncs()
	w.buildCallGraph()
	w.resolveDynamicCalls()
	return w
}

// InScope reports whether pkg is a repo or fixture package.
func InScope(pkg *types.Package) bool {
	return load.IsRepoPkg(pkg) || load.IsFixturePkg(pkg)
}

func FnPkg(f *ssa.Function) *types.Package {
	for f != nil {
		if f.Pkg != nil {
			return f.Pkg.Pkg
		}
		if f.Parent() != nil {
			f = f.Parent()
			continue
		}
		if o := f.Object(); o != nil {
			return o.Pkg()
		}
		if f.Origin() != nil && f.Origin() != f {
			f = f.Origin()
			continue
		}
		return nil
	}
	return nil
}

func (w *World) collectFuncs() {
	all := ssautil.AllFunctions(w.Prog)
	for f := range all {
		if f.Blocks == nil {
			continue
		}
		if !InScope(FnPkg(f)) {
			continue
		}
		if f.Synthetic != "" && f.Synthetic != "package initializer" && !strings.HasPrefix(f.Synthetic, "instance of") {
			continue // wrappers, thunks and bound-method closures are seen through by unwrap
		}
		w.Funcs = append(w.Funcs, f)
		w.inSet[f] = true
	}
	sort.Slice(w.Funcs, func(i, j int) bool {
		a, b := w.Funcs[i], w.Funcs[j]
		if a.String() != b.String() {
			return a.String() < b.String()
		}
		return a.Pos() < b.Pos()
	})
	pkgs := append([]*packages.Package{}, w.P.Pkgs...)
	pkgs = append(pkgs, w.P.Fixtures...)
	for _, pk := range pkgs {
		sc := pk.Types.Scope()
		for _, n := range sc.Names() {
			if tn, ok := sc.Lookup(n).(*types.TypeName); ok && !tn.IsAlias() {
				if nt, ok := tn.Type().(*types.Named); ok {
					if _, isIface := nt.Underlying().(*types.Interface); !isIface {
						w.namedTypes = append(w.namedTypes, nt)
					}
				}
			}
		}
	}
}

// IsFixture reports whether f belongs to a fixture package.
func IsFixture(f *ssa.Function) bool { return load.IsFixturePkg(FnPkg(f)) }

// IsGenerated reports whether the function is defined in a generated protobuf file.
func (w *World) IsGenerated(f *ssa.Function) bool {
	pos := f.Pos()
	for g := f; !pos.IsValid() && g != nil; g = g.Parent() {
		pos = g.Pos()
	}
	if !pos.IsValid() {
		return f.Synthetic != ""
	}
	name := w.P.Fset.Position(pos).Filename
	return strings.HasSuffix(name, ".pb.go") || strings.HasSuffix(name, ".pb.gw.go")
}

// Implementers returns the concrete methods of in-scope named types that implement method
// `name` of interface `iface` (CHA restricted to repo types).
func (w *World) Implementers(iface *types.Interface, name string) []*ssa.Function {
	var out []*ssa.Function
	for _, nt := range w.namedTypes {
		for _, T := range []types.Type{nt, types.NewPointer(nt)} {
			if !types.Implements(T, iface) {
				continue
			}
			ms := w.Prog.MethodSets.MethodSet(T)
			for i := 0; i < ms.Len(); i++ {
				sel := ms.At(i)
				if sel.Obj().Name() != name {
					continue
				}
				if fn := w.Prog.MethodValue(sel); fn != nil {
					fn = w.unwrap(fn)
					if fn != nil {
						out = append(out, fn)
					}
				}
			}
		}
	}
	// de-dup
	seen := map[*ssa.Function]bool{}
	res := out[:0]
	for _, f := range out {
		if !seen[f] {
			seen[f] = true
			res = append(res, f)
		}
	}
	return res
}

// unwrap follows synthetic wrappers (pointer-receiver wrappers, promoted-method thunks) to the
// declared method.
func (w *World) unwrap(fn *ssa.Function) *ssa.Function {
	for i := 0; i < 4 && fn != nil && fn.Synthetic != "" && !strings.HasPrefix(fn.Synthetic, "instance of"); i++ {
		// a wrapper has exactly one call to the wrapped method
		var next *ssa.Function
		for _, b := range fn.Blocks {
			for _, in := range b.Instrs {
				if c, ok := in.(ssa.CallInstruction); ok {
					if sc := c.Common().StaticCallee(); sc != nil {
						next = sc
					}
				}
			}
		}
		if next == nil {
			return fn
		}
		fn = next
	}
	return fn
}

func (w *World) addEdge(e Edge) {
	w.callees[e.From] = append(w.callees[e.From], e)
	w.callers[e.To] = append(w.callers[e.To], e)
}

func (w *World) buildCallGraph() {
	for _, f := range w.Funcs {
		for _, b := range f.Blocks {
			for _, in := range b.Instrs {
				switch x := in.(type) {
				case ssa.CallInstruction:
					for _, t := range w.CalleesOf(x) {
						kind := "static"
						if x.Common().IsInvoke() {
							kind = "invoke"
						}
						w.addEdge(Edge{From: f, To: t, Site: in, Kind: kind})
					}
				}
				// function values and closures created here are conservatively callable from here
				var ops [16]*ssa.Value
				for _, op := range in.Operands(ops[:0]) {
					if op == nil || *op == nil {
						continue
					}
					switch v := (*op).(type) {
					case *ssa.Function:
						if call, ok := in.(ssa.CallInstruction); ok && call.Common().Value == v {
							continue // direct call, handled above
						}
						if u := w.unwrap(v); u != nil && w.inSet[u] {
							w.addEdge(Edge{From: f, To: u, Site: in, Kind: "funcval"})
						}
					}
				}
				if mc, ok := in.(*ssa.MakeClosure); ok {
					if fn, ok := mc.Fn.(*ssa.Function); ok {
						if u := w.unwrap(fn); u != nil && w.inSet[u] {
							w.addEdge(Edge{From: f, To: u, Site: in, Kind: "closure"})
						}
					}
				}
			}
		}
	}
}

// CalleesOf resolves the in-scope callees of a call instruction: the static callee, or, for
// an interface invoke, every in-scope implementer (CHA).
func (w *World) CalleesOf(c ssa.CallInstruction) []*ssa.Function {
	cc := c.Common()
	if cc.IsInvoke() {
		iface, ok := cc.Value.Type().Underlying().(*types.Interface)
		if !ok {
			return nil
		}
		return w.Implementers(iface, cc.Method.Name())
	}
	if sc := cc.StaticCallee(); sc != nil {
		sc = w.unwrap(sc)
		if w.inSet[sc] {
			return []*ssa.Function{sc}
		}
		return nil
	}
	// dynamic call of a function value: resolve when it is a closure made in the same function
	if mc, ok := cc.Value.(*ssa.MakeClosure); ok {
		if fn, ok := mc.Fn.(*ssa.Function); ok && w.inSet[fn] {
			return []*ssa.Function{fn}
		}
	}
	// ... or a function-typed parameter: every function handed in at a call site of the enclosing function
	// (context-insensitive; the flat view and the guard look-through resolve the same calls in context)
	return w.dynTargets[c]
}

// funcTargets: the in-scope functions a function value can denote (see CalleesOf). known=false when a source
// cannot be traced.
func (w *World) funcTargets(v ssa.Value, depth int) (out []*ssa.Function, known bool) {
	if depth > 6 {
		return nil, false
	}
	switch x := v.(type) {
	case *ssa.Function:
		if u := w.unwrap(x); u != nil && w.inSet[u] && len(u.Blocks) > 0 {
			return []*ssa.Function{u}, true
		}
		// a synthetic wrapper around an interface method (bk.GetX as a value): its in-scope implementers
		for _, b := range x.Blocks {
			for _, in := range b.Instrs {
				if call, ok := in.(ssa.CallInstruction); ok && call.Common().IsInvoke() {
					out = append(out, w.CalleesOf(call)...)
				}
			}
		}
		return out, true
	case *ssa.MakeClosure:
		return w.funcTargets(x.Fn, depth+1)
	case *ssa.ChangeType:
		return w.funcTargets(x.X, depth+1)
	case *ssa.Phi:
		known = true
		for _, e := range x.Edges {
			ts, k := w.funcTargets(e, depth+1)
			out = append(out, ts...)
			known = known && k
		}
		return out, known
	case *ssa.Parameter:
		f := x.Parent()
		idx := -1
		for i, p := range f.Params {
			if p == x {
				idx = i
			}
		}
		if idx < 0 {
			return nil, false
		}
		known = true
		n := 0
		for _, ed := range w.callers[f] {
			cs, ok := ed.Site.(ssa.CallInstruction)
			if !ok || ed.Kind != "static" && ed.Kind != "invoke" && ed.Kind != "dynamic" {
				continue
			}
			cc := cs.Common()
			args := cc.Args
			if cc.IsInvoke() {
				args = append([]ssa.Value{cc.Value}, args...)
			}
			j := idx - (len(f.Params) - len(args))
			if j < 0 || j >= len(args) {
				continue
			}
			n++
			ts, k := w.funcTargets(args[j], depth+1)
			out = append(out, ts...)
			known = known && k
		}
		if n > 0 {
			return out, known
		}
		// no in-scope call site hands it in (an SDK continuation such as the ante `next`): nothing in scope to add
		return nil, true
	case *ssa.UnOp:
		// a package-level function variable of another module (sdkerrors.Wrap = errorsmod.Wrap ...): out of scope
		if g, ok := x.X.(*ssa.Global); ok && g.Pkg != nil && !InScope(g.Pkg.Pkg) {
			return nil, true
		}
	case *ssa.Extract:
		// a function handed back by a library call (`cacheCtx, write := ctx.CacheContext()`): made outside the repository
		if call, ok := x.Tuple.(*ssa.Call); ok {
			if sc := call.Common().StaticCallee(); sc != nil && FnPkg(sc) != nil && !InScope(FnPkg(sc)) && !load.IsFixturePkg(FnPkg(sc)) {
				return nil, true
			}
		}
	case *ssa.Call:
		if sc := x.Common().StaticCallee(); sc != nil && FnPkg(sc) != nil && !InScope(FnPkg(sc)) && !load.IsFixturePkg(FnPkg(sc)) {
			return nil, true
		}
	}
	// a function value read from a field, a slice or map element, a channel, another call's result ...: approximated by
	// every in-scope function of the same signature whose address is taken somewhere (the classic address-taken
	// approximation: sound for "may this call reach X", too coarse to expand on the flat view)
	return w.addressTaken(v.Type()), true
}

// addressTaken: in-scope functions (closures, functions and methods used as values) with signature type t.
func (w *World) addressTaken(t types.Type) []*ssa.Function {
	if w.addrTaken == nil {
		w.addrTaken = map[string][]*ssa.Function{}
		seen := map[*ssa.Function]bool{}
		note := func(fv ssa.Value) {
			var f *ssa.Function
			switch x := fv.(type) {
			case *ssa.Function:
				f = x
			case *ssa.MakeClosure:
				f, _ = x.Fn.(*ssa.Function)
			}
			if f == nil {
				return
			}
			sig := fv.Type().Underlying().String()
			u := w.unwrap(f)
			if u == nil || !w.inSet[u] || len(u.Blocks) == 0 {
				// a wrapper around an interface method: its in-scope implementers
				for _, b := range f.Blocks {
					for _, in := range b.Instrs {
						if call, ok := in.(ssa.CallInstruction); ok && call.Common().IsInvoke() {
							for _, t := range w.CalleesOf(call) {
								if !seen[t] {
									w.addrTaken[sig] = append(w.addrTaken[sig], t)
								}
							}
						}
					}
				}
				return
			}
			if !seen[u] {
				seen[u] = true
				w.addrTaken[sig] = append(w.addrTaken[sig], u)
			}
		}
		for _, f := range w.Funcs {
			for _, b := range f.Blocks {
				for _, in := range b.Instrs {
					if mc, ok := in.(*ssa.MakeClosure); ok {
						note(mc)
						continue
					}
					var ops [16]*ssa.Value
					for _, op := range in.Operands(ops[:0]) {
						if op == nil || *op == nil {
							continue
						}
						if fv, ok := (*op).(*ssa.Function); ok {
							if call, isCall := in.(ssa.CallInstruction); isCall && call.Common().Value == ssa.Value(fv) {
								continue
							}
							note(fv)
						}
					}
				}
			}
		}
	}
	return w.addrTaken[t.Underlying().String()]
}

// resolveDynamicCalls adds call-graph edges for calls through function-typed parameters (to a fixpoint: a callback
// may itself be handed on).
func (w *World) resolveDynamicCalls() {
	w.dynTargets = map[ssa.CallInstruction][]*ssa.Function{}
	for round := 0; round < 4; round++ {
		changed := false
		for _, f := range w.Funcs {
			for _, b := range f.Blocks {
				for _, in := range b.Instrs {
					call, ok := in.(ssa.CallInstruction)
					if !ok {
						continue
					}
					cc := call.Common()
					if cc.IsInvoke() || cc.StaticCallee() != nil {
						continue
					}
					switch cc.Value.(type) {
					case *ssa.Builtin, *ssa.MakeClosure:
						continue
					}
					ts, _ := w.funcTargets(cc.Value, 0)
					have := map[*ssa.Function]bool{}
					for _, t := range w.dynTargets[call] {
						have[t] = true
					}
					for _, t := range ts {
						if t != nil && !have[t] {
							have[t] = true
							w.dynTargets[call] = append(w.dynTargets[call], t)
							w.addEdge(Edge{From: f, To: t, Site: in, Kind: "dynamic"})
							changed = true
						}
					}
				}
			}
		}
		if !changed {
			break
		}
	}
}

func (w *World) Callees(f *ssa.Function) []Edge { return w.callees[f] }
func (w *World) Callers(f *ssa.Function) []Edge { return w.callers[f] }
func (w *World) InSet(f *ssa.Function) bool     { return w.inSet[f] }

// Reachable returns every in-scope function reachable from the given roots (roots included),
// with one predecessor edge each for path reconstruction.
func (w *World) Reachable(roots []*ssa.Function) map[*ssa.Function]*Edge {
	seen := map[*ssa.Function]*Edge{}
	var q []*ssa.Function
	for _, r := range roots {
		if _, ok := seen[r]; !ok {
			seen[r] = nil
			q = append(q, r)
		}
	}
	for len(q) > 0 {
		f := q[0]
		q = q[1:]
		for i := range w.callees[f] {
			e := w.callees[f][i]
			if _, ok := seen[e.To]; !ok {
				seen[e.To] = &e
				q = append(q, e.To)
			}
		}
	}
	return seen
}

// ReachableNoDynamic is Reachable without the edges added for calls through function values. Those edges are
// context-insensitive (every function ever handed to a shared helper): right for "can X be reached at all", wrong for
// "what does this particular caller do" (the creator of a closure or the function naming a callback already has a
// direct edge to it).
func (w *World) ReachableNoDynamic(roots []*ssa.Function) map[*ssa.Function]*Edge {
	seen := map[*ssa.Function]*Edge{}
	var q []*ssa.Function
	for _, r := range roots {
		if _, ok := seen[r]; !ok {
			seen[r] = nil
			q = append(q, r)
		}
	}
	for len(q) > 0 {
		f := q[0]
		q = q[1:]
		for i := range w.callees[f] {
			e := w.callees[f][i]
			if e.Kind == "dynamic" {
				continue
			}
			if _, ok := seen[e.To]; !ok {
				seen[e.To] = &e
				q = append(q, e.To)
			}
		}
	}
	return seen
}

// PathTo reconstructs root→f path names from a Reachable map.
func (w *World) PathTo(reach map[*ssa.Function]*Edge, f *ssa.Function) []string {
	var rev []string
	for f != nil {
		rev = append(rev, FuncName(f))
		e := reach[f]
		if e == nil {
			break
		}
		f = e.From
	}
	for i, j := 0, len(rev)-1; i < j; i, j = i+1, j-1 {
		rev[i], rev[j] = rev[j], rev[i]
	}
	return rev
}

// FuncName is a stable, readable name: pkg-relative path + receiver + name.
func FuncName(f *ssa.Function) string {
	if f == nil {
		return "<nil>"
	}
	s := f.String()
	s = strings.ReplaceAll(s, load.RepoMod+"/", "")
	s = strings.ReplaceAll(s, load.HarnessMod+"/", "")
	return s
}

func (w *World) Pos(p token.Pos) string { return w.P.Pos(p) }

// InstrPos returns the best position for an instruction.
func (w *World) InstrPos(in ssa.Instruction) string {
	if in == nil {
		return "?"
	}
	if p := in.Pos(); p.IsValid() {
		return w.Pos(p)
	}
	if v, ok := in.(ssa.Value); ok {
		_ = v
	}
	// fall back to enclosing function
	if in.Parent() != nil {
		return w.Pos(in.Parent().Pos())
	}
	return "?"
}

// LookupFunc finds an in-scope function by its FuncName.
func (w *World) LookupFunc(name string) *ssa.Function {
	for _, f := range w.Funcs {
		if FuncName(f) == name {
			return f
		}
	}
	return nil
}

// PkgFuncs returns in-scope functions whose package path (repo relative) equals rel.
func (w *World) PkgFuncs(rel string) []*ssa.Function {
	var out []*ssa.Function
	for _, f := range w.Funcs {
		if pk := FnPkg(f); pk != nil && RelPkg(pk.Path()) == rel {
			out = append(out, f)
		}
	}
	return out
}

func RelPkg(path string) string {
	if path == load.RepoMod {
		return "."
	}
	path = strings.TrimPrefix(path, load.RepoMod+"/")
	path = strings.TrimPrefix(path, load.HarnessMod+"/")
	return path
}

// MethodsImplementing returns, for each in-scope named type implementing the named
// interface (looked up as pkgpath.Name), the declared methods matching the interface's
// method names. Used for root discovery (MsgServer, QueryServer, AppModule...).
func (w *World) MethodsImplementing(iface *types.Interface) map[string][]*ssa.Function {
	out := map[string][]*ssa.Function{}
	for i := 0; i < iface.NumMethods(); i++ {
		name := iface.Method(i).Name()
		out[name] = w.Implementers(iface, name)
	}
	return out
}

// LookupType finds a package-level type by import path and name among all loaded packages.
func (w *World) LookupType(pkgPath, name string) types.Type {
	if sp := w.P.SSAPkg[pkgPath]; sp != nil {
		if o := sp.Pkg.Scope().Lookup(name); o != nil {
			return o.Type()
		}
	}
	// search through imports of loaded packages
	for _, pk := range w.P.Pkgs {
		for _, imp := range pk.Types.Imports() {
			if imp.Path() == pkgPath {
				if o := imp.Scope().Lookup(name); o != nil {
					return o.Type()
				}
			}
		}
	}
	return nil
}

func (w *World) MustIface(pkgPath, name string) (*types.Interface, error) {
	t := w.LookupType(pkgPath, name)
	if t == nil {
		return nil, fmt.Errorf("anchor type %s.%s not found", pkgPath, name)
	}
	it, ok := t.Underlying().(*types.Interface)
	if !ok {
		return nil, fmt.Errorf("anchor %s.%s is not an interface", pkgPath, name)
	}
	return it, nil
}

// PreferredCallee resolves a call to a single in-scope function when that is justified: a
// unique CHA target, or — for an interface declared in a module's package that several keepers
// happen to satisfy structurally — the unique target belonging to the same module as the
// interface (the wiring rule A5.keeper-wiring checks that this is what the app passes in).
func (w *World) PreferredCallee(c ssa.CallInstruction) *ssa.Function {
	ts := w.CalleesOf(c)
	if len(ts) == 1 {
		return ts[0]
	}
	cc := c.Common()
	if len(ts) < 2 || !cc.IsInvoke() {
		return nil
	}
	named := namedOf(cc.Value.Type())
	if named == nil || named.Obj().Pkg() == nil {
		return nil
	}
	m := moduleOfPath(named.Obj().Pkg().Path())
	if m == "" {
		return nil
	}
	var pick *ssa.Function
	for _, t := range ts {
		if pk := FnPkg(t); pk != nil && moduleOfPath(pk.Path()) == m {
			if pick != nil {
				return nil
			}
			pick = t
		}
	}
	return pick
}

func moduleOfPath(path string) string {
	rel := RelPkg(path)
	if strings.HasPrefix(rel, "x/") {
		parts := strings.Split(rel, "/")
		if len(parts) >= 2 {
			return parts[1]
		}
	}
	return ""
}

// UnresolvedDynamicCalls lists the calls through function values, in the given functions, whose targets cannot all
// be traced to definitions (funcTargets known=false).
func (w *World) UnresolvedDynamicCalls(fs []*ssa.Function) []ssa.CallInstruction {
	var out []ssa.CallInstruction
	for _, f := range fs {
		for _, b := range f.Blocks {
			for _, in := range b.Instrs {
				call, ok := in.(ssa.CallInstruction)
				if !ok {
					continue
				}
				cc := call.Common()
				if cc.IsInvoke() || cc.StaticCallee() != nil {
					continue
				}
				switch cc.Value.(type) {
				case *ssa.Builtin, *ssa.MakeClosure:
					continue
				}
				if _, known := w.funcTargets(cc.Value, 0); !known {
					out = append(out, call)
				}
			}
		}
	}
	return out
}
