package ir

import (
	"fmt"
	"go/types"
	"sort"
	"strings"

	"golang.org/x/tools/go/ssa"

	"mcverif/internal/load"
)

// Modules are the four custom modules.
var Modules = []string{"enterprise", "wrkchain", "beacon", "stream"}

func modTypesPkg(m string) string { return load.RepoMod + "/x/" + m + "/types" }

// ModuleOf returns the custom module a function belongs to ("" if none).
func ModuleOf(f *ssa.Function) string {
	pk := FnPkg(f)
	if pk == nil {
		return ""
	}
	rel := RelPkg(pk.Path())
	if strings.HasPrefix(rel, "x/") {
		parts := strings.Split(rel, "/")
		if len(parts) >= 2 {
			return parts[1]
		}
	}
	return ""
}

// DiscoverRoots fills w.Roots. Kinds: MSG, QUERY, ANTE, BEGIN, END, INITGEN, EXPORTGEN,
// MSGIFACE, INV, MIGR, and per-module variants "MSG:enterprise" etc.
func (w *World) DiscoverRoots() error {
	add := func(kind string, fs ...*ssa.Function) {
		for _, f := range fs {
			if f == nil || IsFixture(f) {
				continue
			}
			dup := false
			for _, g := range w.Roots[kind] {
				if g == f {
					dup = true
				}
			}
			if !dup {
				w.Roots[kind] = append(w.Roots[kind], f)
			}
		}
	}
	for _, m := range Modules {
		for _, pair := range [][2]string{{"MsgServer", "MSG"}, {"QueryServer", "QUERY"}} {
			it, err := w.MustIface(modTypesPkg(m), pair[0])
			if err != nil {
				return err
			}
			for i := 0; i < it.NumMethods(); i++ {
				name := it.Method(i).Name()
				impls := w.Implementers(it, name)
				var keep []*ssa.Function
				for _, f := range impls {
					if !w.IsGenerated(f) && !IsFixture(f) { // Unimplemented*Server stubs are generated
						keep = append(keep, f)
					}
				}
				if len(keep) == 0 {
					return fmt.Errorf("no implementation of %s.%s.%s", m, pair[0], name)
				}
				add(pair[1], keep...)
				add(pair[1]+":"+m, keep...)
				for _, f := range keep {
					add(pair[1]+":"+m+"."+name, f)
				}
			}
		}
	}
	// AppModule methods
	for _, nt := range w.namedTypes {
		if !load.IsRepoPkg(nt.Obj().Pkg()) || nt.Obj().Name() != "AppModule" {
			continue
		}
		rel := RelPkg(nt.Obj().Pkg().Path())
		m := strings.TrimPrefix(rel, "x/")
		for _, T := range []types.Type{nt, types.NewPointer(nt)} {
			ms := w.Prog.MethodSets.MethodSet(T)
			for i := 0; i < ms.Len(); i++ {
				sel := ms.At(i)
				fn := w.unwrap(w.Prog.MethodValue(sel))
				if fn == nil || !w.inSet[fn] {
					continue
				}
				switch sel.Obj().Name() {
				case "BeginBlock":
					add("BEGIN", fn)
					add("BEGIN:"+m, fn)
				case "EndBlock":
					add("END", fn)
					add("END:"+m, fn)
				case "InitGenesis":
					add("INITGEN", fn)
					add("INITGEN:"+m, fn)
				case "ExportGenesis":
					add("EXPORTGEN", fn)
					add("EXPORTGEN:"+m, fn)
				case "RegisterInvariants":
					add("INV", fn)
					add("INV:"+m, fn)
				case "RegisterServices":
					// migrations: function values referenced from RegisterServices
					for _, e := range w.callees[fn] {
						if e.Kind == "funcval" || e.Kind == "closure" {
							add("MIGR", e.To)
							add("MIGR:"+m, e.To)
						}
					}
				}
			}
		}
	}
	// Ante decorators and sdk.Msg implementations
	anteT := w.LookupType(pkgSDKTypes, "AnteDecorator")
	msgT := w.LookupType(pkgSDKTypes, "Msg")
	if anteT == nil || msgT == nil {
		return fmt.Errorf("sdk.AnteDecorator / sdk.Msg not found")
	}
	anteI := anteT.Underlying().(*types.Interface)
	msgI := msgT.Underlying().(*types.Interface)
	for _, f := range w.Implementers(anteI, "AnteHandle") {
		add("ANTEALL", f)
	}
	chain, err := w.AnteChain()
	if err != nil {
		return err
	}
	for _, c := range chain {
		if c.Handle != nil {
			add("ANTE", c.Handle)
			add("ANTE:"+ModuleOf(c.Handle), c.Handle)
		}
	}
	for _, name := range []string{"ValidateBasic", "GetSigners"} {
		for _, f := range w.Implementers(msgI, name) {
			if !w.IsGenerated(f) {
				add("MSGIFACE", f)
				add("MSGIFACE:"+name, f)
			}
		}
	}
	// upgrade handlers: closures created in app.registerUpgradeHandlers-like functions passed to SetUpgradeHandler
	for _, f := range w.Funcs {
		for _, b := range f.Blocks {
			for _, in := range b.Instrs {
				c, ok := in.(ssa.CallInstruction)
				if !ok {
					continue
				}
				if methodName(c.Common()) == "SetUpgradeHandler" {
					for _, a := range c.Common().Args {
						if mc, ok := stripConv(a).(*ssa.MakeClosure); ok {
							if fn, ok := mc.Fn.(*ssa.Function); ok {
								add("MIGR", fn)
							}
						}
					}
				}
			}
		}
	}
	for k := range w.Roots {
		fs := w.Roots[k]
		sort.Slice(fs, func(i, j int) bool { return FuncName(fs[i]) < FuncName(fs[j]) })
	}
	return nil
}

// RootSet concatenates root kinds.
func (w *World) RootSet(kinds ...string) []*ssa.Function {
	var out []*ssa.Function
	seen := map[*ssa.Function]bool{}
	for _, k := range kinds {
		for _, f := range w.Roots[k] {
			if !seen[f] {
				seen[f] = true
				out = append(out, f)
			}
		}
	}
	return out
}

// AnteEntry is one element of the decorator slice literal in ante.NewAnteHandler.
type AnteEntry struct {
	Ctor   string // full name of the constructor function
	Type   string // result type
	Handle *ssa.Function
	Pos    string
}

// AnteChain evaluates the decorator list handed to sdk.ChainAnteDecorators in the application's
// ante package: the call is found in the SSA form and its variadic argument is evaluated to the
// ordered list of elements — a slice literal, append(a, b...) concatenations of such lists, and
// in-scope helper functions returning one (each with a single return value) are followed.
func (w *World) AnteChain() ([]AnteEntry, error) {
	pk := w.Pkg("ante")
	if pk == nil {
		return nil, fmt.Errorf("package ante not loaded")
	}
	var calls []ssa.CallInstruction
	for _, f := range w.Funcs {
		if FnPkg(f) == nil || FnPkg(f) != pk.Types {
			continue
		}
		for _, b := range f.Blocks {
			for _, in := range b.Instrs {
				if c, ok := in.(ssa.CallInstruction); ok {
					if sc := c.Common().StaticCallee(); sc != nil && sc.Name() == "ChainAnteDecorators" && FnPkg(sc) != nil && FnPkg(sc).Path() == pkgSDKTypes {
						calls = append(calls, c)
					}
				}
			}
		}
	}
	if len(calls) != 1 || len(calls[0].Common().Args) != 1 {
		return nil, fmt.Errorf("expected exactly one sdk.ChainAnteDecorators call in package ante, found %d", len(calls))
	}
	elems, err := w.sliceElems(calls[0].Common().Args[0], 0)
	if err != nil {
		return nil, fmt.Errorf("decorator list of %s: %v", w.InstrPos(calls[0]), err)
	}
	anteT := w.LookupType(pkgSDKTypes, "AnteDecorator").Underlying().(*types.Interface)
	var out []AnteEntry
	for _, el := range elems {
		v := el
		if mi, ok := v.(*ssa.MakeInterface); ok {
			v = mi.X
		}
		call, ok := v.(*ssa.Call)
		if !ok || call.Call.StaticCallee() == nil || call.Call.StaticCallee().Object() == nil {
			return nil, fmt.Errorf("decorator list element is not a constructor call at %s", w.Pos(el.Pos()))
		}
		rt := call.Type()
		ent := AnteEntry{Ctor: call.Call.StaticCallee().Object().(*types.Func).FullName(), Type: rt.String(), Pos: w.Pos(call.Pos())}
		if n := namedOf(rt); n != nil && InScope(n.Obj().Pkg()) {
			for _, f := range w.Implementers(anteT, "AnteHandle") {
				if rn := namedOf(f.Signature.Recv().Type()); rn != nil && rn.Obj() == n.Obj() {
					ent.Handle = f
				}
			}
		}
		out = append(out, ent)
	}
	return out, nil
}

// sliceElems evaluates a slice value built from literals, append concatenations and helper
// functions to its ordered elements.
func (w *World) sliceElems(v ssa.Value, depth int) ([]ssa.Value, error) {
	if depth > 8 {
		return nil, fmt.Errorf("slice construction nested too deep")
	}
	switch x := v.(type) {
	case *ssa.Const:
		if x.IsNil() {
			return nil, nil
		}
	case *ssa.ChangeType:
		return w.sliceElems(x.X, depth)
	case *ssa.Slice:
		al, ok := x.X.(*ssa.Alloc)
		if !ok || x.Low != nil || x.High != nil {
			break
		}
		arr, ok := al.Type().Underlying().(*types.Pointer).Elem().Underlying().(*types.Array)
		if !ok || al.Referrers() == nil {
			break
		}
		out := make([]ssa.Value, arr.Len())
		for _, r := range *al.Referrers() {
			ia, ok := r.(*ssa.IndexAddr)
			if !ok {
				continue
			}
			c, ok := ia.Index.(*ssa.Const)
			if !ok || ia.Referrers() == nil {
				return nil, fmt.Errorf("non-constant index in slice literal")
			}
			for _, rr := range *ia.Referrers() {
				if st, ok := rr.(*ssa.Store); ok && st.Addr == ia {
					out[c.Int64()] = st.Val
				}
			}
		}
		for i, e := range out {
			if e == nil {
				return nil, fmt.Errorf("element %d of the slice literal is not set", i)
			}
		}
		return out, nil
	case *ssa.Call:
		if b, ok := x.Call.Value.(*ssa.Builtin); ok && b.Name() == "append" && len(x.Call.Args) == 2 {
			a, err := w.sliceElems(x.Call.Args[0], depth+1)
			if err != nil {
				return nil, err
			}
			c, err := w.sliceElems(x.Call.Args[1], depth+1)
			if err != nil {
				return nil, err
			}
			return append(append([]ssa.Value{}, a...), c...), nil
		}
		if sc := x.Call.StaticCallee(); sc != nil && len(sc.Blocks) > 0 && sc.Signature.Results().Len() == 1 {
			var rets []*ssa.Return
			for _, b := range sc.Blocks {
				if r, ok := b.Instrs[len(b.Instrs)-1].(*ssa.Return); ok {
					rets = append(rets, r)
				}
			}
			if len(rets) == 1 {
				return w.sliceElems(rets[0].Results[0], depth+1)
			}
		}
	}
	return nil, fmt.Errorf("slice value %s is not a literal, an append of literals or a helper returning one", v)
}
