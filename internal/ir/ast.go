package ir

import (
	"fmt"
	"go/ast"
	"go/constant"
	"go/token"
	"go/types"

	"golang.org/x/tools/go/packages"
	"golang.org/x/tools/go/ssa"
)

// Pkg returns the loaded repo (or fixture) package with the given repo-relative path.
func (w *World) Pkg(rel string) *packages.Package {
	for _, pk := range w.P.Pkgs {
		if RelPkg(pk.PkgPath) == rel {
			return pk
		}
	}
	for _, pk := range w.P.Fixtures {
		if RelPkg(pk.PkgPath) == rel {
			return pk
		}
	}
	return nil
}

// VarInit finds the initialiser expression of a package-level variable.
func (w *World) VarInit(pk *packages.Package, name string) ast.Expr {
	for _, f := range pk.Syntax {
		for _, d := range f.Decls {
			gd, ok := d.(*ast.GenDecl)
			if !ok || gd.Tok != token.VAR {
				continue
			}
			for _, sp := range gd.Specs {
				vs := sp.(*ast.ValueSpec)
				for i, n := range vs.Names {
					if n.Name == name && i < len(vs.Values) {
						return vs.Values[i]
					}
				}
			}
		}
	}
	return nil
}

// FuncDecl finds a function or method declaration by name (methods: "Recv.Name").
func (w *World) FuncDecl(pk *packages.Package, name string) *ast.FuncDecl {
	for _, f := range pk.Syntax {
		for _, d := range f.Decls {
			fd, ok := d.(*ast.FuncDecl)
			if !ok {
				continue
			}
			n := fd.Name.Name
			if fd.Recv != nil && len(fd.Recv.List) == 1 {
				t := fd.Recv.List[0].Type
				if s, ok := t.(*ast.StarExpr); ok {
					t = s.X
				}
				if id, ok := t.(*ast.Ident); ok {
					n = id.Name + "." + n
				}
			}
			if n == name {
				return fd
			}
		}
	}
	return nil
}

// ConstString evaluates a constant string expression.
func ConstString(pk *packages.Package, e ast.Expr) (string, bool) {
	tv, ok := pk.TypesInfo.Types[e]
	if !ok || tv.Value == nil || tv.Value.Kind() != constant.String {
		return "", false
	}
	return constant.StringVal(tv.Value), true
}

// EvalStringSetMap evaluates a composite literal map[string][]string with constant keys and
// constant element lists.
func EvalStringSetMap(pk *packages.Package, e ast.Expr) (map[string][]string, error) {
	cl, ok := e.(*ast.CompositeLit)
	if !ok {
		return nil, fmt.Errorf("not a composite literal")
	}
	out := map[string][]string{}
	for _, el := range cl.Elts {
		kv, ok := el.(*ast.KeyValueExpr)
		if !ok {
			return nil, fmt.Errorf("element is not key:value")
		}
		k, ok := ConstString(pk, kv.Key)
		if !ok {
			return nil, fmt.Errorf("non-constant key at %v", pk.Fset.Position(kv.Key.Pos()))
		}
		var vals []string
		switch v := kv.Value.(type) {
		case *ast.Ident:
			if v.Name != "nil" {
				return nil, fmt.Errorf("non-literal value for %q", k)
			}
		case *ast.CompositeLit:
			for _, x := range v.Elts {
				s, ok := ConstString(pk, x)
				if !ok {
					return nil, fmt.Errorf("non-constant permission for %q", k)
				}
				vals = append(vals, s)
			}
		default:
			return nil, fmt.Errorf("unsupported value for %q", k)
		}
		if _, dup := out[k]; dup {
			return nil, fmt.Errorf("duplicate key %q", k)
		}
		out[k] = vals
	}
	return out, nil
}

// CalleeObj resolves the called function object of an AST call expression.
func CalleeObj(pk *packages.Package, call *ast.CallExpr) *types.Func {
	var id *ast.Ident
	switch f := call.Fun.(type) {
	case *ast.Ident:
		id = f
	case *ast.SelectorExpr:
		id = f.Sel
	case *ast.IndexExpr:
		if s, ok := f.X.(*ast.SelectorExpr); ok {
			id = s.Sel
		} else if i, ok := f.X.(*ast.Ident); ok {
			id = i
		}
	}
	if id == nil {
		return nil
	}
	fn, _ := pk.TypesInfo.Uses[id].(*types.Func)
	return fn
}

// FuncFullName is pkgpath.Name or (pkgpath.Recv).Name for a types.Func.
func FuncFullName(f *types.Func) string {
	if f == nil {
		return ""
	}
	return f.FullName()
}

// SSAFunc finds the SSA function for a declared function object.
func (w *World) SSAFunc(obj *types.Func) *ssa.Function {
	return w.Prog.FuncValue(obj)
}

// EvalConstMap evaluates a map literal whose keys are constant strings and whose values are constants
// (`map[string]policy{authtypes.FeeCollectorName: policyBlocked, ...}`): key -> exact value of the constant.
func EvalConstMap(pk *packages.Package, e ast.Expr) (map[string]string, error) {
	cl, ok := e.(*ast.CompositeLit)
	if !ok {
		return nil, fmt.Errorf("not a composite literal")
	}
	out := map[string]string{}
	for _, el := range cl.Elts {
		kv, ok := el.(*ast.KeyValueExpr)
		if !ok {
			return nil, fmt.Errorf("element is not key:value")
		}
		k, ok := ConstString(pk, kv.Key)
		if !ok {
			return nil, fmt.Errorf("non-constant key at %v", pk.Fset.Position(kv.Key.Pos()))
		}
		tv, ok := pk.TypesInfo.Types[kv.Value]
		if !ok || tv.Value == nil {
			return nil, fmt.Errorf("non-constant value for %q", k)
		}
		if _, dup := out[k]; dup {
			return nil, fmt.Errorf("duplicate key %q", k)
		}
		out[k] = tv.Value.ExactString()
	}
	return out, nil
}
