package ir

import (
	"fmt"
	"go/constant"
	"go/token"
	"go/types"
	"strings"

	"golang.org/x/tools/go/ssa"
)

// The "flat" view of a function is its control-flow graph with the calls to in-scope helpers
// expanded in place (virtual inlining): a state is (call context, block, instruction index).
// Path rules (guards, must-pass, ordering, pairing) asked on the flat view give the same answer
// whether a block of statements sits in the handler itself or was extracted into a helper, and
// whether a loop body is written inline or as a method called once per iteration.
//
// Expansion policy: a call is expanded when it has exactly one resolved in-scope callee with a
// body (static callee, or the preferred implementer of a repo interface), the callee is not
// generated code, is not already on the context chain (no recursion) and the chain is shorter
// than flatMaxDepth. Deferred calls and go statements are not expanded. Everything else is
// stepped over, exactly as the intraprocedural primitives do.

const flatMaxDepth = 9

// FCtx is a call context: the chain of expanded call instructions from the root.
type FCtx struct {
	Call  ssa.CallInstruction // nil for the root
	Fn    *ssa.Function
	Up    *FCtx
	en    *env
	depth int
	kids  map[ssa.CallInstruction]*FCtx
}

// FPos is an instruction occurrence in the flat view.
type FPos struct {
	Ctx   *FCtx
	In    ssa.Instruction
	facts *ffact
	pure  *pfact
	// Resume: a walk started from this occurrence goes on with what the walk that found it knew (how the expanded calls
	// on the way returned, what pure predicates answered) instead of starting without facts
	Resume bool
}

// ReturnsFailure: the occurrence is a return whose error result is the error of an expanded call
// that, on this path, returned through a certainly-failing return (`return k.step(...)` after step failed).
func (p FPos) ReturnsFailure() bool {
	ret, ok := p.In.(*ssa.Return)
	if !ok {
		return false
	}
	ei := ErrIndex(p.Ctx.Fn)
	if ei < 0 || ei >= len(ret.Results) {
		return false
	}
	call, idx := errSource(ret.Results[ei])
	if call == nil {
		return false
	}
	nonNil, known := p.facts.lookup(call, idx)
	return known && nonNil
}

// Chain renders the call chain of a context, root first.
func (c *FCtx) Chain() []string {
	var out []string
	for x := c; x != nil; x = x.Up {
		out = append([]string{FuncName(x.Fn)}, out...)
	}
	return out
}

// Root returns the outermost context.
func (c *FCtx) Root() *FCtx {
	for c.Up != nil {
		c = c.Up
	}
	return c
}

// Env substitutes the context's parameters by root-level origins.
func (c *FCtx) Apply(e *Expr) *Expr { return c.en.apply(e) }

func (w *World) FlatRoot(fn *ssa.Function) *FCtx {
	return &FCtx{Fn: fn, kids: map[ssa.CallInstruction]*FCtx{}}
}

// FlatRootClosure is the flat root of a closure literal's body run by code outside the analysed set (a callback handed
// to a library): its captured variables that are assigned exactly once where they are declared stand for that value, in
// the terms of the function that creates the closure.
func (w *World) FlatRootClosure(mc *ssa.MakeClosure) *FCtx {
	g, ok := mc.Fn.(*ssa.Function)
	if !ok {
		return nil
	}
	root := w.FlatRoot(g)
	params := map[string]*Expr{}
	if len(g.FreeVars) == len(mc.Bindings) {
		for i, fv := range g.FreeVars {
			if v := singleAssignment(mc.Bindings[i]); v != nil {
				params["free:"+fv.Name()] = w.ResolveCaptured(w.ExprOf(v))
			} else if al, ok := mc.Bindings[i].(*ssa.Alloc); ok && settledBefore(al, mc) {
				// assigned on several ways before the literal is made and never afterwards (`purchaser := ""; if req.P != "" {
				// purchaser = canonical(req.P) }`): what it holds where the literal is made
				b := w.builderFor(al.Parent())
				if b.rd != nil {
					saved := b.rd.captured[al]
					b.rd.captured[al] = false
					params["free:"+fv.Name()] = w.ResolveCaptured(b.rd.at(mc, al, nil))
					b.rd.captured[al] = saved
				}
			}
		}
	}
	root.en = &env{params: params, closure: mc}
	return root
}

// HoldsIn: in context ctx, "v == pol" implies a predicate accepted by m (helpers looked into up to depth calls).
func (w *World) HoldsIn(ctx *FCtx, v ssa.Value, pol bool, m Matcher, depth int) bool {
	return w.holds(ctx.Fn, v, pol, m, ctx.en, depth, map[holdKey]bool{})
}

func (w *World) expandable(ctx *FCtx, call ssa.CallInstruction) *ssa.Function {
	if _, ok := call.(*ssa.Call); !ok {
		return nil
	}
	if ctx.depth >= flatMaxDepth {
		return nil
	}
	var h *ssa.Function
	cs := w.CalleesOf(call)
	cc := call.Common()
	_, isClosureLit := cc.Value.(*ssa.MakeClosure)
	switch {
	case !cc.IsInvoke() && cc.StaticCallee() == nil && !isClosureLit:
		// a call through a function-typed parameter: resolved in this call context; failing that, the single
		// function that is ever handed in
		h, _ = w.calleeEnv(call, ctx.en)
	case len(cs) == 1:
		h = cs[0]
	case len(cs) > 1:
		h = w.PreferredCallee(call)
	}
	if h == nil || len(h.Blocks) == 0 || !w.InSet(h) || w.IsGenerated(h) {
		return nil
	}
	for x := ctx; x != nil; x = x.Up {
		if x.Fn == h {
			return nil
		}
	}
	return h
}

func (w *World) child(ctx *FCtx, call ssa.CallInstruction, h *ssa.Function) *FCtx {
	if k, ok := ctx.kids[call]; ok {
		return k
	}
	k := &FCtx{Call: call, Fn: h, Up: ctx, depth: ctx.depth + 1, kids: map[ssa.CallInstruction]*FCtx{}}
	if _, en := w.calleeEnv(call, ctx.en); en != nil {
		k.en = en
	} else {
		k.en = w.callEnv(h, call, ctx.en)
	}
	ctx.kids[call] = k
	return k
}

// FlatCut: deleted edges (per context, computed lazily from a matcher) and barrier instructions.
type FlatCut struct {
	Matcher  Matcher // edges on which an accepted predicate holds are deleted (nil: none)
	Depth    int     // helper look-through depth for the matcher
	Edges    func(ctx *FCtx) map[[2]int]bool
	Barrier  func(ctx *FCtx, in ssa.Instruction) bool
	NoExpand func(h *ssa.Function) bool // callees to step over
	// Mark: call instructions whose execution the walk remembers (as part of the state, so that occurrences reached
	// with and without passing them are told apart); asked with FPos.Passed
	Mark  func(ctx *FCtx, in ssa.Instruction) bool
	cache map[*FCtx]map[[2]int]bool
}

func (w *World) flatEdges(cut *FlatCut, ctx *FCtx) map[[2]int]bool {
	if cut.Matcher == nil && cut.Edges == nil {
		return nil
	}
	if cut.cache == nil {
		cut.cache = map[*FCtx]map[[2]int]bool{}
	}
	if e, ok := cut.cache[ctx]; ok {
		return e
	}
	edges := map[[2]int]bool{}
	if cut.Matcher != nil {
		for k := range w.establishedEdges(ctx.Fn, cut.Matcher, ctx.en, cut.Depth, map[holdKey]bool{}) {
			edges[k] = true
		}
	}
	if cut.Edges != nil {
		for k := range cut.Edges(ctx) {
			edges[k] = true
		}
	}
	cut.cache[ctx] = edges
	return edges
}

type fstate struct {
	ctx   *FCtx
	b     *ssa.BasicBlock
	i     int
	facts *ffact
	pure  *pfact
}

// pfact: what a pure predicate (a function of its arguments alone, without any effect) answered on the way taken, keyed by
// the call written in the terms of the root function — the same question asked again, in whatever helper, gets the same
// answer (`if expired(s, now)` in one helper, `expired(s, now)` again in the caller). Forgotten at every loop back edge.
type pfact struct {
	key  string
	val  bool
	next *pfact
	sig  string
}

func (p *pfact) lookup(key string) (bool, bool) {
	for x := p; x != nil; x = x.next {
		if x.key == key {
			return x.val, true
		}
	}
	return false, false
}

func (p *pfact) signature() string {
	if p == nil {
		return ""
	}
	return p.sig
}

func withPure(p *pfact, key string, val bool) *pfact {
	v := "0"
	if val {
		v = "1"
	}
	return &pfact{key: key, val: val, next: p, sig: fmt.Sprintf("%x%s;", len(key)*31+int(hashString(key)%1000003), v) + p.signature()}
}

func hashString(s string) uint32 {
	h := uint32(2166136261)
	for i := 0; i < len(s); i++ {
		h = (h ^ uint32(s[i])) * 16777619
	}
	return h
}

// pureFn: fn and everything it reaches has no effect at all (no store access, bank call, clock, ...): its results depend on
// its arguments alone.
func (w *World) pureFn(fn *ssa.Function) bool {
	if fn == nil || len(fn.Blocks) == 0 || !w.inSet[fn] {
		return false
	}
	if w.pureMemo == nil {
		w.pureMemo = map[*ssa.Function]bool{}
	}
	if v, ok := w.pureMemo[fn]; ok {
		return v
	}
	w.pureMemo[fn] = false
	ok := true
	for g := range w.Reachable([]*ssa.Function{fn}) {
		for _, e := range w.EffectsOf(g) {
			switch e.Kind {
			case "Panic", "Float":
			default:
				ok = false
			}
		}
		for _, b := range g.Blocks {
			for _, in := range b.Instrs {
				if c, isCall := in.(ssa.CallInstruction); isCall && c.Common().IsInvoke() {
					ok = false // an interface call may do anything
				}
				if u, isLoad := in.(*ssa.UnOp); isLoad && u.Op == token.MUL {
					if _, isGlobal := u.X.(*ssa.Global); isGlobal {
						ok = false
					}
				}
			}
		}
	}
	w.pureMemo[fn] = ok
	return ok
}

// ffact records how an expanded call returned in this activation: through a return whose error
// result is certainly non-nil / is the constant nil, or whose single bool result is a constant.
// An `if err != nil` / `if ok` on that call's result then has only one feasible successor; without
// this correlation the expanded graph would contain the path "helper fails, caller carries on".
type ffact struct {
	call ssa.CallInstruction
	idx  int       // result index the fact is about
	val  bool      // error: true = non-nil; bool: the constant
	cval string    // a returned constant of an integer (enumeration) type: its exact value; "" otherwise
	pv   ssa.Value // a bool variable (phi) whose value the activation has seen tested: the fact is about it (call = pvFact)
	root ssa.Value // non-nil: the fact says which value the bool variable pv holds on the way taken (its operand for the edge walked)
	next *ffact
	sig  string
}

func (f *ffact) lookup(call ssa.CallInstruction, idx int) (bool, bool) {
	for x := f; x != nil; x = x.next {
		if x.call == call && x.idx == idx {
			return x.val, true
		}
	}
	return false, false
}

// pvFact stands in the call slot of a fact about a tested bool variable (a nil call marks the start of a callee frame).
var pvFact ssa.CallInstruction = &ssa.Call{}

func (f *ffact) lookupPV(v ssa.Value) (bool, bool) {
	for x := f; x != nil && x.call != nil; x = x.next {
		if x.pv == v && x.root == nil {
			return x.val, true
		}
	}
	return false, false
}

// rootOf follows what is known of the way taken: the value a bool variable holds (through the variables it was copied from).
func (f *ffact) rootOf(v ssa.Value) ssa.Value {
	for i := 0; i < 8; i++ {
		next := ssa.Value(nil)
		for x := f; x != nil && x.call != nil; x = x.next {
			if x.pv == v && x.root != nil {
				next = x.root
				break
			}
		}
		if next == nil {
			return v
		}
		v = next
	}
	return v
}

// withRoot records that the bool variable phi holds root on the way taken.
func withRoot(f *ffact, phi, root ssa.Value) *ffact {
	f = dropFacts(f, func(x *ffact) bool { return x.pv == phi && x.root != nil })
	out := &ffact{call: pvFact, pv: phi, root: root, next: f}
	out.sig = factSig(out) + f.signature()
	return out
}

// withPV records that the bool variable v was seen to be val in this activation (dropping what was known of it).
func withPV(f *ffact, v ssa.Value, val bool) *ffact {
	f = dropFacts(f, func(x *ffact) bool { return x.pv == v && x.root == nil })
	out := &ffact{call: pvFact, pv: v, val: val, next: f}
	b := "0"
	if val {
		b = "1"
	}
	out.sig = "v" + v.Name() + b + ";" + f.signature()
	return out
}

// dropFacts forgets the facts about bool variables accepted by drop, within the current activation.
func dropFacts(f *ffact, drop func(*ffact) bool) *ffact {
	hit := false
	for x := f; x != nil && x.call != nil; x = x.next {
		if x.pv != nil && drop(x) {
			hit = true
		}
	}
	if !hit {
		return f
	}
	var keep []*ffact
	x := f
	for ; x != nil && x.call != nil; x = x.next {
		if x.pv != nil && drop(x) {
			continue
		}
		keep = append(keep, x)
	}
	out := x // the frame marker and everything below it stay as they are
	for i := len(keep) - 1; i >= 0; i-- {
		k := keep[i]
		n := &ffact{call: k.call, idx: k.idx, val: k.val, cval: k.cval, pv: k.pv, root: k.root, next: out}
		n.sig = factSig(n) + out.signature()
		out = n
	}
	return out
}

func factSig(x *ffact) string {
	v := "0"
	if x.val {
		v = "1"
	}
	if x.call == nil {
		return "^;"
	}
	if x.pv != nil && x.root != nil {
		return "r" + x.pv.Name() + "=" + x.root.Name() + ";"
	}
	if x.pv != nil {
		return "v" + x.pv.Name() + v + ";"
	}
	return fmt.Sprint(int(x.call.Pos())) + ":" + string(rune('0'+x.idx)) + v + x.cval + ";"
}

func (f *ffact) signature() string {
	if f == nil {
		return ""
	}
	return f.sig
}

func (f *ffact) lookupConst(call ssa.CallInstruction, idx int) (string, bool) {
	for x := f; x != nil; x = x.next {
		if x.call == call && x.idx == idx && x.cval != "" {
			return x.cval, true
		}
	}
	return "", false
}

func withFact(f *ffact, call ssa.CallInstruction, idx int, val bool) *ffact {
	return withFactC(f, call, idx, val, "")
}

func withFactC(f *ffact, call ssa.CallInstruction, idx int, val bool, cval string) *ffact {
	// drop an older fact about the same call (re-executed in a loop)
	var keep []*ffact
	for x := f; x != nil; x = x.next {
		if !(x.call == call && x.idx == idx) {
			keep = append(keep, x)
		}
	}
	var out *ffact
	for i := len(keep) - 1; i >= 0; i-- {
		out = &ffact{call: keep[i].call, idx: keep[i].idx, val: keep[i].val, cval: keep[i].cval, pv: keep[i].pv, root: keep[i].root, next: out}
	}
	out = &ffact{call: call, idx: idx, val: val, cval: cval, next: out}
	sig := ""
	for x := out; x != nil; x = x.next {
		v := "0"
		if x.val {
			v = "1"
		}
		if x.call == nil {
			sig += "^;"
			continue
		}
		if x.pv != nil {
			sig += factSig(x)
			continue
		}
		sig += fmt.Sprint(int(x.call.Pos())) + ":" + string(rune('0'+x.idx)) + v + x.cval + ";"
	}
	for x := out; x != nil; x = x.next {
		x.sig = sig
		sig = "" // only the head carries the signature
		break
	}
	return out
}

type fkey struct {
	ctx   *FCtx
	b     int
	i     int
	facts string
}

// feasibleSucc: given the facts of this activation, which successors of the If ending block b can be taken?
// factValue follows v through the parameters of the expanded contexts to the call (or tuple extract) whose
// return the facts may know about.
func factValue(ctx *FCtx, v ssa.Value) (ssa.CallInstruction, int, bool) {
	// pend: a field still to be projected out of the record v stands for (facts about a field of a record result are
	// stored under result index + 100*(field+1))
	pend := -1
	withPend := func(idx int) int {
		if pend >= 0 {
			return idx + 100*(pend+1)
		}
		return idx
	}
	for depth := 0; depth < 10; depth++ {
		switch x := v.(type) {
		case *ssa.Call:
			return x, withPend(0), true
		case *ssa.Extract:
			if c, ok := x.Tuple.(*ssa.Call); ok {
				return c, withPend(x.Index), true
			}
			return nil, 0, false
		case *ssa.ChangeType:
			v = x.X
			continue
		case *ssa.Field:
			if pend >= 0 {
				return nil, 0, false
			}
			// a verdict carried in a bundle struct: the field of a struct-valued parameter, as set where the struct was built
			if src := bundleField(x.X, x.Field); src != nil {
				v = src
				continue
			}
			if p := spilledParam(x.X); p != nil {
				if ctx2, arg := argOf(ctx, p); arg != nil {
					if src := bundleField(arg, x.Field); src != nil {
						v, ctx = src, ctx2
						continue
					}
					// the record was handed in as it came back from a call
					v, ctx, pend = arg, ctx2, x.Field
					continue
				}
				return nil, 0, false
			}
			v, pend = x.X, x.Field
			continue
		case *ssa.UnOp:
			if al, ok := x.X.(*ssa.Alloc); ok && pend >= 0 {
				// the whole record loaded from a local: a parameter spilled there, a record built field by field, or a
				// record assigned once as it came back from a call
				if p := spilledParam(al); p != nil {
					v = p
					continue
				}
				if src := bundleField(x, pend); src != nil {
					v, pend = src, -1
					continue
				}
				if src := RecordSource(al, pend); src != nil {
					v = src
					continue
				}
				return nil, 0, false
			}
			fa, ok := x.X.(*ssa.FieldAddr)
			if !ok || pend >= 0 {
				return nil, 0, false
			}
			if al, ok := fa.X.(*ssa.Alloc); ok {
				// a local struct: the single store to this field
				if src := singleFieldStore(al, fa.Field); src != nil {
					v = src
					continue
				}
				if src := fieldValueAt(al, fa.Field, x); src != nil {
					v = src
					continue
				}
				// ... or a parameter spilled into a local
				if p := spilledParam(al); p != nil {
					if ctx2, arg := argOf(ctx, p); arg != nil {
						if src := bundleField(arg, fa.Field); src != nil {
							v, ctx = src, ctx2
							continue
						}
						v, ctx, pend = arg, ctx2, fa.Field
						continue
					}
				}
				// ... or a record assigned once as a whole
				if src := RecordSource(al, fa.Field); src != nil {
					v, pend = src, fa.Field
					continue
				}
			}
			return nil, 0, false
		case *ssa.Parameter:
			if ctx == nil || ctx.Call == nil || x.Parent() != ctx.Fn {
				return nil, 0, false
			}
			cc := ctx.Call.Common()
			var args []ssa.Value
			if cc.IsInvoke() {
				args = append(args, cc.Value)
			}
			args = append(args, cc.Args...)
			ps := ctx.Fn.Params
			shift := len(ps) - len(args)
			idx := -1
			for i, p := range ps {
				if p == x {
					idx = i - shift
				}
			}
			if shift < 0 || idx < 0 || idx >= len(args) {
				return nil, 0, false
			}
			v, ctx = args[idx], ctx.Up
			continue
		}
		return nil, 0, false
	}
	return nil, 0, false
}

// recordFacts: what return r of the expanded call tells about the bool and enumeration fields of a record result (the
// returned local): the constant the one definition reaching the return gives the field, or its zero value.
func recordFacts(facts *ffact, call ssa.CallInstruction, ri int, rv ssa.Value, r *ssa.Return) *ffact {
	u, ok := rv.(*ssa.UnOp)
	if !ok {
		return facts
	}
	al, ok := u.X.(*ssa.Alloc)
	if !ok || !localRecord(al) {
		return facts
	}
	st, ok := deref(al.Type()).Underlying().(*types.Struct)
	if !ok {
		return facts
	}
	for i := 0; i < st.NumFields(); i++ {
		ft := st.Field(i).Type()
		isBool := ft.String() == "bool"
		_, named := ft.(*types.Named)
		bt, isBasic := ft.Underlying().(*types.Basic)
		isEnum := named && isBasic && bt.Info()&types.IsInteger != 0
		if !isBool && !isEnum {
			continue
		}
		v, zero, ok := fieldAt(al, i, u, 0)
		if !ok {
			continue
		}
		if zero {
			if isBool {
				facts = withFact(facts, call, ri+100*(i+1), false)
			} else {
				facts = withFactC(facts, call, ri+100*(i+1), false, "0")
			}
			continue
		}
		cst, isC := v.(*ssa.Const)
		if !isC || cst.Value == nil {
			continue
		}
		if isBool {
			facts = withFact(facts, call, ri+100*(i+1), constBool(cst))
		} else if cst.Value.Kind() == constant.Int {
			facts = withFactC(facts, call, ri+100*(i+1), false, cst.Value.ExactString())
		}
	}
	return facts
}

func feasibleSucc(w *World, ctx *FCtx, b *ssa.BasicBlock, facts *ffact) (onlyTrue, onlyFalse bool) {
	if len(b.Instrs) == 0 {
		return false, false
	}
	iff, ok := b.Instrs[len(b.Instrs)-1].(*ssa.If)
	if !ok {
		return false, false
	}
	cond := iff.Cond
	neg := false
	for {
		if u, ok := cond.(*ssa.UnOp); ok && u.Op.String() == "!" {
			cond = u.X
			neg = !neg
			continue
		}
		break
	}
	decide := func(v bool) (bool, bool) {
		if neg {
			v = !v
		}
		return v, !v
	}
	switch x := cond.(type) {
	case *ssa.BinOp:
		op := x.Op.String()
		if op != "==" && op != "!=" {
			return false, false
		}
		// an enumeration value returned as a constant by an expanded call (possibly handed on as an argument), compared with a constant
		for _, pr := range [][2]ssa.Value{{x.X, x.Y}, {x.Y, x.X}} {
			cst, ok := pr[1].(*ssa.Const)
			if !ok || cst.Value == nil || cst.Value.Kind() != constant.Int {
				continue
			}
			if call, idx, ok := factValue(ctx, pr[0]); ok {
				if cv, known := facts.lookupConst(call, idx); known {
					return decide((op == "==") == (cv == cst.Value.ExactString()))
				}
			}
		}
		var other ssa.Value
		if isNilConst(x.Y) {
			other = x.X
		} else if isNilConst(x.X) {
			other = x.Y
		}
		if other != nil && !isErrorType(other.Type()) && ctx != nil && ctx.en != nil {
			// a field of the record this activation was bound to (`if c.receiver != nil` with the collector made as
			// &collector{} or &collector{receiver: addr}): nil when the field was left unset, not nil when it holds an address
			// that was parsed successfully where the record was made
			if isNil, known := nilness(ctx.Apply(w.ExprOf(other))); known {
				return decide((op == "==") == isNil)
			}
		}
		if other == nil || !isErrorType(other.Type()) {
			return false, false
		}
		call, idx := errSource(other)
		if call == nil {
			return false, false
		}
		if nonNil, ok := facts.lookup(call, idx); ok {
			return decide((op == "!=") == nonNil)
		}
	case *ssa.Phi:
		// a bool variable this activation has already seen tested (`switch { case a && b: ...; case a: ... }`)
		r := facts.rootOf(x)
		if cst, ok := r.(*ssa.Const); ok && cst.Value != nil && cst.Value.Kind() == constant.Bool {
			return decide(constant.BoolVal(cst.Value))
		}
		if v, ok := facts.lookupPV(r); ok {
			return decide(v)
		}
	case *ssa.Call:
		if v, ok := facts.lookup(x, 0); ok {
			return decide(v)
		}
	case *ssa.Extract:
		if c, ok := x.Tuple.(*ssa.Call); ok {
			if v, ok := facts.lookup(c, x.Index); ok {
				return decide(v)
			}
		}
	case *ssa.Parameter:
		// a verdict handed to a helper as a bool argument
		if call, idx, ok := factValue(ctx, x); ok && x.Type().String() == "bool" {
			if v, ok := facts.lookup(call, idx); ok {
				return decide(v)
			}
		}
	case *ssa.Field, *ssa.UnOp:
		// a verdict carried in a record (`checks.fees`, `plan.prune`)
		if call, idx, ok := factValue(ctx, x); ok && x.Type().String() == "bool" {
			if v, ok := facts.lookup(call, idx); ok {
				return decide(v)
			}
		}
	}
	return false, false
}

// FlatWalk explores the flat view from `from` (nil: the entry of root) and calls visit for every
// instruction occurrence reached, in the cut graph. visit returns false to stop the whole walk.
// It reports whether the walk was stopped by visit.
func (w *World) FlatWalk(root *FCtx, from *FPos, cut *FlatCut, visit func(FPos) bool) bool {
	if len(root.Fn.Blocks) == 0 {
		return false
	}
	if cut == nil {
		cut = &FlatCut{}
	}
	var q []fstate
	if from == nil {
		q = append(q, fstate{ctx: root, b: root.Fn.Blocks[0], i: 0})
	} else {
		// starting inside a nested context: push one marker per enclosing call so that returns find their caller facts
		var facts *ffact
		for x := from.Ctx; x != nil && x.Up != nil; x = x.Up {
			facts = &ffact{call: nil, next: facts, sig: "^" + facts.signature()}
		}
		st := fstate{ctx: from.Ctx, b: from.In.Block(), i: InstrIndex(from.In) + 1, facts: facts}
		if from.Resume {
			st.facts, st.pure = from.facts, from.pure
			if _, isRet := from.In.(*ssa.Return); isRet {
				st.i = InstrIndex(from.In) // the return itself is walked again: it hands the facts to the caller
			}
		}
		q = append(q, st)
	}
	seen := map[fkey]bool{}
	for len(q) > 0 {
		s := q[len(q)-1]
		q = q[:len(q)-1]
		k := fkey{s.ctx, s.b.Index, s.i, s.facts.signature() + "|" + s.pure.signature()}
		if seen[k] {
			continue
		}
		seen[k] = true
		stopped := false
		for i := s.i; i < len(s.b.Instrs); i++ {
			in := s.b.Instrs[i]
			if !visit(FPos{Ctx: s.ctx, In: in, facts: s.facts, pure: s.pure}) {
				return true
			}
			if cut.Barrier != nil && cut.Barrier(s.ctx, in) {
				stopped = true
				break
			}
			if cut.Mark != nil {
				if ci, ok := in.(ssa.CallInstruction); ok && cut.Mark(s.ctx, in) {
					s.facts = withFact(s.facts, ci, markIdx, true)
				}
			}
			switch x := in.(type) {
			case *ssa.Call:
				if h := w.expandable(s.ctx, x); h != nil && (cut.NoExpand == nil || !cut.NoExpand(h)) {
					// the callee starts without facts; the caller's facts are restored on return (kept in the child state chain)
					q = append(q, fstate{ctx: w.child(s.ctx, x, h), b: h.Blocks[0], i: 0, facts: &ffact{call: nil, next: s.facts, sig: "^" + s.facts.signature()}, pure: s.pure})
					stopped = true // the continuation is reached through the callee's returns
				}
			case *ssa.Return:
				if s.ctx.Up != nil {
					cb := s.ctx.Call.Block()
					// recover the caller's facts (stored under the marker pushed at the call) and add what this return tells
					callerFacts := s.facts
					for callerFacts != nil && callerFacts.call != nil {
						callerFacts = callerFacts.next
					}
					if callerFacts != nil {
						callerFacts = callerFacts.next
					}
					// what was marked inside the callee stays marked
					for y := s.facts; y != nil && y.call != nil; y = y.next {
						if y.idx == markIdx {
							callerFacts = withFact(callerFacts, y.call, markIdx, true)
						}
					}
					g := s.ctx.Fn
					if ei := ErrIndex(g); ei >= 0 && ei < len(x.Results) {
						if w.ProvablyNonNil(g, x, x.Results[ei]) {
							callerFacts = withFact(callerFacts, s.ctx.Call, ei, true)
						} else if isNilConst(x.Results[ei]) {
							callerFacts = withFact(callerFacts, s.ctx.Call, ei, false)
						} else if c2, i2 := errSource(x.Results[ei]); c2 != nil {
							// `return k.step(...)`: the verdict of the step, when this activation knows it, is this call's verdict
							if v, known := s.facts.lookup(c2, i2); known {
								callerFacts = withFact(callerFacts, s.ctx.Call, ei, v)
							}
						}
					}
					for ri, rv := range x.Results {
						callerFacts = recordFacts(callerFacts, s.ctx.Call, ri, rv, x)
						if c2, i2 := errSource(rv); c2 != nil && ri != ErrIndex(g) {
							// `return k.classify(...)`: the verdict (or answer) of the inner step, when this activation knows it, is
							// this call's
							if cv, known := s.facts.lookupConst(c2, i2); known {
								callerFacts = withFactC(callerFacts, s.ctx.Call, ri, false, cv)
							} else if v, known := s.facts.lookup(c2, i2); known && rv.Type().String() == "bool" {
								callerFacts = withFact(callerFacts, s.ctx.Call, ri, v)
							}
						}
						if cst, ok := rv.(*ssa.Const); ok && cst.Value != nil && rv.Type().String() == "bool" {
							callerFacts = withFact(callerFacts, s.ctx.Call, ri, constBool(cst))
						} else if ok && cst.Value != nil && cst.Value.Kind() == constant.Int {
							if bt, isBasic := rv.Type().Underlying().(*types.Basic); isBasic && bt.Info()&types.IsInteger != 0 {
								if _, named := rv.Type().(*types.Named); named {
									// a named integer type: an enumeration (outcome / verdict / status) — worth remembering exactly
									callerFacts = withFactC(callerFacts, s.ctx.Call, ri, false, cst.Value.ExactString())
								}
							}
						}
					}
					q = append(q, fstate{ctx: s.ctx.Up, b: cb, i: InstrIndex(s.ctx.Call) + 1, facts: callerFacts, pure: s.pure})
				}
				stopped = true
			case *ssa.Panic:
				stopped = true
			}
			if stopped {
				break
			}
		}
		if stopped {
			continue
		}
		edges := w.flatEdges(cut, s.ctx)
		onlyTrue, onlyFalse := feasibleSucc(w, s.ctx, s.b, s.facts)
		var tested ssa.Value
		testedNeg := false
		var dynCut [2]bool
		pureKey, pureNeg, pureKnown := "", false, false
		if iff, ok := s.b.Instrs[len(s.b.Instrs)-1].(*ssa.If); ok {
			cond := iff.Cond
			for {
				if u, ok := cond.(*ssa.UnOp); ok && u.Op.String() == "!" {
					cond, pureNeg = u.X, !pureNeg
					continue
				}
				break
			}
			if cc, ok := cond.(*ssa.Call); ok && cc.Type().String() == "bool" && !cc.Call.IsInvoke() && w.pureFn(cc.Call.StaticCallee()) {
				pureKey = s.ctx.Apply(w.ExprOf(cc)).String()
				if v, known := s.pure.lookup(pureKey); known {
					pureKnown = true
					if v != pureNeg {
						onlyTrue, onlyFalse = true, false
					} else {
						onlyTrue, onlyFalse = false, true
					}
				}
			}
		}
		if iff, ok := s.b.Instrs[len(s.b.Instrs)-1].(*ssa.If); ok {
			cond := iff.Cond
			for {
				if u, ok := cond.(*ssa.UnOp); ok && u.Op.String() == "!" {
					cond, testedNeg = u.X, !testedNeg
					continue
				}
				break
			}
			if ph, ok := cond.(*ssa.Phi); ok && ph.Type().String() == "bool" {
				tested = s.facts.rootOf(ph)
				// what the variable holds on the way taken may be a test the cut is about (`due := !c.IsNil() && c.IsPositive()`
				// tested later, or handed on as part of a verdict)
				if tested != ssa.Value(ph) && cut != nil && cut.Matcher != nil {
					if _, isConst := tested.(*ssa.Const); !isConst {
						for si := 0; si < 2; si++ {
							if w.holds(s.ctx.Fn, tested, (si == 0) != testedNeg, cut.Matcher, s.ctx.en, cut.Depth, map[holdKey]bool{}) {
								dynCut[si] = true
							}
						}
					}
				}
				if _, isConst := tested.(*ssa.Const); isConst {
					tested = nil
				}
			}
		}
		for si, succ := range s.b.Succs {
			if edges != nil && edges[[2]int{s.b.Index, si}] {
				continue
			}
			if onlyTrue && si == 1 || onlyFalse && si == 0 {
				continue
			}
			facts := s.facts
			if tested != nil {
				if dynCut[si] {
					continue
				}
				facts = withPV(facts, tested, (si == 0) != testedNeg)
			}
			// a value computed anew where control goes next is no longer what was tested
			facts = dropFacts(facts, func(x *ffact) bool {
				if x.root != nil {
					return false
				}
				in, ok := x.pv.(ssa.Instruction)
				return ok && in.Block() == succ
			})
			// the bool variables of the next block take the operand of the edge walked
			pi, npi := -1, 0
			for k, p := range succ.Preds {
				if p == s.b {
					pi = k
					npi++
				}
			}
			var phis []*ssa.Phi
			var roots []ssa.Value
			for _, in := range succ.Instrs {
				ph, ok := in.(*ssa.Phi)
				if !ok {
					break
				}
				if ph.Type().String() != "bool" {
					continue
				}
				phis = append(phis, ph)
				if npi == 1 && pi < len(ph.Edges) {
					roots = append(roots, s.facts.rootOf(ph.Edges[pi]))
				} else {
					roots = append(roots, nil)
				}
			}
			for k, ph := range phis {
				ph := ph
				facts = dropFacts(facts, func(x *ffact) bool { return x.pv == ssa.Value(ph) })
				if roots[k] != nil && roots[k] != ssa.Value(ph) {
					facts = withRoot(facts, ph, roots[k])
				}
			}
			pure := s.pure
			if pureKey != "" && !pureKnown {
				pure = withPure(pure, pureKey, (si == 0) != pureNeg)
			}
			if succ.Dominates(s.b) {
				pure = nil // around a loop the same words ask about other values
			}
			q = append(q, fstate{ctx: s.ctx, b: succ, i: 0, facts: facts, pure: pure})
		}
	}
	return false
}

// FlatOccurrences lists the occurrences of instructions accepted by is in the (uncut) flat view.
func (w *World) FlatOccurrences(root *FCtx, is func(ssa.Instruction) bool) []FPos {
	var out []FPos
	w.FlatWalk(root, nil, nil, func(p FPos) bool {
		if is(p.In) {
			out = append(out, p)
		}
		return true
	})
	return out
}

// FlatReaches: can an occurrence accepted by target be reached from `from` (nil: entry) in the cut flat view?
// Returns the first occurrence found.
func (w *World) FlatReaches(root *FCtx, from *FPos, cut *FlatCut, target func(FPos) bool) *FPos {
	var hit *FPos
	w.FlatWalk(root, from, cut, func(p FPos) bool {
		if target(p) {
			q := p
			hit = &q
			return false
		}
		return true
	})
	return hit
}

// FlatGuarded returns the occurrences of site instructions that remain reachable from the entry of
// fn once every edge on which a predicate accepted by m holds (evaluated in each call context, with
// the helper's parameters replaced by the caller's origins) is deleted. Empty result = guarded.
func (w *World) FlatGuarded(fn *ssa.Function, isSite func(ssa.Instruction) bool, m Matcher, depth int) []FPos {
	root := w.FlatRoot(fn)
	cut := &FlatCut{Matcher: m, Depth: depth}
	var out []FPos
	w.FlatWalk(root, nil, cut, func(p FPos) bool {
		if isSite(p.In) {
			out = append(out, p)
		}
		return true
	})
	return out
}

// FlatSuccessReturns: the success-capable returns of the root function (occurrences in the root context).
func (w *World) flatIsRootReturn(root *FCtx, success map[ssa.Instruction]bool) func(FPos) bool {
	return func(p FPos) bool { return p.Ctx == root && success[p.In] }
}

// FlatMustPass returns the success-capable returns of fn that can be reached from its entry without
// executing (anywhere in the expansion) an instruction accepted by barrier. extra edges (of fn itself) are deleted too.
func (w *World) FlatMustPass(fn *ssa.Function, barrier func(ssa.Instruction) bool, extra map[[2]int]bool) []*ssa.Return {
	root := w.FlatRoot(fn)
	success := map[ssa.Instruction]bool{}
	for _, r := range w.SuccessReturns(fn) {
		success[r] = true
	}
	cut := &FlatCut{Barrier: func(_ *FCtx, in ssa.Instruction) bool { return barrier(in) }}
	if extra != nil {
		cut.Edges = func(ctx *FCtx) map[[2]int]bool {
			if ctx == root {
				return extra
			}
			return nil
		}
	}
	var out []*ssa.Return
	seen := map[ssa.Instruction]bool{}
	w.FlatWalk(root, nil, cut, func(p FPos) bool {
		if p.Ctx == root && success[p.In] && !seen[p.In] && !p.ReturnsFailure() {
			seen[p.In] = true
			out = append(out, p.In.(*ssa.Return))
		}
		return true
	})
	return out
}

// FlatPrecedes: every path from the entry of fn to an occurrence of b passes an A-instruction
// (extra edges of fn deleted). Returns false when some occurrence of b is reachable without A.
func (w *World) FlatPrecedes(fn *ssa.Function, isA func(ssa.Instruction) bool, isB func(ssa.Instruction) bool, extra map[[2]int]bool) bool {
	root := w.FlatRoot(fn)
	cut := &FlatCut{Barrier: func(_ *FCtx, in ssa.Instruction) bool { return isA(in) && !isB(in) }}
	if extra != nil {
		cut.Edges = func(ctx *FCtx) map[[2]int]bool {
			if ctx == root {
				return extra
			}
			return nil
		}
	}
	return w.FlatReaches(root, nil, cut, func(p FPos) bool { return isB(p.In) }) == nil
}

// FlatMustPassM is FlatMustPass with the deleted edges given by a matcher, evaluated in every call
// context (e.g. "the amount is zero": the early-return edge of the root and the skip edge inside a wrapper).
func (w *World) FlatMustPassM(fn *ssa.Function, barrier func(ssa.Instruction) bool, m Matcher) []*ssa.Return {
	root := w.FlatRoot(fn)
	success := map[ssa.Instruction]bool{}
	for _, r := range w.SuccessReturns(fn) {
		success[r] = true
	}
	cut := &FlatCut{Matcher: m, Barrier: func(_ *FCtx, in ssa.Instruction) bool { return barrier(in) }}
	var out []*ssa.Return
	seen := map[ssa.Instruction]bool{}
	w.FlatWalk(root, nil, cut, func(p FPos) bool {
		if p.Ctx == root && success[p.In] && !seen[p.In] && !p.ReturnsFailure() {
			seen[p.In] = true
			out = append(out, p.In.(*ssa.Return))
		}
		return true
	})
	return out
}

// FlatPrecedesM: no occurrence of a B-instruction is reachable from the entry of fn without executing an
// A-instruction first, in the flat view with the matcher's edges deleted.
func (w *World) FlatPrecedesM(fn *ssa.Function, isA, isB func(ssa.Instruction) bool, m Matcher) bool {
	root := w.FlatRoot(fn)
	cut := &FlatCut{Matcher: m, Barrier: func(_ *FCtx, in ssa.Instruction) bool { return isA(in) && !isB(in) }}
	return w.FlatReaches(root, nil, cut, func(p FPos) bool { return isB(p.In) }) == nil
}

// ArgSubst expresses e (in the terms of callee g's parameters) in the caller's terms at `call`.
func (w *World) ArgSubst(call ssa.CallInstruction, g *ssa.Function, e *Expr) *Expr {
	en := w.callEnv(g, call, nil)
	return Subst(e, en.params)
}

// argOf: the argument handed in for parameter p at the call that created ctx, and the caller's context.
func argOf(ctx *FCtx, p *ssa.Parameter) (*FCtx, ssa.Value) {
	if ctx == nil || ctx.Call == nil || p.Parent() != ctx.Fn {
		return nil, nil
	}
	cc := ctx.Call.Common()
	var args []ssa.Value
	if cc.IsInvoke() {
		args = append(args, cc.Value)
	}
	args = append(args, cc.Args...)
	ps := ctx.Fn.Params
	shift := len(ps) - len(args)
	for i, q := range ps {
		if q == p && shift >= 0 && i-shift >= 0 && i-shift < len(args) {
			return ctx.Up, args[i-shift]
		}
	}
	return nil, nil
}

// spilledParam: v is a parameter, or (a load of) the local a parameter was copied into and never reassigned.
func spilledParam(v ssa.Value) *ssa.Parameter {
	if u, ok := v.(*ssa.UnOp); ok {
		v = u.X
	}
	if p, ok := v.(*ssa.Parameter); ok {
		return p
	}
	al, ok := v.(*ssa.Alloc)
	if !ok || al.Referrers() == nil {
		return nil
	}
	var p *ssa.Parameter
	n := 0
	for _, r := range *al.Referrers() {
		if st, ok := r.(*ssa.Store); ok && st.Addr == ssa.Value(al) {
			n++
			p, _ = st.Val.(*ssa.Parameter)
		}
	}
	if n == 1 {
		return p
	}
	return nil
}

// bundleField: v is (a load of) a local struct built field by field; returns what was stored into field i (when stored once).
func bundleField(v ssa.Value, i int) ssa.Value {
	var use ssa.Instruction
	if u, ok := v.(*ssa.UnOp); ok {
		v = u.X
		use = u
	}
	al, ok := v.(*ssa.Alloc)
	if !ok {
		return nil
	}
	if src := singleFieldStore(al, i); src != nil {
		// (the one store must lie on every path to the use: otherwise the field may still be empty there)
		if use == nil || use.Block() == nil || storeDominates(al, i, use) {
			return src
		}
		return nil
	}
	if use != nil {
		return fieldValueAt(al, i, use)
	}
	return nil
}

// storeDominates: the single store to field i of al lies on every path to use.
func storeDominates(al *ssa.Alloc, i int, use ssa.Instruction) bool {
	st := theFieldStore(al, i)
	if st == nil {
		return false
	}
	if st.Block() == use.Block() {
		return InstrIndex(st) < InstrIndex(use)
	}
	return st.Block().Dominates(use.Block())
}

func theFieldStore(al *ssa.Alloc, i int) *ssa.Store {
	var out *ssa.Store
	n := 0
	if al.Referrers() == nil {
		return nil
	}
	for _, r := range *al.Referrers() {
		if x, ok := r.(*ssa.FieldAddr); ok && x.Field == i && x.Referrers() != nil {
			for _, rr := range *x.Referrers() {
				if st, ok := rr.(*ssa.Store); ok && st.Addr == ssa.Value(x) {
					n++
					out = st
				}
			}
		}
	}
	if n == 1 {
		return out
	}
	return nil
}

// fieldValueAt: the value field i of the local record al has at `use`, when exactly one definition of it reaches use
// (see fieldAt); nil when it is still empty there or cannot be told.
func fieldValueAt(al *ssa.Alloc, i int, use ssa.Instruction) ssa.Value {
	v, zero, ok := fieldAt(al, i, use, 0)
	if !ok || zero {
		return nil
	}
	return v
}

// fieldDef is one definition of a record field: a store to the field, or an assignment of the whole record (whose
// component for the field is val; zero: the field is left empty by it; opaque: not known).
type fieldDef struct {
	at     ssa.Instruction
	val    ssa.Value
	zero   bool
	opaque bool
}

// fieldAt: reaching definitions of field i of the local record al at `use` (an instruction of al's function): the stores
// to the field and the assignments of the whole record (a composite literal built in a temporary and copied in, a zero
// value, anything else being opaque) are its definitions; the value at use is known when exactly one of them — or only
// the declaration's zero value — reaches use without being overwritten on the way.
func fieldAt(al *ssa.Alloc, i int, use ssa.Instruction, depth int) (val ssa.Value, zero bool, ok bool) {
	if depth > 3 || !localRecord(al) || use == nil || use.Block() == nil || use.Parent() != al.Parent() {
		return nil, false, false
	}
	var defs []fieldDef
	for _, r := range *al.Referrers() {
		switch x := r.(type) {
		case *ssa.FieldAddr:
			if x.Field != i || x.Referrers() == nil {
				continue
			}
			for _, rr := range *x.Referrers() {
				if st, ok := rr.(*ssa.Store); ok && st.Addr == ssa.Value(x) {
					defs = append(defs, fieldDef{at: st, val: st.Val})
				}
			}
		case *ssa.Store:
			if x.Addr != ssa.Value(al) {
				continue
			}
			d := fieldDef{at: x, opaque: true}
			if c, isC := x.Val.(*ssa.Const); isC && c.Value == nil {
				d = fieldDef{at: x, zero: true}
			} else if u, isLoad := x.Val.(*ssa.UnOp); isLoad {
				if src, isAl := u.X.(*ssa.Alloc); isAl && src != al {
					if v, z, ok := fieldAt(src, i, u, depth+1); ok {
						d = fieldDef{at: x, val: v, zero: z}
					}
				}
			}
			defs = append(defs, d)
		}
	}
	fn := al.Parent()
	isDef := func(except ssa.Instruction) func(ssa.Instruction) bool {
		return func(in ssa.Instruction) bool {
			if in == except {
				return false
			}
			for _, d := range defs {
				if d.at == in {
					return true
				}
			}
			return false
		}
	}
	var reaching []fieldDef
	for _, d := range defs {
		if ReachesFrom(fn, d.at.Block(), InstrIndex(d.at)+1, use, Cut{Barrier: isDef(nil)}) {
			reaching = append(reaching, d)
		}
	}
	// the declaration itself (zero value): a parameter spilled into the local is a definition by the entry store, so a
	// local reached from the entry without any definition is empty
	fromEntry := Reaches(fn, use, Cut{Barrier: isDef(nil)})
	// (the allocation may sit in a loop: it is re-zeroed each time it executes — treated like the entry)
	switch {
	case fromEntry && len(reaching) == 0:
		return nil, true, true
	case !fromEntry && len(reaching) == 1 && !reaching[0].opaque:
		return reaching[0].val, reaching[0].zero, true
	}
	return nil, false, false
}

func singleFieldStore(al *ssa.Alloc, i int) ssa.Value {
	if al.Referrers() == nil {
		return nil
	}
	var val ssa.Value
	n := 0
	for _, r := range *al.Referrers() {
		switch x := r.(type) {
		case *ssa.FieldAddr:
			if x.Field != i || x.Referrers() == nil {
				continue
			}
			for _, rr := range *x.Referrers() {
				if st, ok := rr.(*ssa.Store); ok && st.Addr == ssa.Value(x) {
					n++
					val = st.Val
				}
			}
		case *ssa.Store:
			if x.Addr == ssa.Value(al) {
				// the whole struct assigned: only a zero value keeps the field's single definition meaningful
				if c, ok := x.Val.(*ssa.Const); !ok || c.Value != nil {
					return nil
				}
			}
		}
	}
	if n == 1 {
		return val
	}
	return nil
}

// Child returns the context created by expanding call inside c (nil when the call was not expanded).
func (c *FCtx) Child(call ssa.CallInstruction) *FCtx { return c.kids[call] }

// EstablishedEdgesIn: the edges of the context's function on which a predicate accepted by m holds, with the
// context's parameters expressed in the root's terms.
func (w *World) EstablishedEdgesIn(ctx *FCtx, m Matcher, depth int) map[[2]int]bool {
	return w.establishedEdges(ctx.Fn, m, ctx.en, depth, map[holdKey]bool{})
}

// ConstAt: the exact value this occurrence's facts know for v — an enumeration constant returned by an expanded call on
// the way here (followed through parameters and bundle structs).
func (p FPos) ConstAt(v ssa.Value) (string, bool) {
	if call, idx, ok := factValue(p.Ctx, v); ok {
		return p.facts.lookupConst(call, idx)
	}
	return "", false
}

// ConsistentReturn: can the call that created ctx have come back through return r, given what this occurrence's facts say
// about that call's results (a bool tested and found true, an error found nil, an enumeration constant)?
func (p FPos) ConsistentReturn(w *World, ctx *FCtx, r *ssa.Return) bool {
	if ctx == nil || ctx.Call == nil {
		return true
	}
	g := ctx.Fn
	ei := ErrIndex(g)
	for j, rv := range r.Results {
		if j == ei {
			if nonNil, known := p.facts.lookup(ctx.Call, j); known {
				if nonNil && isNilConst(rv) || !nonNil && w.ProvablyNonNil(g, r, rv) {
					return false
				}
			}
			continue
		}
		for y := recordFacts(nil, ctx.Call, j, rv, r); y != nil; y = y.next {
			if y.cval != "" {
				if cv, known := p.facts.lookupConst(y.call, y.idx); known && cv != y.cval {
					return false
				}
			} else if val, known := p.facts.lookup(y.call, y.idx); known && val != y.val {
				return false
			}
		}
		cst, isC := rv.(*ssa.Const)
		if !isC || cst.Value == nil {
			continue
		}
		if rv.Type().String() == "bool" {
			if val, known := p.facts.lookup(ctx.Call, j); known && val != constBool(cst) {
				return false
			}
		} else if cst.Value.Kind() == constant.Int {
			if cv, known := p.facts.lookupConst(ctx.Call, j); known && cv != cst.Value.ExactString() {
				return false
			}
		}
	}
	return true
}

// RecordSource: the local record al is assigned as a whole exactly once (`req, ok := build(tx)`), its address never
// leaves the function and field i is never set separately: returns the value it was assigned (else nil).
func RecordSource(al *ssa.Alloc, i int) ssa.Value {
	if !localRecord(al) {
		return nil
	}
	var whole ssa.Value
	n := 0
	for _, r := range *al.Referrers() {
		switch x := r.(type) {
		case *ssa.Store:
			if x.Addr == ssa.Value(al) {
				n++
				whole = x.Val
			}
		case *ssa.FieldAddr:
			if x.Field != i || x.Referrers() == nil {
				continue
			}
			for _, rr := range *x.Referrers() {
				if st, ok := rr.(*ssa.Store); ok && st.Addr == ssa.Value(x) {
					return nil
				}
			}
		}
	}
	if n == 1 {
		return whole
	}
	return nil
}

const markIdx = 99

// Passed: on the way to this occurrence the walk executed the marked call instruction (FlatCut.Mark).
func (p FPos) Passed(call ssa.Instruction) bool {
	ci, ok := call.(ssa.CallInstruction)
	if !ok {
		return false
	}
	v, known := p.facts.lookup(ci, markIdx)
	return known && v
}

// PassedAny: some marked instruction accepted by is was executed on the way here.
func (p FPos) PassedAny(is func(ssa.Instruction) bool) bool {
	for x := p.facts; x != nil; x = x.next {
		if x.call != nil && x.idx == markIdx && is(x.call) {
			return true
		}
	}
	return false
}

// FieldValueAt: the value field i of the local record al has at `use` (nil when empty there or not known): see fieldAt.
func FieldValueAt(al *ssa.Alloc, i int, use ssa.Instruction) ssa.Value {
	return fieldValueAt(al, i, use)
}

// FactsString renders the facts of the occurrence (debugging aid).
func (p FPos) FactsString() string {
	out := ""
	for x := p.facts; x != nil; x = x.next {
		if x.call == nil {
			out += "^ "
			continue
		}
		if x.pv != nil {
			out += fmt.Sprintf("[%s val=%v] ", x.pv.Name(), x.val)
			continue
		}
		out += fmt.Sprintf("[%s idx=%d val=%v c=%s] ", x.call.String(), x.idx, x.val, x.cval)
	}
	return out
}

// BoundTarget: fn is the synthetic wrapper of a bound method value (`obj.method` used as a function value): returns the
// method it forwards to, else nil.
func BoundTarget(fn *ssa.Function) *ssa.Function {
	if fn == nil || fn.Synthetic == "" || !strings.HasSuffix(fn.Name(), "$bound") {
		return nil
	}
	for _, b := range fn.Blocks {
		for _, in := range b.Instrs {
			if call, ok := in.(*ssa.Call); ok {
				if sc := call.Call.StaticCallee(); sc != nil && len(call.Call.Args) > 0 {
					if _, isFree := call.Call.Args[0].(*ssa.FreeVar); isFree {
						return sc
					}
				}
			}
		}
	}
	return nil
}

// FlatRootBound: the flat root of the method behind a bound method value handed to a library as a callback: the
// receiver parameter stands for the object the value was taken from, in the terms of the function that took it.
func (w *World) FlatRootBound(mc *ssa.MakeClosure, method *ssa.Function) *FCtx {
	root := w.FlatRoot(method)
	params := map[string]*Expr{}
	if len(mc.Bindings) == 1 && len(method.Params) > 0 {
		bound := w.ExprOf(mc.Bindings[0])
		if al, ok := stripConv(mc.Bindings[0]).(*ssa.Alloc); ok {
			// a pointer to a local record: what the record holds where the method value is taken
			if c := w.ContentAt(mc, al); c != nil {
				bound = c
			}
		}
		params[method.Params[0].Name()] = w.ResolveCaptured(bound)
	}
	root.en = &env{params: params}
	return root
}

// ContentAt: the content of the local record al as it stands just before instruction at (reaching definitions), as a
// reference to it (what a pointer to the local stands for when handed to a helper at that point).
func (w *World) ContentAt(at ssa.Instruction, al *ssa.Alloc) *Expr {
	if al.Parent() == nil {
		return nil
	}
	b := w.builderFor(al.Parent())
	if b.rd == nil {
		return nil
	}
	return &Expr{Op: "ref", Args: []*Expr{b.rd.at(at, al, nil)}, V: al}
}

// PhiInstance is one way control can enter the block of a phi: the incoming edges of all the other ways are cut, and
// every phi of that block stands for its operand on this way. A site whose arguments are chosen together by a branch
// (`switch verdict { case A: x, y = a1, a2; case B: x, y = b1, b2 }; use(x, y)`) is judged once per instance, like the
// two sites it replaces.
type PhiInstance struct {
	Block *ssa.BasicBlock
	Cut   map[[2]int]bool
	pick  map[*ssa.Phi]ssa.Value
	preds []*ssa.BasicBlock // the ways into Block that this instance keeps
}

// PhiInstances: the instances of the phi that v is (through conversions); one empty instance when v is not a phi.
func PhiInstances(v ssa.Value) []PhiInstance {
	ph, ok := stripConv(v).(*ssa.Phi)
	if !ok || len(ph.Edges) < 2 {
		return []PhiInstance{{}}
	}
	blk := ph.Block()
	// ways that bring the same operands for every phi of the block are one instance
	type group struct {
		preds []int
	}
	sig := func(i int) string {
		s := ""
		for _, in := range blk.Instrs {
			p2, ok := in.(*ssa.Phi)
			if !ok {
				break
			}
			s += p2.Edges[i].Name() + fmt.Sprintf("@%p;", p2.Edges[i])
		}
		return s
	}
	var order []string
	groups := map[string]*group{}
	for i := range blk.Preds {
		k := sig(i)
		if groups[k] == nil {
			groups[k] = &group{}
			order = append(order, k)
		}
		groups[k].preds = append(groups[k].preds, i)
	}
	if len(order) < 2 {
		return []PhiInstance{{}}
	}
	var out []PhiInstance
	for _, k := range order {
		g := groups[k]
		keep := map[int]bool{}
		for _, i := range g.preds {
			keep[i] = true
		}
		inst := PhiInstance{Block: blk, Cut: map[[2]int]bool{}, pick: map[*ssa.Phi]ssa.Value{}}
		for i, pred := range blk.Preds {
			if keep[i] {
				inst.preds = append(inst.preds, pred)
				continue
			}
			for si, s := range pred.Succs {
				if s == blk {
					inst.Cut[[2]int{pred.Index, si}] = true
				}
			}
		}
		for _, in := range blk.Instrs {
			p2, ok := in.(*ssa.Phi)
			if !ok {
				break
			}
			inst.pick[p2] = p2.Edges[g.preds[0]]
		}
		out = append(out, inst)
	}
	return out
}

// Value: what v stands for on this instance (a phi of the instance's block: its operand; a load of a local that every
// way kept by the instance assigns last in one and the same store — a record chosen together with the phi'd values:
// that store's value; anything else: itself).
func (pi PhiInstance) Value(v ssa.Value) ssa.Value {
	if pi.pick == nil {
		return v
	}
	if ph, ok := stripConv(v).(*ssa.Phi); ok {
		if x, ok := pi.pick[ph]; ok {
			return x
		}
	}
	if u, ok := v.(*ssa.UnOp); ok && u.Op == token.MUL {
		if al, ok := u.X.(*ssa.Alloc); ok && al.Referrers() != nil && len(pi.preds) > 0 {
			// the stores to the local that lie on every kept way into the block: the last of them is what the load sees,
			// provided no other store can run between it and the block
			var cands []*ssa.Store
			var all []*ssa.Store
			for _, r := range *al.Referrers() {
				st, ok := r.(*ssa.Store)
				if !ok || st.Addr != ssa.Value(al) {
					continue
				}
				all = append(all, st)
				onAll := true
				for _, p := range pi.preds {
					if !(st.Block() == p || st.Block().Dominates(p)) {
						onAll = false
					}
				}
				if onAll {
					cands = append(cands, st)
				}
			}
			var last *ssa.Store
			for _, c := range cands {
				isLast := true
				for _, d := range cands {
					if d != c && !(d.Block() == c.Block() && InstrIndex(d) < InstrIndex(c) || d.Block() != c.Block() && d.Block().Dominates(c.Block())) {
						isLast = false
					}
				}
				if isLast {
					last = c
				}
			}
			if last != nil {
				// no other store between last and the instance's block on the kept ways
				clean := true
				for _, o := range all {
					if o == last {
						continue
					}
					for _, p := range pi.preds {
						term := p.Instrs[len(p.Instrs)-1]
						if ReachesFrom(al.Parent(), last.Block(), InstrIndex(last)+1, o, Cut{}) && ReachesFrom(al.Parent(), o.Block(), InstrIndex(o)+1, term, Cut{Barrier: func(in ssa.Instruction) bool { return in == ssa.Instruction(last) }}) {
							clean = false
						}
					}
				}
				if clean {
					return last.Val
				}
			}
		}
	}
	return v
}

// ArgValue: the argument handed in for parameter p at the call that created this context (nil at the root or when p is
// not a parameter of the context's function).
func (c *FCtx) ArgValue(p *ssa.Parameter) ssa.Value {
	_, v := argOf(c, p)
	return v
}

// nilness: e is certainly nil (an unset field, the nil constant) or certainly not (an address handed back by a successful
// AccAddressFromBech32 — which refuses the empty string — or a value made on the spot).
func nilness(e *Expr) (isNil, known bool) {
	if e == nil {
		return false, false
	}
	switch e.Op {
	case "zero":
		return true, true
	case "const":
		if e.Name == "nil" {
			return true, true
		}
	case "res":
		if e.Name == "0" && len(e.Args) == 1 && e.Args[0].Op == "call" && strings.HasSuffix(e.Args[0].Name, "types.AccAddressFromBech32") {
			return false, true
		}
	case "makeslice", "alloc", "ref", "struct":
		return false, true
	case "phi":
		first := true
		var v bool
		for _, a := range e.Args {
			n, k := nilness(a)
			if !k {
				return false, false
			}
			if first {
				v, first = n, false
			} else if v != n {
				return false, false
			}
		}
		return v, !first
	}
	return false, false
}

// settledBefore: every assignment to the captured variable al happens before the function literal mc is made — none can
// follow it (in the enclosing function), no other literal captures it, and mc's own function does not assign it.
func settledBefore(al *ssa.Alloc, mc *ssa.MakeClosure) bool {
	if al.Referrers() == nil {
		return false
	}
	for _, r := range *al.Referrers() {
		switch x := r.(type) {
		case *ssa.Store:
			if x.Addr != ssa.Value(al) {
				return false
			}
			if x.Block() == mc.Block() {
				if InstrIndex(x) > InstrIndex(mc) {
					return false
				}
				continue
			}
			if ReachesFrom(al.Parent(), mc.Block(), InstrIndex(mc)+1, x, Cut{}) {
				return false
			}
		case *ssa.MakeClosure:
			if x != mc {
				return false
			}
			fn, ok := x.Fn.(*ssa.Function)
			if !ok {
				return false
			}
			for i, bd := range x.Bindings {
				if bd == ssa.Value(al) && i < len(fn.FreeVars) {
					if refs := fn.FreeVars[i].Referrers(); refs != nil {
						for _, fr := range *refs {
							if st, ok := fr.(*ssa.Store); ok && st.Addr == ssa.Value(fn.FreeVars[i]) {
								return false
							}
							if _, ok := fr.(*ssa.MakeClosure); ok {
								return false
							}
						}
					}
				}
			}
		case *ssa.UnOp, *ssa.DebugRef:
		default:
			return false
		}
	}
	return true
}
