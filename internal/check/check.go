// Package check holds the obligation/evidence bookkeeping shared by all property checkers.
package check

import (
	"encoding/json"
	"fmt"
	"os"
	"path/filepath"
	"sort"
	"strings"
	"time"
)

type Obligation struct {
	Rule   string `json:"rule"`
	Key    string `json:"key"`    // stable key: rule|function|construct (never a line number)
	Pos    string `json:"pos"`    // file:line for the reader
	Desc   string `json:"desc"`   // what is required
	Status string `json:"status"` // discharged | violated | undecided | known
	Detail string `json:"detail,omitempty"`
}

type Floor struct {
	Name  string `json:"name"`
	Count int    `json:"count"`
	Floor int    `json:"floor"`
}

type Control struct {
	Rule     string `json:"rule"`
	Fixture  string `json:"fixture"`
	Detected bool   `json:"detected"`
}

type Result struct {
	Prop        string
	Tier        string
	Obls        []Obligation
	Floors      []Floor
	Controls    []Control
	Analysed    map[string]int
	Explanation string
	Rules       []string
	Trusted     []string
	Assumptions []string
	NotDecided  []string
	Broken      []string // checker faults (exit 2)
	SelfTest    map[string]int
	Extra       map[string]any
	AfterCheck  func()
	start       time.Time
}

// ProcessStart is set by the driver before loading so that wall time includes load + SSA.
var ProcessStart = time.Now()

func New(prop, tier string) *Result {
	return &Result{Prop: prop, Tier: tier, Analysed: map[string]int{}, start: ProcessStart}
}

func (r *Result) add(rule, key, pos, desc, status, detail string) {
	if len(detail) > 900 {
		detail = detail[:900] + "…"
	}
	if len(key) > 400 {
		key = key[:400] + "…"
	}
	r.Obls = append(r.Obls, Obligation{Rule: rule, Key: rule + "|" + key, Pos: pos, Desc: desc, Status: status, Detail: detail})
}

func (r *Result) OK(rule, key, pos, desc string) { r.add(rule, key, pos, desc, "discharged", "") }
func (r *Result) Bad(rule, key, pos, desc, detail string) {
	r.add(rule, key, pos, desc, "violated", detail)
}
func (r *Result) Undecided(rule, key, pos, desc, detail string) {
	r.add(rule, key, pos, desc, "undecided", detail)
}

// Require records an obligation whose verdict is `ok`.
func (r *Result) Require(ok bool, rule, key, pos, desc, detail string) bool {
	if ok {
		r.OK(rule, key, pos, desc)
	} else {
		r.Bad(rule, key, pos, desc, detail)
	}
	return ok
}

// Floor records an instance count with the floor confirmed by hand; below the floor the rule
// would pass vacuously, so it is a violation (a change to /repo can cause it).
func (r *Result) Floor(name string, count, floor int) {
	r.Floors = append(r.Floors, Floor{name, count, floor})
	if count < floor {
		r.Bad("floor", name, "", fmt.Sprintf("rule instances %q: at least %d expected", name, floor), fmt.Sprintf("found %d: the rule would pass vacuously (anchor renamed or code removed?)", count))
	}
}

func (r *Result) Control(rule, fixture string, detected bool) {
	r.Controls = append(r.Controls, Control{rule, fixture, detected})
	if !detected {
		r.Broken = append(r.Broken, fmt.Sprintf("positive control not detected: rule %s on fixture %s", rule, fixture))
	}
}

type Known struct {
	Status   string `json:"status"` // known | fixed
	Property string `json:"property"`
	Key      string `json:"key"`
	What     string `json:"what"`
	Commit   string `json:"commit,omitempty"`
}

func LoadKnown(path string) ([]Known, error) {
	b, err := os.ReadFile(path)
	if err != nil {
		if os.IsNotExist(err) {
			return nil, nil
		}
		return nil, err
	}
	var ks []Known
	if err := json.Unmarshal(b, &ks); err != nil {
		return nil, err
	}
	return ks, nil
}

// Unresolved returns the obligations that are violated or undecided and not covered by a
// known finding (used by the self-test driver; writes nothing).
func (r *Result) Unresolved(known []Known) []Obligation {
	sort.SliceStable(r.Obls, func(i, j int) bool { return r.Obls[i].Key < r.Obls[j].Key })
	seen := map[string]int{}
	knownKeys := map[string]bool{}
	for _, k := range known {
		if k.Property == r.Prop && k.Status == "known" {
			knownKeys[k.Key] = true
		}
	}
	var out []Obligation
	for _, o := range r.Obls {
		k := o.Key
		seen[k]++
		if seen[k] > 1 {
			k = fmt.Sprintf("%s#%d", k, seen[k])
		}
		if (o.Status == "violated" || o.Status == "undecided") && !knownKeys[k] {
			o.Key = k
			out = append(out, o)
		}
	}
	return out
}

// Finish applies known findings, writes evidence and the violations file, prints the
// contract lines and returns the exit code.
func (r *Result) Finish(verifDir string, known []Known, seed int) int {
	sort.SliceStable(r.Obls, func(i, j int) bool { return r.Obls[i].Key < r.Obls[j].Key })
	// duplicate keys: make unique by suffix so known-finding matching stays exact
	seen := map[string]int{}
	for i := range r.Obls {
		k := r.Obls[i].Key
		seen[k]++
		if seen[k] > 1 {
			r.Obls[i].Key = fmt.Sprintf("%s#%d", k, seen[k])
		}
	}
	knownKeys := map[string]Known{}
	for _, k := range known {
		if k.Property == r.Prop && k.Status == "known" {
			knownKeys[k.Key] = k
		}
	}
	var viol, und, kn, dis int
	var violations []Obligation
	for i := range r.Obls {
		o := &r.Obls[i]
		if o.Status == "violated" || o.Status == "undecided" {
			if k, ok := knownKeys[o.Key]; ok {
				o.Status = "known"
				fmt.Printf("KNOWN-FINDING: property=%s %s [%s at %s]\n", r.Prop, k.What, o.Key, o.Pos)
			}
		}
		switch o.Status {
		case "violated":
			viol++
			violations = append(violations, *o)
		case "undecided":
			und++
			violations = append(violations, *o)
		case "known":
			kn++
		case "discharged":
			dis++
		}
	}
	evDir := filepath.Join(verifDir, "evidence")
	os.MkdirAll(evDir, 0o755)
	violPath := filepath.Join(evDir, r.Prop+".violations.json")
	os.Remove(violPath)

	var samples []any
	for i, o := range r.Obls {
		if i%maxInt(1, len(r.Obls)/12) == 0 && len(samples) < 14 {
			samples = append(samples, map[string]string{"rule": o.Rule, "obligation": o.Key, "at": o.Pos, "requires": o.Desc, "status": o.Status})
		}
	}
	for _, o := range violations {
		samples = append(samples, map[string]string{"rule": o.Rule, "obligation": o.Key, "at": o.Pos, "requires": o.Desc, "status": o.Status, "detail": o.Detail})
	}
	if len(samples) == 0 {
		samples = append(samples, "no obligations generated")
	}
	distinct := map[string]bool{}
	for _, o := range r.Obls {
		distinct[o.Key] = true
	}
	cov := map[string]any{
		"explanation":         r.Explanation,
		"rules":               r.Rules,
		"obligations":         len(r.Obls),
		"discharged":          dis,
		"known_findings":      kn,
		"violated":            viol,
		"undecided":           und,
		"evaluations":         len(r.Obls),
		"distinct_nontrivial": len(distinct),
		"rule":                "one evaluation per obligation (rule instance at a named construct of /repo's current source); distinct = distinct obligation keys; every obligation is non-trivial in that it names a construct found in the resolved program",
		"samples":             samples,
		"analysed":            r.Analysed,
		"instance_floors":     r.Floors,
		"positive_controls":   r.Controls,
		"not_decided":         nz(r.NotDecided),
		"trusted_base":        nz(r.Trusted),
		"checker_cmd":         fmt.Sprintf("./run.sh %s %s", r.Prop, r.Tier),
		"exhaustive":          false,
	}
	if r.SelfTest != nil {
		cov["selftest"] = r.SelfTest
	}
	for k, v := range r.Extra {
		cov[k] = v
	}
	assumptions := append([]string{}, r.Assumptions...)
	assumptions = append(assumptions, r.Trusted...)
	ev := map[string]any{
		"property_id": r.Prop,
		"tier":        r.Tier,
		"seed":        seed,
		"level":       "other",
		"coverage":    cov,
		"assumptions": assumptions,
		"wall_s":      time.Since(r.start).Seconds(),
		"violations":  viol + und,
	}
	b, _ := json.MarshalIndent(ev, "", " ")
	if err := os.WriteFile(filepath.Join(evDir, r.Prop+".json"), b, 0o644); err != nil {
		fmt.Fprintln(os.Stderr, "cannot write evidence:", err)
		return 2
	}
	fmt.Printf("%s %s: %d obligations, %d discharged, %d known, %d violated, %d undecided (%.1fs)\n", r.Prop, r.Tier, len(r.Obls), dis, kn, viol, und, time.Since(r.start).Seconds())
	for _, f := range r.Floors {
		fmt.Printf("  instances %-40s %d (floor %d)\n", f.Name, f.Count, f.Floor)
	}
	if len(violations) > 0 {
		vb, _ := json.MarshalIndent(map[string]any{"property_id": r.Prop, "findings": violations}, "", " ")
		os.WriteFile(violPath, vb, 0o644)
		for _, o := range violations {
			fmt.Printf("  %s %s\n    at %s\n    requires: %s\n    found: %s\n", strings.ToUpper(o.Status), o.Key, o.Pos, o.Desc, o.Detail)
		}
		fmt.Printf("VIOLATION property=%s replay=%s\n", r.Prop, violPath)
		return 1
	}
	if len(r.Broken) > 0 {
		for _, b := range r.Broken {
			fmt.Fprintln(os.Stderr, "BROKEN-CHECKER:", b)
		}
		return 2
	}
	return 0
}

func maxInt(a, b int) int {
	if a > b {
		return a
	}
	return b
}

func nz(s []string) []string {
	if s == nil {
		return []string{}
	}
	return s
}
