// Package props holds one checker per property; each turns the property's obligation table
// (DESIGN.md section 4 / Appendix A) into rule instances over the resolved program.
package props

import (
	"fmt"
	"go/ast"
	"go/token"
	"go/types"
	"os"
	"sort"
	"strings"

	"golang.org/x/tools/go/packages"
	"golang.org/x/tools/go/ssa"

	"mcverif/internal/check"
	"mcverif/internal/ir"
)

type Ctx struct {
	restrictMemo  map[[2]any][]any
	altsStopVocab bool // altsAtCtx: treat the results of the types packages' exported functions as leaves
	W             *ir.World
	R             *check.Result

	rootedSet      map[*ssa.Function]bool
	hold           *holderTypes
	wparams        map[*ssa.Function]map[int]bool
	transient      map[*types.Named]bool
	memo           map[*types.Named]memoVerdict
	done           map[string]bool
	addrUse        map[string][2]string
	denomOrd       map[string]int
	maccVar        string
	claimStepsDone bool
	claimStepFns   []*ssa.Function
}

// Rooted reports whether f is reachable from any ABCI root (handlers, ante, blockers,
// genesis, queries, invariants, migrations, message interface methods).
func (c *Ctx) Rooted(f *ssa.Function) bool {
	if c.rootedSet == nil {
		c.rootedSet = map[*ssa.Function]bool{}
		for g := range c.W.Reachable(c.W.RootSet(ir.RootKinds...)) {
			c.rootedSet[g] = true
		}
	}
	return c.rootedSet[f]
}

type Checker func(c *Ctx)

var Registry = map[string]Checker{}

const (
	secPO        = "x/enterprise/types.PurchaseOrderIDKeyPrefix"
	secLocked    = "x/enterprise/types.LockedUndAddressKeyPrefix"
	secWhitelist = "x/enterprise/types.WhitelistKeyPrefix"
	secRaisedQ   = "x/enterprise/types.RaisedPoPrefix"
	secAcceptedQ = "x/enterprise/types.AcceptedPoPrefix"
	secSpent     = "x/enterprise/types.SpentEFUNDAddressKeyPrefix"
	secEntParams = "x/enterprise/types.ParamsKey"
	secTotSpent  = "x/enterprise/types.TotalSpentEFUNDKey"
	secTotLocked = "x/enterprise/types.TotalLockedUndKey"
	secEntHigh   = "x/enterprise/types.HighestPurchaseOrderIDKey"
)

func pos(c *Ctx, in ssa.Instruction) string { return c.W.InstrPos(in) }

func fn(f *ssa.Function) string { return ir.FuncName(f) }

// isStateField: e is <state:section(key)>.field, possibly under a phi with zero values.
func isStateField(e *ir.Expr, section, field string) bool {
	return e != nil && e.Op == "field" && e.Name == field && len(e.Args) == 1 && e.Args[0].Op == "state" && e.Args[0].Name == section
}

// stateKey returns the key expression of a state-field expression.
func stateKey(e *ir.Expr) *ir.Expr {
	if e != nil && e.Op == "field" && len(e.Args) == 1 && e.Args[0].Op == "state" && len(e.Args[0].Args) == 1 {
		return e.Args[0].Args[0]
	}
	return nil
}

// nonZeroAlts drops zero-value alternatives (the "not found" defaults of getters).
func nonZeroAlts(e *ir.Expr) []*ir.Expr {
	var out []*ir.Expr
	for _, a := range e.Alts() {
		if a.Op == "zero" {
			continue
		}
		out = append(out, a)
	}
	return out
}

func pathStr(p []string) string { return strings.Join(p, " -> ") }

func sortedKeys[V any](m map[string]V) []string {
	var ks []string
	for k := range m {
		ks = append(ks, k)
	}
	sort.Strings(ks)
	return ks
}

func setOf(xs ...string) map[string]bool {
	m := map[string]bool{}
	for _, x := range xs {
		m[x] = true
	}
	return m
}

func setStr(m map[string]bool) string {
	return "{" + strings.Join(sortedKeys(m), ", ") + "}"
}

func sameSet(a, b map[string]bool) bool {
	if len(a) != len(b) {
		return false
	}
	for k := range a {
		if !b[k] {
			return false
		}
	}
	return true
}

// whoMayReach is rule A1: every root (of any kind) from which an effect accepted by pred is
// reachable must have an allowed (sub)kind. allowed entries may be "BEGIN:enterprise",
// "MSG:stream", "MSG:stream.ClaimStream", "INITGEN" ... (prefix match on the sub-kind).
// Returns the number of hits.
func whoMayReach(c *Ctx, rule, what string, pred func(ir.Effect) bool, allowed []string) int {
	hits := c.W.WhoReaches(ir.RootKinds, pred)
	type k struct{ root, site string }
	seen := map[k]bool{}
	n := 0
	for _, h := range hits {
		sub := c.W.SubRootKind(h.Kind, h.Root)
		key := k{fn(h.Root), fn(h.Eff.Fn) + "/" + h.Eff.Kind + ":" + h.Eff.Method + ":" + h.Eff.Section}
		if seen[key] {
			continue
		}
		seen[key] = true
		n++
		ok := false
		for _, a := range allowed {
			if sub == a || strings.HasPrefix(sub, a+":") || strings.HasPrefix(sub, a+".") || h.Kind == a {
				ok = true
			}
		}
		c.R.Require(ok, rule, fmt.Sprintf("root=%s|site=%s", key.root, key.site), pos(c, h.Eff.Site),
			fmt.Sprintf("%s may be reached only from roots %v", what, allowed),
			fmt.Sprintf("reachable from %s root %s via %s", sub, fn(h.Root), pathStr(h.Path)))
	}
	return n
}

// fixtureHits counts fixture functions (positive controls) from which pred-effects are reachable
// starting at fixture functions named with the given prefix.
func fixtureReach(c *Ctx, prefix string, pred func(ir.Effect) bool) int {
	n := 0
	for _, f := range c.W.Funcs {
		if !ir.IsFixture(f) || !strings.Contains(ir.FuncName(f), prefix) {
			continue
		}
		reach := c.W.Reachable([]*ssa.Function{f})
		for g := range reach {
			for _, e := range c.W.EffectsOf(g) {
				if pred(e) {
					n++
				}
			}
		}
	}
	return n
}

// mutatingSites lists the instructions of f that are, or may lead to, a state mutation:
// direct store/bank effects and calls whose in-scope callees reach one.
func mutatingSites(c *Ctx, f *ssa.Function, isMut func(ir.Effect) bool) []ssa.Instruction {
	var out []ssa.Instruction
	direct := map[ssa.Instruction]bool{}
	for _, e := range c.W.EffectsOf(f) {
		if isMut(e) {
			direct[e.Site] = true
		}
	}
	for _, b := range f.Blocks {
		for _, in := range b.Instrs {
			if direct[in] {
				out = append(out, in)
				continue
			}
			call, ok := in.(ssa.CallInstruction)
			if !ok {
				continue
			}
			for _, t := range c.W.CalleesOf(call) {
				if reachesEffect(c, t, isMut) {
					out = append(out, in)
					break
				}
			}
		}
	}
	return out
}

func reachesEffect(c *Ctx, f *ssa.Function, pred func(ir.Effect) bool) bool {
	for g := range c.W.Reachable([]*ssa.Function{f}) {
		for _, e := range c.W.EffectsOf(g) {
			if pred(e) {
				return true
			}
		}
	}
	return false
}

func isStateMutation(e ir.Effect) bool {
	switch e.Kind {
	case "StoreWrite", "StoreDelete", "Mint", "Burn", "Bank":
		return true
	}
	return false
}

// Inst is an effect reachable from a root, with an expression (key, argument, ...) instantiated
// in the root's terms along one call chain.
type Inst struct {
	Eff   ir.Effect
	E     *ir.Expr
	Chain []ssa.Instruction
	// R: E with the alternatives taken out that contradict how the flat view of the root reaches the site (a verdict the
	// caller turned away, an ok that was false): see restrictAtSite. Equal to E when nothing is narrowed.
	R *ir.Expr
}

// instantiate computes, for every effect accepted by pred and reachable from root through
// direct calls, the expression sel(effect) expressed in root's parameters.
func instantiate(c *Ctx, root *ssa.Function, pred func(ir.Effect) bool, sel func(ir.Effect) *ir.Expr) []Inst {
	var out []Inst
	reach := c.W.Reachable([]*ssa.Function{root})
	var fs []*ssa.Function
	for f := range reach {
		fs = append(fs, f)
	}
	sort.Slice(fs, func(i, j int) bool { return fn(fs[i]) < fn(fs[j]) })
	for _, f := range fs {
		for _, e := range c.W.EffectsOf(f) {
			if !pred(e) {
				continue
			}
			x := sel(e)
			if x == nil {
				continue
			}
			if f == root {
				out = append(out, Inst{Eff: e, E: x, R: restrictAtSite(c, root, e.Site, x)})
				continue
			}
			ups := c.W.OriginsUpTo(f, x, root, 8)
			for _, up := range ups {
				ur := up.E
				if len(up.Chain) > 0 {
					ur = restrictAtSite(c, root, up.Chain[0], ur)
				}
				out = append(out, Inst{Eff: e, E: up.E, Chain: up.Chain, R: ur})
			}
			if len(ups) == 0 {
				// not reached by direct calls (a closure handed to a helper that calls it): locate the occurrences on the
				// flat view of root, where calls through function-typed parameters are resolved in context
				fr := c.W.FlatRoot(root)
				seen := map[*ir.FCtx]bool{}
				c.W.FlatWalk(fr, nil, nil, func(p ir.FPos) bool {
					if p.In == e.Site && !seen[p.Ctx] {
						seen[p.Ctx] = true
						var chain []ssa.Instruction
						for cx := p.Ctx; cx != nil && cx.Call != nil; cx = cx.Up {
							chain = append([]ssa.Instruction{cx.Call}, chain...)
						}
						out = append(out, Inst{Eff: e, E: p.Ctx.Apply(x), Chain: chain, R: p.Ctx.Apply(x)})
					}
					return true
				})
			}
		}
	}
	return out
}

// isAddrOf: e is AccAddressFromBech32(<base>.<field>)#0 for a parameter base.
func isAddrOf(e *ir.Expr, field string) bool {
	direct := e != nil && e.Op == "res" && e.Name == "0" && len(e.Args) == 1 && e.Args[0].Op == "call" && strings.HasSuffix(e.Args[0].Name, "types.AccAddressFromBech32")
	if e != nil && !direct && theWorld != nil {
		// the address may be decoded by a helper (a pair decoder returning both parties): in canonical form, ignoring the
		// zero values such a helper hands back when decoding failed
		x := theWorld.Expand(e, 4)
		if os.Getenv("MCDEBUG") == "addr" {
			fmt.Fprintln(os.Stderr, "addr", e.String(), "=>", x.String())
		}
		if nz := nonZeroAlts(x); len(nz) == 1 {
			x = nz[0]
		}
		if x != nil && x.Op == "res" && x.Name == "0" {
			e = x
		}
	}
	if e == nil || e.Op != "res" || e.Name != "0" || len(e.Args) != 1 {
		return false
	}
	c := e.Args[0]
	if c.Op != "call" || !strings.HasSuffix(c.Name, "types.AccAddressFromBech32") || len(c.Args) != 1 {
		return false
	}
	a := c.Args[0]
	return a.Op == "field" && a.Name == field && len(a.Args) == 1 && a.Args[0].Op == "param"
}

// isMsgField: e is <param>.<field>.
func isMsgField(e *ir.Expr, field string) bool {
	return e != nil && e.Op == "field" && e.Name == field && len(e.Args) == 1 && e.Args[0].Op == "param"
}

// mentionsStateField: the expression mentions <state:section(...)>.<field>.
func mentionsStateField(e *ir.Expr, section, field string) *ir.Expr {
	var found *ir.Expr
	e.Walk(func(x *ir.Expr) bool {
		if found != nil {
			return false
		}
		if isStateField(x, section, field) {
			found = x
			return false
		}
		return true
	})
	return found
}

// keyArgs returns the arguments of the key-builder call of a state/key expression.
func keyArgs(key *ir.Expr) []*ir.Expr {
	if key != nil && key.Op == "call" {
		return key.Args
	}
	return nil
}

// astInspectCalls visits every call expression of a file with the callee's full name and the
// source text of its arguments.
func astInspectCalls(file *ast.File, visit func(callee string, args []string), pk *packages.Package) {
	ast.Inspect(file, func(n ast.Node) bool {
		call, ok := n.(*ast.CallExpr)
		if !ok {
			return true
		}
		obj := ir.CalleeObj(pk, call)
		if obj == nil {
			return true
		}
		var args []string
		for _, a := range call.Args {
			args = append(args, types.ExprString(a))
		}
		visit(obj.FullName(), args)
		return true
	})
}

// chainGuarded: the occurrence(s) of `site` reached from `top` through exactly the call chain
// `chain` (top first) are unreachable once the edges establishing m are deleted — asked on the
// flat (call-expanded) view of top, so the guard may sit in top or in any helper on the way.
// When the chain cannot be followed in the flat view (a call that is not expanded), the
// question falls back to the first call of the chain inside top, as before.
func chainGuarded(c *Ctx, top *ssa.Function, chain []ssa.Instruction, site ssa.Instruction, m ir.Matcher, depth int) bool {
	w := c.W
	match := func(p ir.FPos) bool {
		if p.In != site {
			return false
		}
		var calls []ssa.Instruction
		for x := p.Ctx; x != nil && x.Call != nil; x = x.Up {
			calls = append([]ssa.Instruction{x.Call}, calls...)
		}
		if len(calls) != len(chain) {
			return false
		}
		for i := range calls {
			if calls[i] != chain[i] {
				return false
			}
		}
		return true
	}
	root := w.FlatRoot(top)
	if w.FlatReaches(root, nil, nil, match) == nil {
		first := site
		if len(chain) > 0 {
			first = chain[0]
		}
		return w.Guarded(top, first, m, depth)
	}
	return w.FlatReaches(w.FlatRoot(top), nil, &ir.FlatCut{Matcher: m, Depth: depth}, match) == nil
}

// chainOccurrence finds the occurrence of `site` reached from top through exactly `chain` in the flat view.
func chainOccurrence(c *Ctx, root *ir.FCtx, chain []ssa.Instruction, site ssa.Instruction) *ir.FPos {
	return c.W.FlatReaches(root, nil, nil, func(p ir.FPos) bool {
		if p.In != site {
			return false
		}
		n := 0
		for x := p.Ctx; x != nil && x.Call != nil; x = x.Up {
			n++
		}
		if n != len(chain) {
			return false
		}
		i := len(chain) - 1
		for x := p.Ctx; x != nil && x.Call != nil; x = x.Up {
			if ssa.Instruction(x.Call) != chain[i] {
				return false
			}
			i--
		}
		return true
	})
}

// afterMust: once the occurrence of `site` (reached through `chain`) has executed, an instruction
// accepted by req is executed before that occurrence is reached again (the next loop iteration) and
// before top returns normally — on the flat view, so the required step and the site may live in
// different helpers. found=false when the occurrence cannot be located in the flat view.
func afterMust(c *Ctx, top *ssa.Function, chain []ssa.Instruction, site ssa.Instruction, req func(*ir.FCtx, ssa.Instruction) bool) (ok, found bool) {
	w := c.W
	root := w.FlatRoot(top)
	pos := chainOccurrence(c, root, chain, site)
	if pos == nil {
		return false, false
	}
	success := map[ssa.Instruction]bool{}
	for _, r := range w.SuccessReturns(top) {
		success[r] = true
	}
	hit := w.FlatReaches(root, pos, &ir.FlatCut{Barrier: req}, func(p ir.FPos) bool {
		return p.Ctx == pos.Ctx && p.In == pos.In || p.Ctx == root && success[p.In] && !p.ReturnsFailure()
	})
	return hit == nil, true
}

// directSites: the instructions that themselves perform an effect accepted by pred (a bank or store
// call; for a helper handed the key or prefix, the call site where the section is resolved) — the
// barrier / target instructions of rules asked on the flat view.
func directSites(c *Ctx, pred func(ir.Effect) bool) func(ssa.Instruction) bool {
	set := map[ssa.Instruction]bool{}
	for _, e := range c.W.AllEffects(pred) {
		set[e.Site] = true
	}
	return func(in ssa.Instruction) bool { return set[in] }
}

// genesisFuncs: the functions that exist only for the genesis import (kind INITGEN) or export
// (EXPORTGEN) of module m: the root itself and, transitively, every function of the module reachable
// from it all of whose rooted callers are already in the set (InitGenesis proper and whatever helpers
// it was split into — but not the keeper setters/getters, which run-time code calls too).
func genesisFuncs(c *Ctx, kind, m string) map[*ssa.Function]bool {
	w := c.W
	set := map[*ssa.Function]bool{}
	roots := w.Roots[kind+":"+m]
	for _, r := range roots {
		set[r] = true
	}
	reach := w.Reachable(roots)
	for changed := true; changed; {
		changed = false
		for f := range reach {
			if set[f] || w.IsGenerated(f) || ir.ModuleOf(f) != m {
				continue
			}
			n, all := 0, true
			for _, ed := range w.Callers(f) {
				if !c.Rooted(ed.From) && !set[ed.From] {
					continue
				}
				n++
				if !set[ed.From] {
					all = false
				}
			}
			if n > 0 && all {
				set[f] = true
				changed = true
			}
		}
	}
	return set
}

// iterEndBounds is rule A11.iter-end-bound: a raw store iterator (Iterator / ReverseIterator with explicit
// bounds) must not be given an ordinary key as its end: the end bound is exclusive, so the record stored
// under that very key is silently left out (e.g. "scan up to the last recorded height" never sees the last
// record). Accepted ends: nil (whole prefix store) and PrefixEndBytes(...) of a prefix. Returns (sites, bad).
func iterEndBounds(c *Ctx, rule string, fs []*ssa.Function, report bool) (int, int) {
	w, r := c.W, c.R
	n, bad := 0, 0
	for _, f := range fs {
		for _, e := range w.EffectsOf(f) {
			if e.Kind != "StoreIter" || (e.Method != "Iterator" && e.Method != "ReverseIterator") || e.Via != nil {
				continue
			}
			args := e.Call.Common().Args
			if len(args) < 2 {
				continue
			}
			n++
			end := w.Expand(w.ExprOf(args[len(args)-1]), 2)
			ok := end.Op == "const" && end.Name == "nil" || end.Op == "zero" || end.Any(func(x *ir.Expr) bool { return x.Op == "call" && strings.HasSuffix(x.Name, "PrefixEndBytes") })
			if !ok {
				bad++
			}
			if report {
				r.Require(ok, rule, fn(f)+"|"+e.Method, pos(c, e.Site), "a raw store iterator ends at nil or at PrefixEndBytes(prefix), never at an ordinary key (the end bound is exclusive)", "end bound "+end.String())
			}
		}
	}
	return n, bad
}

// retAlt is one way a function produces result idx: the returned value in the function's own terms, and the
// return occurrence (possibly inside a helper whose result the function hands on) that produces it.
type retAlt struct {
	E    *ir.Expr
	V    ssa.Value // the value in the terms of Pos.Ctx's function
	Pos  ir.FPos
	root *ir.FCtx
	w    *ir.World
}

// Guarded: the occurrence is unreachable once the edges establishing m (in any call context) are deleted.
func (a retAlt) Guarded(m ir.Matcher, depth int) bool {
	return a.w.FlatReaches(a.root, nil, &ir.FlatCut{Matcher: m, Depth: depth}, func(p ir.FPos) bool { return p.Ctx == a.Pos.Ctx && p.In == a.Pos.In }) == nil
}

// returnAlts enumerates, on the flat view of f, the alternatives of result idx: a return whose value is the result
// of an expanded helper call is replaced by that helper's returns (recursively), so `return k.pick(ctx, x)` with the
// branch inside pick yields the same alternatives as the branch written inline.
func returnAlts(c *Ctx, f *ssa.Function, idx int) []retAlt {
	return altsOf(c, f, idx, nil, nil)
}

func altsOf(c *Ctx, f *ssa.Function, idx int, at0 ssa.Instruction, val ssa.Value) []retAlt {
	return altsOfRoot(c, c.W.FlatRoot(f), idx, at0, val)
}

// altsOfRoot: the alternatives on a given flat root (e.g. a library callback's body with its captures bound).
func altsOfRoot(c *Ctx, root *ir.FCtx, idx int, at0 ssa.Instruction, val ssa.Value) []retAlt {
	return altsAtCtx(c, root, root, idx, at0, val)
}

// altsAtCtx: the alternatives of val, a value of the function of context start (a context of root's flat view).
func altsAtCtx(c *Ctx, root, start *ir.FCtx, idx int, at0 ssa.Instruction, val ssa.Value) []retAlt {
	w := c.W
	rets := map[*ir.FCtx][]*ssa.Return{}
	seen := map[[2]any]bool{}
	w.FlatWalk(root, nil, nil, func(p ir.FPos) bool {
		if rt, ok := p.In.(*ssa.Return); ok {
			if k := [2]any{p.Ctx, p.In}; !seen[k] {
				seen[k] = true
				rets[p.Ctx] = append(rets[p.Ctx], rt)
			}
		}
		return true
	})
	var out []retAlt
	var expand func(ctx *ir.FCtx, rt *ssa.Return, i, depth int)
	var expandV func(ctx *ir.FCtx, at ssa.Instruction, v ssa.Value, depth int)
	expand = func(ctx *ir.FCtx, rt *ssa.Return, i, depth int) {
		if i >= len(rt.Results) {
			return
		}
		expandV(ctx, rt, rt.Results[i], depth)
	}
	expandV = func(ctx *ir.FCtx, at ssa.Instruction, v ssa.Value, depth int) {
		var call *ssa.Call
		j := 0
		switch x := v.(type) {
		case *ssa.Call:
			call = x
		case *ssa.Extract:
			if cl, ok := x.Tuple.(*ssa.Call); ok {
				call, j = cl, x.Index
			}
		}
		if call != nil && depth < 6 {
			// (the exported calculators and key builders of the types packages are the vocabulary rules are written in:
			// their results are leaves, not alternatives to look into)
			if kid := ctx.Child(call); kid != nil && len(rets[kid]) > 0 && !(c.altsStopVocab && ir.TypesVocabulary(kid.Fn)) {
				for _, r2 := range rets[kid] {
					expand(kid, r2, j, depth+1)
				}
				return
			}
		}
		// a field of the record an expanded helper hands back: what each of the helper's returns puts in that field
		var fbase ssa.Value
		fidx := -1
		switch y := v.(type) {
		case *ssa.Field:
			fbase, fidx = y.X, y.Field
		case *ssa.UnOp:
			if fa, ok := y.X.(*ssa.FieldAddr); ok && y.Op == token.MUL {
				if al, ok := fa.X.(*ssa.Alloc); ok {
					if src := ir.RecordSource(al, fa.Field); src != nil {
						fbase, fidx = src, fa.Field
					}
				}
			}
		}
		if fbase != nil && depth < 6 {
			var c2 *ssa.Call
			j2 := 0
			switch y := fbase.(type) {
			case *ssa.Call:
				c2 = y
			case *ssa.Extract:
				if cl, ok := y.Tuple.(*ssa.Call); ok {
					c2, j2 = cl, y.Index
				}
			}
			if c2 != nil {
				if kid := ctx.Child(c2); kid != nil && len(rets[kid]) > 0 {
					name := ir.FieldName(fbase.Type(), fidx)
					for _, r2 := range rets[kid] {
						if j2 >= len(r2.Results) {
							continue
						}
						e := ir.FieldOf(kid.Apply(w.ExprOf(r2.Results[j2])), name)
						out = append(out, retAlt{E: e, Pos: ir.FPos{Ctx: kid, In: r2}, root: root, w: w})
					}
					return
				}
			}
		}
		e := ctx.Apply(w.ExprOf(v))
		out = append(out, retAlt{E: e, V: v, Pos: ir.FPos{Ctx: ctx, In: at}, root: root, w: w})
	}
	if val != nil {
		expandV(start, at0, val, 0)
		return out
	}
	for _, rt := range rets[root] {
		expand(root, rt, idx, 0)
	}
	return out
}

// valueAlts: like returnAlts, for the value v used by instruction `at` of f (typically the result of a helper call
// that is stored or passed on): the ways the helper produces it.
func valueAlts(c *Ctx, f *ssa.Function, at ssa.Instruction, v ssa.Value) []retAlt {
	return altsOf(c, f, 0, at, v)
}

// theWorld: the program under analysis (one per process run), for matchers that have no context parameter.
var theWorld *ir.World

// SetWorld installs the program under analysis for context-free matchers.
func SetWorld(w *ir.World) { theWorld = w }

// lostUpdates is rule A3.lost-update for the functions of module m on transaction, block and genesis paths: no update is
// made to a local copy of a record and then dropped (the copy never read again) — the slip behind `for _, s := range xs
// { s.n += d }` or `s := xs[i]; s.n += d`, which silently loses an accumulation. Returns the number of field stores into
// local record copies that were judged.
func lostUpdates(c *Ctx, m string) int {
	w, r := c.W, c.R
	scope := consensusScope(c, []string{"MSG", "ANTE", "BEGIN", "END", "INITGEN", "EXPORTGEN"})
	var fs []*ssa.Function
	for f := range scope {
		if !w.IsGenerated(f) && !ir.IsFixture(f) && ir.ModuleOf(f) == m {
			fs = append(fs, f)
		}
	}
	sortFuncs(fs)
	bad := 0
	for _, f := range fs {
		ord := map[string]int{}
		for _, lu := range ir.LostUpdates(f) {
			bad++
			ord[lu.Field]++
			r.Bad("A3.lost-update", fmt.Sprintf("%s|%s.%s#%d", fn(f), lu.Alloc.Comment, lu.Field, ord[lu.Field]), pos(c, lu.Store),
				"an update made to a local copy of a record is read again or written back (otherwise the accumulation or change is silently lost)",
				"field "+lu.Field+" of the local copy "+lu.Alloc.Comment+" is assigned and the copy is never read afterwards")
		}
	}
	staleElementPointers(c, fs)
	stalePointerControl(c)
	elementCarryIn(c, m, fs)
	if bad == 0 {
		r.OK("A3.lost-update", m+"|none", "", fmt.Sprintf("no dropped update to a local record copy in the %d functions of %s on transaction, block and genesis paths", len(fs), m))
	}
	return len(fs)
}

// lostUpdateControl: the rule finds the two dropped updates of fixtures/c04 and neither of its two correct forms.
func lostUpdateControl(c *Ctx) {
	pos, neg := 0, 0
	for _, f := range c.W.Funcs {
		if !ir.IsFixture(f) || !strings.Contains(fn(f), "fixtures/c04") {
			continue
		}
		n := len(ir.LostUpdates(f))
		switch f.Name() {
		case "AddsToRangeCopy", "AddsToIndexedCopy":
			pos += n
		default:
			neg += n
		}
	}
	c.R.Control("A3.lost-update", "fixtures/c04", pos == 2 && neg == 0)
}

// isMsgFieldAll: every alternative of e is the message field, or an empty value produced where that very message field is
// known to be empty (an optional field left unset by an early return `if len(msg.F) == 0`): the value equals msg.F on
// every path.
func isMsgFieldAll(e *ir.Expr, field string) bool {
	if e == nil {
		return false
	}
	for _, a := range e.Alts() {
		if isMsgField(a, field) {
			continue
		}
		ok := false
		if a.Op == "zero" || a.Op == "const" {
			for _, q := range a.Eq {
				if isMsgField(q, field) {
					ok = true
				}
			}
		}
		if !ok {
			return false
		}
	}
	return true
}

// valueAtSite: what v (a value used by instruction site of f) can be when site executes, in f's terms — the
// alternatives the helpers on the way can hand back (valueAlts), minus those that contradict how the flat view reaches
// site: `req, ok := build(tx); if !ok { return }; use(req.payer)` never sees the empty record build returns with ok=false.
func valueAtSite(c *Ctx, f *ssa.Function, site ssa.Instruction, v ssa.Value) *ir.Expr {
	w := c.W
	root := w.FlatRoot(f)
	alts := altsOfRoot(c, root, 0, site, v)
	var occ []ir.FPos
	w.FlatWalk(root, nil, nil, func(p ir.FPos) bool {
		if p.Ctx == root && p.In == site {
			occ = append(occ, p)
		}
		return true
	})
	var keep []*ir.Expr
	for _, a := range alts {
		rt, isRet := a.Pos.In.(*ssa.Return)
		if a.Pos.Ctx == root || !isRet || len(occ) == 0 {
			keep = append(keep, a.E)
			continue
		}
		for _, p := range occ {
			if p.ConsistentReturn(w, a.Pos.Ctx, rt) {
				keep = append(keep, a.E)
				break
			}
		}
	}
	if len(keep) == 0 {
		return w.ExprOf(v)
	}
	return ir.MkPhi(keep)
}

// sameNonZeroAlts: a and b have the same alternatives once empty values are left aside (the record a helper hands back
// empty together with ok=false, which a caller that tested ok never uses).
func sameNonZeroAlts(a, b *ir.Expr) bool {
	sa, sb := map[string]bool{}, map[string]bool{}
	for _, x := range nonZeroAlts(a) {
		sa[x.String()] = true
	}
	for _, x := range nonZeroAlts(b) {
		sb[x.String()] = true
	}
	return len(sa) > 0 && sameSet(sa, sb)
}

// collectedGuard: the subject of a guard is an element of a list collected earlier (`for id in queue { ...checks...;
// list = append(list, item) }` followed by `for item in list { use(item) }`): the guard holds for the element used when it
// held for every element put into the list — each append into the list (built by appends alone) stands under a predicate
// accepted by m, in the collecting function. raw: the unexpanded origin of the subject (it still names the list).
func collectedGuard(c *Ctx, raw *ir.Expr, m ir.Matcher) bool {
	w := c.W
	found, all := false, true
	raw.Walk(func(x *ir.Expr) bool {
		if x.Op != "elem" || len(x.Args) < 1 {
			return true
		}
		sites, ok := ir.BuiltSites(w.Expand(x.Args[0], 4))
		if !ok || len(sites) == 0 {
			return true
		}
		for _, s := range sites {
			found = true
			if s.Parent() == nil || !w.Guarded(s.Parent(), s, m, 2) {
				all = false
			}
		}
		return true
	})
	return found && all
}

// guardedUp: the site stands under a guard over the given operands — in its own function, or, when the operands are
// handed in (the step was moved into a helper that is given the record or the amounts), on every call chain from the
// roots with the operands taken in the root's terms.
func guardedUp(c *Ctx, f *ssa.Function, site ssa.Instruction, ops []*ir.Expr, mk func([]*ir.Expr) ir.Matcher, roots []*ssa.Function) bool {
	w := c.W
	if w.Guarded(f, site, mk(ops), 0) {
		return true
	}
	mentionsParam := false
	for _, o := range ops {
		if o.Any(func(x *ir.Expr) bool { return x.Op == "param" }) {
			mentionsParam = true
		}
	}
	if !mentionsParam {
		return false
	}
	tup := &ir.Expr{Op: "tuple", Args: ops}
	n := 0
	for _, root := range roots {
		if root == f {
			continue
		}
		for _, up := range w.OriginsUpTo(f, tup, root, 8) {
			if len(up.Chain) == 0 || up.E.Op != "tuple" || len(up.E.Args) != len(ops) {
				continue
			}
			n++
			if !chainGuarded(c, root, up.Chain, site, mk(up.E.Args), 1) {
				return false
			}
		}
	}
	return n > 0
}

// restrictAtSite: e describes a value used when instruction site of root executes. What the helpers called in root hand
// back is described in e with all their alternatives merged; the alternatives that contradict how the flat view reaches
// site (a verdict the caller tested and turned away, an `ok` that was false) are taken out again: every helper result of
// root whose alternatives the facts at site narrow is replaced in e by the alternatives that remain.
func restrictAtSite(c *Ctx, root *ssa.Function, site ssa.Instruction, e *ir.Expr) *ir.Expr {
	if e == nil || site == nil || site.Parent() != root {
		return e
	}
	type rep struct{ old, new *ir.Expr }
	key := [2]any{root, site}
	if c.restrictMemo == nil {
		c.restrictMemo = map[[2]any][]any{}
	}
	reps, done := c.restrictMemo[key]
	if !done {
		w := c.W
		fr := w.FlatRoot(root)
		c.altsStopVocab = true
		defer func() { c.altsStopVocab = false }()
		var occ []ir.FPos
		w.FlatWalk(fr, nil, nil, func(p ir.FPos) bool {
			if p.Ctx == fr && p.In == site {
				occ = append(occ, p)
			}
			return true
		})
		if len(occ) > 0 {
			for _, b := range root.Blocks {
				for _, in := range b.Instrs {
					var u ssa.Value
					switch x := in.(type) {
					case *ssa.Extract:
						if _, ok := x.Tuple.(*ssa.Call); ok {
							u = x
						}
					case *ssa.Call:
						if x.Call.Signature().Results().Len() == 1 {
							u = x
						}
					}
					if u == nil {
						continue
					}
					alts := altsOfRoot(c, fr, 0, site, u)
					if len(alts) < 2 {
						continue
					}
					var keep []*ir.Expr
					for _, a := range alts {
						rt, isRet := a.Pos.In.(*ssa.Return)
						if a.Pos.Ctx == fr || !isRet {
							keep = append(keep, a.E)
							continue
						}
						for _, p := range occ {
							if p.ConsistentReturn(w, a.Pos.Ctx, rt) {
								keep = append(keep, a.E)
								break
							}
						}
					}
					if len(keep) > 0 && len(keep) < len(alts) {
						reps = append(reps, rep{w.ExprOf(u), ir.MkPhi(keep)})
					}
				}
			}
		}
		c.restrictMemo[key] = reps
	}
	// (a narrowed result may occur inside the description of another helper's result: later replacements are looked for
	// in their narrowed form too)
	rs := make([]rep, len(reps))
	for i, r0 := range reps {
		rs[i] = r0.(rep)
	}
	for i := range rs {
		if rs[i].old.String() == rs[i].new.String() {
			continue
		}
		e = ir.Replace(e, rs[i].old, rs[i].new)
		for j := i + 1; j < len(rs); j++ {
			rs[j].old = ir.Replace(rs[j].old, rs[i].old, rs[i].new)
			rs[j].new = ir.Replace(rs[j].new, rs[i].old, rs[i].new)
		}
	}
	return e
}
