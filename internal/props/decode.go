package props

import (
	"fmt"
	"go/token"
	"strings"

	"golang.org/x/tools/go/ssa"

	"mcverif/internal/ir"
)

// decodeFresh is rule A12.decode-fresh: a stored record is decoded into a destination that holds nothing yet.
//
// The generated Unmarshal of a protobuf message (and the codec's Unmarshal/MustUnmarshal built on it) fills in the
// fields present in the bytes and leaves the others as they are: decoding a second record into a variable that already
// received a first one hands back a mixture (an empty name, a zero height or an unset flag in the second record keeps the
// first record's value). So between two decodes into the same destination the destination is created anew (the
// declaration is executed again, as it is for a variable declared inside the loop body) or cleared (Reset, or a store of a
// whole new value).
//
// For every decode call D in the functions given: the destination's root is found (a local variable, possibly through a
// field address; a parameter: the rule moves to the callers; a variable of the enclosing function captured by a function
// literal that is handed on as a callback: the callback runs once per record). It is violated when some decode into the
// same root (D itself, around a loop, included) can be followed by D without passing the root's creation or a clearing.
func decodeFresh(c *Ctx, mods ...string) {
	r := c.R
	n := 0
	desc := "the destination of a decode holds nothing yet (it is created or cleared between two decodes into it)"
	for _, m := range mods {
		for _, f := range moduleFuncs(c, m) {
			for _, d := range decodeFindings(c, f) {
				n++
				key := fmt.Sprintf("%s|%s|%d", m, fn(f), d.ord)
				switch {
				case d.undecided:
					r.Undecided("A12.decode-fresh", key, pos(c, d.in), desc, d.detail)
				default:
					r.Require(d.detail == "", "A12.decode-fresh", key, pos(c, d.in), desc, d.detail)
				}
			}
		}
	}
	r.Floor("decodes of stored records", n, 6*len(mods))
	decodeFreshControl(c)
}

type decodeFinding struct {
	in        ssa.Instruction
	ord       int
	undecided bool
	detail    string // "" = fresh
}

// decodeDest: the destination operand of a decode call (nil when the call is not one).
func decodeDest(call ssa.CallInstruction) ssa.Value {
	name := methodNameOf(call)
	if !(strings.HasPrefix(name, "Unmarshal") || strings.HasPrefix(name, "MustUnmarshal")) {
		return nil
	}
	if strings.Contains(name, "Interface") || strings.Contains(name, "JSON") || strings.Contains(name, "Any") {
		// (an interface destination is replaced as a whole; JSON decoding happens once per genesis document)
		return nil
	}
	cc := call.Common()
	args := cc.Args
	if cc.IsInvoke() {
		// codec.BinaryCodec.Unmarshal(bz, ptr)
		if len(args) == 2 {
			return args[1]
		}
		return nil
	}
	sc := cc.StaticCallee()
	if sc == nil {
		return nil
	}
	if sc.Signature.Recv() != nil {
		switch len(args) {
		case 2: // (*T).Unmarshal(bz): the receiver
			return args[0]
		case 3: // (*ProtoCodec).Unmarshal(bz, ptr)
			return args[2]
		}
		return nil
	}
	if len(args) == 2 { // proto.Unmarshal(bz, msg)
		return args[1]
	}
	return nil
}

// destRoot strips interface boxing, conversions and field addresses.
func destRoot(v ssa.Value) ssa.Value {
	for i := 0; i < 12; i++ {
		switch x := v.(type) {
		case *ssa.MakeInterface:
			v = x.X
		case *ssa.ChangeInterface:
			v = x.X
		case *ssa.ChangeType:
			v = x.X
		case *ssa.Convert:
			v = x.X
		case *ssa.FieldAddr:
			v = x.X
		case *ssa.IndexAddr:
			v = x.X
		default:
			return v
		}
	}
	return v
}

// decodeFindings checks the decodes in f (a call of a helper that decodes into what it is handed counts as a decode into
// that argument).
func decodeFindings(c *Ctx, f *ssa.Function) []decodeFinding {
	w := c.W
	var out []decodeFinding
	type dec struct {
		in   ssa.Instruction
		root ssa.Value
	}
	var decs []dec
	for _, b := range f.Blocks {
		for _, in := range b.Instrs {
			call, ok := in.(ssa.CallInstruction)
			if !ok {
				continue
			}
			if d := decodeDest(call); d != nil {
				decs = append(decs, dec{in, destRoot(d)})
				continue
			}
			// a helper of the repository that decodes into what it is handed (decode(bz, &x))
			for _, g := range w.CalleesOf(call) {
				if g == nil || len(g.Blocks) == 0 || ir.FnPkg(g) == nil || !strings.HasPrefix(ir.RelPkg(ir.FnPkg(g).Path()), "x/") || w.IsGenerated(g) {
					continue
				}
				for pi, p := range g.Params {
					if decodesInto(c, g, p, 0) {
						args := call.Common().Args
						if call.Common().IsInvoke() {
							continue
						}
						if pi < len(args) {
							decs = append(decs, dec{in, destRoot(args[pi])})
						}
					}
				}
			}
		}
	}
	for i, d := range decs {
		if _, isParam := d.root.(*ssa.Parameter); isParam {
			continue // examined at the callers (the helper case above)
		}
		fd := decodeFinding{in: d.in, ord: i + 1}
		switch root := d.root.(type) {
		case *ssa.FreeVar:
			// a variable of the enclosing function: fresh only if this literal is called at most once per creation of
			// the variable; a literal handed on as a callback is called once per record
			if !clearedBefore(f, d.in, root) && escapesAsCallback(f) {
				fd.detail = "decodes into " + root.Name() + ", a variable of the enclosing function, inside a function literal that runs once per record (a field absent from a record keeps the previous record's value)"
			}
		case *ssa.Global:
			if !clearedBefore(f, d.in, root) {
				fd.detail = "decodes into the package variable " + root.Name()
			}
		default:
			rin, isInstr := root.(ssa.Instruction)
			if !isInstr {
				fd.undecided, fd.detail = true, fmt.Sprintf("destination %v not resolved", root)
				break
			}
			for _, d2 := range decs {
				if d2.root != d.root {
					continue
				}
				if instrPathAvoiding(d2.in, d.in, func(x ssa.Instruction) bool { return x == rin || clears(x, root) }) {
					fd.detail = "the decode at " + pos(c, d2.in) + " into the same variable can be followed by this one without the variable being created anew or cleared (a field absent from the second record keeps the first record's value)"
					break
				}
			}
		}
		out = append(out, fd)
	}
	return out
}

// decodesInto: g decodes into its parameter p (directly or through one more helper).
func decodesInto(c *Ctx, g *ssa.Function, p *ssa.Parameter, depth int) bool {
	if depth > 2 {
		return false
	}
	for _, b := range g.Blocks {
		for _, in := range b.Instrs {
			call, ok := in.(ssa.CallInstruction)
			if !ok {
				continue
			}
			if d := decodeDest(call); d != nil && destRoot(d) == ssa.Value(p) {
				return true
			}
			if sc := call.Common().StaticCallee(); sc != nil && len(sc.Blocks) > 0 && !call.Common().IsInvoke() {
				for ai, a := range call.Common().Args {
					if destRoot(a) == ssa.Value(p) && ai < len(sc.Params) && decodesInto(c, sc, sc.Params[ai], depth+1) {
						return true
					}
				}
			}
		}
	}
	return false
}

// clears: x resets the variable root (root.Reset(), or a store of a whole value to it).
func clears(x ssa.Instruction, root ssa.Value) bool {
	switch y := x.(type) {
	case *ssa.Store:
		return y.Addr == root
	case ssa.CallInstruction:
		cc := y.Common()
		if methodNameOf(y) == "Reset" {
			if cc.IsInvoke() {
				return destRoot(cc.Value) == root
			}
			if len(cc.Args) > 0 {
				return destRoot(cc.Args[0]) == root
			}
		}
	}
	return false
}

// clearedBefore: every path from the entry of f to `in` passes a clearing of root.
func clearedBefore(f *ssa.Function, in ssa.Instruction, root ssa.Value) bool {
	if len(f.Blocks) == 0 || len(f.Blocks[0].Instrs) == 0 {
		return false
	}
	first := f.Blocks[0].Instrs[0]
	if first == in {
		return false
	}
	if clears(first, root) {
		return true
	}
	return !instrPathAvoiding(first, in, func(x ssa.Instruction) bool { return clears(x, root) })
}

// escapesAsCallback: the function literal f is used other than by being called on the spot.
func escapesAsCallback(f *ssa.Function) bool {
	p := f.Parent()
	if p == nil {
		return false
	}
	for _, b := range p.Blocks {
		for _, in := range b.Instrs {
			mc, ok := in.(*ssa.MakeClosure)
			if !ok || mc.Fn != ssa.Value(f) {
				continue
			}
			refs := mc.Referrers()
			if refs == nil {
				return true
			}
			for _, u := range *refs {
				call, isCall := u.(ssa.CallInstruction)
				if isCall && call.Common().Value == ssa.Value(mc) {
					if _, isDefer := u.(*ssa.Defer); isDefer {
						continue
					}
					// called on the spot: still once per execution of the enclosing code; in a loop the enclosing
					// variable may be older than the iteration, which instrPathAvoiding cannot see from here
					if inCycle(u.Block()) {
						return true
					}
					continue
				}
				return true
			}
		}
	}
	return false
}

func inCycle(b *ssa.BasicBlock) bool {
	seen := map[*ssa.BasicBlock]bool{}
	work := append([]*ssa.BasicBlock{}, b.Succs...)
	for len(work) > 0 {
		x := work[len(work)-1]
		work = work[:len(work)-1]
		if x == b {
			return true
		}
		if seen[x] {
			continue
		}
		seen[x] = true
		work = append(work, x.Succs...)
	}
	return false
}

// instrPathAvoiding: some execution path leads from just after `from` to `to` without passing an instruction for which
// stop holds (`to` itself is not tested).
func instrPathAvoiding(from, to ssa.Instruction, stop func(ssa.Instruction) bool) bool {
	fb := from.Block()
	if fb == nil || to.Block() == nil {
		return false
	}
	idx := func(in ssa.Instruction) int {
		for i, x := range in.Block().Instrs {
			if x == in {
				return i
			}
		}
		return -1
	}
	// scan block b from position i: reached `to`?; blocked?
	scan := func(b *ssa.BasicBlock, i int) (found, blocked bool) {
		for ; i < len(b.Instrs); i++ {
			if b.Instrs[i] == to {
				return true, false
			}
			if stop(b.Instrs[i]) {
				return false, true
			}
		}
		return false, false
	}
	found, blocked := scan(fb, idx(from)+1)
	if found {
		return true
	}
	if blocked {
		return false
	}
	seen := map[*ssa.BasicBlock]bool{}
	work := append([]*ssa.BasicBlock{}, fb.Succs...)
	for len(work) > 0 {
		b := work[len(work)-1]
		work = work[:len(work)-1]
		if seen[b] {
			continue
		}
		seen[b] = true
		found, blocked := scan(b, 0)
		if found {
			return true
		}
		if blocked {
			continue
		}
		work = append(work, b.Succs...)
	}
	return false
}

// decodeFreshControl: the rule reports the shared-variable forms of the fixture and not their correct siblings.
func decodeFreshControl(c *Ctx) {
	posN, negN, seen := 0, 0, 0
	for _, f := range c.W.Funcs {
		if !ir.IsFixture(f) || !strings.Contains(fn(f), "fixtures/c09") {
			continue
		}
		top := f
		for top.Parent() != nil {
			top = top.Parent()
		}
		for _, d := range decodeFindings(c, f) {
			seen++
			bad := d.detail != ""
			switch top.Name() {
			case "SharedAcrossLoop", "SharedInCallback":
				if bad {
					posN++
				}
			case "TwoInARow":
				if bad {
					posN++
				}
			default:
				if bad {
					negN++
				}
			}
		}
	}
	c.R.Control("A12.decode-fresh", "fixtures/c09", posN == 3 && negN == 0 && seen == 7)
}

// notFresh: why some return of g may hand back a value that existed before the call ("" when every return is a value
// created during the call).
func notFresh(g *ssa.Function, depth int) string {
	if g == nil || len(g.Blocks) == 0 || depth > 3 {
		return "constructor body not available"
	}
	var curRet *ssa.Return
	var fresh func(v ssa.Value, seen map[ssa.Value]bool) string
	fresh = func(v ssa.Value, seen map[ssa.Value]bool) string {
		if seen[v] {
			return ""
		}
		seen[v] = true
		switch x := v.(type) {
		case *ssa.Alloc:
			return ""
		case *ssa.MakeInterface:
			return fresh(x.X, seen)
		case *ssa.ChangeType:
			return fresh(x.X, seen)
		case *ssa.ChangeInterface:
			return fresh(x.X, seen)
		case *ssa.Phi:
			for _, e := range x.Edges {
				if why := fresh(e, seen); why != "" {
					return why
				}
			}
			return ""
		case *ssa.Call:
			if sc := x.Common().StaticCallee(); sc != nil && !x.Common().IsInvoke() && len(sc.Blocks) > 0 && sc.Signature.Results().Len() == 1 {
				return notFresh(sc, depth+1)
			}
			return "returns the result of " + x.Common().String()
		case *ssa.UnOp:
			// a value kept between calls is as good as new when every way to this return last put a new value there or
			// cleared the kept one (`if c.spare == nil { c.spare = &T{} } else { c.spare.Reset() }`)
			if fa, ok := x.X.(*ssa.FieldAddr); ok && x.Op == token.MUL && curRet != nil {
				same := func(a ssa.Value) bool {
					fb, ok := a.(*ssa.FieldAddr)
					return ok && fb.X == fa.X && fb.Field == fa.Field
				}
				renewed := func(in ssa.Instruction) bool {
					switch y := in.(type) {
					case *ssa.Store:
						if same(y.Addr) {
							_, isAlloc := y.Val.(*ssa.Alloc)
							return isAlloc
						}
					case *ssa.Call:
						if methodNameOf(y) == "Reset" && !y.Call.IsInvoke() && len(y.Call.Args) == 1 {
							if ld, ok := y.Call.Args[0].(*ssa.UnOp); ok && ld.Op == token.MUL && same(ld.X) {
								return true
							}
						}
					}
					return false
				}
				if !ir.Reaches(g, curRet, ir.Cut{Barrier: renewed}) {
					return ""
				}
			}
			return "returns a value read from " + x.X.String() + " (" + x.X.Name() + "), which outlives the call"
		}
		return "returns " + v.String() + ", not a value created in the call"
	}
	for _, b := range g.Blocks {
		ret, ok := b.Instrs[len(b.Instrs)-1].(*ssa.Return)
		if !ok || len(ret.Results) != 1 {
			continue
		}
		curRet = ret
		if why := fresh(ret.Results[0], map[ssa.Value]bool{}); why != "" {
			return why
		}
	}
	return ""
}
