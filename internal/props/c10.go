package props

import (
	"fmt"
	"go/token"
	"go/types"
	"os"
	"sort"
	"strings"

	"golang.org/x/tools/go/ssa"

	"mcverif/internal/ir"
)

func init() {
	Registry["C10"] = C10
	Registry["C11"] = C11
	Registry["C12"] = C12
}

func isStreamField(e *ir.Expr, field string) bool {
	if e == nil {
		return false
	}
	ok := false
	n := 0
	for _, a := range e.Alts() {
		if a.Op == "zero" {
			continue
		}
		n++
		if isStateField(a, secStreams, field) {
			ok = true
		} else {
			return false
		}
	}
	return ok && n > 0
}

// streamFieldX: like isStreamField after expansion (the stream may have been loaded by a getter).
func streamFieldX(c *Ctx, e *ir.Expr, field string) bool {
	return isStreamField(c.W.Expand(e, 3), field)
}

// depositPositive: predicate "stream.Deposit.Amount > 0" holds.
func depositPositive(c *Ctx) ir.Matcher {
	// "the stored deposit is positive", however it is spelled: Amount.GT(0), 0.LT(Amount), !Amount.LTE(0),
	// Amount.IsPositive(), Deposit.IsPositive()
	isDepAmount := func(e *ir.Expr) bool {
		a := c.W.Expand(e, 3)
		if a.Op == "field" && a.Name == "Amount" && len(a.Args) == 1 && isStreamField(a.Args[0], "Deposit") {
			return true
		}
		// Amount of Deposit after phi distribution
		n := 0
		for _, x := range a.Alts() {
			if x.Op == "zero" {
				continue
			}
			n++
			if !(x.Op == "field" && x.Name == "Amount" && len(x.Args) == 1 && isStateField(x.Args[0], secStreams, "Deposit")) {
				return false
			}
		}
		return n > 0
	}
	return func(p ir.Pred) bool {
		if p.E == nil || p.E.Op != "call" {
			return false
		}
		if intCmpIs(p, ">", isDepAmount, isZeroInt) {
			return true
		}
		if p.Pol && calleeIs(p.E, "math.Int).IsPositive") && len(p.E.Args) == 1 && isDepAmount(p.E.Args[0]) {
			return true
		}
		if p.Pol && calleeIs(p.E, "types.Coin).IsPositive") && len(p.E.Args) == 1 && isStreamField(c.W.Expand(p.E.Args[0], 3), "Deposit") {
			return true
		}
		return false
	}
}

func isZeroInt(e *ir.Expr) bool {
	if e.Op == "call" && (strings.HasSuffix(e.Name, "NewIntFromUint64") || strings.HasSuffix(e.Name, "types.NewInt") || strings.HasSuffix(e.Name, "math.NewInt") || strings.HasSuffix(e.Name, "ZeroInt")) {
		return len(e.Args) == 0 || e.Args[len(e.Args)-1].Op == "const" && e.Args[len(e.Args)-1].Name == "0"
	}
	return false
}

func calleeIs(e *ir.Expr, suffix string) bool {
	return e != nil && e.Op == "call" && strings.HasSuffix(e.Name, suffix)
}

// intMul: e as the big-integer product a.Mul(b); a.MulRaw(n) is a.Mul(NewInt(n)).
func intMul(e *ir.Expr) (*ir.Expr, bool) {
	if calleeIs(e, "math.Int).Mul") && len(e.Args) == 2 {
		return e, true
	}
	if calleeIs(e, "math.Int).MulRaw") && len(e.Args) == 2 {
		ne := *e
		ne.Name = strings.TrimSuffix(e.Name, "Raw")
		ne.Args = []*ir.Expr{e.Args[0], {Op: "call", Name: "github.com/cosmos/cosmos-sdk/types.NewInt", Args: []*ir.Expr{e.Args[1]}}}
		return &ne, true
	}
	return e, false
}

func C10(c *Ctx) {
	w, r := c.W, c.R
	r.Explanation = "(A1) bank movements naming the stream module account and writes/deletes of the stream section are reachable only from the stream MsgServer (and genesis import for the section); " +
		"(A3) pairing with one origin: top-up sends NewCoins(d) from the sender to the module before storing Deposit := Deposit.Add(d) on every success path; a claim pays the fee collector and the receiver the two results of the fee-split function applied to the claim total, stores Deposit := the remaining-deposit result of the claim-amount function applied to the stored deposit, the payouts being skipped only on amount == 0; cancel settles first, refunds the reloaded remaining deposit to the sender and deletes the stream on every success path; " +
		"(affine split) both pure split functions return, on every return edge, two coins whose sum is syntactically the input (X−Y with Y, or X with a zero coin); (A5/A2) the stream account is a blocked recipient and stream creation rejects blocked receivers; genesis import returns only when balances equal Σ deposits; (A8) no bank error is dropped. Σ-over-streams and rounding are not decided."
	r.Rules = []string{"A1.escrow-moves", "A1.stream-writers", "A3.topup-pairing", "A3.claim-pairing", "A3.cancel-pairing", "AFF.split", "A5.blocked-addresses", "A2.blocked-receiver", "A3.no-stale-writeback", "A2.genesis-balance", "A8.bank-errors", "A3.lost-update", "A3.stale-element-pointer", "A3.element-carry", "A7.fee-formula", "A7.export-complete", "A6.no-params-cache", "A3.settle-before-change", "A4.last-outflow-writers", "A3.restart-resets-outflow"}
	lostUpdateControl(c)
	r.Floor("functions of stream scanned for dropped updates to record copies", lostUpdates(c, "stream"), 15)
	r.Trusted = []string{"bank transfers move exactly the given coins or fail", "bank refuses transfers to blocked addresses", "sdk.Coin Add/Sub arithmetic"}
	r.NotDecided = []string{"escrow == Σ deposits as a numeric invariant over histories", "floor rounding of the validator fee"}

	all := []string{"MSG:stream"}
	m := escrowMoves(c, "A1.escrow-moves", "stream", map[string][]string{
		"SendCoinsFromAccountToModule:to":   all,
		"SendCoinsFromModuleToAccount:from": all,
		"SendCoinsFromModuleToModule:from":  all,
	})
	r.Floor("bank movements naming the stream account", m, 6)
	n := whoMayReach(c, "A1.stream-writers", "writes of the stream section", func(e ir.Effect) bool { return e.Kind == "StoreWrite" && e.Section == secStreams }, []string{"MSG:stream", "INITGEN:stream"})
	n += whoMayReach(c, "A1.stream-writers", "deletes of the stream section", func(e ir.Effect) bool { return e.Kind == "StoreDelete" && e.Section == secStreams }, []string{"MSG:stream.CancelStream"})
	r.Floor("root/stream-writer pairs", n, 6)

	topUpPairing(c)
	claimPairing(c)
	cancelPairing(c)
	affineSplit(c, "x/stream/types.CalculateValidatorFee", 1)
	feeFormula(c)
	affineSplit(c, "x/stream/types.CalculateAmountToClaim", 3)
	blockedAddresses(c, []string{"stream"})
	// escrow equals the sum of deposits across a restart: the export lists every stream whose deposit the escrow still holds
	exportComplete(c, "stream")
	// the fee rate applied is the stored parameter (no copy of the params kept by a keeper)
	noParamsCache(c)
	// a stream's deposit goes down only where the settlement moves the coins out: the settlement orderings of C11
	settleRules(c)
	// create rejects blocked receivers
	if h := handlerOf(c, "stream", "CreateStream"); h != nil {
		for i, s := range mutatingSites(c, h, isStateMutation) {
			g := w.Guarded(h, s, func(p ir.Pred) bool {
				return !p.Pol && calleeIs(p.E, ".BlockedAddr") && len(p.E.Args) == 2 && isAddrOf(p.E.Args[1], "Receiver")
			}, 1)
			r.Require(g, "A2.blocked-receiver", fmt.Sprintf("site%d:%s", i, siteName(c, s)), pos(c, s), "a stream is created only when the receiver is not a blocked address", "reachable without the BlockedAddr(receiver) check")
		}
	}
	genesisBalance(c, "stream")
	bankErrors(c, "stream")
	// no lost update of a stream record (a stale Deposit written back re-creates funds the settlement already paid out)
	ns := staleWriteback(c, "A3.no-stale-writeback", moduleFuncs(c, "stream"), secStreams, "stream")
	r.Floor("stream write-backs of a read record", ns, 2)
}

// moduleFuncs: the non-generated functions of x/<m>/keeper and x/<m> (handlers, genesis, blockers).
func moduleFuncs(c *Ctx, m string) []*ssa.Function {
	var out []*ssa.Function
	for _, f := range c.W.Funcs {
		if c.W.IsGenerated(f) || ir.IsFixture(f) || ir.FnPkg(f) == nil {
			continue
		}
		rel := ir.RelPkg(ir.FnPkg(f).Path())
		if rel == "x/"+m+"/keeper" || rel == "x/"+m {
			out = append(out, f)
		}
	}
	sortFuncs(out)
	return out
}

// streamWriter finds the keeper function (not the handler) whose own body both performs a bank
// move of the given method and stores the stream.
func funcsWith(c *Ctx, module string, pred func(ir.Effect) bool) []*ssa.Function {
	var out []*ssa.Function
	for _, f := range c.W.Funcs {
		if ir.ModuleOf(f) != module || c.W.IsGenerated(f) || !c.Rooted(f) {
			continue
		}
		for _, e := range c.W.EffectsOf(f) {
			if pred(e) {
				out = append(out, f)
				break
			}
		}
	}
	return out
}

func topUpPairing(c *Ctx) {
	w, r := c.W, c.R
	// asked on the flat view of the top-up step (found by what it does): the transfer, the settlement and the store may
	// each stand in it or in a helper
	fs := topUpSteps(c)
	r.Floor("functions debiting a stream sender", len(fs), 1)
	claimFn := map[*ssa.Function]bool{}
	for _, g := range claimSteps(c) {
		claimFn[g] = true
	}
	inClaim := func(ctx *ir.FCtx) bool {
		for x := ctx; x != nil; x = x.Up {
			if claimFn[x.Fn] {
				return true
			}
		}
		return false
	}
	canon := func(e *ir.Expr) *ir.Expr {
		if e == nil {
			return nil
		}
		return w.ExpandKeep(e, 6, ir.TypesVocabulary)
	}
	isSendI := directSites(c, func(e ir.Effect) bool {
		return e.Method == "SendCoinsFromAccountToModule" && ir.ModuleOf(e.Fn) == "stream"
	})
	isSetI := directSites(c, func(e ir.Effect) bool { return e.Kind == "StoreWrite" && e.Section == secStreams })
	effOf := map[ssa.Instruction]ir.Effect{}
	for _, e := range w.AllEffects(func(e ir.Effect) bool { return e.Kind == "StoreWrite" && e.Section == secStreams }) {
		effOf[e.Site] = e
	}
	for _, f := range fs {
		key := fn(f)
		root := w.FlatRoot(f)
		success := map[ssa.Instruction]bool{}
		for _, rt := range w.SuccessReturns(f) {
			success[rt] = true
		}
		okReturn := func(p ir.FPos) bool { return p.Ctx == root && success[p.In] && !p.ReturnsFailure() }
		isSend := func(_ *ir.FCtx, in ssa.Instruction) bool { return isSendI(in) }
		// the settlement claim also stores the stream; the deposit store is the one made outside the claim step
		isDepositSet := func(cx *ir.FCtx, in ssa.Instruction) bool { return isSetI(in) && !inClaim(cx) }
		var sends, sets []ir.FPos
		seen := map[[2]any]bool{}
		w.FlatWalk(root, nil, nil, func(p ir.FPos) bool {
			k := [2]any{p.Ctx, p.In}
			if seen[k] {
				return true
			}
			if isSend(p.Ctx, p.In) {
				seen[k] = true
				sends = append(sends, p)
			}
			if isDepositSet(p.Ctx, p.In) {
				seen[k] = true
				sets = append(sets, p)
			}
			return true
		})
		if len(sends) != 1 {
			r.Bad("A3.topup-pairing", key+"|send-site", w.Pos(f.Pos()), "the top-up step debits the sender with one transfer", fmt.Sprintf("%d transfer occurrence(s)", len(sends)))
			continue
		}
		send := sends[0]
		bad := w.FlatReaches(root, nil, &ir.FlatCut{Barrier: isSend}, okReturn)
		r.Require(bad == nil, "A3.topup-pairing", key+"|must-send", pos(c, send.In), "a successful top-up always transfers the deposit from the sender to the module account", "a success return is reachable without the transfer")
		bad = w.FlatReaches(root, nil, &ir.FlatCut{Barrier: isDepositSet}, okReturn)
		r.Require(bad == nil && len(sets) > 0, "A3.topup-pairing", key+"|must-store", pos(c, send.In), "a successful top-up always stores the increased deposit", "a success return is reachable without the store")
		bad = w.FlatReaches(root, nil, &ir.FlatCut{Barrier: isSend}, func(p ir.FPos) bool { return isDepositSet(p.Ctx, p.In) })
		r.Require(bad == nil, "A3.topup-pairing", key+"|send<store", pos(c, send.In), "the deposit is credited only after the transfer succeeded", "the stream can be stored without the transfer")
		apply := func(p ir.FPos, e *ir.Expr) *ir.Expr {
			if e == nil {
				return nil
			}
			if p.Ctx != root {
				e = p.Ctx.Apply(e)
			}
			return canon(e)
		}
		coins := apply(send, w.ExprOf(send.In.(ssa.CallInstruction).Common().Args[3]))
		var d *ir.Expr
		if calleeIs(coins, "types.NewCoins") && len(coins.Args) == 1 && coins.Args[0].Op == "list" && len(coins.Args[0].Args) == 1 {
			d = coins.Args[0].Args[0]
		}
		r.Require(d != nil && isParamPath(d), "A3.topup-pairing", key+"|amount-sent", pos(c, send.In), "the coins transferred are exactly the top-up amount", fmt.Sprint(coins))
		for _, s := range sets {
			eff, ok := effOf[s.In]
			if !ok {
				continue
			}
			st := apply(s, marshalArg(c, eff))
			dep := canon(fieldOfStruct(st, "Deposit"))
			okd := dep != nil && calleeIs(dep, "types.Coin).Add") && len(dep.Args) == 2 && d != nil && dep.Args[1].String() == d.String() && streamFieldX(c, dep.Args[0], "Deposit")
			r.Require(okd, "A3.topup-pairing", key+"|deposit+=d", pos(c, s.In), "the stored Deposit is (stored deposit).Add(the amount transferred)", fmt.Sprint(dep))
		}
	}
}

func claimPairing(c *Ctx) {
	w, r := c.W, c.R
	// the claim step: the function that computes the claim amount (the two payouts and the store of the reduced
	// deposit may stand in it or in helpers it calls: everything below is asked on its flat view, with the
	// expressions of helper-level sites lifted to its terms)
	fs := claimSteps(c)
	r.Floor("functions computing a claim", len(fs), 1)
	// expressions are compared in canonical form: helpers and getters expanded down to state reads, the exported
	// calculators of the types package (the vocabulary of this rule) left in place
	canon := func(e *ir.Expr) *ir.Expr {
		if e == nil {
			return nil
		}
		return w.ExpandKeep(e, 6, ir.TypesVocabulary)
	}
	for _, f := range fs {
		key := fn(f)
		one := func(coins *ir.Expr) *ir.Expr {
			coins = canon(coins)
			if calleeIs(coins, "types.NewCoins") && len(coins.Args) == 1 && coins.Args[0].Op == "list" && len(coins.Args[0].Args) == 1 {
				return coins.Args[0].Args[0]
			}
			return coins
		}
		pay := func(method string) []Inst {
			return instantiate(c, f, func(e ir.Effect) bool { return e.Method == method && ir.ModuleOf(e.Fn) == "stream" }, func(e ir.Effect) *ir.Expr { return w.ExprOf(e.Call.Common().Args[3]) })
		}
		feePays, recvPays := pay("SendCoinsFromModuleToModule"), pay("SendCoinsFromModuleToAccount")
		// (a payout may be written at several places, one per arm of a routing switch: they pay the same amount and no path
		// passes two of them)
		once := func(ps []Inst) string {
			if len(ps) == 0 {
				return "no such payout"
			}
			first := ""
			for i, p := range ps {
				a := canon(p.R).String()
				if i == 0 {
					first = a
				} else if a != first {
					return fmt.Sprintf("the payouts at %s and %s differ in amount", pos(c, ps[0].Eff.Site), pos(c, p.Eff.Site))
				}
			}
			if len(ps) > 1 {
				is := map[ssa.Instruction]bool{}
				for _, p := range ps {
					is[p.Eff.Site] = true
				}
				root := w.FlatRoot(f)
				for _, occ := range w.FlatOccurrences(root, func(in ssa.Instruction) bool { return is[in] }) {
					occ := occ
					if hit := w.FlatReaches(root, &occ, nil, func(q ir.FPos) bool { return is[q.In] && !(q.In == occ.In && q.Ctx == occ.Ctx) }); hit != nil {
						return fmt.Sprintf("a path pays at %s and again at %s", pos(c, occ.In), pos(c, hit.In))
					}
				}
			}
			return ""
		}
		if d1, d2 := once(feePays), once(recvPays); d1 != "" || d2 != "" {
			r.Bad("A3.claim-pairing", key+"|sites", w.Pos(f.Pos()), "the claim step pays the fee collector and the receiver, once each", fmt.Sprintf("fee collector: %s; receiver: %s (%d fee payout site(s), %d receiver payout site(s))", d1, d2, len(feePays), len(recvPays)))
			continue
		}
		feePay, recvPay := feePays[0], recvPays[0]
		feeSites, recvSites := map[ssa.Instruction]bool{}, map[ssa.Instruction]bool{}
		for _, p := range feePays {
			feeSites[p.Eff.Site] = true
		}
		for _, p := range recvPays {
			recvSites[p.Eff.Site] = true
		}
		// (what the payouts are when they execute: a verdict helper's empty results for the verdicts the step turns away do not count)
		fee, rcv := one(feePay.R), one(recvPay.R)
		split := func(e *ir.Expr, idx string) *ir.Expr {
			if e.Op == "res" && e.Name == idx && calleeIs(e.Args[0], "types.CalculateValidatorFee") {
				return e.Args[0]
			}
			return nil
		}
		sf, sr := split(fee, "1"), split(rcv, "0")
		okSplit := sf != nil && sr != nil && sf.String() == sr.String()
		r.Require(okSplit, "A3.claim-pairing", key+"|split", pos(c, feePay.Eff.Site), "fee and receiver payouts are the two results of one fee-split call", fmt.Sprintf("fee=%s receiver=%s", fee, rcv))
		var total *ir.Expr
		if okSplit && len(sf.Args) == 2 {
			total = sf.Args[1]
			rate := w.Expand(sf.Args[0], 3)
			okRate := false
			for _, a := range rate.Alts() {
				if isStateField(a, "x/stream/types.ParamsKey", "ValidatorFee") {
					okRate = true
				}
			}
			r.Require(okRate, "A3.claim-pairing", key+"|rate", pos(c, feePay.Eff.Site), "the fee rate is the stored params.ValidatorFee", rate.String())
		}
		okTotal := total != nil && total.Op == "res" && total.Name == "0" && calleeIs(total.Args[0], "types.CalculateAmountToClaim")
		r.Require(okTotal, "A3.claim-pairing", key+"|total", pos(c, feePay.Eff.Site), "the amount split is the claim total computed from the stored stream", fmt.Sprint(total))
		// stored deposit := remaining
		isStreamWrite := func(e ir.Effect) bool { return e.Kind == "StoreWrite" && e.Section == secStreams }
		sets := instantiate(c, f, isStreamWrite, func(e ir.Effect) *ir.Expr { return marshalArg(c, e) })
		for _, s := range sets {
			st := s.R
			dep := canon(fieldOfStruct(st, "Deposit"))
			ok := dep != nil && okTotal && dep.Op == "res" && dep.Name == "1" && (dep.Args[0].String() == total.Args[0].String() || ir.StripZeroAlts(dep.Args[0]).String() == ir.StripZeroAlts(total.Args[0]).String())
			r.Require(ok, "A3.claim-pairing", key+"|deposit:=remaining", pos(c, s.Eff.Site), "the stored Deposit is the remaining-deposit result of the same claim computation", fmt.Sprint(dep))
			if okTotal {
				ca := total.Args[0].Args
				okIn := len(ca) == 5 && isBlockTime(ca[0]) && streamFieldX(c, ca[1], "DepositZeroTime") && streamFieldX(c, ca[2], "LastOutflowTime") && streamFieldX(c, ca[3], "Deposit") && streamFieldX(c, ca[4], "FlowRate")
				r.Require(okIn, "A3.claim-pairing", key+"|inputs", pos(c, s.Eff.Site), "the claim is computed from block time and the stored DepositZeroTime, LastOutflowTime, Deposit and FlowRate (in that order)", total.Args[0].String())
			}
			lo := canon(fieldOfStruct(st, "LastOutflowTime"))
			r.Require(lo != nil && isBlockTime(lo), "A3.claim-pairing", key+"|last-outflow", pos(c, s.Eff.Site), "a claim sets LastOutflowTime to the block time", fmt.Sprint(lo))
		}
		isSet := directSites(c, isStreamWrite)
		bad := w.FlatMustPassM(f, isSet, nil)
		r.Require(len(bad) == 0 && len(sets) > 0, "A3.claim-pairing", key+"|must-store", w.Pos(f.Pos()), "every successful claim stores the reduced deposit", fmt.Sprintf("%d success return(s) without the store", len(bad)))
		// payouts skipped only when the amount is zero (the test may stand next to the payout, in a helper: the
		// predicate is matched in each call context, in the claim step's terms)
		for _, p := range []Inst{feePay, recvPay} {
			amt := one(p.E)
			zero := func(pr ir.Pred) bool {
				if pr.E.Op != "call" {
					return false
				}
				same := func(x *ir.Expr) bool { return sameCoin(canon(x), amt) }
				if pr.Pol {
					// a coin without an amount pays nothing either
					return calleeIs(pr.E, "types.Coin).IsNil") && len(pr.E.Args) == 1 && same(pr.E.Args[0])
				}
				amtOf := func(x *ir.Expr) bool { return amountOfCoin(canon(x), amt) }
				return calleeIs(pr.E, "math.Int).GT") && len(pr.E.Args) == 2 && amtOf(pr.E.Args[0]) && isZeroInt(pr.E.Args[1]) ||
					calleeIs(pr.E, "math.Int).IsPositive") && len(pr.E.Args) == 1 && amtOf(pr.E.Args[0]) ||
					calleeIs(pr.E, "types.Coin).IsPositive") && len(pr.E.Args) == 1 && same(pr.E.Args[0])
			}
			site := p.Eff.Site
			sites := feeSites
			if p.Eff.Method == recvPay.Eff.Method {
				sites = recvSites
			}
			isPay := func(in ssa.Instruction) bool { return sites[in] }
			bad := w.FlatMustPassM(f, isPay, zero)
			r.Require(len(bad) == 0, "A3.claim-pairing", key+"|must-pay|"+p.Eff.Method, pos(c, site), "every successful claim performs this payout unless its amount is zero", fmt.Sprintf("%d success return(s) skip it", len(bad)))
			r.Require(w.FlatPrecedesM(f, isPay, isSet, zero), "A3.claim-pairing", key+"|pay<store|"+p.Eff.Method, pos(c, site), "the deposit is reduced only after the payout succeeded", "the stream can be stored without the payout")
		}
	}
}

// claimSteps finds the claim step by what it does, not by where the arithmetic is written: the smallest
// functions of the stream module that (themselves or through helpers) compute a claim amount and make both
// payouts — "smallest" = calling no other function with that property (top-up, rate change and cancel all
// contain the claim step).
func claimSteps(c *Ctx) []*ssa.Function {
	if c.claimStepsDone {
		return c.claimStepFns
	}
	w := c.W
	var cands []*ssa.Function
	does := map[*ssa.Function]bool{}
	for _, f := range moduleFuncs(c, "stream") {
		if f.Parent() != nil || !c.Rooted(f) {
			continue
		}
		calc, fee, rcv := false, false, false
		for g := range w.Reachable([]*ssa.Function{f}) {
			for _, e := range w.EffectsOf(g) {
				if ir.ModuleOf(g) != "stream" {
					continue
				}
				switch e.Method {
				case "SendCoinsFromModuleToModule":
					fee = true
				case "SendCoinsFromModuleToAccount":
					rcv = true
				}
			}
			for _, b := range g.Blocks {
				for _, in := range b.Instrs {
					if call, ok := in.(*ssa.Call); ok {
						if sc := call.Call.StaticCallee(); sc != nil && sc.Name() == "CalculateAmountToClaim" && ir.ModuleOf(sc) == "stream" {
							calc = true
						}
					}
				}
			}
		}
		if calc && fee && rcv {
			cands = append(cands, f)
			does[f] = true
		}
	}
	var fs []*ssa.Function
	for _, f := range cands {
		minimal := true
		for g := range w.Reachable([]*ssa.Function{f}) {
			if g != f && does[g] {
				minimal = false
			}
		}
		if minimal {
			fs = append(fs, f)
		}
	}
	c.claimStepsDone, c.claimStepFns = true, fs
	return fs
}

func cancelPairing(c *Ctx) {
	w, r := c.W, c.R
	// the cancel step, found by what it does: the smallest non-handler functions of the module that reach the deletion
	// of a stream record. Everything is asked on its flat view: the refund, the zero test, the settlement and the
	// deletion may each stand in it or in a helper (possibly one shared with the claim step).
	isDelEff := func(e ir.Effect) bool { return e.Kind == "StoreDelete" && e.Section == secStreams }
	deletes := map[*ssa.Function]bool{}
	var cands []*ssa.Function
	for _, f := range moduleFuncs(c, "stream") {
		if f.Parent() != nil || !c.Rooted(f) || w.IsRoot(f) {
			continue
		}
		if reachesEffect(c, f, isDelEff) && reachesEffect(c, f, func(e ir.Effect) bool { return e.Method == "SendCoinsFromModuleToAccount" }) {
			cands = append(cands, f)
			deletes[f] = true
		}
	}
	var cf []*ssa.Function
	for _, f := range cands {
		minimal := true
		for g := range w.Reachable([]*ssa.Function{f}) {
			if g != f && deletes[g] {
				minimal = false
			}
		}
		if minimal {
			cf = append(cf, f)
		}
	}
	r.Floor("functions refunding and deleting a stream", len(cf), 1)
	claimFn := map[*ssa.Function]bool{}
	for _, g := range claimSteps(c) {
		claimFn[g] = true
	}
	inClaim := func(ctx *ir.FCtx) bool {
		for x := ctx; x != nil; x = x.Up {
			if claimFn[x.Fn] {
				return true
			}
		}
		return false
	}
	canon := func(e *ir.Expr) *ir.Expr {
		if e == nil {
			return nil
		}
		return w.ExpandKeep(e, 6, ir.TypesVocabulary)
	}
	isPayout := directSites(c, func(e ir.Effect) bool {
		return e.Method == "SendCoinsFromModuleToAccount" && ir.ModuleOf(e.Fn) == "stream"
	})
	isDel := directSites(c, isDelEff)
	isRead := directSites(c, func(e ir.Effect) bool { return e.Kind == "StoreRead" && e.Section == secStreams })
	for _, f := range cf {
		key := fn(f)
		root := w.FlatRoot(f)
		// the refund: the module-to-account transfer made outside the claim step
		var refunds []ir.FPos
		seenOcc := map[[2]any]bool{}
		for _, p := range w.FlatOccurrences(root, isPayout) {
			if k := [2]any{p.Ctx, p.In}; !inClaim(p.Ctx) && !seenOcc[k] {
				seenOcc[k] = true
				refunds = append(refunds, p)
			}
		}
		if len(refunds) != 1 {
			r.Bad("A3.cancel-pairing", key+"|refund-site", w.Pos(f.Pos()), "the cancel step refunds the sender with one transfer outside the settlement", fmt.Sprintf("%d such transfer(s)", len(refunds)))
			continue
		}
		refund := refunds[0]
		isRefund := func(ctx *ir.FCtx, in ssa.Instruction) bool { return in == refund.In && !inClaim(ctx) }
		rcall := refund.In.(ssa.CallInstruction)
		coins := canon(refund.Ctx.Apply(w.ExprOf(rcall.Common().Args[3])))
		if refund.Ctx == root {
			coins = canon(w.ExprOf(rcall.Common().Args[3]))
		}
		var d *ir.Expr
		if calleeIs(coins, "types.NewCoins") && len(coins.Args) == 1 && coins.Args[0].Op == "list" && len(coins.Args[0].Args) == 1 {
			d = coins.Args[0].Args[0]
		}
		r.Require(d != nil && streamFieldX(c, d, "Deposit"), "A3.cancel-pairing", key+"|refund-amount", pos(c, refund.In), "the refund is the stream's stored remaining deposit", fmt.Sprint(d))
		skip := func(pr ir.Pred) bool {
			if os.Getenv("MCDEBUG") == "cancel" {
				fmt.Fprintln(os.Stderr, "cancel pred", pr.Pol, pr.E.String(), "| d =", d)
			}
			if pr.Pol || pr.E.Op != "call" || d == nil {
				return false
			}
			amtOf := func(x *ir.Expr) bool { return amountOfCoin(canon(x), d) }
			return calleeIs(pr.E, "math.Int).GT") && len(pr.E.Args) == 2 && amtOf(pr.E.Args[0]) && isZeroInt(pr.E.Args[1]) ||
				calleeIs(pr.E, "math.Int).IsPositive") && len(pr.E.Args) == 1 && amtOf(pr.E.Args[0]) ||
				calleeIs(pr.E, "types.Coin).IsPositive") && len(pr.E.Args) == 1 && sameCoin(canon(pr.E.Args[0]), d)
		}
		success := map[ssa.Instruction]bool{}
		for _, rt := range w.SuccessReturns(f) {
			success[rt] = true
		}
		okReturn := func(p ir.FPos) bool { return p.Ctx == root && success[p.In] && !p.ReturnsFailure() }
		bad := w.FlatReaches(root, nil, &ir.FlatCut{Matcher: skip, Depth: 1, Barrier: isRefund}, okReturn)
		r.Require(bad == nil, "A3.cancel-pairing", key+"|must-refund", pos(c, refund.In), "every successful cancel refunds the remaining deposit unless it is zero", "a success return skips the refund")
		// (a delete helper that skips an absent key is still the delete step: the edge "no such record" is not a way around it)
		absent := func(pr ir.Pred) bool {
			return !pr.Pol && pr.E.Op == "call" && strings.HasSuffix(pr.E.Name, ".Has") && len(pr.E.Args) == 2 && w.SectionOfKey(pr.E.Args[1]) == secStreams
		}
		bad = w.FlatReaches(root, nil, &ir.FlatCut{Matcher: absent, Depth: 2, Barrier: func(_ *ir.FCtx, in ssa.Instruction) bool { return isDel(in) }}, okReturn)
		r.Require(bad == nil, "A3.cancel-pairing", key+"|must-delete", pos(c, refund.In), "every successful cancel deletes the stream", "a success return keeps the stream")
		bad = w.FlatReaches(root, nil, &ir.FlatCut{Matcher: skip, Depth: 1, Barrier: isRefund}, func(p ir.FPos) bool { return isDel(p.In) })
		r.Require(bad == nil, "A3.cancel-pairing", key+"|refund<delete", pos(c, refund.In), "the stream is deleted only after the refund succeeded (or was zero)", "delete reachable without the refund")
		// settle before refund whenever the deposit is positive; the refund uses the reloaded stream
		noDeposit := func(pr ir.Pred) bool {
			q := pr
			q.Pol = !q.Pol
			return depositPositive(c)(q)
		}
		isRefundOcc := func(p ir.FPos) bool { return isRefund(p.Ctx, p.In) }
		// (the settlement = entering the claim step; its own payouts are conditional on their amounts)
		bad = w.FlatReaches(root, nil, &ir.FlatCut{Matcher: noDeposit, Depth: 1, Barrier: func(cx *ir.FCtx, _ ssa.Instruction) bool { return claimFn[cx.Fn] }}, isRefundOcc)
		r.Require(bad == nil, "A3.cancel-pairing", key+"|claim<refund", pos(c, refund.In), "outstanding flow is paid to the receiver before the sender is refunded (whenever the deposit is positive)", "the refund is reachable with a positive deposit and no settlement")
		// the refunded deposit is read after the settlement: between the settlement's payout and the refund the stream is read again
		reload := true
		var after []ir.FPos
		seenCall := map[[2]any]bool{}
		w.FlatWalk(root, nil, nil, func(p ir.FPos) bool {
			if claimFn[p.Ctx.Fn] && p.Ctx.Call != nil && p.Ctx.Up != nil {
				if k := [2]any{p.Ctx.Up, p.Ctx.Call}; !seenCall[k] {
					seenCall[k] = true
					after = append(after, ir.FPos{Ctx: p.Ctx.Up, In: p.Ctx.Call})
				}
			}
			return true
		})
		for _, p := range after {
			p := p
			if w.FlatReaches(root, &p, &ir.FlatCut{Barrier: func(_ *ir.FCtx, in ssa.Instruction) bool { return isRead(in) }}, isRefundOcc) != nil {
				reload = false
			}
		}
		r.Require(reload, "A3.cancel-pairing", key+"|reload", pos(c, refund.In), "the stream is re-read after the settlement so that the refund is the post-claim remainder", "the refund uses the deposit loaded before the settlement")
	}
}

// reloadedAfter: between every A-instruction and `site` there is a read of the stream section.
func reloadedAfter(c *Ctx, f *ssa.Function, isA func(ssa.Instruction) bool, site ssa.Instruction) bool {
	isRead := callReaching(c, f, func(e ir.Effect) bool { return e.Kind == "StoreRead" && e.Section == secStreams })
	isW := func(e ir.Effect) bool {
		return (e.Kind == "StoreWrite" || e.Kind == "StoreDelete") && e.Section == secStreams
	}
	isR := func(e ir.Effect) bool { return e.Kind == "StoreRead" && e.Section == secStreams }
	for _, a := range findInstrs(f, isA) {
		// a helper that settles and then re-reads the stream (handing the fresh record back) is its own reload
		if call, ok := a.(ssa.CallInstruction); ok && isRead(a) {
			fresh := len(c.W.CalleesOf(call)) > 0
			for _, g := range c.W.CalleesOf(call) {
				if !endsFresh(c, g, isW, isR, map[*ssa.Function]bool{}) {
					fresh = false
				}
			}
			if fresh {
				continue
			}
		}
		if ir.ReachesFrom(f, a.Block(), ir.InstrIndex(a)+1, site, ir.Cut{Barrier: func(in ssa.Instruction) bool { return in != a && isRead(in) && !isA(in) }}) {
			return false
		}
	}
	return true
}

// affineSplit: the function returns two coins whose sum is its input coin on every return edge.
func affineSplit(c *Ctx, name string, inputIdx int) {
	w, r := c.W, c.R
	f := w.LookupFunc(name)
	if f == nil {
		r.Undecided("AFF.split", name, "", "split function exists", "not found")
		return
	}
	input := f.Params[inputIdx]
	type pair struct{ a, b *ir.Expr }
	var pairs []pair
	for _, ret := range ir.Returns(f) {
		if len(ret.Results) != 2 {
			continue
		}
		tuples, ok := w.PathTuples(ret, 64)
		if !ok {
			r.Undecided("AFF.split", name+"|paths", w.Pos(f.Pos()), "the return values can be resolved path by path", "path enumeration exceeded its bounds")
			return
		}
		seen := map[string]bool{}
		for _, t := range tuples {
			k := t[0].String() + "||" + t[1].String()
			if !seen[k] {
				seen[k] = true
				pairs = append(pairs, pair{t[0], t[1]})
			}
		}
	}
	r.Floor("return edges of "+name, len(pairs), 2)
	in := w.ExprOf(input).String()
	isZeroCoin := func(e *ir.Expr) bool {
		return calleeIs(e, "types.NewCoin") && len(e.Args) == 2 && (isZeroInt(e.Args[1]))
	}
	// values built by small helpers of the same package (zeroCoin(denom)) are looked into
	inl := func(e *ir.Expr) *ir.Expr {
		for i := 0; i < 3 && e != nil && e.Op == "call" && e.Callee != nil && ir.FnPkg(e.Callee) == ir.FnPkg(f); i++ {
			x := w.Inline(e)
			if x == nil {
				break
			}
			e = x
		}
		return e
	}
	for i, p := range pairs {
		a, b := inl(p.a), inl(p.b)
		ok := false
		switch {
		case a.String() == in && isZeroCoin(b), b.String() == in && isZeroCoin(a):
			ok = true
		case calleeIs(a, "types.Coin).Sub") && len(a.Args) == 2 && a.Args[0].String() == in && a.Args[1].String() == b.String():
			ok = true
		case calleeIs(b, "types.Coin).Sub") && len(b.Args) == 2 && b.Args[0].String() == in && b.Args[1].String() == a.String():
			ok = true
		}
		r.Require(ok, "AFF.split", fmt.Sprintf("%s|edge%d", name, i), w.Pos(f.Pos()), "the two returned coins add up to the input coin (X−Y with Y, or X with a zero coin)", fmt.Sprintf("returns (%s, %s) for input %s", a, b, in))
	}
}

// feeFormula is rule A7.fee-formula: the validator fee of a release is floor(released x rate) with the rate as governance set
// it. In the fee-split function, wherever the fee amount is computed from both the released amount and the rate, the rate
// enters that computation as the parameter itself: an expression over the rate alone (the rate scaled and truncated to basis
// points, rounded to some precision, converted to an integer) would replace the stored parameter by another number for
// every rate it does not represent exactly, while Params.Validate goes on accepting any rate in [0,1].
func feeFormula(c *Ctx) {
	w, r := c.W, c.R
	f := w.LookupFunc("x/stream/types.CalculateValidatorFee")
	if f == nil || len(f.Params) < 2 {
		r.Undecided("A7.fee-formula", "func", "", "fee-split function exists", "not found")
		return
	}
	rate, amount := f.Params[0].Name(), f.Params[1].Name()
	has := func(e *ir.Expr, name string) bool {
		return e.Any(func(z *ir.Expr) bool { return z.Op == "param" && z.Name == name })
	}
	n := 0
	for _, ret := range ir.Returns(f) {
		if len(ret.Results) != 2 {
			continue
		}
		fee := w.Expand(w.ExprOf(ret.Results[1]), 5)
		for _, alt := range fee.Alts() {
			if !has(alt, rate) {
				continue // the zero fee of the no-fee route
			}
			n++
			// the smallest sub-expression that holds both the rate and the amount
			var meet *ir.Expr
			var visit func(e *ir.Expr)
			visit = func(e *ir.Expr) {
				if !has(e, rate) || !has(e, amount) {
					return
				}
				meet = e
				for _, a := range e.Args {
					if has(a, rate) && has(a, amount) {
						visit(a)
						return
					}
				}
			}
			visit(alt)
			bad := ""
			if meet == nil {
				bad = "the fee does not depend on the released amount: " + alt.String()
			} else {
				for _, a := range meet.Args {
					if has(a, rate) && !has(a, amount) && !(a.Op == "param" && a.Name == rate) {
						bad = "the rate is first turned into " + a.String() + " and only then applied to the amount"
					}
				}
			}
			r.Require(bad == "", "A7.fee-formula", fmt.Sprintf("%s|alt%d", fn(f), n), w.Pos(f.Pos()), "the fee is computed from the released amount and the rate parameter itself (not from a rounded, truncated or rescaled stand-in for the rate)", bad)
		}
	}
	r.Floor("fee computations in the fee-split function", n, 1)
}

// ---------------------------------------------------------------------------------------

func C11(c *Ctx) {
	r := c.R
	r.Explanation = "(A3, guarded ordering) whenever the stored deposit is positive, the settlement claim precedes: the store of a new FlowRate, the refund on cancel, and — for an expired stream — the deposit transfer of a top-up; LastOutflowTime is written only by the claim step and at creation, both with the block time (A4); " +
		"(A2) stream creation is guarded by not(duration < 60) in the handler and in ValidateBasic, with duration computed from the message's deposit and flow rate; " +
		"(A9, sink-scoped hazard inventory) in every stream function reachable from the stream MsgServer: no floating-point operation or conversion; every int64*int64 and Duration*Duration product and every int64→uint64 conversion of a computed value is an obligation that must be range-guarded. The payout formula itself is numeric and not decided."
	r.Rules = []string{"A3.settle-before-change", "A3.restart-resets-outflow", "A7.floor-division", "A4.last-outflow-writers", "A2.min-duration", "A7.stream-fields", "A7.elapsed-seconds", "A9.float", "A9.int-mul", "A9.duration-mul", "A9.narrowing", "A1.stream-writers"}
	r.Trusted = []string{"time.Time arithmetic", "sdk.Int arbitrary precision"}
	r.NotDecided = []string{"min(remaining, rate x seconds) payout formula", "deposit-zero-time formula", "sufficiency of the remaining deposit until the advertised time"}

	// the schedule is what the stream handlers store: nobody else writes or deletes a stream
	whoMayReach(c, "A1.stream-writers", "writes of the stream section", func(e ir.Effect) bool { return e.Kind == "StoreWrite" && e.Section == secStreams }, []string{"MSG:stream", "INITGEN:stream"})
	whoMayReach(c, "A1.stream-writers", "deletes of the stream section", func(e ir.Effect) bool { return e.Kind == "StoreDelete" && e.Section == secStreams }, []string{"MSG:stream.CancelStream"})
	settleRules(c)
	floorDivision(c)
	minDuration(c)
	streamFields(c)
	elapsedSeconds(c)
	streamHazards(c)
}

// floorDivision (A7.floor-division): durations and amounts of the schedule are floors (deposit-zero time =
// funding time + floor(deposit / rate)): every decimal division on a stream route truncates. Dec.Quo rounds
// half to even at 18 decimals (a quotient within 5e-19 of the next integer becomes that integer before the
// truncation to seconds), QuoRoundUp / RoundInt / Ceil round up: each advertises a zero time the deposit
// cannot sustain.
func floorDivision(c *Ctx) {
	w, r := c.W, c.R
	n := 0
	for _, f := range streamScope(c) {
		for _, b := range f.Blocks {
			for _, in := range b.Instrs {
				call, ok := in.(*ssa.Call)
				if !ok {
					continue
				}
				e := w.ExprOf(call)
				for _, okAPI := range []string{"LegacyDec).QuoTruncate", "LegacyDec).QuoTruncateMut", "LegacyDec).TruncateInt", "LegacyDec).TruncateInt64", "math.Int).Quo"} {
					if calleeIs(e, okAPI) {
						n++
					}
				}
				for _, badAPI := range []string{"LegacyDec).Quo", "LegacyDec).QuoMut", "LegacyDec).QuoRoundUp", "LegacyDec).QuoRoundupMut", "LegacyDec).QuoInt", "LegacyDec).QuoInt64", "LegacyDec).RoundInt", "LegacyDec).RoundInt64", "LegacyDec).Ceil"} {
					if calleeIs(e, badAPI) && !strings.Contains(e.Name, "Truncate") {
						r.Bad("A7.floor-division", fn(f)+"|"+badAPI, pos(c, in), "decimal arithmetic on a stream route truncates (floor): QuoTruncate / MulTruncate / TruncateInt", "rounding operation "+e.Name)
					}
				}
			}
		}
	}
	r.Floor("truncating decimal operations in stream scope", n, 1)
}

// restartResetsOutflow (A3.restart-resets-outflow): whenever a stream's deposit-zero time is recomputed
// from the block time (now + duration: the schedule restarts now), the stored LastOutflowTime must be the
// block time as well — through the settlement claim, or by a direct assignment — before the stream is
// stored. Otherwise the next claim multiplies the flow rate by time the stream spent unfunded and the
// receiver can drain the new deposit before the advertised deposit-zero time (finding F7).
func restartResetsOutflow(c *Ctx, isClaimIn func(*ssa.Function) func(ssa.Instruction) bool) {
	w, r := c.W, c.R
	n := 0
	// asked on the flat view: the settlement may be reached through a helper that skips it for an empty stream,
	// so "a call that may claim" is not enough — the reset itself (LastOutflowTime := block time, in the claim
	// step or directly) must lie on the path
	reset := func(cx *ir.FCtx, in ssa.Instruction) bool { return resetsOutflowAt(c, cx, in) }
	isWrite := directSites(c, func(e ir.Effect) bool { return e.Kind == "StoreWrite" && e.Section == secStreams })
	for _, f := range w.Funcs {
		if ir.ModuleOf(f) != "stream" || !c.Rooted(f) || w.IsGenerated(f) || w.IsRoot(f) || ir.IsFixture(f) {
			continue
		}
		for _, b := range f.Blocks {
			for _, in := range b.Instrs {
				call, ok := in.(*ssa.Call)
				if !ok {
					continue
				}
				// block time + duration, computed here or by a small helper (extendBySeconds(now, n))
				e := w.ExprOf(call)
				if !calleeIs(e, "time.Time).Add") {
					e = w.Expand(e, 2)
				}
				if !(calleeIs(e, "time.Time).Add") && len(e.Args) == 2 && isBlockTime(e.Args[0])) {
					continue
				}
				n++
				root := w.FlatRoot(f)
				// when the base is chosen between the old zero time and the block time (extendFrom := zt; if expired { extendFrom = now }),
				// the schedule restarts only on the paths that supply the block time: those are judged, from the point of choice
				sites := []ssa.Instruction{in}
				if len(call.Call.Args) > 0 {
					if ph, ok := call.Call.Args[0].(*ssa.Phi); ok {
						sites = nil
						for i, ed := range ph.Edges {
							if isBlockTime(w.ExprOf(ed)) && !streamFieldX(c, w.ExprOf(ed), "DepositZeroTime") {
								pred := ph.Block().Preds[i]
								sites = append(sites, pred.Instrs[len(pred.Instrs)-1])
							}
						}
					}
				}
				// ... or by a helper (`fundedTo := fundedUntil(stream, now)`): judged from each return of the helper that hands
				// back the block time, with what the walk knows at that return
				var starts []ir.FPos
				if _, isPhi := firstArg(call).(*ssa.Phi); !isPhi {
					for _, a := range call.Call.Args {
						if a.Type().String() != "time.Time" {
							continue
						}
						alts := valueAlts(c, f, call, a)
						if len(alts) < 2 {
							continue
						}
						sites = nil
						for _, alt := range alts {
							if isBlockTime(alt.E) && !streamFieldX(c, alt.E, "DepositZeroTime") {
								p := alt.Pos
								p.Resume = true
								starts = append(starts, p)
							}
						}
					}
				}
				bad := ""
				for _, st := range starts {
					st := st
					if wr := w.FlatReaches(root, &st, &ir.FlatCut{Barrier: reset}, func(p ir.FPos) bool { return isWrite(p.In) }); wr != nil {
						// (a settlement that ran before the point of choice has reset the outflow time as well)
						before := w.FlatReaches(root, nil, &ir.FlatCut{Barrier: reset}, func(p ir.FPos) bool { return p.Ctx == st.Ctx && p.In == st.In })
						if before != nil {
							bad = "the stream is stored at " + w.InstrPos(wr.In) + " with a deposit-zero time counted from now (chosen at " + w.InstrPos(st.In) + "), on a path with neither a settlement nor LastOutflowTime = block time"
						}
					}
				}
				for _, site := range sites {
					site := site
					// a restart that happens only while the stored deposit is positive (the remainder re-scheduled at a new rate)
					// is preceded by a settlement that actually ran: the paths on which the settlement was skipped for an empty
					// deposit do not lead there (the deposit changes only through the settlement, which resets, or after the restart)
					var m ir.Matcher
					if len(w.FlatGuarded(f, func(in ssa.Instruction) bool { return in == site }, depositPositive(c), 1)) == 0 {
						m = func(pr ir.Pred) bool {
							q := pr
							q.Pol = !q.Pol
							return depositPositive(c)(q)
						}
					}
					if occ := w.FlatReaches(root, nil, &ir.FlatCut{Matcher: m, Depth: 1, Barrier: reset}, func(p ir.FPos) bool { return p.Ctx == root && p.In == site }); occ != nil {
						if wr := w.FlatReaches(root, occ, &ir.FlatCut{Barrier: reset}, func(p ir.FPos) bool { return isWrite(p.In) }); wr != nil {
							bad = "the stream is stored at " + w.InstrPos(wr.In) + " with a deposit-zero time counted from now, on a path with neither a settlement nor LastOutflowTime = block time"
						}
					}
				}
				r.Require(bad == "", "A3.restart-resets-outflow", fn(f)+"|"+fmt.Sprint(n), pos(c, in), "a schedule restarted from the block time (DepositZeroTime = now + duration) also restarts LastOutflowTime at the block time", bad)
			}
		}
	}
	r.Floor("deposit-zero times recomputed from the block time", n, 1)
}

func fieldAddrName(fa *ssa.FieldAddr) string {
	t := fa.X.Type()
	if p, ok := t.Underlying().(*types.Pointer); ok {
		t = p.Elem()
	}
	if st, ok := t.Underlying().(*types.Struct); ok && fa.Field < st.NumFields() {
		return st.Field(fa.Field).Name()
	}
	return ""
}

// elapsedSeconds: the claim amount is NewCoin(denom, seconds x flowRate) where seconds is the
// whole-second quotient of ONE time difference (now - lastOutflow). A difference of two
// truncated instants (Unix() - Unix()) counts a second that has not fully elapsed.
func elapsedSeconds(c *Ctx) {
	w, r := c.W, c.R
	f := w.LookupFunc("x/stream/types.CalculateAmountToClaim")
	if f == nil {
		r.Undecided("A7.elapsed-seconds", "func", "", "claim-amount function exists", "not found")
		return
	}
	n := 0
	// the product may stand in the claim-amount function or in a helper / method of the same package it delegates to
	var scope []*ssa.Function
	for g := range w.Reachable([]*ssa.Function{f}) {
		if ir.FnPkg(g) == ir.FnPkg(f) && !w.IsGenerated(g) {
			scope = append(scope, g)
		}
	}
	sortFuncs(scope)
	for _, g := range scope {
		for _, b := range g.Blocks {
			for _, in := range b.Instrs {
				call, ok := in.(*ssa.Call)
				if !ok {
					continue
				}
				e, isMul := intMul(w.ExprOf(call))
				if !isMul {
					continue
				}
				// one factor is the flow-rate parameter, the other the seconds
				var sec *ir.Expr
				for i := 0; i < 2; i++ {
					a, o := e.Args[i], e.Args[1-i]
					if calleeIs(a, "NewInt") && len(a.Args) == 1 && isParamPath(a.Args[0]) {
						sec = o
					}
				}
				if sec == nil {
					continue
				}
				n++
				if calleeIs(sec, "NewInt") && len(sec.Args) == 1 {
					sec = sec.Args[0]
				}
				// the product may stand in a helper that is handed the seconds (streamedAmount(denom, rate, seconds)): what its
				// caller in this package hands in
				if se := stripConvE(sec); se.Op == "param" && g != f {
					var alts []*ir.Expr
					for _, ed := range w.Callers(g) {
						cs, ok := ed.Site.(ssa.CallInstruction)
						if ok && ir.FnPkg(cs.Parent()) == ir.FnPkg(f) {
							alts = append(alts, w.ArgSubst(cs, g, se))
						}
					}
					if len(alts) > 0 {
						sec = ir.MkPhi(alts)
					}
				}
				// the seconds may be computed by a helper of the same package (wholeSecondsBetween(last, now)): look inside
				if se := stripConvE(sec); se.Op == "call" && se.Callee != nil && ir.FnPkg(se.Callee) == ir.FnPkg(f) {
					if x := w.Inline(se); x != nil {
						sec = x
					}
				}
				ok2 := true
				seen := false
				for _, a := range sec.Alts() {
					a = stripConvE(a)
					if a.Op == "const" && a.Name == "0" {
						continue
					}
					q := a
					isQuot := q.Op == "bin" && q.Name == "/" && (q.Args[1].Op == "const" && (q.Args[1].Name == "time.Second" || q.Args[1].Name == "1000000000"))
					if isQuot {
						d := stripConvE(q.Args[0])
						if calleeIs(d, "time.Duration).Nanoseconds") && len(d.Args) == 1 {
							d = d.Args[0]
						}
						if calleeIs(d, "time.Time).Sub") && len(d.Args) == 2 && isParamPath(d.Args[0]) && isParamPath(d.Args[1]) {
							seen = true
							continue
						}
					}
					ok2 = false
				}
				r.Require(ok2 && seen, "A7.elapsed-seconds", fn(f), pos(c, in), "the seconds multiplied by the flow rate are floor((now - lastOutflow) / 1s), computed from one time difference", "seconds = "+sec.String())
			}
		}
	}
	r.Floor("seconds x flow-rate products in the claim-amount function", n, 1)
}

// notExpiredBoth keeps the established "not Before"/"not Equal" edges only where taking them
// really means neither holds (the block is reached through the other test's false edge too).
func notExpiredBoth(f *ssa.Function, edges map[[2]int]bool) map[[2]int]bool {
	out := map[[2]int]bool{}
	for k := range edges {
		b := f.Blocks[k[0]]
		// the false edge of the second test of (A || B): its block is reached only via the false edge of the first
		if len(b.Preds) == 1 {
			p := b.Preds[0]
			for si, s := range p.Succs {
				if s == b && edges[[2]int{p.Index, si}] {
					out[k] = true
				}
			}
		}
	}
	return out
}

func minDuration(c *Ctx) {
	w, r := c.W, c.R
	h := handlerOf(c, "stream", "CreateStream")
	m := func(p ir.Pred) bool {
		return cmpIs(p, ">=", func(x *ir.Expr) bool {
			return calleeIs(x, "types.CalculateDuration") && len(x.Args) == 2 && isMsgField(x.Args[0], "Deposit") && isMsgField(x.Args[1], "FlowRate")
		}, func(y *ir.Expr) bool { return y.Op == "const" && y.Name == "60" })
	}
	if h != nil {
		for i, s := range mutatingSites(c, h, isStateMutation) {
			r.Require(w.Guarded(h, s, m, 1), "A2.min-duration", fmt.Sprintf("handler|site%d:%s", i, siteName(c, s)), pos(c, s), "a stream is created only when CalculateDuration(msg.Deposit, msg.FlowRate) >= 60 s", "reachable without that comparison")
		}
	}
	var vb *ssa.Function
	for _, f := range w.Roots["MSGIFACE:ValidateBasic"] {
		if ir.ModuleOf(f) == "stream" && f.Signature.Recv() != nil && typeName(f.Signature.Recv().Type()) == "MsgCreateStream" {
			vb = f
		}
	}
	if vb == nil {
		r.Undecided("A2.min-duration", "validatebasic", "", "MsgCreateStream.ValidateBasic exists", "not found")
		return
	}
	ok := hasRejectingCmp(c, vb, func(op string, x, y *ir.Expr) bool {
		return op == "<" && calleeIs(x, "types.CalculateDuration") && y.Op == "const" && y.Name == "60"
	})
	r.Require(ok, "A2.min-duration", "validatebasic", w.Pos(vb.Pos()), "ValidateBasic rejects durations below 60 s", "no rejecting comparison")
}

// streamScope: stream keeper/types functions reachable from the stream MsgServer.
func streamScope(c *Ctx) []*ssa.Function {
	var out []*ssa.Function
	roots := append([]*ssa.Function{}, c.W.Roots["MSG:stream"]...)
	for _, f := range c.W.Roots["MSGIFACE:ValidateBasic"] {
		if ir.ModuleOf(f) == "stream" {
			roots = append(roots, f)
		}
	}
	for f := range c.W.Reachable(roots) {
		if ir.ModuleOf(f) == "stream" && !c.W.IsGenerated(f) {
			out = append(out, f)
		}
	}
	return out
}

func streamHazards(c *Ctx) {
	w, r := c.W, c.R
	nf, nm := 0, 0
	type durObl struct {
		ok               bool
		at, detail, what string
	}
	durAgg := map[string]*durObl{}
	var durKeys []string
	for _, f := range streamScope(c) {
		for _, e := range w.EffectsOf(f) {
			if e.Kind == "Float" {
				nf++
				r.Bad("A9.float", fn(f)+"|"+e.Method, pos(c, e.Site), "no floating-point arithmetic or conversion on the stream schedule path", "float "+e.Method)
			}
		}
		ord := map[string]int{}
		for _, b := range f.Blocks {
			for _, in := range b.Instrs {
				switch x := in.(type) {
				case *ssa.BinOp:
					if x.Op != token.MUL {
						continue
					}
					bt, ok := x.Type().Underlying().(*types.Basic)
					if !ok || bt.Kind() != types.Int64 {
						continue
					}
					_, cx := x.X.(*ssa.Const)
					_, cy := x.Y.(*ssa.Const)
					if cx && cy {
						continue
					}
					nm++
					isDur := strings.HasSuffix(x.Type().String(), "time.Duration")
					rule := "A9.int-mul"
					if isDur {
						rule = "A9.duration-mul"
					}
					ord[rule]++
					key := fmt.Sprintf("%s|mul%d", fn(f), ord[rule])
					what := "int64 product of schedule quantities is range-checked before use (it would wrap silently)"
					if isDur {
						what = "seconds→time.Duration product is range-checked (durations above ~292 years wrap)"
					}
					bound := func(xs, ys string) ir.Matcher {
						// guarded when a dominating comparison bounds an operand by a quotient of a limit (not present today)
						return func(p ir.Pred) bool {
							return cmpIs(p, "<=", func(a *ir.Expr) bool { return a.String() == xs || a.String() == ys }, func(b2 *ir.Expr) bool { return b2.Op == "bin" && b2.Name == "/" })
						}
					}
					if isDur {
						// a duration product is identified by the operation it belongs to and by what is multiplied (in the handler's
						// terms), not by the function it is written in: moving it into a helper leaves the same obligations
						tup := &ir.Expr{Op: "tuple", Args: []*ir.Expr{w.ExprOf(x.X), w.ExprOf(x.Y)}}
						lifted := 0
						for _, h := range w.Roots["MSG:stream"] {
							for _, up := range w.OriginsUpTo(f, tup, h, 8) {
								if up.E.Op != "tuple" || len(up.E.Args) != 2 {
									continue
								}
								lifted++
								sig := sourceSignature(c, w.ExpandKeep(up.E, 6, ir.TypesVocabulary))
								// one obligation per operation and per what is multiplied, however many places spell the product
								// (the branches of a switch may each carry a copy)
								k2 := h.Name() + "|" + sig
								g := chainGuarded(c, h, up.Chain, in, bound(up.E.Args[0].String(), up.E.Args[1].String()), 0)
								d := durAgg[k2]
								if d == nil {
									d = &durObl{ok: true, at: pos(c, in)}
									durAgg[k2] = d
									durKeys = append(durKeys, k2)
								}
								if !g {
									d.ok = false
									d.detail = "unguarded " + w.ExprOf(x).String() + " in " + fn(f)
									d.at = pos(c, in)
								}
								d.what = what
							}
						}
						if lifted > 0 {
							continue
						}
					}
					guarded := w.Guarded(f, in, bound(w.ExprOf(x.X).String(), w.ExprOf(x.Y).String()), 0)
					r.Require(guarded, rule, key, pos(c, in), what, "unguarded "+w.ExprOf(x).String())
				case *ssa.Convert:
					from, ok1 := x.X.Type().Underlying().(*types.Basic)
					to, ok2 := x.Type().Underlying().(*types.Basic)
					if !ok1 || !ok2 || !(from.Kind() == types.Int64 && to.Kind() == types.Uint64) {
						continue
					}
					if _, isC := x.X.(*ssa.Const); isC {
						continue
					}
					ord["A9.narrowing"]++
					key := fmt.Sprintf("%s|int64->uint64#%d", fn(f), ord["A9.narrowing"])
					src := w.ExprOf(x.X)
					guarded := w.Guarded(f, in, func(p ir.Pred) bool {
						return cmpIs(p, ">", func(a *ir.Expr) bool { return a.String() == src.String() }, func(b2 *ir.Expr) bool { return b2.Op == "const" && b2.Name == "0" }) ||
							cmpIs(p, ">=", func(a *ir.Expr) bool { return a.String() == src.String() }, func(b2 *ir.Expr) bool { return b2.Op == "const" && b2.Name == "0" })
					}, 0)
					r.Require(guarded, "A9.narrowing", key, pos(c, in), "an int64 is converted to uint64 only when known non-negative", "unguarded conversion of "+src.String())
				}
			}
		}
	}
	sort.Strings(durKeys)
	for _, k2 := range durKeys {
		d := durAgg[k2]
		r.Require(d.ok, "A9.duration-mul", k2, d.at, d.what, d.detail)
	}
	r.Analysed["float_sites_in_stream_scope"] = nf
	r.Floor("int64/Duration products in stream scope", nm, 1)
	r.Control("A9.float", "fixtures/c11", len(w.FixtureEffects(func(e ir.Effect) bool { return e.Kind == "Float" })) > 0)
}

// ---------------------------------------------------------------------------------------

// panicking SDK APIs (A10): method suffix -> why it can panic
var panicAPIs = map[string]string{
	"LegacyDec).TruncateInt64":       "panics when the value does not fit int64",
	"LegacyDec).RoundInt64":          "panics when the value does not fit int64",
	"math.Int).Int64":                "panics when the value does not fit int64",
	"math.Int).Uint64":               "panics when the value does not fit uint64",
	"types.Coin).Sub":                "panics on denom mismatch or negative result",
	"types.Coin).Add":                "panics on denom mismatch",
	"types.NewCoin":                  "panics on negative amount or invalid denom",
	"types.NewInt64Coin":             "panics on negative amount or invalid denom",
	"types.NewDecCoinFromCoin":       "panics on an invalid (negative) coin",
	"LegacyDec).QuoTruncateMut":      "panics on division by zero",
	"LegacyDec).Quo":                 "panics on division by zero",
	"LegacyDec).QuoTruncate":         "panics on division by zero",
	"types.NewCoins":                 "panics on invalid or duplicate coins",
	"types.MustNewDecFromStr":        "panics on malformed input",
	"address.MustLengthPrefix":       "panics above 255 bytes",
	"types.ParseLengthPrefixedBytes": "panics on short keys",
}

// reviewed table for the stream scope: function|api|ordinal -> reason (the specification of why
// the site cannot panic for accepted values). Sites not listed are violations.
var streamPanicReviewed = map[string]string{
	"x/stream/types.CalculateDuration|LegacyDec).QuoTruncateMut|1":           "guard:flowRate>0",
	"x/stream/types.CalculateDuration|types.NewDecCoinFromCoin|1":            "deposit is a valid non-negative coin (validated at creation / top-up)",
	"x/stream/types.CalculateAmountToClaim|types.NewCoin|1":                  "zero amount; denom is the stored deposit's",
	"x/stream/types.CalculateAmountToClaim|types.NewCoin|2":                  "guard:seconds>=0",
	"x/stream/types.CalculateAmountToClaim|types.NewCoin|3":                  "zero amount; denom is the stored deposit's",
	"x/stream/types.GetStreamKey|address.MustLengthPrefix|1":                 "addresses come from AccAddressFromBech32, which rejects more than 255 bytes",
	"x/stream/types.GetStreamsByReceiverKey|address.MustLengthPrefix|1":      "addresses come from AccAddressFromBech32, which rejects more than 255 bytes",
	"x/stream/types.CalculateAmountToClaim|types.Coin).Sub|1":                "guard:deposit>claim",
	"x/stream/types.CalculateValidatorFee|types.NewDecCoinFromCoin|1":        "claim total is non-negative (checked by the caller before the split)",
	"x/stream/types.CalculateValidatorFee|types.NewCoin|1":                   "fee = trunc(amount*rate) is non-negative for rate in [0,1] (C16 validates the rate)",
	"x/stream/types.CalculateValidatorFee|types.NewCoin|2":                   "zero amount",
	"x/stream/types.CalculateValidatorFee|types.Coin).Sub|1":                 "fee <= amount because the stored rate is validated within [0,1] (C16); same denom by construction",
	"(x/stream/keeper.Keeper).ClaimFromStream|types.NewCoins|1":              "guard:amount>0",
	"(x/stream/keeper.Keeper).ClaimFromStream|types.NewCoins|2":              "guard:amount>0",
	"(x/stream/keeper.Keeper).AddDeposit|types.NewCoins|1":                   "top-up deposit validated positive by ValidateBasic and the handler",
	"(x/stream/keeper.Keeper).AddDeposit|types.Coin).Add|1":                  "guard:same-denom",
	"(x/stream/keeper.Keeper).CancelStreamBySenderReceiver|types.NewCoins|1": "guard:amount>0",
	"(x/stream/keeper.Keeper).CreateNewStream|types.NewCoin|1":               "zero amount; denom of the validated deposit",
}

func C12(c *Ctx) {
	w, r := c.W, c.R
	r.Explanation = "(A10) panic-source inventory over every stream function reachable from the stream MsgServer and the stream messages' ValidateBasic: every explicit panic and every call of a panicking SDK API (TruncateInt64/Int64/Uint64, Coin.Sub/Add, NewCoin(s), NewDecCoinFromCoin, Quo*, ...) is enumerated from the resolved program; each site must either be guarded by the recognised dominating predicate (flow rate > 0 before division, deposit > claim before Sub, same denomination before Add, amount > 0 before NewCoins) or appear in the reviewed table keyed by function, API and ordinal with its reason; any other site — e.g. a newly added Int64() on a deposit-derived value — is a violation. Decides absence of unreviewed arithmetic panic sources, not liveness."
	r.Rules = []string{"A10.panic-api", "A10.explicit-panic", "A2.panic-guard", "A10.implicit-panic", "A3.cancel-pairing", "A5.blocked-addresses", "A2.no-duration-refusal", "A4.immutable-fields", "A3.topup-pairing", "A3.claim-pairing", "A3.no-stale-writeback"}
	// a cancel returns the unreleased remainder: every successful cancel refunds the stored remaining deposit (after the
	// settlement) and only then deletes the stream
	cancelPairing(c)
	// the refund of a cancel reaches its sender: the governance account, which funds streams through proposals, stays exempt
	// from the blocked list (and the escrow account stays on it)
	blockedAddresses(c, []string{"stream"}, "gov")
	// a claim, a cancel and an affordable top-up are not refused for how long the amount lasts at the stream's rate: the
	// minimum-duration rule belongs to creation alone
	noDurationRefusal(c)
	// "a cancel by the sender succeeds": the flag that allows it is never lost on the way
	streamKeepsCancellable(c)
	// ... and each operation does what it reports: the pairing rules of C10 (a top-up credits what it took, a claim pays what
	// it releases, no stale record is written back over a settlement)
	topUpPairing(c)
	claimPairing(c)
	staleWriteback(c, "A3.no-stale-writeback", moduleFuncs(c, "stream"), secStreams, "stream")
	r.Trusted = []string{"reasons recorded in the reviewed table (rate within [0,1] is C16's obligation)", "SDK arithmetic panics only as documented"}
	r.NotDecided = []string{"that claim/cancel/top-up succeed (liveness)", "bank-side failures"}
	scope := streamScope(c)
	r.Analysed["stream_functions_in_scope"] = len(scope)
	n := 0
	seenReviewed := map[string]bool{}
	for _, f := range scope {
		ord := map[string]int{}
		for _, b := range f.Blocks {
			for _, in := range b.Instrs {
				if _, ok := in.(*ssa.Panic); ok {
					// a panic no path of the call-expanded view reaches (the arm after an exhaustive switch on a verdict
					// enumeration: the walk knows which constants the verdict helper returns) is not on a message route
					reachable := false
					for _, root := range w.Roots["MSG:stream"] {
						if _, in2 := w.Reachable([]*ssa.Function{root})[f]; !in2 {
							continue
						}
						site := in
						if w.FlatReaches(w.FlatRoot(root), nil, nil, func(p ir.FPos) bool { return p.In == site }) != nil {
							reachable = true
						}
					}
					if !reachable && c.Rooted(f) {
						r.OK("A10.explicit-panic", fn(f)+"|dead", pos(c, in), "panic statement not reachable on any stream message route (exhaustive verdict switch)")
						continue
					}
					r.Bad("A10.explicit-panic", fn(f), pos(c, in), "no explicit panic on a stream message route", "panic statement")
					continue
				}
				call, ok := in.(*ssa.Call)
				if !ok {
					continue
				}
				e := w.ExprOf(call)
				api := ""
				for suf := range panicAPIs {
					if calleeIs(e, suf) {
						api = suf
					}
				}
				if api == "" {
					continue
				}
				n++
				// (the conversions that panic outside the int64 range are one kind of site, whichever of them is written: a
				// site keeps its identity when Dec.TruncateInt64 becomes Int.Int64 on the same quotient)
				apiKey := api
				if strings.Contains(panicAPIs[api], "does not fit int64") {
					apiKey = "int64-range"
				}
				ord[apiKey]++
				key := fmt.Sprintf("%s|%s|%d", fn(f), apiKey, ord[apiKey])
				// 1. discharged by structure, wherever the call stands: a recognised dominating guard of the API's
				//    kind, or a constant zero amount
				class := ""
				for _, kind := range panicGuardKinds[api] {
					if panicGuard(c, f, call, e, kind) {
						class = kind
						break
					}
				}
				if class == "" && (api == "types.NewCoin" || api == "types.NewInt64Coin") && len(e.Args) == 2 && isZeroInt(w.Expand(e.Args[1], 1)) {
					class = "zero amount"
				}
				if class != "" {
					r.OK("A2.panic-guard", key, pos(c, in), "the call cannot panic here: "+class)
					continue
				}
				if os.Getenv("MCDEBUG") == "c12sig" {
					fmt.Fprintln(os.Stderr, "c12sig", key, "=>", strings.Join(panicSiteSigs(c, f, call, api), " || "))
				}
				// 2. otherwise it must be in the reviewed table (keyed by function, API and ordinal)
				reason, listed := streamPanicReviewed[key]
				if !listed {
					// the same reviewed call in another place: identified by what it is applied to on every route
					sigs := panicSiteSigs(c, f, call, api)
					all := len(sigs) > 0
					for _, sg := range sigs {
						if rs, ok := streamPanicReviewedSig[sg]; ok {
							reason = rs
						} else {
							all = false
						}
					}
					if all {
						r.OK("A10.panic-api", key, pos(c, in), "reviewed: "+reason)
						continue
					}
				}
				if !listed || strings.HasPrefix(reason, "guard:") {
					detail := "unreviewed call " + e.String()
					if listed {
						detail = "the guard (" + reason[6:] + ") is not found on every path to " + e.String()
					}
					rule := "A10.panic-api"
					if listed {
						rule = "A2.panic-guard"
					}
					r.Bad(rule, key, pos(c, in), "every panicking SDK call on a stream route is guarded or reviewed: "+panicAPIs[api], detail)
					continue
				}
				seenReviewed[key] = true
				r.OK("A10.panic-api", key, pos(c, in), "reviewed: "+reason)
			}
		}
	}
	r.Floor("panicking API call sites in stream scope", n, 14)
	// run-time panics no statement announces (computed index, unchecked type assertion, division by a variable)
	implicitPanics(c, scope)
}

// the guard kinds that can discharge a call of each panicking API
var panicGuardKinds = map[string][]string{
	"types.NewCoins":            {"amount>0"},
	"types.NewCoin":             {"seconds>=0"},
	"types.Coin).Sub":           {"deposit>claim"},
	"types.Coin).Add":           {"same-denom"},
	"LegacyDec).QuoTruncateMut": {"flowRate>0"},
	"LegacyDec).QuoTruncate":    {"flowRate>0"},
	"LegacyDec).Quo":            {"flowRate>0"},
}

// intCmp normalises a comparison written with sdk.Int methods (a.GT(b), !a.LTE(b), b.LT(a) ...) to
// (op, a, b) with op one of > >= < <= == != ; ok=false for anything else.
func intCmp(p ir.Pred) (op string, a, b *ir.Expr, ok bool) {
	e := p.E
	if e == nil || e.Op != "call" || len(e.Args) != 2 {
		return "", nil, nil, false
	}
	neg := map[string]string{">": "<=", ">=": "<", "<": ">=", "<=": ">", "==": "!=", "!=": "=="}
	for suf, o := range map[string]string{"math.Int).GT": ">", "math.Int).GTE": ">=", "math.Int).LT": "<", "math.Int).LTE": "<=", "math.Int).Equal": "=="} {
		if calleeIs(e, suf) {
			if !p.Pol {
				o = neg[o]
			}
			return o, e.Args[0], e.Args[1], true
		}
	}
	return "", nil, nil, false
}

// intCmpIs: the predicate says fx(a) <op> fy(b), in either operand order.
func intCmpIs(p ir.Pred, op string, fx, fy func(*ir.Expr) bool) bool {
	o, a, b, ok := intCmp(p)
	if !ok {
		return false
	}
	mirror := map[string]string{">": "<", ">=": "<=", "<": ">", "<=": ">=", "==": "==", "!=": "!="}
	return o == op && fx(a) && fy(b) || mirror[o] == op && fx(b) && fy(a)
}

func panicGuard(c *Ctx, f *ssa.Function, call *ssa.Call, e *ir.Expr, kind string) bool {
	w := c.W
	switch kind {
	case "flowRate>0":
		if w.Guarded(f, call, func(p ir.Pred) bool {
			return cmpIs(p, ">", func(a *ir.Expr) bool { return a.Op == "param" }, func(b *ir.Expr) bool { return b.Op == "const" && b.Name == "0" })
		}, 0) {
			return true
		}
		// the division extracted into a helper handed the divisor: every call site of the helper stands under
		// divisor > 0 (or != 0, for an unsigned one), the divisor taken in that caller's terms
		if len(e.Args) < 2 {
			return false
		}
		core := func(x *ir.Expr) *ir.Expr {
			for i := 0; i < 6 && x != nil; i++ {
				x = stripConvE(x)
				if x.Op == "call" && len(x.Args) == 1 && (strings.HasSuffix(x.Name, "NewDecFromInt") || strings.HasSuffix(x.Name, "NewIntFromUint64") || strings.HasSuffix(x.Name, "NewInt") || strings.HasSuffix(x.Name, "NewDec")) {
					x = x.Args[0]
					continue
				}
				break
			}
			return x
		}
		div := core(e.Args[1])
		if div == nil || !isParamPath(div) {
			return false
		}
		callers := w.Callers(f)
		if len(callers) == 0 {
			return false
		}
		for _, ed := range callers {
			cs, ok := ed.Site.(ssa.CallInstruction)
			if !ok {
				return false
			}
			d2 := core(w.ArgSubst(cs, f, div))
			isD := func(a *ir.Expr) bool { return core(a).String() == d2.String() }
			zero := func(b *ir.Expr) bool { return b.Op == "const" && b.Name == "0" }
			if !w.Guarded(cs.Parent(), cs, func(p ir.Pred) bool { return cmpIs(p, ">", isD, zero) || cmpIs(p, "!=", isD, zero) }, 1) {
				return false
			}
		}
		return true
	case "deposit>claim":
		if len(e.Args) != 2 {
			return false
		}
		amountOf := func(coin *ir.Expr) func(*ir.Expr) bool {
			cs := w.Expand(coin, 4).String()
			amt := ir.FieldOf(w.Expand(coin, 4), "Amount").String()
			return func(x *ir.Expr) bool {
				// (the amount of a coin chosen between alternatives is the choice between their amounts)
				if x.Op == "phi" && (x.String() == amt || w.Expand(x, 4).String() == amt) {
					return true
				}
				// (the comparison may stand in the helper that sized the claim: both sides are compared fully resolved)
				return x.Op == "field" && x.Name == "Amount" && (x.Args[0].String() == coin.String() || w.Expand(x.Args[0], 4).String() == cs)
			}
		}
		a0, a1 := e.Args[0], e.Args[1]
		if args := call.Common().Args; len(args) == 2 {
			// what the operands can be when the call executes (a verdict helper may hand back the claim together with the
			// verdict the caller switched on: only the alternatives that agree with that verdict count)
			a0, a1 = valueAtSite(c, f, call, args[0]), valueAtSite(c, f, call, args[1])
		}
		if os.Getenv("MCDEBUG") == "dgc" {
			fmt.Fprintln(os.Stderr, "dgc a0:", a0.String(), "\n    a1:", a1.String(), "\n    a1x:", w.Expand(a1, 4).String())
		}
		return w.Guarded(f, call, func(p ir.Pred) bool {
			if os.Getenv("MCDEBUG") == "dgc" {
				fmt.Fprintln(os.Stderr, "dgc pred:", p.Pol, p.E.String())
			}
			// a > b or a >= b, written with any of the sdk.Int comparison methods, in either polarity / operand order
			return intCmpIs(p, ">", amountOf(a0), amountOf(a1)) || intCmpIs(p, ">=", amountOf(a0), amountOf(a1))
		}, 0)
	case "same-denom":
		if len(e.Args) != 2 {
			return false
		}
		mk := func(ops []*ir.Expr) ir.Matcher {
			return func(p ir.Pred) bool {
				return cmpIs(p, "==", func(a *ir.Expr) bool {
					return a.Op == "field" && a.Name == "Denom" && a.Args[0].String() == ops[1].String()
				}, func(b *ir.Expr) bool {
					return b.Op == "field" && b.Name == "Denom"
				})
			}
		}
		return guardedUp(c, f, call, e.Args, mk, w.Roots["MSG:stream"])
	case "seconds>=0":
		// amount = NewInt(seconds).Mul(NewInt(flowRate)) with seconds clamped to >= 0 on every path
		if len(e.Args) != 2 {
			return false
		}
		amt, isMul := intMul(e.Args[1])
		if !isMul {
			return false
		}
		sec := amt.Args[0]
		if !(calleeIs(sec, "NewInt") && len(sec.Args) == 1) {
			return false
		}
		// the seconds value is a phi of {0, elapsed}: the elapsed operand may only flow in on an edge where elapsed >= 0;
		// the clamp may stand in a helper (wholeSecondsBetween), and the product in another that is handed the seconds
		return secondsNonNegative(c, f, call, sec.Args[0].V, sec.Args[0], 0)
	case "amount>0":
		var amt *ir.Expr
		if len(e.Args) == 1 && e.Args[0].Op == "list" && len(e.Args[0].Args) == 1 {
			amt = e.Args[0].Args[0]
		}
		canon := func(x *ir.Expr) *ir.Expr { return w.ExpandKeep(x, 6, ir.TypesVocabulary) }
		var camt *ir.Expr
		if amt != nil {
			camt = canon(amt)
		}
		return amt != nil && w.Guarded(f, call, func(p ir.Pred) bool {
			// compared alternative by alternative in canonical form (the coin may be a stream loaded before or after a settlement helper)
			isAmt := func(x *ir.Expr) bool {
				return x.Op == "field" && x.Name == "Amount" && x.Args[0].String() == amt.String() || amountOfCoin(canon(x), camt)
			}
			return intCmpIs(p, ">", isAmt, isZeroInt) ||
				p.Pol && calleeIs(p.E, "math.Int).IsPositive") && len(p.E.Args) == 1 && isAmt(p.E.Args[0]) ||
				p.Pol && calleeIs(p.E, "types.Coin).IsPositive") && len(p.E.Args) == 1 && (p.E.Args[0].String() == amt.String() || sameCoin(canon(p.E.Args[0]), camt))
		}, 1)
	}
	return false
}

// streamFields: what creation and the flow-rate update store: FlowRate is the message's, the
// new stream starts with a zero deposit in the message's denomination and the block time as
// last outflow; the deposit-zero time stored by a top-up / rate change is (now | old zero time)
// + CalculateDuration(deposit, rate) seconds.
func streamFields(c *Ctx) {
	r := c.R
	nzt := 0
	defer func() { r.Floor("recomputed deposit-zero times whose formula was judged", nzt, 2) }()
	for _, method := range []string{"CreateStream", "UpdateFlowRate"} {
		h := handlerOf(c, "stream", method)
		if h == nil {
			r.Undecided("A7.stream-fields", method, "", "handler found", "missing")
			continue
		}
		n := 0
		for _, in := range storeStructs(c, h, secStreams) {
			st := in.E
			if st == nil || st.Op != "struct" {
				continue
			}
			fr := fieldOfStruct(st, "FlowRate")
			if fr == nil {
				continue
			}
			// writers that keep the stored rate (claim, deposit add) are fine; a changed rate must be the message's
			keeps := streamFieldX(c, fr, "FlowRate")
			if !keeps {
				n++
				r.Require(isMsgField(fr, "FlowRate"), "A7.stream-fields", method+"|FlowRate|"+fn(in.Eff.Fn), pos(c, in.Eff.Site), "a stored flow rate that differs from the loaded one is msg.FlowRate", "FlowRate = "+fr.String())
			}
			if method == "CreateStream" {
				dep := fieldOfStruct(st, "Deposit")
				if dep != nil && calleeIs(dep, "types.NewCoin") && len(dep.Args) == 2 {
					d := dep.Args[0]
					okd := d.Op == "field" && d.Name == "Denom" && isMsgField(d.Args[0], "Deposit") && isZeroInt(dep.Args[1])
					r.Require(okd, "A7.stream-fields", method+"|Deposit|"+fn(in.Eff.Fn), pos(c, in.Eff.Site), "a new stream starts with a zero deposit in the denomination of msg.Deposit", "Deposit = "+dep.String())
				}
			}
			if zt := fieldOfStruct(st, "DepositZeroTime"); zt != nil {
				if os.Getenv("MCDEBUG") == "zt" {
					fmt.Fprintln(os.Stderr, "zt", method, fn(in.Eff.Fn), zt)
				}
				// the formula: zero time = (block time | stored zero time) + CalculateDuration(...) whole seconds — the base is a
				// time with its sub-second part (the same instant LastOutflowTime is set to), the duration is scaled by time.Second
				var ztAlts []*ir.Expr
				for _, alt := range zt.Alts() {
					// a helper of the repository that does the addition (types.ZeroTimeFrom(base, seconds)): what it returns
					if alt.Op == "call" && alt.Callee != nil && !calleeIs(alt, "types.CalculateDuration") {
						if in := c.W.Inline(alt); in != nil {
							ztAlts = append(ztAlts, in.Alts()...)
							continue
						}
					}
					ztAlts = append(ztAlts, alt)
				}
				for _, alt := range ztAlts {
					if !alt.Any(func(x *ir.Expr) bool { return calleeIs(x, "types.CalculateDuration") }) {
						continue
					}
					okf := calleeIs(alt, "time.Time).Add") && len(alt.Args) == 2 && (isBlockTime(alt.Args[0]) || streamFieldX(c, alt.Args[0], "DepositZeroTime"))
					if okf {
						d := alt.Args[1]
						for d.Op == "conv" && len(d.Args) == 1 {
							d = d.Args[0]
						}
						okf = d.Op == "bin" && d.Name == "*" && len(d.Args) == 2
						if okf {
							x, y := d.Args[0], d.Args[1]
							strip := func(e *ir.Expr) *ir.Expr {
								for e.Op == "conv" && len(e.Args) == 1 {
									e = e.Args[0]
								}
								return e
							}
							x, y = strip(x), strip(y)
							okf = x.String() == "time.Second" && calleeIs(y, "types.CalculateDuration") || y.String() == "time.Second" && calleeIs(x, "types.CalculateDuration")
						}
					}
					if !okf {
						// the same instant spelled on the unix clock (no time.Duration in between): time.Unix(base.Unix() + d, base.Nanosecond())
						u := alt
						for (calleeIs(u, "time.Time).UTC") || calleeIs(u, "time.Time).In")) && len(u.Args) >= 1 {
							u = u.Args[0]
						}
						if calleeIs(u, "time.Unix") && len(u.Args) == 2 {
							sec, ns := u.Args[0], u.Args[1]
							isBase := func(e *ir.Expr) bool { return isBlockTime(e) || streamFieldX(c, e, "DepositZeroTime") }
							secOK := sec.Op == "bin" && sec.Name == "+" && len(sec.Args) == 2 && sec.Any(func(x *ir.Expr) bool { return calleeIs(x, "time.Time).Unix") && len(x.Args) == 1 && isBase(x.Args[0]) }) && sec.Any(func(x *ir.Expr) bool { return calleeIs(x, "types.CalculateDuration") })
							nsOK := ns.Any(func(x *ir.Expr) bool {
								return calleeIs(x, "time.Time).Nanosecond") && len(x.Args) == 1 && isBase(x.Args[0])
							})
							okf = secOK && nsOK
						}
					}
					nzt++
					r.Require(okf, "A7.stream-fields", method+"|zero-time-formula|"+fn(in.Eff.Fn), pos(c, in.Eff.Site),
						"a recomputed deposit-zero time is (block time, or the running stream's zero time).Add(time.Second * CalculateDuration(...)): the instant the schedule (re)starts plus whole seconds",
						alt.String())
				}
				zt.Walk(func(x *ir.Expr) bool {
					if calleeIs(x, "types.CalculateDuration") && len(x.Args) == 2 {
						depOK := isMsgField(x.Args[0], "Deposit") || streamFieldX(c, x.Args[0], "Deposit") || x.Args[0].Op == "param"
						rateOK := isMsgField(x.Args[1], "FlowRate") || streamFieldX(c, x.Args[1], "FlowRate")
						r.Require(depOK && rateOK, "A7.stream-fields", method+"|zero-time-duration|"+fn(in.Eff.Fn), pos(c, in.Eff.Site), "the duration added to the deposit-zero time is CalculateDuration(deposit added or remaining, the stream's flow rate)", x.String())
						return false
					}
					return true
				})
			}
		}
		r.Floor("stream writes changing the flow rate via "+method, n, 1)
	}
}

// amountOfCoin: x (canonical) is <coin>.Amount for the coin d (canonical), zero-value alternatives of either
// side (the "not found" defaults of getters) ignored.
func amountOfCoin(x, d *ir.Expr) bool {
	if x == nil || d == nil {
		return false
	}
	ds := map[string]bool{}
	for _, a := range nonZeroAlts(d) {
		ds[a.String()] = true
	}
	n := 0
	for _, a := range nonZeroAlts(x) {
		n++
		if !(a.Op == "field" && a.Name == "Amount" && len(a.Args) == 1 && ds[a.Args[0].String()]) {
			return false
		}
	}
	return n > 0
}

// sameCoin: x and d denote the same coin, zero-value alternatives ignored.
func sameCoin(x, d *ir.Expr) bool {
	if x == nil || d == nil {
		return false
	}
	ds := map[string]bool{}
	for _, a := range nonZeroAlts(d) {
		ds[a.String()] = true
	}
	n := 0
	for _, a := range nonZeroAlts(x) {
		n++
		if !ds[a.String()] {
			return false
		}
	}
	return n > 0
}

// resetsOutflowAt: the instruction occurrence assigns the block time to a LastOutflowTime field — judged in the
// call context it occurs in (the claim step may hand the time to a store helper as a parameter or struct field).
func resetsOutflowAt(c *Ctx, cx *ir.FCtx, in ssa.Instruction) bool {
	st, ok := in.(*ssa.Store)
	if !ok {
		return false
	}
	fa, ok := st.Addr.(*ssa.FieldAddr)
	if !ok || fieldAddrName(fa) != "LastOutflowTime" {
		return false
	}
	v := c.W.ExprOf(st.Val)
	if isBlockTime(v) {
		return true
	}
	if cx != nil {
		v = cx.Apply(v)
	}
	return isBlockTime(c.W.ExpandKeep(v, 4, ir.TypesVocabulary))
}

// topUpSteps: the top-up step, found by what it does — the smallest non-handler functions of the stream module that
// (themselves or through helpers) both debit the sender (account -> module transfer) and store a stream record.
func topUpSteps(c *Ctx) []*ssa.Function {
	w := c.W
	does := map[*ssa.Function]bool{}
	var cands []*ssa.Function
	for _, f := range moduleFuncs(c, "stream") {
		if f.Parent() != nil || !c.Rooted(f) || w.IsRoot(f) {
			continue
		}
		if reachesEffect(c, f, func(e ir.Effect) bool { return e.Method == "SendCoinsFromAccountToModule" }) &&
			reachesEffect(c, f, func(e ir.Effect) bool { return e.Kind == "StoreWrite" && e.Section == secStreams }) {
			cands = append(cands, f)
			does[f] = true
		}
	}
	var out []*ssa.Function
	for _, f := range cands {
		minimal := true
		for g := range w.Reachable([]*ssa.Function{f}) {
			if g != f && does[g] {
				minimal = false
			}
		}
		if minimal {
			out = append(out, f)
		}
	}
	return out
}

// sourceSignature names where the values of an expression come from: the vocabulary functions applied, message
// fields, stored fields (by section) and constants of package time — sorted, so that it does not depend on how the
// expression was spelled.
func sourceSignature(c *Ctx, e *ir.Expr) string {
	set := map[string]bool{}
	e.Walk(func(x *ir.Expr) bool {
		switch {
		case x.Op == "call" && x.Callee != nil && ir.TypesVocabulary(x.Callee):
			set[x.Callee.Name()] = true
		case x.Op == "field" && len(x.Args) == 1 && x.Args[0].Op == "param" && strings.HasPrefix(x.Args[0].Name, "msg"):
			set["msg."+x.Name] = true
			return false
		case x.Op == "field" && len(x.Args) == 1 && x.Args[0].Op == "state":
			sec := x.Args[0].Name
			set["stored:"+sec[strings.LastIndex(sec, ".")+1:]+"."+x.Name] = true
			return false
		case x.Op == "param" && !strings.HasPrefix(x.Name, "msg") && x.Name != "ctx" && x.Name != "goCtx" && x.Name != "k":
			set["param:"+x.Name] = true
		}
		return true
	})
	return strings.Join(sortedKeys(set), ";")
}

// panicSiteSigs: what a panicking call is applied to, for every way the stream handlers (and the stream messages'
// ValidateBasic) reach it: "<api>|<sources of the arguments, in the root's terms>". It identifies the call by its
// meaning rather than by the function it is written in.
func panicSiteSigs(c *Ctx, f *ssa.Function, call *ssa.Call, api string) []string {
	w := c.W
	tup := &ir.Expr{Op: "tuple"}
	for _, a := range call.Common().Args {
		tup.Args = append(tup.Args, w.ExprOf(a))
	}
	roots := append([]*ssa.Function{}, w.Roots["MSG:stream"]...)
	for _, g := range w.Roots["MSGIFACE:ValidateBasic"] {
		if ir.ModuleOf(g) == "stream" {
			roots = append(roots, g)
		}
	}
	set := map[string]bool{}
	for _, root := range roots {
		if root == f {
			set[api+"|"+sourceSignature(c, w.ExpandKeep(tup, 6, calculators))] = true
			continue
		}
		for _, up := range w.OriginsUpTo(f, tup, root, 8) {
			set[api+"|"+sourceSignature(c, w.ExpandKeep(up.E, 6, calculators))] = true
		}
	}
	return sortedKeys(set)
}

// calculators: the schedule arithmetic of the stream types package (CalculateDuration, CalculateAmountToClaim,
// CalculateValidatorFee ...) — the vocabulary a panic site's arguments are described in; constructors, key structs
// and other plumbing are expanded.
func calculators(f *ssa.Function) bool {
	return ir.TypesVocabulary(f) && strings.HasPrefix(f.Name(), "Calculate")
}

// reviewed panicking calls by meaning: "<api>|<argument sources>" -> reason. A call that was moved into another
// function (or whose enclosing function was renamed) is the same reviewed call; a call applied to anything else is not.
var streamPanicReviewedSig = map[string]string{
	"types.NewCoins|msg.Deposit":                              "top-up deposit validated positive by ValidateBasic and the handler",
	"address.MustLengthPrefix|msg.Sender":                     "addresses come from AccAddressFromBech32, which rejects more than 255 bytes",
	"address.MustLengthPrefix|msg.Receiver":                   "addresses come from AccAddressFromBech32, which rejects more than 255 bytes",
	"types.NewDecCoinFromCoin|msg.Deposit":                    "deposit is a valid non-negative coin (validated at creation / top-up)",
	"types.NewDecCoinFromCoin|stored:StreamKeyPrefix.Deposit": "deposit is a valid non-negative coin (validated at creation / top-up)",
	"types.NewDecCoinFromCoin|" + claimTotalSig:               "claim total is non-negative (checked by the caller before the split)",
	"types.NewCoin|" + claimTotalSigFee:                       "fee = trunc(amount*rate) is non-negative for rate in [0,1] (C16 validates the rate)",
	"types.Coin).Sub|" + claimTotalSigFee:                     "fee <= amount because the stored rate is validated within [0,1] (C16); same denom by construction",
}

const (
	claimTotalSig    = "CalculateAmountToClaim;stored:StreamKeyPrefix.Deposit;stored:StreamKeyPrefix.DepositZeroTime;stored:StreamKeyPrefix.FlowRate;stored:StreamKeyPrefix.LastOutflowTime"
	claimTotalSigFee = "CalculateAmountToClaim;stored:ParamsKey.ValidatorFee;stored:StreamKeyPrefix.Deposit;stored:StreamKeyPrefix.DepositZeroTime;stored:StreamKeyPrefix.FlowRate;stored:StreamKeyPrefix.LastOutflowTime"
)

// firstArg: the first operand of a call (the receiver of a method call), nil when it has none.
func firstArg(call *ssa.Call) ssa.Value {
	if len(call.Call.Args) == 0 {
		return nil
	}
	return call.Call.Args[0]
}

// secondsNonNegative: the value sv, used at instruction `at` of fn, is >= 0 on every path: the constant 0, a value tested
// >= 0 on the way, a choice between such values, what a helper hands back (each of its returns judged so), or a parameter
// for which every caller hands in such a value.
func secondsNonNegative(c *Ctx, fn *ssa.Function, at ssa.Instruction, sv ssa.Value, se *ir.Expr, depth int) bool {
	w := c.W
	if depth > 4 || sv == nil {
		return false
	}
	geZero := func(text string) ir.Matcher {
		return func(p ir.Pred) bool {
			return cmpIs(p, ">=", func(x *ir.Expr) bool { return x.String() == text }, func(y *ir.Expr) bool { return y.Op == "const" && y.Name == "0" })
		}
	}
	switch x := sv.(type) {
	case *ssa.Const:
		return x.Value != nil && x.Value.String() == "0"
	case *ssa.Parameter:
		idx := -1
		for i, p := range fn.Params {
			if p == x {
				idx = i
			}
		}
		callers := w.Callers(fn)
		if idx < 0 || len(callers) == 0 {
			return false
		}
		for _, ed := range callers {
			cs, ok := ed.Site.(ssa.CallInstruction)
			if !ok || cs.Common().IsInvoke() || idx >= len(cs.Common().Args) {
				return false
			}
			a := cs.Common().Args[idx]
			if !secondsNonNegative(c, cs.Parent(), cs, a, w.ExprOf(a), depth+1) {
				return false
			}
		}
		return true
	case *ssa.Call:
		gs := w.CalleesOf(x)
		if len(gs) != 1 || len(gs[0].Blocks) == 0 || gs[0].Signature.Results().Len() != 1 {
			return false
		}
		g := gs[0]
		for _, blk := range g.Blocks {
			ret, ok := blk.Instrs[len(blk.Instrs)-1].(*ssa.Return)
			if !ok {
				continue
			}
			if !secondsNonNegative(c, g, ret, ret.Results[0], w.ExprOf(ret.Results[0]), depth+1) {
				return false
			}
		}
		return true
	case *ssa.Phi:
		for k, op := range x.Edges {
			if cst, ok := op.(*ssa.Const); ok && cst.Value != nil && cst.Value.String() == "0" {
				continue
			}
			edges := w.EstablishedEdges(fn, geZero(w.ExprOf(op).String()), 0)
			pred := x.Block().Preds[k]
			okEdge := false
			for si, su := range pred.Succs {
				if su == x.Block() && edges[[2]int{pred.Index, si}] {
					okEdge = true
				}
			}
			if !okEdge {
				return false
			}
		}
		return true
	}
	text := ""
	if se != nil {
		text = se.String()
	}
	return text != "" && w.Guarded(fn, at, geZero(text), 0)
}

// noDurationRefusal (A2.no-duration-refusal): on the routes of MsgTopUpDeposit, MsgClaimStream and MsgCancelStream no branch
// that compares a CalculateDuration(...) result has a side from which the function can only fail. Creation refuses streams
// that would run for less than a minute; a check shared with creation (`validateFunding(deposit, rate)`) applied to a
// top-up refuses every affordable top-up smaller than sixty seconds' worth of flow.
func noDurationRefusal(c *Ctx) {
	w, r := c.W, c.R
	n := 0
	for _, method := range []string{"TopUpDeposit", "ClaimStream", "CancelStream"} {
		h := handlerOf(c, "stream", method)
		if h == nil {
			r.Undecided("A2.no-duration-refusal", method, "", "handler found", "missing")
			continue
		}
		var gs []*ssa.Function
		for g := range w.Reachable([]*ssa.Function{h}) {
			if ir.ModuleOf(g) == "stream" && !w.IsGenerated(g) {
				gs = append(gs, g)
			}
		}
		sortFuncs(gs)
		bad := ""
		for _, g := range gs {
			n++
			succ := w.SuccessReturns(g)
			for _, b := range g.Blocks {
				if len(b.Instrs) == 0 || len(b.Succs) != 2 {
					continue
				}
				iff, ok := b.Instrs[len(b.Instrs)-1].(*ssa.If)
				if !ok {
					continue
				}
				bo, ok := iff.Cond.(*ssa.BinOp)
				if !ok {
					continue
				}
				switch bo.Op {
				case token.LSS, token.LEQ, token.GTR, token.GEQ, token.EQL, token.NEQ:
				default:
					continue
				}
				mentions := false
				if bt, isBasic := bo.X.Type().Underlying().(*types.Basic); !isBasic || bt.Info()&types.IsInteger == 0 {
					continue // (a test of an error that some call handed back is not a test of the duration)
				}
				for _, side := range []ssa.Value{bo.X, bo.Y} {
					isDur := func(z *ir.Expr) bool { return calleeIs(z, "types.CalculateDuration") }
					if e := w.ExprOf(side); e.Any(isDur) || w.ExpandKeep(e, 2, ir.TypesVocabulary).Any(isDur) {
						mentions = true
					}
				}
				if !mentions || ir.ErrIndex(g) < 0 {
					continue
				}
				for k := 0; k < 2; k++ {
					can := false
					for _, ret := range succ {
						if ret.Block() == b.Succs[k] || ir.ReachesFrom(g, b.Succs[k], 0, ret, ir.Cut{}) {
							can = true
						}
					}
					if !can && bad == "" {
						bad = "in " + fn(g) + " the " + map[int]string{0: "true", 1: "false"}[k] + " side of " + w.ExprOf(bo).String() + " (" + w.InstrPos(bo) + ") can only fail"
					}
				}
			}
		}
		r.Require(bad == "", "A2.no-duration-refusal", method, w.Pos(h.Pos()),
			"a "+method+" is not refused because of how long an amount lasts at the stream's flow rate (the one-minute minimum is a rule of stream creation)", bad)
	}
	r.Floor("functions on the top-up, claim and cancel routes searched for duration tests", n, 6)
}

// streamKeepsCancellable (A4.immutable-fields|stream.Cancellable): whether a stream can be cancelled is fixed when it is
// created. Every store of a stream on the top-up, claim and flow-rate routes writes the Cancellable flag of the stream it
// loaded: a record rebuilt from a fresh literal on one of those routes (`types.Stream{Deposit: ..., LastOutflowTime: now}`)
// silently turns the flag off, and the sender can never again cancel and take back the remainder.
func streamKeepsCancellable(c *Ctx) {
	r := c.R
	n := 0
	for _, method := range []string{"TopUpDeposit", "ClaimStream", "UpdateFlowRate"} {
		h := handlerOf(c, "stream", method)
		if h == nil {
			r.Undecided("A4.immutable-fields", "stream.Cancellable|"+method, "", "handler found", "missing")
			continue
		}
		for _, in := range storeStructs(c, h, secStreams) {
			st := in.E
			if st == nil || st.Op != "struct" {
				continue // the loaded record stored back whole
			}
			n++
			cf := fieldOfStruct(st, "Cancellable")
			ok := cf != nil
			if ok {
				for _, a := range cf.Alts() {
					if !streamFieldX(c, a, "Cancellable") {
						ok = false
					}
				}
			}
			r.Require(ok, "A4.immutable-fields", "stream.Cancellable|"+method+"|"+fn(in.Eff.Fn), pos(c, in.Eff.Site),
				"a stream stored on the "+method+" route keeps the Cancellable flag it was created with", fmt.Sprint("Cancellable = ", cf))
		}
	}
	r.Floor("stream stores on the top-up, claim and flow-rate routes judged for the Cancellable flag", n, 3)
}

// settleRules: the settlement orderings of C11 (A3.settle-before-change, A4.last-outflow-writers, A3.restart-resets-outflow) —
// whenever the stored deposit is positive the claim step precedes a new flow rate, a refund and the top-up of an expired
// stream, and only the claim step and creation set LastOutflowTime. C10 runs them too: a deposit is reduced only together
// with coins moved out of the escrow.
func settleRules(c *Ctx) {
	w, r := c.W, c.R
	noDeposit := func(f *ssa.Function) map[[2]int]bool {
		return w.EstablishedEdges(f, func(pr ir.Pred) bool {
			q := pr
			q.Pol = !q.Pol
			return depositPositive(c)(q)
		}, 0)
	}
	// "the outstanding flow was settled" = the claim step ran: it is the step that sets LastOutflowTime to the block
	// time. Orderings are asked on the flat view (the settlement may be reached through a helper that decides
	// whether there is anything to settle), with the deposit-is-zero edges deleted in every call context.
	settled := func(cx *ir.FCtx, in ssa.Instruction) bool {
		return resetsOutflowAt(c, cx, in)
	}
	noDepositM := func(pr ir.Pred) bool {
		q := pr
		q.Pol = !q.Pol
		return depositPositive(c)(q)
	}
	settledBeforeP := func(f *ssa.Function, target func(ir.FPos) bool, extra map[[2]int]bool) bool {
		root := w.FlatRoot(f)
		cut := &ir.FlatCut{Matcher: noDepositM, Depth: 1, Barrier: settled}
		if extra != nil {
			cut.Edges = func(ctx *ir.FCtx) map[[2]int]bool {
				if ctx == root {
					return extra
				}
				return nil
			}
		}
		return w.FlatReaches(root, nil, cut, target) == nil
	}
	_, _ = noDeposit, settledBeforeP
	settledBefore := func(f *ssa.Function, site ssa.Instruction, extra map[[2]int]bool) bool {
		root := w.FlatRoot(f)
		cut := &ir.FlatCut{Matcher: noDepositM, Depth: 1, Barrier: settled}
		if extra != nil {
			cut.Edges = func(ctx *ir.FCtx) map[[2]int]bool {
				if ctx == root {
					return extra
				}
				return nil
			}
		}
		return w.FlatReaches(root, nil, cut, func(p ir.FPos) bool { return p.Ctx == root && p.In == site }) == nil
	}
	isClaimIn := func(f *ssa.Function) func(ssa.Instruction) bool {
		return callReaching(c, f, func(e ir.Effect) bool { return e.Method == "SendCoinsFromModuleToModule" })
	}
	// functions that belong to the claim step: reached from the consensus roots only through it (its phases and
	// store helper); what they write is the claim step's business (claim-pairing checks Deposit and LastOutflowTime there)
	claimFn := map[*ssa.Function]bool{}
	for _, g := range claimSteps(c) {
		claimFn[g] = true
	}
	outside := map[*ssa.Function]bool{}
	var q []*ssa.Function
	for _, rt := range w.RootSet(consensusKinds...) {
		if !claimFn[rt] && !outside[rt] {
			outside[rt] = true
			q = append(q, rt)
		}
	}
	for len(q) > 0 {
		f := q[0]
		q = q[1:]
		for _, ed := range w.Callees(f) {
			if !claimFn[ed.To] && !outside[ed.To] {
				outside[ed.To] = true
				q = append(q, ed.To)
			}
		}
	}
	// flow-rate update
	n := 0
	for _, f := range w.Funcs {
		if ir.ModuleOf(f) != "stream" || !c.Rooted(f) || w.IsGenerated(f) || w.IsRoot(f) || claimFn[f] || !outside[f] {
			continue
		}
		isSet := callReaching(c, f, func(e ir.Effect) bool { return e.Kind == "StoreWrite" && e.Section == secStreams })
		for _, s := range findInstrs(f, isSet) {
			if isClaimIn(f)(s) {
				continue
			}
			call, ok := s.(ssa.CallInstruction)
			if !ok {
				continue
			}
			args := call.Common().Args
			st := w.ExprOf(args[len(args)-1])
			fr := fieldOfStruct(st, "FlowRate")
			if fr == nil {
				continue
			}
			lo := fieldOfStruct(st, "LastOutflowTime")
			creating := false
			if lo != nil && isBlockTime(lo) {
				creating = true
			}
			if !creating && lo != nil {
				r.Require(streamFieldX(c, lo, "LastOutflowTime"), "A4.last-outflow-writers", fn(f), pos(c, s), "only the claim step and stream creation set LastOutflowTime", "LastOutflowTime = "+lo.String())
			}
			if fr.Op == "param" && !creating {
				n++
				r.Require(settledBefore(f, s, nil), "A3.settle-before-change", "flow-rate|"+fn(f), pos(c, s), "a new flow rate is stored only after outstanding flow was settled at the old rate (whenever the deposit is positive)", "the store is reachable with a positive deposit and no settlement")
				// and the stored DepositZeroTime is recomputed from the reloaded deposit
				zt := fieldOfStruct(st, "DepositZeroTime")
				if zt != nil {
					// in canonical form: helpers around the duration calculator expanded, the calculator itself kept
					zt = w.ExpandKeep(zt, 4, func(g *ssa.Function) bool { return g.Name() == "CalculateDuration" })
				}
				r.Require(zt != nil && zt.Any(func(x *ir.Expr) bool { return calleeIs(x, "types.CalculateDuration") }), "A3.settle-before-change", "flow-rate-zero-time|"+fn(f), pos(c, s), "the deposit-zero time is recomputed from the settled remainder and the new rate", fmt.Sprint(zt))
				if zt != nil {
					zt.Walk(func(x *ir.Expr) bool {
						if calleeIs(x, "types.CalculateDuration") && len(x.Args) == 2 {
							r.Require(streamFieldX(c, x.Args[0], "Deposit") && x.Args[1].String() == fr.String() && reloadedAfter(c, f, isClaimIn(f), s), "A3.settle-before-change", "flow-rate-duration-args|"+fn(f), pos(c, s), "the new duration is CalculateDuration(reloaded deposit, new flow rate)", x.String())
							return false
						}
						return true
					})
				}
			}
		}
	}
	r.Floor("flow-rate stores outside the claim step", n, 1)
	// top-up of an expired stream: claim before the transfer
	isSendSite := directSites(c, func(e ir.Effect) bool {
		return e.Method == "SendCoinsFromAccountToModule" && ir.ModuleOf(e.Fn) == "stream"
	})
	for _, f := range topUpSteps(c) {
		var send ir.Effect
		for g := range w.Reachable([]*ssa.Function{f}) {
			for _, e := range w.EffectsOf(g) {
				if e.Method == "SendCoinsFromAccountToModule" && ir.ModuleOf(g) == "stream" {
					send = e
				}
			}
		}
		// edges on which "DepositZeroTime is after now" (not expired) holds: both zt.Before(now) and zt.Equal(now) are
		// false there. Each half is established on its own edges; an edge carries a half also when it can only be reached
		// through an edge that does (the else-edge of the second test of `A || B`, or the false edge of `if expired`
		// with expired := A || B held in a variable). Computed in every call context of the flat view (the classification
		// may sit in a helper that returns a verdict).
		notExpiredEdges := func(cx *ir.FCtx) map[[2]int]bool {
			g := cx.Fn
			half := func(method string) map[[2]int]bool {
				es := w.EstablishedEdgesIn(cx, func(pr ir.Pred) bool {
					e := pr.E
					return !pr.Pol && calleeIs(e, method) && len(e.Args) == 2 && streamFieldX(c, e.Args[0], "DepositZeroTime") && isBlockTime(e.Args[1])
				}, 2)
				out := map[[2]int]bool{}
				for k := range es {
					out[k] = true
				}
				for _, b := range g.Blocks {
					if len(b.Instrs) == 0 || b.Index == 0 {
						continue
					}
					if !ir.Reaches(g, b.Instrs[len(b.Instrs)-1], ir.Cut{Edges: es}) {
						for si := range b.Succs {
							out[[2]int{b.Index, si}] = true
						}
					}
				}
				return out
			}
			cut := map[[2]int]bool{}
			notBefore, notEqual := half("time.Time).Before"), half("time.Time).Equal")
			for k := range notBefore {
				if notEqual[k] {
					cut[k] = true
				}
			}
			// ... or it is tested positively: DepositZeroTime.After(now) / now.Before(DepositZeroTime) holds
			for k := range w.EstablishedEdgesIn(cx, func(pr ir.Pred) bool {
				e := pr.E
				if !pr.Pol || len(e.Args) != 2 {
					return false
				}
				return calleeIs(e, "time.Time).After") && streamFieldX(c, e.Args[0], "DepositZeroTime") && isBlockTime(e.Args[1]) ||
					calleeIs(e, "time.Time).Before") && isBlockTime(e.Args[0]) && streamFieldX(c, e.Args[1], "DepositZeroTime")
			}, 2) {
				cut[k] = true
			}
			return cut
		}
		okTop := w.FlatReaches(w.FlatRoot(f), nil, &ir.FlatCut{Matcher: noDepositM, Depth: 1, Barrier: settled, Edges: notExpiredEdges}, func(p ir.FPos) bool { return isSendSite(p.In) }) == nil
		r.Require(okTop, "A3.settle-before-change", "topup-expired|"+fn(f), pos(c, send.Site), "topping up an expired stream with a positive deposit first settles the remainder to the receiver", "the transfer is reachable for an expired, funded stream without settlement")
	}
	// cancel: covered structurally in C10 (claim<refund); repeated here as the C11 clause
	for _, f := range w.Funcs {
		if ir.ModuleOf(f) != "stream" || !c.Rooted(f) || w.IsRoot(f) {
			continue
		}
		dels := findInstrs(f, callReaching(c, f, func(e ir.Effect) bool { return e.Kind == "StoreDelete" && e.Section == secStreams }))
		for _, e := range w.EffectsOf(f) {
			if e.Method == "SendCoinsFromModuleToAccount" && len(dels) > 0 {
				r.Require(settledBefore(f, e.Site, nil), "A3.settle-before-change", "cancel|"+fn(f), pos(c, e.Site), "a cancel settles outstanding flow before refunding", "refund reachable without settlement")
			}
		}
	}
	restartResetsOutflow(c, isClaimIn)
}
