package props

import (
	"fmt"
	"strings"

	"golang.org/x/tools/go/ssa"

	"mcverif/internal/ir"
)

// staleWriteback is rule A3.no-stale-writeback (lost update): a function that reads a record of
// section `sec`, lets another step write that section (typically the settlement claim), and then
// stores a value derived from its *earlier* read overwrites what the step in between recorded.
//
// For every writer site Wb of the section in f whose arguments derive from reads of the section
// (the call instructions C that appear in the argument's origin and reach a read of `sec`), and
// every other writer site Wa of the section: the tree is stale when some read R in C can be
// followed by Wa, and Wb can then be reached from Wa without passing any read of C again.
// When one call both writes and re-reads (a helper that settles and returns the refreshed
// record), it counts as fresh only if inside the helper every path from a writer to a return
// passes a read.
func staleWriteback(c *Ctx, rule string, fs []*ssa.Function, sec, label string) (sites int) {
	w, r := c.W, c.R
	isW := func(e ir.Effect) bool {
		return (e.Kind == "StoreWrite" || e.Kind == "StoreDelete") && e.Section == sec
	}
	isR := func(e ir.Effect) bool { return e.Kind == "StoreRead" && e.Section == sec }
	for _, f := range fs {
		writes := callReaching(c, f, isW)
		reads := callReaching(c, f, isR)
		writers := findInstrs(f, writes)
		if len(writers) < 2 && !(len(writers) == 1 && reads(writers[0])) {
			continue
		}
		for _, wb := range writers {
			call, ok := wb.(ssa.CallInstruction)
			if !ok {
				continue
			}
			// read instructions the stored arguments derive from
			// (origins merge identical alternatives, so a re-read spelled like the first read is represented by
			// the first one's node: every read instruction with the same origin text is a source too)
			src := map[ssa.Instruction]bool{}
			texts := map[string]bool{}
			precise := false
			for _, a := range call.Common().Args {
				// a record kept in a local: its sources are the reads whose result is assigned to that very local (a second
				// read assigned to another variable of the same name — `stream, ok := k.Get(...)` in an inner block — is not)
				if ps := localSources(a, reads); len(ps) > 0 {
					precise = true
					for _, rd := range ps {
						if rd != wb {
							src[rd] = true
						}
					}
					continue
				}
				w.ExprOf(a).Walk(func(x *ir.Expr) bool {
					if x.Call != nil && x.Call != wb && reads(x.Call) {
						src[x.Call] = true
						texts[callText(w, x.Call)] = true
					}
					return true
				})
			}
			for _, in := range findInstrs(f, reads) {
				if ci, ok := in.(ssa.CallInstruction); ok && in != wb && texts[callText(w, ci)] {
					src[in] = true
				}
			}
			if len(src) == 0 {
				continue
			}
			sites++
			key := fmt.Sprintf("%s|%s|%s", label, fn(f), siteName(c, wb))
			stale := ""
			for _, wa := range writers {
				if wa == wb {
					continue
				}
				if src[wa] {
					// one call writes and hands back the record: fresh only if the callee re-reads after its last write
					fresh := true
					for _, g := range w.CalleesOf(wa.(ssa.CallInstruction)) {
						if !endsFresh(c, g, isW, isR, map[*ssa.Function]bool{}) {
							fresh = false
						}
					}
					if fresh {
						continue
					}
					stale = "the value comes from " + siteName(c, wa) + ", which writes the record after reading it"
					break
				}
				cut := ir.Cut{Barrier: func(in ssa.Instruction) bool { return in != wa && src[in] }}
				if !ir.ReachesFrom(f, wa.Block(), ir.InstrIndex(wa)+1, wb, cut) {
					continue
				}
				for rd := range src {
					if ir.ReachesFrom(f, rd.Block(), ir.InstrIndex(rd)+1, wa, ir.Cut{}) {
						stale = fmt.Sprintf("read at %s, then %s writes the section, then the earlier value is stored back without a re-read", w.InstrPos(rd), siteName(c, wa))
						break
					}
				}
				if stale != "" {
					break
				}
			}
			if stale != "" && !precise && flatRereads(c, f, sec) {
				// judged on the call-expanded view: the re-read may stand in a helper that settles and refreshes the
				// caller's record through a pointer
				stale = ""
			}
			r.Require(stale == "", rule, key, pos(c, wb), "a record stored back was read after the last other write to its section in this operation (no lost update)", stale)
		}
	}
	return
}

// endsFresh: inside g, every path from a writer of the section to a return passes a read of it.
func endsFresh(c *Ctx, g *ssa.Function, isW, isR func(ir.Effect) bool, busy map[*ssa.Function]bool) bool {
	if busy[g] || len(g.Blocks) == 0 {
		return true
	}
	busy[g] = true
	writes := callReaching(c, g, isW)
	reads := callReaching(c, g, isR)
	for _, wa := range findInstrs(g, writes) {
		for _, ret := range c.W.SuccessReturns(g) { // a failing return hands the error to the caller, which gives up
			if ir.ReachesFrom(g, wa.Block(), ir.InstrIndex(wa)+1, ret, ir.Cut{Barrier: func(in ssa.Instruction) bool { return in != wa && reads(in) }}) {
				return false
			}
		}
	}
	return true
}

func callText(w *ir.World, call ssa.CallInstruction) string {
	if v := call.Value(); v != nil {
		return w.ExprOf(v).String()
	}
	return ""
}

// staleRewrite is the flat-view form of the lost-update rule for a counter section: on the call-expanded view of an entry
// point, once a record of the section has been written, no path reaches another write of the section without reading the
// section again in between — a value read once (before a loop, in a planning phase) and written back repeatedly drops
// every update made in between. Returns the number of write sites judged.
func staleRewrite(c *Ctx, rule string, roots []*ssa.Function, sec string) int {
	w, r := c.W, c.R
	isW := directSites(c, func(e ir.Effect) bool { return e.Kind == "StoreWrite" && e.Section == sec })
	// (looking the record up and finding none is a read too)
	isR := directSites(c, func(e ir.Effect) bool { return (e.Kind == "StoreRead" || e.Kind == "StoreHas") && e.Section == sec })
	n := 0
	for _, root := range roots {
		fr := w.FlatRoot(root)
		occ := w.FlatOccurrences(fr, isW)
		if len(occ) == 0 {
			continue
		}
		n += len(occ)
		bad := ""
		for _, o := range occ {
			from := o
			if hit := w.FlatReaches(fr, &from, &ir.FlatCut{Barrier: func(_ *ir.FCtx, in ssa.Instruction) bool { return isR(in) }}, func(p ir.FPos) bool { return isW(p.In) }); hit != nil {
				bad = fmt.Sprintf("after the write at %s (via %s) the write at %s is reached again without a read of the section in between", pos(c, o.In), strings.Join(o.Ctx.Chain(), " -> "), pos(c, hit.In))
				break
			}
		}
		short := sec[strings.LastIndex(sec, ".")+1:]
		r.Require(bad == "", rule, "rewrite|"+short+"|root="+fn(root), w.Pos(root.Pos()), "a counter record is re-read before it is written again within one operation (a value read once and written back twice loses the first update)", bad)
	}
	return n
}

// flatRereads: on the call-expanded view of f, after any write (or delete) of the section no other write of it is reached
// without a read of the section in between.
func flatRereads(c *Ctx, f *ssa.Function, sec string) bool {
	w := c.W
	isW := directSites(c, func(e ir.Effect) bool { return (e.Kind == "StoreWrite" || e.Kind == "StoreDelete") && e.Section == sec })
	isR := directSites(c, func(e ir.Effect) bool { return (e.Kind == "StoreRead" || e.Kind == "StoreHas") && e.Section == sec })
	fr := w.FlatRoot(f)
	occ := w.FlatOccurrences(fr, isW)
	if len(occ) == 0 {
		return false
	}
	for _, o := range occ {
		from := o
		if w.FlatReaches(fr, &from, &ir.FlatCut{Barrier: func(_ *ir.FCtx, in ssa.Instruction) bool { return isR(in) }}, func(p ir.FPos) bool { return isW(p.In) }) != nil {
			return false
		}
	}
	return true
}

// localSources: v is the load of a local record; returns the section reads whose result is stored whole into that local.
// nil when v is not such a load or some whole store of the local comes from elsewhere.
func localSources(v ssa.Value, reads func(ssa.Instruction) bool) []ssa.Instruction {
	u, ok := v.(*ssa.UnOp)
	if !ok {
		return nil
	}
	al, ok := u.X.(*ssa.Alloc)
	if !ok || al.Referrers() == nil {
		return nil
	}
	var out []ssa.Instruction
	for _, r := range *al.Referrers() {
		if _, isCall := r.(ssa.CallInstruction); isCall {
			return nil // its address is handed on: a helper may refresh it
		}
		st, ok := r.(*ssa.Store)
		if !ok || st.Addr != ssa.Value(al) {
			continue
		}
		val := st.Val
		if ex, ok := val.(*ssa.Extract); ok {
			val = ex.Tuple
		}
		call, ok := val.(*ssa.Call)
		if !ok || !reads(call) {
			return nil
		}
		out = append(out, call)
	}
	return out
}
