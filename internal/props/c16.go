package props

import (
	"fmt"
	"go/token"
	"go/types"
	"os"
	"strings"

	"golang.org/x/tools/go/ssa"

	"mcverif/internal/ir"
)

func init() { Registry["C16"] = C16 }

func paramsSection(m string) string { return "x/" + m + "/types.ParamsKey" }

// errorDropped reports whether the error result of a call is never looked at.
func errorDropped(call ssa.CallInstruction) bool {
	v, ok := call.(*ssa.Call)
	if !ok {
		return true // go / defer: result discarded
	}
	sig := call.Common().Signature()
	n := sig.Results().Len()
	idx := -1
	for i := n - 1; i >= 0; i-- {
		if sig.Results().At(i).Type().String() == "error" {
			idx = i
			break
		}
	}
	if idx < 0 {
		return false
	}
	refs := v.Referrers()
	if refs == nil {
		return true
	}
	if n == 1 {
		for _, r := range *refs {
			if _, dbg := r.(*ssa.DebugRef); !dbg {
				return false
			}
		}
		return true
	}
	for _, r := range *refs {
		if ex, ok := r.(*ssa.Extract); ok && ex.Index == idx {
			if er := ex.Referrers(); er != nil && len(*er) > 0 {
				return false
			}
		}
	}
	return true
}

// paramsWriters returns the functions that directly write the ParamsKey section of module m.
func paramsWriters(c *Ctx, m string) []ir.Effect {
	return c.W.AllEffects(func(e ir.Effect) bool {
		return e.Kind == "StoreWrite" && e.Section == paramsSection(m) && !strings.Contains(fn(e.Fn), "/simulation")
	})
}

func isValidateCall(e *ir.Expr, m string) bool {
	return e != nil && e.Op == "call" && e.Callee != nil && fn(e.Callee) == "(x/"+m+"/types.Params).Validate"
}

func C16(c *Ctx) {
	w, r := c.W, c.R
	r.Explanation = "(A2) every write of a module's Params section is guarded, in the writing function, by Params.Validate()==nil on the very value that is marshalled; (A1) only keeper SetParams and the v3 migration write that section; " +
		"(A8) no call site of a params writer (SetParams) drops its error, in handlers, genesis import or migrations; (A7) Params.Validate reads every field of the Params struct, hands it to a validator that has a value-dependent rejecting branch, and contains the cross-field rejections (default<=max, signers>=min accepts); MsgUpdateParams.ValidateBasic reaches Validate and propagates its error; " +
		"(A6) no caching: no keeper struct or package variable has a Params type, and no keeper method stores through its receiver, so every use reads the store. Decides these structural necessary conditions for all inputs and call sites; numeric bounds inside validators are only checked for presence."
	r.Rules = []string{"A1.params-writers", "A2.params-validated", "A8.setparams-error", "A7.validate-fields", "A7.validate-rule", "A7.validate-cross-field", "A7.update-validatebasic", "A3.update-stores", "A6.no-params-cache", "A7.fee-formula", "TS.status-transition", "A2.decorator-checks", "A2.purchase-guards", "A9.uint64-range", "A7.max-purchasable", "A7.export-fields"}
	// a voted value stays in force across an export/import: what is exported as Params is the stored value on every path
	exportGenesisArgs(c, "A7.export-fields|params", false)
	// a parameter takes effect as set: the fee split uses the stored rate itself
	feeFormula(c)
	// ... and the purchase-order thresholds in force decide every tally (the transition rules of C03: an order is settled by
	// exactly one of the threshold conditions, each held against the stored parameters)
	statusTypestate(c)
	// ... the storage maximum in force bounds every purchase, also after it was lowered below a limit already bought (the
	// remaining capacity saturates at zero instead of wrapping)
	storageLimitRules(c)
	// ... and the WRKChain / BEACON fees in force are the ones a transaction is held against whenever the mempool looks at it
	// (first check and re-check after a block alike)
	for _, m := range []string{"wrkchain", "beacon"} {
		if _, f := feeFunc(c, m); f != nil {
			decoratorChecks(c, m, f)
		}
	}
	r.Trusted = []string{"baseapp/gov call ValidateBasic before dispatch", "sdk.ValidateDenom", "codec marshalling"}
	r.NotDecided = []string{"numeric bounds inside validators beyond presence of a rejecting comparison", "governance proposal flow"}

	wantFields := map[string]int{"enterprise": 4, "wrkchain": 6, "beacon": 6, "stream": 1}
	for _, m := range ir.Modules {
		writers := paramsWriters(c, m)
		floor := 2
		if m == "stream" {
			floor = 1
		}
		r.Floor("writers of the params section of "+m, len(writers), floor)
		writerFns := map[*ssa.Function]bool{}
		for _, e := range writers {
			writerFns[e.Fn] = true
			name := fn(e.Fn)
			// (who writes is not fixed by name: every writer, whatever it is called or split into, must be validated — below)
			r.OK("A1.params-writers", m+"|"+name, pos(c, e.Site), "writer of the params section of "+m+" (must be validated: A2)")
			// A2: guarded by Validate()==nil on the marshalled value
			val := w.ExprOf(e.Call.Common().Args[1])
			var marshalled *ir.Expr
			if val.Op == "call" && strings.HasSuffix(val.Name, "Marshal") && len(val.Args) >= 2 {
				marshalled = val.Args[len(val.Args)-1]
			}
			if marshalled == nil {
				r.Undecided("A2.params-validated", m+"|"+name, pos(c, e.Site), "stored bytes are cdc.MustMarshal(&params)", "value "+val.String())
				continue
			}
			target := marshalledValue(c, e)
			validated := func(tgt string) ir.Matcher {
				return func(p ir.Pred) bool {
					op, x, y, ok := p.Cmp()
					if !ok || op != "==" {
						return false
					}
					for _, pr := range [][2]*ir.Expr{{x, y}, {y, x}} {
						if pr[1].Op == "const" && pr[1].Name == "nil" && isValidateCall(pr[0], m) && len(pr[0].Args) == 1 {
							return tgt != "" && pr[0].Args[0].String() == tgt
						}
					}
					return false
				}
			}
			g := w.Guarded(e.Fn, e.Site, validated(target), 1)
			if !g && target != "" {
				// the raw store step may have been split off (SetParams validates, then calls a helper that writes):
				// every rooted call chain into the writer must validate the value it hands in
				tv := marshalledExpr(c, e)
				if tv != nil {
					n2, all := 0, true
					for _, up := range w.OriginsUp(e.Fn, tv, 3) {
						if len(up.Chain) == 0 || !c.Rooted(up.Top) {
							continue
						}
						n2++
						if !chainGuarded(c, up.Top, up.Chain, e.Site, validated(up.E.String()), 1) {
							all = false
						}
					}
					g = n2 > 0 && all
				}
			}
			r.Require(g, "A2.params-validated", m+"|"+name, pos(c, e.Site), "the params write is reachable only after Validate() of the stored value returned nil", "no dominating Validate()==nil on "+target)
		}
		// A8: callers of the writers never drop the error (a raw store step without an error result is
		// represented by the functions that call it: the validating SetParams)
		for f := range writerFns {
			if ir.ErrIndex(f) < 0 {
				for _, ed := range w.Callers(f) {
					if c.Rooted(ed.From) && !w.IsGenerated(ed.From) {
						writerFns[ed.From] = true
					}
				}
			}
		}
		nCalls := 0
		for f := range writerFns {
			if ir.ErrIndex(f) < 0 {
				continue
			}
			for _, ed := range w.Callers(f) {
				call, ok := ed.Site.(ssa.CallInstruction)
				if !ok || ir.IsFixture(ed.From) || w.IsGenerated(ed.From) || !c.Rooted(ed.From) {
					continue // call sites no ABCI root reaches (test helpers, simulation) are not chain behaviour
				}
				nCalls++
				r.Require(!errorDropped(call), "A8.setparams-error", m+"|"+fn(ed.From), pos(c, ed.Site), "the error of a params write is propagated or handled, never dropped", "result of "+fn(f)+" is discarded")
			}
		}
		r.Floor("call sites of params writers of "+m, nCalls, 2)

		validateCoverage(c, m, wantFields[m])
		updateParamsValidateBasic(c, m)
		updateTakesEffect(c, m)
	}
	noParamsCache(c)
}

// marshalledValue returns the canonical origin string of the value whose address is
// marshalled at a params write.
func marshalledValue(c *Ctx, e ir.Effect) string {
	call := e.Call.Common()
	v, ok := call.Args[1].(*ssa.Call)
	if !ok {
		return ""
	}
	args := v.Common().Args
	a := stripIface(args[len(args)-1])
	al, ok := a.(*ssa.Alloc)
	if !ok {
		return ""
	}
	// the value held in the alloc at the time of the marshal call: find the load-equivalent
	return allocValueAt(c, al, v)
}

// marshalledExpr is marshalledValue as an origin expression (for lifting to the callers).
func marshalledExpr(c *Ctx, e ir.Effect) *ir.Expr {
	call := e.Call.Common()
	v, ok := call.Args[1].(*ssa.Call)
	if !ok {
		return nil
	}
	args := v.Common().Args
	al, ok := stripIface(args[len(args)-1]).(*ssa.Alloc)
	if !ok {
		return nil
	}
	var stored ssa.Value
	n := 0
	if refs := al.Referrers(); refs != nil {
		for _, rf := range *refs {
			if st, ok := rf.(*ssa.Store); ok && st.Addr == ssa.Value(al) {
				stored = st.Val
				n++
			}
		}
	}
	if n == 1 {
		return c.W.ExprOf(stored)
	}
	return nil
}

// allocValueAt gives the origin of the content of a local at an instruction.
func allocValueAt(c *Ctx, al *ssa.Alloc, at ssa.Instruction) string {
	// look for a load of the alloc feeding Validate in the same function: compare by the stored value
	var stored ssa.Value
	n := 0
	if refs := al.Referrers(); refs != nil {
		for _, rf := range *refs {
			if st, ok := rf.(*ssa.Store); ok && st.Addr == ssa.Value(al) {
				stored = st.Val
				n++
			}
		}
	}
	if n == 1 {
		return c.W.ExprOf(stored).String()
	}
	if n == 0 {
		// filled through a pointer (legacy subspace GetParamSet): use any load of it
		if refs := al.Referrers(); refs != nil {
			for _, rf := range *refs {
				if u, ok := rf.(*ssa.UnOp); ok {
					return c.W.ExprOf(u).String()
				}
			}
		}
	}
	return ""
}

func validateCoverage(c *Ctx, m string, wantFields int) {
	w, r := c.W, c.R
	vf := w.LookupFunc("(x/" + m + "/types.Params).Validate")
	pt := w.LookupType("github.com/unification-com/mainchain/x/"+m+"/types", "Params")
	if vf == nil || pt == nil {
		r.Undecided("A7.validate-fields", m, "", "Params.Validate exists", "not found")
		return
	}
	st := pt.Underlying().(*types.Struct)
	r.Floor("fields of "+m+" Params", st.NumFields(), wantFields)
	// collect calls in Validate and the field each argument comes from
	byField := map[string][]*ssa.Call{}
	for _, b := range vf.Blocks {
		for _, in := range b.Instrs {
			call, ok := in.(*ssa.Call)
			if !ok {
				continue
			}
			for _, a := range call.Common().Args {
				e := w.ExprOf(a)
				e.Walk(func(x *ir.Expr) bool {
					if x.Op == "field" && len(x.Args) == 1 && x.Args[0].Op == "param" {
						byField[x.Name] = append(byField[x.Name], call)
						return false
					}
					return true
				})
			}
		}
	}
	// validators reached through function values: a package-level validator built by a factory
	// (var validateDenom = rules.Denomination("denom")), or the rule column of a table of (value, rule) rows walked by
	// a loop that applies every row and returns the first error
	type dynVal struct {
		val  *ssa.Function
		call *ssa.Call
	}
	dynByField := map[string][]dynVal{}
	fnOf := func(e *ir.Expr) *ssa.Function {
		if e != nil && (e.Op == "func" || e.Op == "closure") && e.Callee != nil && len(e.Callee.Blocks) > 0 {
			return e.Callee
		}
		return nil
	}
	fieldsIn := func(e *ir.Expr) []string {
		var out []string
		e.Walk(func(x *ir.Expr) bool {
			if x.Op == "field" && len(x.Args) == 1 && x.Args[0].Op == "param" {
				out = append(out, x.Name)
				return false
			}
			return true
		})
		return out
	}
	for _, b := range vf.Blocks {
		for _, in := range b.Instrs {
			call, ok := in.(*ssa.Call)
			if !ok || call.Call.IsInvoke() || call.Call.StaticCallee() != nil {
				continue
			}
			if _, isB := call.Call.Value.(*ssa.Builtin); isB {
				continue
			}
			if u, ok := call.Call.Value.(*ssa.UnOp); ok {
				if g, ok := u.X.(*ssa.Global); ok {
					if val := fnOf(w.InitOnlyValue(g)); val != nil {
						for _, a := range call.Call.Args {
							for _, f := range fieldsIn(w.ExprOf(a)) {
								dynByField[f] = append(dynByField[f], dynVal{val, call})
							}
						}
					}
					continue
				}
			}
			e := w.ExprOf(call)
			var row *ir.Expr
			e.Walk(func(x *ir.Expr) bool {
				if row == nil && x.Op == "elem" && len(x.Args) == 2 && x.Args[0].Op == "list" && x.Args[1].Op != "const" {
					row = x
				}
				return row == nil
			})
			if row == nil || !forAllLoop(c, vf, b) {
				continue
			}
			for _, part := range row.Args[0].Args {
				ek := ir.UnrollLists(ir.Replace(e, row, part))
				if ek.Op != "call" || len(ek.Args) < 2 {
					continue
				}
				val := fnOf(ek.Args[0])
				if val == nil {
					continue
				}
				for _, a := range ek.Args[1:] {
					for _, f := range fieldsIn(a) {
						dynByField[f] = append(dynByField[f], dynVal{val, call})
					}
				}
			}
		}
	}
	validatorsOf := map[string][]*ssa.Function{}
	for i := 0; i < st.NumFields(); i++ {
		f := st.Field(i).Name()
		calls := byField[f]
		ok := false
		detail := "field is not passed to any validator"
		var candidates []*ssa.Function
		for _, dv := range dynByField[f] {
			val := resolveValidator(c, dv.val)
			if rejectingBranch(c, val) && !errorDropped(dv.call) && errReturned(c, vf, dv.call) {
				ok = true
				candidates = append(candidates, val)
			} else {
				detail = "validator " + fn(dv.val) + " has no value-dependent rejecting branch, or its error is not returned"
			}
		}
		for _, call := range calls {
			callees := w.CalleesOf(call)
			if len(callees) == 1 {
				// a validator that only forwards its value to a shared one (return requirePositive(i, "...")) is that one
				val := resolveValidator(c, callees[0])
				if rejectingBranch(c, val) && !errorDropped(call) && errReturned(c, vf, call) {
					ok = true
					// the specific validity rule of the field's kind: satisfied by one of the validators the field is
					// handed to (a field may also be passed to a cross-field check)
					candidates = append(candidates, val)
				} else {
					detail = "validator " + fn(callees[0]) + " has no value-dependent rejecting branch, or its error is not returned"
				}
			} else if sc := call.Common().StaticCallee(); sc != nil && !w.InSet(sc) {
				// external validator (e.g. sdk.ValidateDenom)
				if !errorDropped(call) {
					ok = true
				}
			}
		}
		validatorsOf[f] = candidates
		// the kind-specific rule must be satisfied by one of the validators the field is handed to; when none
		// satisfies it, the first one's failures are reported
		for ci, val := range candidates {
			mark := len(r.Obls)
			fieldRule(c, m, f, st.Field(i).Type(), val)
			failed := false
			for _, o := range r.Obls[mark:] {
				if o.Status != "discharged" {
					failed = true
				}
			}
			if !failed {
				break
			}
			r.Obls = r.Obls[:mark]
			if ci == len(candidates)-1 {
				fieldRule(c, m, f, st.Field(i).Type(), candidates[0])
			}
		}
		r.Require(ok, "A7.validate-fields", m+"."+f, w.Pos(vf.Pos()), "Params.Validate hands every field to a validator that can reject it and returns that error", detail)
	}
	// cross-field rejections
	switch m {
	case "wrkchain", "beacon":
		ok := hasRejectingCmp(c, vf, func(op string, x, y *ir.Expr) bool {
			return (op == ">" && isParamField(x, "DefaultStorageLimit") && isParamField(y, "MaxStorageLimit")) ||
				(op == "<" && isParamField(x, "MaxStorageLimit") && isParamField(y, "DefaultStorageLimit"))
		})
		r.Require(ok, "A7.validate-cross-field", m+"|default<=max", w.Pos(vf.Pos()), "Validate rejects DefaultStorageLimit > MaxStorageLimit", "no such rejecting comparison")
	case "enterprise":
		ok := hasRejectingCmp(c, vf, func(op string, x, y *ir.Expr) bool {
			mentions := func(e *ir.Expr, f string) bool {
				return e.Any(func(z *ir.Expr) bool { return isParamField(z, f) })
			}
			// the number of signers is the number of elements of the split list (the same split the tally counts decisions
			// against) — not the length of the comma-separated string
			count := func(e *ir.Expr) bool {
				e = w.Expand(e, 2)
				return e.Any(func(z *ir.Expr) bool {
					if z.Op != "call" || z.Name != "builtin:len" || len(z.Args) != 1 {
						return false
					}
					return z.Args[0].Any(func(s *ir.Expr) bool {
						return s.Op == "call" && (strings.Contains(s.Name, "strings.Split") || strings.Contains(s.Name, "strings.Fields")) && mentions(s, "EntSigners")
					})
				})
			}
			return (op == "<" && count(x) && mentions(y, "MinAccepts")) || (op == ">" && count(y) && mentions(x, "MinAccepts"))
		})
		r.Require(ok, "A7.validate-cross-field", m+"|signers>=minaccepts", w.Pos(vf.Pos()), "Validate rejects fewer signers than MinAccepts", "no such rejecting comparison")
	case "stream":
		// range [0,1] lives in the single validator: require negative and >1 rejections
		// (the validator is whichever function Validate hands the ValidatorFee field to, whatever its name)
		okNeg, okGT := false, false
		vfees := validatorsOf["ValidatorFee"]
		if v0 := w.LookupFunc("x/stream/types.validateBaseValidatorFee"); v0 != nil && len(vfees) == 0 {
			vfees = append(vfees, v0)
		}
		for _, vfee := range vfees {
			for _, b := range vfee.Blocks {
				iff, ok := b.Instrs[len(b.Instrs)-1].(*ssa.If)
				if !ok {
					continue
				}
				e := w.ExprOf(iff.Cond)
				if e.Op == "call" && strings.HasSuffix(e.Name, ".IsNegative") && onlyErrorsFrom(c, vfee, b.Succs[0]) {
					okNeg = true
				}
				if e.Op == "call" && strings.HasSuffix(e.Name, ".GT") && len(e.Args) == 2 && strings.HasSuffix(e.Args[1].Name, "OneDec") && onlyErrorsFrom(c, vfee, b.Succs[0]) {
					okGT = true
				}
			}
		}
		r.Require(okNeg && okGT, "A7.validate-cross-field", m+"|fee-in-[0,1]", "", "the validator fee validator rejects negative values and values above one", fmt.Sprintf("negative-reject=%v above-one-reject=%v", okNeg, okGT))
	}
}

// resolveValidator follows a validator that does nothing but hand its value to another in-scope function
// and return that function's error.
func resolveValidator(c *Ctx, f *ssa.Function) *ssa.Function {
	for depth := 0; depth < 3; depth++ {
		if len(f.Blocks) != 1 || len(f.Params) == 0 {
			return f
		}
		rets := ir.Returns(f)
		if len(rets) != 1 || len(rets[0].Results) != 1 {
			return f
		}
		call, ok := rets[0].Results[0].(*ssa.Call)
		if !ok {
			return f
		}
		passes := false
		for _, a := range call.Common().Args {
			if a == ssa.Value(f.Params[0]) {
				passes = true
			}
		}
		gs := c.W.CalleesOf(call)
		if !passes || len(gs) != 1 || len(gs[0].Blocks) == 0 {
			return f
		}
		f = gs[0]
	}
	return f
}

func isParamField(e *ir.Expr, f string) bool {
	return e != nil && e.Op == "field" && e.Name == f && len(e.Args) == 1 && e.Args[0].Op == "param"
}

// errReturned: the error of `call` is tested and returned by fn (if err != nil { return err }).
func errReturned(c *Ctx, f *ssa.Function, call *ssa.Call) bool {
	for _, ret := range ir.Returns(f) {
		idx := ir.ErrIndex(f)
		if idx < 0 {
			continue
		}
		if ret.Results[idx] == ssa.Value(call) {
			return true
		}
		if ph, ok := ret.Results[idx].(*ssa.Phi); ok {
			for _, e := range ph.Edges {
				if e == ssa.Value(call) {
					return true
				}
			}
		}
	}
	return false
}

// onlyErrorsFrom: every return reachable from block b returns a provably non-nil error.
func onlyErrorsFrom(c *Ctx, f *ssa.Function, b *ssa.BasicBlock) bool {
	for _, ret := range c.W.SuccessReturns(f) {
		if ir.ReachesFrom(f, b, 0, ret, ir.Cut{}) {
			return false
		}
	}
	return true
}

// rejectingBranch: the validator has an If whose condition depends on the asserted value
// (not merely the type-assertion flag) and one of whose branches leads only to error returns.
func rejectingBranch(c *Ctx, f *ssa.Function) bool {
	for _, b := range f.Blocks {
		iff, ok := b.Instrs[len(b.Instrs)-1].(*ssa.If)
		if !ok {
			continue
		}
		e := c.W.ExprOf(iff.Cond)
		valueDep := e.Any(func(x *ir.Expr) bool {
			return x.Op == "res" && x.Name == "0" && len(x.Args) == 1 && x.Args[0].Op == "assert" || x.Op == "param" && !strings.HasPrefix(x.Name, "ctx")
		}) && !(e.Op == "res" && e.Name == "1")
		if !valueDep {
			continue
		}
		if onlyErrorsFrom(c, f, b.Succs[0]) || onlyErrorsFrom(c, f, b.Succs[1]) {
			return true
		}
	}
	return false
}

// hasRejectingCmp: f contains an If on a comparison accepted by m whose holding edge leads
// only to error returns.
func hasRejectingCmp(c *Ctx, f *ssa.Function, m func(op string, x, y *ir.Expr) bool) bool {
	// the comparison may stand in f or in a helper f hands the values to (whose error f must then return):
	// every call context of the flat view is examined, with the helper's parameters in f's terms
	w := c.W
	root := w.FlatRoot(f)
	var ctxs []*ir.FCtx
	seen := map[*ir.FCtx]bool{}
	w.FlatWalk(root, nil, nil, func(p ir.FPos) bool {
		if !seen[p.Ctx] {
			seen[p.Ctx] = true
			ctxs = append(ctxs, p.Ctx)
		}
		return true
	})
	for _, ctx := range ctxs {
		g := ctx.Fn
		// a helper's rejection counts only if it reaches f's caller: on the flat view, no success return of f is
		// reachable from the rejecting branch
		for _, b := range g.Blocks {
			iff, ok := b.Instrs[len(b.Instrs)-1].(*ssa.If)
			if !ok {
				continue
			}
			e := ctx.Apply(w.ExprOf(iff.Cond))
			// a table-driven loop (for _, fld := range []check{{value: msg.A}, {value: msg.B}} { if len(fld.value) > max ... })
			// compares, in some iteration, each of the listed values: the comparison counts for the alternative asked
			// about when the loop performs it in every iteration and leaves early only by rejecting
			var cands []*ir.Expr
			cands = append(cands, e)
			if os.Getenv("MCDEBUG") == "cmp" {
				fmt.Fprintln(os.Stderr, "cmp", fn(g), e.String(), "| unrolled:", ir.UnrollLists(e).String(), forAllLoop(c, g, b))
			}
			if u := ir.UnrollLists(e); u != e && forAllLoop(c, g, b) {
				var phi *ir.Expr
				u.Walk(func(z *ir.Expr) bool {
					if phi == nil && z.Op == "phi" {
						phi = z
					}
					return phi == nil
				})
				if phi != nil {
					for _, a := range phi.Args {
						cands = append(cands, ir.Replace(u, phi, a))
					}
				}
			}
			for si, pol := range []bool{true, false} {
				matched := false
				for _, ce := range cands {
					if op, x, y, ok := (ir.Pred{E: ce, Pol: pol}).Cmp(); ok && m(op, x, y) {
						matched = true
						break
					}
				}
				if !matched {
					continue
				}
				if ctx == root {
					if onlyErrorsFrom(c, f, b.Succs[si]) {
						return true
					}
					continue
				}
				if !onlyErrorsFrom(c, g, b.Succs[si]) || len(b.Succs[si].Instrs) == 0 {
					continue
				}
				success := map[ssa.Instruction]bool{}
				for _, rt := range w.SuccessReturns(f) {
					success[rt] = true
				}
				from := ir.FPos{Ctx: ctx, In: iff}
				// start just inside the rejecting branch: cut the other successor
				other := 1 - si
				cut := &ir.FlatCut{Edges: func(cx *ir.FCtx) map[[2]int]bool {
					if cx == ctx {
						return map[[2]int]bool{{b.Index, other}: true}
					}
					return nil
				}}
				// walk from the If itself (its successors are explored, the other one is cut)
				pos0 := ir.FPos{Ctx: ctx, In: b.Instrs[len(b.Instrs)-1]}
				_ = from
				if w.FlatReaches(root, &pos0, cut, func(p ir.FPos) bool { return p.Ctx == root && success[p.In] && !p.ReturnsFailure() }) == nil {
					return true
				}
			}
		}
	}
	return false
}

// updateTakesEffect (A3.update-stores): a successful MsgUpdateParams stores the message's parameters — on the flat
// view of the handler every success return passes a write of the module's params section whose value is msg.Params.
// The only way round the write that is accepted is the edge of a whole-value comparison "stored params == msg.Params"
// (an idempotent update); a shortcut decided by anything else (a hand-written "nothing changed" test) can drop an update.
func updateTakesEffect(c *Ctx, m string) {
	w, r := c.W, c.R
	h := handlerOf(c, m, "UpdateParams")
	if h == nil {
		r.Undecided("A3.update-stores", m, "", "UpdateParams handler found", "missing")
		return
	}
	isWrite := directSites(c, func(e ir.Effect) bool { return e.Kind == "StoreWrite" && e.Section == paramsSection(m) })
	isMsgParams := func(e *ir.Expr) bool {
		x := w.Expand(e, 3)
		return x.Op == "field" && x.Name == "Params" && len(x.Args) == 1 && x.Args[0].Op == "param"
	}
	isStored := func(e *ir.Expr) bool {
		return w.Expand(e, 4).Any(func(z *ir.Expr) bool { return z.Op == "state" && z.Name == paramsSection(m) })
	}
	same := func(p ir.Pred) bool {
		return cmpIs(p, "==", isMsgParams, isStored) ||
			p.Pol && p.E.Op == "call" && (strings.HasSuffix(p.E.Name, ".Equal") || strings.HasSuffix(p.E.Name, "reflect.DeepEqual")) && len(p.E.Args) == 2 &&
				(isMsgParams(p.E.Args[0]) && isStored(p.E.Args[1]) || isStored(p.E.Args[0]) && isMsgParams(p.E.Args[1]))
	}
	bad := w.FlatMustPassM(h, isWrite, same)
	detail := fmt.Sprintf("%d success return(s) reachable without a write of the params section", len(bad))
	if len(bad) > 0 {
		// ... or of a comparison field by field that leaves no field out: for every field of Params the way round the
		// write passes "stored F == msg.Params.F" (a diff that forgets a field lets an update of that field go unstored)
		if pk := w.Pkg("x/" + m + "/types"); pk != nil {
			if tn, ok := pk.Types.Scope().Lookup("Params").(*types.TypeName); ok {
				if st, ok := tn.Type().Underlying().(*types.Struct); ok && st.NumFields() > 0 {
					missing := ""
					for i := 0; i < st.NumFields(); i++ {
						fname := st.Field(i).Name()
						isNew := func(e *ir.Expr) bool {
							x := w.Expand(e, 4)
							return x.Op == "field" && x.Name == fname && len(x.Args) == 1 && isMsgParams(x.Args[0])
						}
						isOld := func(e *ir.Expr) bool {
							x := w.Expand(e, 5)
							ok := false
							for _, a := range x.Alts() {
								if a.Op == "field" && a.Name == fname && len(a.Args) == 1 && a.Args[0].Op == "state" && a.Args[0].Name == paramsSection(m) {
									ok = true
								}
							}
							return ok
						}
						eqF := func(p ir.Pred) bool {
							return cmpIs(p, "==", isNew, isOld) || cmpIs(p, "==", isOld, isNew) ||
								p.Pol && p.E.Op == "call" && strings.HasSuffix(p.E.Name, ".Equal") && len(p.E.Args) == 2 &&
									(isNew(p.E.Args[0]) && isOld(p.E.Args[1]) || isOld(p.E.Args[0]) && isNew(p.E.Args[1]))
						}
						for _, ret := range bad {
							if !w.Guarded(h, ret, eqF, 4) && len(w.FlatMustPassM(h, isWrite, eqF)) > 0 {
								missing = fname
							}
						}
						if missing != "" {
							break
						}
					}
					if missing == "" {
						bad = nil
					} else {
						detail += "; the field-by-field comparison leaves out " + missing
					}
				}
			}
		}
	}
	r.Require(len(bad) == 0, "A3.update-stores", m, w.Pos(h.Pos()), "every successful MsgUpdateParams stores the new parameters (they take effect with that very transaction)", detail)
	// what is stored is the message's Params
	n := 0
	for _, in := range instantiate(c, h, func(e ir.Effect) bool { return e.Kind == "StoreWrite" && e.Section == paramsSection(m) }, func(e ir.Effect) *ir.Expr { return marshalArg(c, e) }) {
		n++
		r.Require(in.E != nil && isMsgParams(in.E), "A3.update-stores", m+"|value", pos(c, in.Eff.Site), "the parameters stored by MsgUpdateParams are msg.Params", fmt.Sprint(in.E))
	}
	r.Floor("params writes reachable from the "+m+" UpdateParams handler", n, 1)
}

func updateParamsValidateBasic(c *Ctx, m string) {
	w, r := c.W, c.R
	vb := w.LookupFunc("(*x/" + m + "/types.MsgUpdateParams).ValidateBasic")
	if vb == nil {
		vb = w.LookupFunc("(x/" + m + "/types.MsgUpdateParams).ValidateBasic")
	}
	if vb == nil {
		r.Undecided("A7.update-validatebasic", m, "", "MsgUpdateParams.ValidateBasic exists", "not found")
		return
	}
	ok := false
	for _, b := range vb.Blocks {
		for _, in := range b.Instrs {
			call, isCall := in.(*ssa.Call)
			if !isCall {
				continue
			}
			e := w.ExprOf(call)
			if isValidateCall(e, m) && len(e.Args) == 1 && e.Args[0].Op == "field" && e.Args[0].Name == "Params" && errReturned(c, vb, call) {
				ok = true
			}
		}
	}
	r.Require(ok, "A7.update-validatebasic", m, w.Pos(vb.Pos()), "MsgUpdateParams.ValidateBasic validates msg.Params and returns the error", "no returned Params.Validate() call on the message's Params")
}

func noParamsCache(c *Ctx) {
	w, r := c.W, c.R
	isParamsType := func(t types.Type) bool {
		n, ok := ptrElem(t).(*types.Named)
		return ok && n.Obj().Name() == "Params" && n.Obj().Pkg() != nil && strings.Contains(n.Obj().Pkg().Path(), "/x/") && strings.HasPrefix(n.Obj().Pkg().Path(), "github.com/unification-com/mainchain")
	}
	nTypes := 0
	for _, pk := range w.P.Pkgs {
		rel := ir.RelPkg(pk.PkgPath)
		if !strings.HasPrefix(rel, "x/") || strings.Contains(rel, "/simulation") || strings.Contains(rel, "/client") {
			continue
		}
		sc := pk.Types.Scope()
		for _, name := range sc.Names() {
			switch o := sc.Lookup(name).(type) {
			case *types.Var:
				r.Require(!isParamsType(o.Type()), "A6.no-params-cache", "var|"+rel+"."+name, w.Pos(o.Pos()), "no package-level variable holds module Params", "variable of type "+o.Type().String())
			case *types.TypeName:
				st, ok := o.Type().Underlying().(*types.Struct)
				if !ok || !strings.HasSuffix(rel, "/keeper") && !strings.HasSuffix(rel, "/ante") {
					continue
				}
				// only long-lived module objects (keepers, servers, decorators: structs holding a store key, recognised by
				// structure) can cache; a struct that carries Params between the phases of one call is a value like any other
				if _, holder := c.IsHolder(o.Type()); !holder {
					continue
				}
				nTypes++
				for i := 0; i < st.NumFields(); i++ {
					r.Require(!isParamsType(st.Field(i).Type()), "A6.no-params-cache", "field|"+rel+"."+name+"."+st.Field(i).Name(), w.Pos(st.Field(i).Pos()), "no keeper/decorator struct caches module Params", "field of type "+st.Field(i).Type().String())
				}
			}
		}
	}
	r.Analysed["keeper_and_decorator_struct_types"] = nTypes
	// no write to memory held by a keeper / decorator / module object on any consensus path: a value
	// remembered there (a decoded parameter, a memoised lookup) is not undone when the branch that
	// set it is discarded, and is lost on restart
	scope := consensusScope(c, consensusKinds)
	var fs []*ssa.Function
	for f := range scope {
		if !w.IsGenerated(f) && !ir.IsFixture(f) {
			fs = append(fs, f)
		}
	}
	sortFuncs(fs)
	keeperMutationRule(c, fs, "A6.no-params-cache")
	r.Analysed["functions_checked_for_module_object_writes"] = len(fs)
}

// fieldRule checks the kind-specific rejection inside a field validator: unsigned numeric
// parameters must be rejected when zero ("positive fees and limits"), denominations must be
// rejected when blank and when sdk.ValidateDenom fails, signer lists must be rejected when
// empty or when an element is not a valid address.
func fieldRule(c *Ctx, m, field string, t types.Type, v *ssa.Function) {
	w, r := c.W, c.R
	asserted := func(e *ir.Expr) bool {
		return e.Op == "res" && e.Name == "0" && len(e.Args) == 1 && e.Args[0].Op == "assert"
	}
	key := m + "." + field
	switch {
	case t.String() == "uint64":
		ok := hasRejectingCmp(c, v, func(op string, x, y *ir.Expr) bool {
			zero := y.Op == "const" && y.Name == "0"
			one := y.Op == "const" && y.Name == "1"
			return asserted(x) && (op == "==" && zero || op == "<=" && zero || op == "<" && one)
		})
		r.Require(ok, "A7.validate-rule", key+"|positive", w.Pos(v.Pos()), "the validator of "+key+" rejects the value 0 (fees, limits and thresholds are positive)", "no rejecting comparison with 0")
	case t.String() == "string" && strings.Contains(strings.ToLower(field), "denom"):
		callsValidate, blank := false, false
		for _, b := range v.Blocks {
			for _, in := range b.Instrs {
				if call, ok := in.(*ssa.Call); ok {
					e := w.ExprOf(call)
					if calleeIs(e, "types.ValidateDenom") && len(e.Args) == 1 && asserted(e.Args[0]) && errReturned(c, v, call) {
						callsValidate = true
					}
				}
			}
		}
		blank = hasRejectingCmp(c, v, func(op string, x, y *ir.Expr) bool {
			return op == "==" && y.Op == "const" && y.Name == `""` && x.Any(asserted)
		})
		r.Require(callsValidate, "A7.validate-rule", key+"|well-formed", w.Pos(v.Pos()), "the validator of "+key+" returns the error of sdk.ValidateDenom on the value", "no returned ValidateDenom call")
		r.Require(blank, "A7.validate-rule", key+"|non-blank", w.Pos(v.Pos()), "the validator of "+key+" rejects a blank denomination", "no rejecting comparison with the empty string")
	case t.String() == "string" && strings.Contains(strings.ToLower(field), "signers"):
		empty := hasRejectingCmp(c, v, func(op string, x, y *ir.Expr) bool {
			return op == "==" && y.Op == "const" && y.Name == "0" && x.Op == "call" && x.Name == "builtin:len" && x.Any(asserted)
		})
		elem := false
		for _, b := range v.Blocks {
			iff, ok := b.Instrs[len(b.Instrs)-1].(*ssa.If)
			if !ok {
				continue
			}
			e := w.ExprOf(iff.Cond)
			op, x, y, okc := ir.Pred{E: e, Pol: true}.Cmp()
			if okc && op == "!=" && y.Op == "const" && y.Name == "nil" && x.Op == "res" && x.Name == "1" && calleeIs(x.Args[0], "types.AccAddressFromBech32") &&
				x.Args[0].Args[0].Any(asserted) && onlyErrorsFrom(c, v, b.Succs[0]) {
				hdr := ir.EnclosingLoopHeader(v, iff)
				if hdr == nil {
					continue
				}
				// every iteration must pass this check: no back edge of the loop is reachable from the
				// header around the If (a `continue` for some elements would let them through unvalidated)
				bypass := false
				for _, be := range ir.BackEdges(v) {
					if be[1] != hdr {
						continue
					}
					term := be[0].Instrs[len(be[0].Instrs)-1]
					for _, su := range hdr.Succs {
						if su.Dominates(b) || su == b {
							if term != ssa.Instruction(iff) && ir.ReachesFrom(v, su, 0, term, ir.Cut{Barrier: func(in ssa.Instruction) bool { return in == ssa.Instruction(iff) }}) {
								bypass = true
							}
						}
					}
				}
				// the element checked is the loop element of Split(value, ",") itself (not a filtered copy)
				arg := x.Args[0].Args[0]
				direct := arg.Op == "elem" && (calleeIs(arg.Args[0], "strings.Split") || calleeIs(w.Expand(arg.Args[0], 2), "strings.Split"))
				if !bypass && direct {
					elem = true
				}
			}
		}
		if !elem {
			// the loop may stand in a helper that remembers the first bad entry and reports it after the loop
			elem = stickyElementCheck(c, v, asserted)
		}
		r.Require(empty, "A7.validate-rule", key+"|non-empty", w.Pos(v.Pos()), "the validator of "+key+" rejects an empty signer list", "no rejecting len == 0 comparison")
		r.Require(elem, "A7.validate-rule", key+"|well-formed", w.Pos(v.Pos()), "the validator of "+key+" rejects every element of strings.Split(value, \",\") that is not a valid bech32 address — every iteration, no element skipped (Validate counts the same split elements against MinAccepts)", "no rejecting AccAddressFromBech32 check that every loop iteration passes")
	}
}

// forAllLoop: block b lies in a loop that executes b in every iteration (b dominates every back edge of its
// innermost loop) and leaves the loop, other than through the loop condition in the header, only into
// branches that cannot reach a success return.
func forAllLoop(c *Ctx, g *ssa.Function, b *ssa.BasicBlock) bool {
	reaches := func(from, to *ssa.BasicBlock) bool {
		return len(to.Instrs) > 0 && ir.ReachesFrom(g, from, 0, to.Instrs[0], ir.Cut{})
	}
	var hdr *ssa.BasicBlock
	for _, h := range g.Blocks {
		if !h.Dominates(b) || h == b && len(h.Preds) < 2 {
			continue
		}
		back := false
		for _, p := range h.Preds {
			if h.Dominates(p) && (p == b || reaches(b, p)) {
				back = true
			}
		}
		if back && (hdr == nil || hdr.Dominates(h)) {
			hdr = h
		}
	}
	if hdr == nil {
		return false
	}
	inLoop := func(x *ssa.BasicBlock) bool { return hdr.Dominates(x) && (x == hdr || reaches(x, hdr)) }
	for _, p := range hdr.Preds {
		if hdr.Dominates(p) && !b.Dominates(p) {
			return false // an iteration can finish without passing b (continue / a branch around the check)
		}
	}
	for _, x := range g.Blocks {
		if !inLoop(x) || x == hdr {
			continue
		}
		for _, s := range x.Succs {
			if !inLoop(s) && !onlyErrorsFrom(c, g, s) {
				return false // break, or a success return from inside the loop
			}
		}
	}
	return true
}

// stickyElementCheck: the signer list is checked by a helper that walks strings.Split(value, ","), remembers the first
// element that is not a valid bech32 address in an error variable — never cleared once set — and hands that error back
// after the loop; the validator turns the list away when it is not nil. Decided as: (1) every successful return of the
// validator stands under "the helper's error is nil"; (2) the error the helper returns is carried by a variable whose
// only values are nil (before the loop), itself, or a newly constructed error; (3) in the helper's call-expanded view no
// turn of the loop reaches the next one without either the bech32 check of that element having passed, a new error having
// been put into the variable, or the variable having been found set already.
func stickyElementCheck(c *Ctx, v *ssa.Function, asserted func(*ir.Expr) bool) bool {
	w := c.W
	for _, b := range v.Blocks {
		for _, in := range b.Instrs {
			call, ok := in.(*ssa.Call)
			if !ok {
				continue
			}
			h := call.Call.StaticCallee()
			if h == nil || len(h.Blocks) == 0 || ir.FnPkg(h) != ir.FnPkg(v) || ir.ErrIndex(h) < 0 {
				continue
			}
			e := w.ExprOf(call)
			if e.Op != "call" || !e.Any(asserted) {
				continue
			}
			ei := ir.ErrIndex(h)
			// (1)
			isErr := func(x *ir.Expr) bool {
				return x.Op == "res" && x.Name == fmt.Sprint(ei) && len(x.Args) == 1 && x.Args[0].Call == ssa.CallInstruction(call) || h.Signature.Results().Len() == 1 && x.Call == ssa.CallInstruction(call)
			}
			isNil := func(y *ir.Expr) bool { return y.Op == "const" && y.Name == "nil" }
			guarded := true
			for _, ret := range w.SuccessReturns(v) {
				if !w.Guarded(v, ret, func(p ir.Pred) bool { return cmpIs(p, "==", isErr, isNil) }, 0) {
					guarded = false
				}
			}
			if !guarded {
				continue
			}
			// (2) the variable behind the returned error
			web := map[ssa.Value]bool{}
			ctors := map[ssa.Instruction]bool{}
			okWeb := true
			var visit func(x ssa.Value)
			visit = func(x ssa.Value) {
				if web[x] {
					return
				}
				web[x] = true
				switch y := x.(type) {
				case *ssa.Phi:
					for _, ed := range y.Edges {
						visit(ed)
					}
				case *ssa.Const:
					if !y.IsNil() {
						okWeb = false
					}
				case *ssa.Call:
					name := ""
					if sc := y.Call.StaticCallee(); sc != nil {
						name = sc.Name()
					}
					switch name {
					case "Errorf", "New", "Wrap", "Wrapf":
						ctors[y] = true
					default:
						okWeb = false
					}
				default:
					okWeb = false
				}
			}
			for _, ret := range ir.Returns(h) {
				visit(ret.Results[ei])
			}
			if !okWeb || len(ctors) == 0 {
				continue
			}
			// the only nil that enters the variable is the one it starts with: a nil constant may be an operand only of
			// a phi at a loop header, on the way in from outside the loop
			for x := range web {
				ph, ok := x.(*ssa.Phi)
				if !ok {
					continue
				}
				for k, ed := range ph.Edges {
					if cst, ok := ed.(*ssa.Const); ok && cst.IsNil() {
						pred := ph.Block().Preds[k]
						if ph.Block().Dominates(pred) {
							okWeb = false // assigned nil again inside the loop
						}
					}
				}
			}
			if !okWeb {
				continue
			}
			// (3) per turn of each loop over the split elements
			for _, be := range ir.BackEdges(h) {
				latch, hdr := be[0], be[1]
				isElem := func(x *ir.Expr) bool {
					return x.Any(func(z *ir.Expr) bool {
						return z.Op == "elem" && len(z.Args) >= 1 && (calleeIs(z.Args[0], "strings.Split") || calleeIs(w.Expand(z.Args[0], 2), "strings.Split"))
					})
				}
				checked := func(p ir.Pred) bool {
					return cmpIs(p, "==", func(x *ir.Expr) bool {
						return x.Op == "res" && x.Name == "1" && len(x.Args) == 1 && calleeIs(x.Args[0], "types.AccAddressFromBech32") && len(x.Args[0].Args) == 1 && isElem(x.Args[0].Args[0])
					}, isNil)
				}
				// edges on which the variable is found set already
				alreadySet := map[[2]int]bool{}
				for _, bb := range h.Blocks {
					iff, ok := bb.Instrs[len(bb.Instrs)-1].(*ssa.If)
					if !ok {
						continue
					}
					bo, ok := iff.Cond.(*ssa.BinOp)
					if !ok || (bo.Op != token.EQL && bo.Op != token.NEQ) {
						continue
					}
					var other ssa.Value
					if cst, ok := bo.Y.(*ssa.Const); ok && cst.IsNil() {
						other = bo.X
					} else if cst, ok := bo.X.(*ssa.Const); ok && cst.IsNil() {
						other = bo.Y
					}
					if other == nil || !web[other] {
						continue
					}
					side := 1
					if bo.Op == token.NEQ {
						side = 0
					}
					alreadySet[[2]int{bb.Index, side}] = true
				}
				root := w.FlatRoot(h)
				turnOK := true
				for _, su := range hdr.Succs {
					if su == hdr || !hdr.Dominates(su) || len(su.Instrs) == 0 || !ir.ReachesFrom(h, su, 0, latch.Instrs[len(latch.Instrs)-1], ir.Cut{}) {
						continue
					}
					// (walk from the header's terminator with the way out of the loop cut, so that the body is entered)
					from := ir.FPos{Ctx: root, In: hdr.Instrs[len(hdr.Instrs)-1]}
					cut := &ir.FlatCut{Matcher: checked, Depth: 2,
						Barrier: func(_ *ir.FCtx, x ssa.Instruction) bool { return ctors[x] },
						Edges: func(cx *ir.FCtx) map[[2]int]bool {
							if cx != root {
								return nil
							}
							out := map[[2]int]bool{}
							for k := range alreadySet {
								out[k] = true
							}
							for si, s2 := range hdr.Succs {
								if s2 != su {
									out[[2]int{hdr.Index, si}] = true
								}
							}
							return out
						}}
					first := hdr.Instrs[0] // coming round to the header again (the back edge may be the untaken side of the last test)
					if w.FlatReaches(root, &from, cut, func(p ir.FPos) bool { return p.Ctx == root && p.In == first }) != nil {
						turnOK = false
					}
				}
				if turnOK {
					return true
				}
			}
		}
	}
	return false
}
