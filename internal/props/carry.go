package props

import (
	"fmt"
	"go/token"
	"go/types"
	"os"
	"sort"

	"golang.org/x/tools/go/ssa"

	"mcverif/internal/ir"
)

// elementCarry is rule A3.element-carry: what a loop decides or records for one element does not depend on what an earlier
// turn of the same loop left in a local.
//
// A loop over the raised queue, over the registered BEACONs or over the records of a genesis file treats every element on
// its own: it counts this order's decisions, takes this BEACON's first retained id. A local declared before the loop
// (`numAccepts, numRejects := 0, 0` hoisted out; `var first uint64` set only when the element has records) keeps its value
// into the next turn: the next order starts with the previous order's votes, the next BEACON inherits the previous
// BEACON's first id. In SSA such a local is a phi at the loop header with a back-edge operand. The rule looks at every such
// phi of integer, boolean or string type that is not the loop's own cursor (an unconditional `i++` / `id++`) and follows the
// value through arithmetic, conversions and inner-loop phis. It is a finding when, inside the loop, the carried value
//
//	(a) is compared, and both outcomes of the comparison stay in the loop (a per-element decision; a comparison that leaves
//	    the loop is a cap on the whole run, `if n >= max { break }`; an equality test against a value of the current element
//	    validates what was carried, `if key != lastKey { recompute }`), or
//	(b) is stored into a field of a record, or handed to an in-scope function (a per-element record or write).
//
// A running total that is only added to inside the loop and read after it has neither use.
type carryFinding struct {
	Phi  *ssa.Phi
	Use  ssa.Instruction
	What string
}

func loopBody(h *ssa.BasicBlock) map[*ssa.BasicBlock]bool {
	// natural loop of header h: blocks that reach a latch (a predecessor of h dominated by h) without passing h
	body := map[*ssa.BasicBlock]bool{h: true}
	var stack []*ssa.BasicBlock
	for _, p := range h.Preds {
		if h.Dominates(p) && !body[p] {
			body[p] = true
			stack = append(stack, p)
		}
	}
	if len(stack) == 0 && !selfLoop(h) {
		return nil
	}
	for len(stack) > 0 {
		b := stack[len(stack)-1]
		stack = stack[:len(stack)-1]
		for _, p := range b.Preds {
			if !body[p] && h.Dominates(p) {
				body[p] = true
				stack = append(stack, p)
			}
		}
	}
	return body
}

func selfLoop(h *ssa.BasicBlock) bool {
	for _, p := range h.Preds {
		if p == h {
			return true
		}
	}
	return false
}

func carriedKind(t types.Type) bool {
	b, ok := t.Underlying().(*types.Basic)
	return ok && b.Info()&(types.IsInteger|types.IsBoolean|types.IsString) != 0
}

func elementCarries(f *ssa.Function) []carryFinding {
	var out []carryFinding
	for _, h := range f.Blocks {
		body := loopBody(h)
		if body == nil {
			continue
		}
		for _, in := range h.Instrs {
			phi, ok := in.(*ssa.Phi)
			if !ok {
				break
			}
			if !carriedKind(phi.Type()) {
				continue
			}
			// carried: some operand comes over a back edge and is not the phi itself
			carried, cursor := false, true
			for i, e := range phi.Edges {
				if !body[h.Preds[i]] {
					continue
				}
				if e == ssa.Value(phi) {
					continue
				}
				carried = true
				if !stepOf(e, phi) {
					cursor = false
				}
			}
			if !carried || cursor {
				continue
			}
			// values derived from the carried one inside the loop
			derived := map[ssa.Value]bool{phi: true}
			work := []ssa.Value{phi}
			for len(work) > 0 {
				v := work[len(work)-1]
				work = work[:len(work)-1]
				refs := v.Referrers()
				if refs == nil {
					continue
				}
				for _, r := range *refs {
					if !body[r.Block()] {
						continue
					}
					var nv ssa.Value
					switch x := r.(type) {
					case *ssa.Phi:
						nv = x
					case *ssa.BinOp:
						switch x.Op {
						case token.EQL, token.NEQ, token.LSS, token.LEQ, token.GTR, token.GEQ:
							// (an equality test against something of the current element — `if key != lastKey { recompute }` — validates
							// what was carried instead of deciding by it: the memo of the previous element's work)
							if x.Op == token.EQL || x.Op == token.NEQ {
								other := x.Y
								if x.Y == v {
									other = x.X
								}
								if oi, isInstr := other.(ssa.Instruction); isInstr && body[oi.Block()] && !derived[other] {
									continue
								}
							}
							// (a) a comparison whose two outcomes both stay in the loop
							if use := branchOn(x, body); use != nil {
								out = append(out, carryFinding{phi, x, "compared"})
							}
							continue
						}
						nv = x
					case *ssa.Convert:
						nv = x
					case *ssa.ChangeType:
						nv = x
					case *ssa.UnOp:
						if x.Op != token.MUL {
							nv = x
						}
					case *ssa.Store:
						if x.Val == v {
							if _, isField := x.Addr.(*ssa.FieldAddr); isField {
								out = append(out, carryFinding{phi, x, "stored into a record field"})
							}
						}
					case *ssa.Call:
						if sc := x.Common().StaticCallee(); sc != nil && len(sc.Blocks) > 0 && ir.FnPkg(sc) != nil && (ir.InScope(ir.FnPkg(sc)) || ir.IsFixture(sc)) {
							out = append(out, carryFinding{phi, x, "handed to " + fn(sc)})
						}
					}
					if nv != nil && !derived[nv] && (carriedKind(nv.Type())) {
						derived[nv] = true
						work = append(work, nv)
					}
				}
			}
		}
	}
	sort.SliceStable(out, func(i, j int) bool { return out[i].Use.Pos() < out[j].Use.Pos() })
	// one finding per carried local and kind of use
	seen := map[string]bool{}
	var uniq []carryFinding
	for _, cf := range out {
		k := fmt.Sprint(cf.Phi.Comment, "|", cf.Phi.Pos(), "|", cf.What)
		if seen[k] {
			continue
		}
		seen[k] = true
		uniq = append(uniq, cf)
	}
	return uniq
}

// stepOf: e is phi plus or minus a constant on every path (the loop's own cursor: `i++`, `id++`, `n--`).
func stepOf(e ssa.Value, phi *ssa.Phi) bool {
	b, ok := e.(*ssa.BinOp)
	if !ok || b.Op != token.ADD && b.Op != token.SUB {
		return false
	}
	_, isConst := b.Y.(*ssa.Const)
	return b.X == ssa.Value(phi) && isConst
}

// branchOn: the If that branches on cmp (directly or negated) with both successors inside the loop body.
func branchOn(cmp ssa.Value, body map[*ssa.BasicBlock]bool) ssa.Instruction {
	refs := cmp.Referrers()
	if refs == nil {
		return nil
	}
	for _, r := range *refs {
		switch x := r.(type) {
		case *ssa.If:
			b := x.Block()
			if len(b.Succs) == 2 && body[b.Succs[0]] && body[b.Succs[1]] && !leavesLoopAtOnce(b.Succs[0], body) && !leavesLoopAtOnce(b.Succs[1], body) {
				return x
			}
		case *ssa.UnOp:
			if x.Op == token.NOT {
				if u := branchOn(x, body); u != nil {
					return u
				}
			}
		case *ssa.Phi:
			// short-circuit && / ||: the merged condition
			if u := branchOn(x, body); u != nil {
				return u
			}
		}
	}
	return nil
}

// leavesLoopAtOnce: the block only jumps out of the loop (a `break` lowered into its own block).
func leavesLoopAtOnce(b *ssa.BasicBlock, body map[*ssa.BasicBlock]bool) bool {
	if len(b.Instrs) == 1 && len(b.Succs) == 1 && !body[b.Succs[0]] {
		return true
	}
	return false
}

// elementCarry runs the rule on the functions of module m reachable from roots of the given kinds.
func elementCarry(c *Ctx, m string, kinds []string) int {
	w := c.W
	scope := consensusScope(c, kinds)
	var fs []*ssa.Function
	for f := range scope {
		if !w.IsGenerated(f) && !ir.IsFixture(f) && ir.ModuleOf(f) == m {
			fs = append(fs, f)
		}
	}
	sortFuncs(fs)
	return elementCarryIn(c, m, fs)
}

func elementCarryIn(c *Ctx, m string, fs []*ssa.Function) int {
	w, r := c.W, c.R
	loops, bad := 0, 0
	for _, f := range fs {
		for _, h := range f.Blocks {
			if loopBody(h) != nil {
				loops++
			}
		}
		for i, cf := range elementCarries(f) {
			bad++
			name := cf.Phi.Comment
			if name == "" {
				name = cf.Phi.Name()
			}
			if os.Getenv("MCDEBUG") == "carry" {
				fmt.Fprintln(os.Stderr, "carry", fn(f), name, cf.What, w.InstrPos(cf.Use))
			}
			r.Bad("A3.element-carry", fmt.Sprintf("%s|%s|%s#%d", fn(f), name, cf.What, i), pos(c, cf.Use),
				"what a loop decides or records for one element does not depend on a local that keeps its value from the previous element (a counter or marker is declared, or reset, inside the loop)",
				fmt.Sprintf("the local %s keeps its value from one turn of the loop to the next and is %s here", name, cf.What))
		}
	}
	carryControl(c)
	if bad == 0 {
		r.OK("A3.element-carry", m+"|none", "", fmt.Sprintf("no per-element decision or record depends on a local carried between elements (%d loops in %d functions of %s)", loops, len(fs), m))
	}
	return loops
}

// carryControl: the rule finds the two carried locals of fixtures/c03 and neither of the correct forms beside them.
func carryControl(c *Ctx) {
	if c.done == nil {
		c.done = map[string]bool{}
	}
	if c.done["carry-control"] {
		return
	}
	c.done["carry-control"] = true
	hit := map[string]int{}
	for _, f := range c.W.Funcs {
		if !ir.IsFixture(f) || ir.FnPkg(f) == nil || ir.FnPkg(f).Name() != "c03" {
			continue
		}
		hit[f.Name()] = len(elementCarries(f))
	}
	c.R.Control("A3.element-carry", "fixtures/c03", hit["CountsAcrossElements"] > 0 && hit["MarkerAcrossElements"] > 0 && hit["CountsPerElement"] == 0 && hit["RunningTotal"] == 0 && hit["CappedRun"] == 0)
}
