package props

import (
	"fmt"
	"go/ast"
	"go/types"
	"os"
	"strings"

	"golang.org/x/tools/go/ssa"

	"mcverif/internal/ir"
)

func init() { Registry["C13"] = C13 }

// entitlement table: service method -> entitled field and mechanism (the specification).
type entRow struct {
	Module, Method, Field, Mech string
	IDField                     string // message field naming the registration (owner mechanism)
}

var entTable = []entRow{
	{"enterprise", "UndPurchaseOrder", "Purchaser", "whitelist", ""},
	{"enterprise", "ProcessUndPurchaseOrder", "Signer", "entsigner", ""},
	{"enterprise", "WhitelistAddress", "Signer", "entsigner", ""},
	{"enterprise", "UpdateParams", "Authority", "authority", ""},
	{"wrkchain", "RegisterWrkChain", "Owner", "becomes-owner", ""},
	{"wrkchain", "RecordWrkChainBlock", "Owner", "owner", "WrkchainId"},
	{"wrkchain", "PurchaseWrkChainStateStorage", "Owner", "owner", "WrkchainId"},
	{"wrkchain", "UpdateParams", "Authority", "authority", ""},
	{"beacon", "RegisterBeacon", "Owner", "becomes-owner", ""},
	{"beacon", "RecordBeaconTimestamp", "Owner", "owner", "BeaconId"},
	{"beacon", "PurchaseBeaconStateStorage", "Owner", "owner", "BeaconId"},
	{"beacon", "UpdateParams", "Authority", "authority", ""},
	{"stream", "CreateStream", "Sender", "stream-role", ""},
	{"stream", "ClaimStream", "Receiver", "stream-role", ""},
	{"stream", "TopUpDeposit", "Sender", "stream-role", ""},
	{"stream", "UpdateFlowRate", "Sender", "stream-role", ""},
	{"stream", "CancelStream", "Sender", "stream-role", ""},
	{"stream", "UpdateParams", "Authority", "authority", ""},
}

var regSection = map[string]string{
	"wrkchain": "x/wrkchain/types.RegisteredWrkChainPrefix",
	"beacon":   "x/beacon/types.RegisteredBeaconPrefix",
}

const secStreams = "x/stream/types.StreamKeyPrefix"

func handlerOf(c *Ctx, m, method string) *ssa.Function {
	fs := c.W.Roots["MSG:"+m+"."+method]
	if len(fs) == 1 {
		return fs[0]
	}
	return nil
}

// msgTypeOf returns the request message type name of a handler.
func msgTypeOf(h *ssa.Function) string {
	if len(h.Params) < 3 {
		return ""
	}
	return typeName(h.Params[2].Type())
}

func typeName(t interface{ String() string }) string {
	s := t.String()
	s = strings.TrimPrefix(s, "*")
	if i := strings.LastIndex(s, "."); i >= 0 {
		return s[i+1:]
	}
	return s
}

func C13(c *Ctx) {
	w, r := c.W, c.R
	r.Explanation = "Agreement table (A7) of 18 rows message→entitled field, checked three ways on go/ssa: (i) GetSigners of the message returns exactly [AccAddressFromBech32(msg.<field>)]; " +
		"(ii) in the MsgServer method every instruction that can lead to a store write/delete or bank movement is guarded (cut-reachability over the CFG, looking through bool/error helpers) by the entitlement predicate over that same field: whitelist membership, membership in params.EntSigners, equality with the stored Owner of the registration named in the message, or equality of req.Authority with the keeper authority; " +
		"for streams, every access to the stream section and every bank transfer reachable from the handler is instantiated up the call chain and must use key (addr(msg.Receiver), addr(msg.Sender)) and pay/debit the party the operation belongs to; " +
		"(iii) A5 wiring: the four custom keepers receive NewModuleAddress(gov) as authority and store it unchanged; SetPubKey/SigVerification/IncrementSequence decorators are in the ante chain; legacy NewHandler closures only forward to the MsgServer. Quantifies over all paths and call sites; signature cryptography is trusted."
	r.Rules = []string{"A7.getsigners", "A2.entitlement-guard", "A7.stream-roles", "A5.authority-wiring", "A5.sig-decorators", "A3.decorator-continues", "A1.legacy-handler", "A6.entitlement-from-state", "A2.whitelist-action", "A3.update-stores"}
	// the purchaser's entitlement is its whitelist entry: the entry changed by a whitelist message is the named address's
	whitelistRules(c)
	// a parameter update by the authority takes effect as submitted (the signer set it names is the one in force)
	for _, m := range ir.Modules {
		updateTakesEffect(c, m)
	}
	r.Trusted = []string{"cosmos-sdk x/auth ante: SigVerificationDecorator verifies GetSigners() signatures", "baseapp message routing to registered MsgServer"}
	r.NotDecided = []string{"signature verification itself", "state may change between check and use within one handler (ignored)"}

	r.Floor("MsgServer methods", len(w.Roots["MSG"]), 18)
	rows := 0
	for _, row := range entTable {
		h := handlerOf(c, row.Module, row.Method)
		key := row.Module + "." + row.Method
		if h == nil {
			r.Undecided("A7.getsigners", key, "", "handler found", "no unique MsgServer implementation of "+key)
			continue
		}
		rows++
		getSigners(c, row, h)
		entitlementGuard(c, row, h)
	}
	// every MsgServer method has a table row
	for _, m := range ir.Modules {
		for _, h := range w.Roots["MSG:"+m] {
			found := false
			for _, row := range entTable {
				if handlerOf(c, row.Module, row.Method) == h {
					found = true
				}
			}
			r.Require(found, "A7.getsigners", "table-covers|"+fn(h), w.Pos(h.Pos()), "every MsgServer method has an entitlement row (a new message needs a specification)", "no row for "+fn(h))
		}
	}
	r.Analysed["entitlement_rows"] = rows

	authorityWiring(c)
	sigDecorators(c)
	decoratorsContinue(c)
	legacyHandlers(c)
	// entitlement is decided from committed state only: nothing a handler or decorator consults can have
	// been remembered in a module object by a branch that was later discarded (simulate, CheckTx, failed proposal)
	entitlementFromState(c)
}

// entitlementFromState: nothing a handler or decorator consults to decide who may act is remembered in a module object
// (A6.keeper-mutation over the consensus scope, reported as A6.entitlement-from-state). Also run under C03: "approved by
// the quorum of authorised signers" is decided from the committed signer list only.
func entitlementFromState(c *Ctx) {
	scope := consensusScope(c, consensusKinds)
	var fs []*ssa.Function
	for f := range scope {
		if !c.W.IsGenerated(f) && !ir.IsFixture(f) {
			fs = append(fs, f)
		}
	}
	sortFuncs(fs)
	keeperMutationRule(c, fs, "A6.entitlement-from-state")
}

func getSigners(c *Ctx, row entRow, h *ssa.Function) {
	w, r := c.W, c.R
	mt := msgTypeOf(h)
	key := row.Module + "." + mt
	var gs *ssa.Function
	for _, f := range w.Roots["MSGIFACE:GetSigners"] {
		if ir.ModuleOf(f) == row.Module && f.Signature.Recv() != nil && typeName(f.Signature.Recv().Type()) == mt {
			gs = f
		}
	}
	if gs == nil {
		r.Undecided("A7.getsigners", key, "", "message type implements GetSigners", "not found for "+mt)
		return
	}
	sum := w.Summary(gs)
	res := sum.Args[0]
	// the slice may be built by a helper shared by several messages: look inside
	for i := 0; i < 3 && res.Op == "call" && res.Callee != nil; i++ {
		x := w.Inline(res)
		if x == nil {
			break
		}
		res = x
	}
	ok := false
	if res.Op == "list" && len(res.Args) == 1 {
		ok = true
		for _, a := range res.Args[0].Alts() {
			if !isAddrOf(a, row.Field) {
				ok = false
			}
		}
	}
	r.Require(ok, "A7.getsigners", key, w.Pos(gs.Pos()), fmt.Sprintf("GetSigners returns exactly [AccAddressFromBech32(msg.%s)]", row.Field), "returns "+res.String())
}

func entitlementGuard(c *Ctx, row entRow, h *ssa.Function) {
	w, r := c.W, c.R
	key := row.Module + "." + row.Method
	sites := mutatingSites(c, h, isStateMutation)
	r.Analysed["mutating_sites_in_handlers"] += len(sites)
	if len(sites) == 0 {
		r.Bad("floor", "mutating-sites|"+key, w.Pos(h.Pos()), "a state-changing handler contains a state-changing call", "no mutating instruction found in "+fn(h))
		return
	}
	var m ir.Matcher
	var want string
	switch row.Mech {
	case "whitelist":
		want = "membership of addr(msg." + row.Field + ") in the whitelist section"
		m = func(p ir.Pred) bool {
			if !p.Pol {
				return false
			}
			e := p.E
			// store.Has(WhitelistKey(addr(msg.F)))
			if e.Op == "call" && strings.HasSuffix(e.Name, ".Has") && len(e.Args) == 2 {
				k := e.Args[1]
				if w.SectionOfKey(k) == secWhitelist {
					for _, a := range keyArgs(k) {
						if isAddrOf(a, row.Field) {
							return true
						}
					}
				}
			}
			return false
		}
	case "entsigner":
		want = "addr(msg." + row.Field + ") equals an element of params.EntSigners"
		m = func(p ir.Pred) bool {
			if !p.Pol {
				return false
			}
			e := p.E
			if e.Op == "call" && strings.HasSuffix(e.Name, "AccAddress).Equals") && len(e.Args) == 2 {
				for _, pr := range [][2]*ir.Expr{{e.Args[0], e.Args[1]}, {e.Args[1], e.Args[0]}} {
					if isAddrOf(pr[0], row.Field) {
						other := w.Expand(pr[1], 5)
						if os.Getenv("MCDEBUG") == "ent" {
							fmt.Fprintln(os.Stderr, "entsigner other:", pr[1].String(), "=>", other.String())
						}
						if mentionsStateField(other, secEntParams, "EntSigners") != nil {
							return true
						}
					}
				}
			}
			return false
		}
	case "owner":
		want = "addr(msg." + row.Field + ") equals the stored Owner of registration msg." + row.IDField
		m = ownerMatcher(c, row.Module, row.Field, row.IDField)
	case "authority":
		want = "req." + row.Field + " equals the keeper's authority"
		m = func(p ir.Pred) bool {
			op, x, y, ok := p.Cmp()
			if !ok || op != "==" {
				return false
			}
			for _, pr := range [][2]*ir.Expr{{x, y}, {y, x}} {
				if isMsgField(pr[0], row.Field) && pr[1].Op == "field" && pr[1].Name == "authority" {
					return true
				}
			}
			return false
		}
	case "becomes-owner":
		// the signer becomes the owner: the stored registration's Owner is str(addr(msg.Owner))
		sec := regSection[row.Module]
		n := 0
		for _, in := range instantiate(c, h, func(e ir.Effect) bool { return e.Kind == "StoreWrite" && e.Section == sec }, func(e ir.Effect) *ir.Expr {
			return w.ExprOf(e.Call.Common().Args[1])
		}) {
			n++
			v := in.E
			var owner *ir.Expr
			if v.Op == "call" && len(v.Args) >= 1 {
				st := v.Args[len(v.Args)-1]
				if st.Op == "ref" {
					st = st.Args[0]
				}
				owner = fieldOfStruct(st, "Owner")
			}
			ok := owner != nil && owner.Op == "call" && strings.HasSuffix(owner.Name, "AccAddress).String") && len(owner.Args) == 1 && isAddrOf(owner.Args[0], row.Field)
			d := "<unresolved>"
			if owner != nil {
				d = owner.String()
			}
			r.Require(ok, "A2.entitlement-guard", key+"|owner-stored", pos(c, in.Eff.Site), "the registration stores addr(msg."+row.Field+") as Owner", "Owner = "+d)
		}
		r.Require(n >= 1, "A2.entitlement-guard", key+"|writes-registration", w.Pos(h.Pos()), "the register handler writes the registration section", "no such write reachable")
		return
	case "stream-role":
		streamRoles(c, row, h)
		return
	}
	for i, s := range sites {
		g := w.Guarded(h, s, m, 3)
		if !g {
			// the check may stand inside the step (the keeper vets the signer itself before it writes): then every
			// state-changing instruction the step reaches is behind it, in the call-expanded view of the handler
			if call, ok := s.(ssa.CallInstruction); ok {
				inside := map[ssa.Instruction]bool{}
				for _, gfn := range w.CalleesOf(call) {
					for f2 := range w.Reachable([]*ssa.Function{gfn}) {
						for _, e := range w.EffectsOf(f2) {
							if isMutation(e) && e.Kind != "GlobalWrite" {
								inside[e.Site] = true
							}
						}
					}
				}
				if len(inside) > 0 && len(w.FlatGuarded(h, func(in ssa.Instruction) bool { return inside[in] }, m, 3)) == 0 {
					g = true
				}
			}
		}
		r.Require(g, "A2.entitlement-guard", fmt.Sprintf("%s|site%d:%s", key, i, siteName(c, s)), pos(c, s), "state-changing step is reachable only when "+want, "a path reaches it without that check")
	}
}

func siteName(c *Ctx, in ssa.Instruction) string {
	if call, ok := in.(ssa.CallInstruction); ok {
		cc := call.Common()
		if cc.IsInvoke() {
			return cc.Method.Name()
		}
		if sc := cc.StaticCallee(); sc != nil {
			return sc.Name()
		}
	}
	return "instr"
}

// fieldOfStruct extracts field f from a struct-valued expression.
func fieldOfStruct(e *ir.Expr, f string) *ir.Expr {
	if e == nil {
		return nil
	}
	// a record handed over by pointer is the record it points to
	for e.Op == "ref" && len(e.Args) == 1 {
		e = e.Args[0]
	}
	if e.Op == "struct" {
		for i, n := range e.Fields {
			if n == f {
				return e.Args[i]
			}
		}
		return nil
	}
	return nil
}

// streamRoles: every stream-section access and bank movement reachable from the handler
// uses the parties named in the message in their proper roles.
func streamRoles(c *Ctx, row entRow, h *ssa.Function) {
	w, r := c.W, c.R
	key := row.Module + "." + row.Method
	n := 0
	for _, in := range instantiate(c, h, func(e ir.Effect) bool {
		return strings.HasPrefix(e.Kind, "Store") && e.Section == secStreams && e.Key != nil
	}, func(e ir.Effect) *ir.Expr { return e.Key }) {
		n++
		ka := keyArgs(in.E)
		ok := len(ka) == 2 && isAddrOf(ka[0], "Receiver") && isAddrOf(ka[1], "Sender")
		if !ok {
			// whatever builds the key (a method of a key struct, a shared composer): judged by its layout — the encoded
			// values, in order, are the receiver's then the sender's address
			if segs, err := keyShape(c, in.E, 0); err == nil {
				var dyn []*ir.Expr
				for _, sg := range segs {
					if sg.Kind != "Const" && sg.E != nil {
						dyn = append(dyn, c.W.Expand(sg.E, 3))
					}
				}
				ok = len(dyn) == 2 && isAddrOf(dyn[0], "Receiver") && isAddrOf(dyn[1], "Sender")
			}
		}
		r.Require(ok, "A7.stream-roles", fmt.Sprintf("%s|%s|%s", key, in.Eff.Kind, fn(in.Eff.Fn)), pos(c, in.Eff.Site), "the stream is addressed by key (addr(msg.Receiver), addr(msg.Sender))", "key "+in.E.String())
	}
	r.Require(n >= 1, "A7.stream-roles", key+"|touches-stream", w.Pos(h.Pos()), "the handler accesses the stream section", "none reachable")
	// bank movements
	for _, in := range instantiate(c, h, func(e ir.Effect) bool { return e.Kind == "Bank" }, func(e ir.Effect) *ir.Expr {
		// pack the party argument: for FromAccountToModule arg1 (payer); for ModuleToAccount arg2 (payee)
		args := e.Call.Common().Args
		switch e.Method {
		case "SendCoinsFromAccountToModule":
			return w.ExprOf(args[1])
		case "SendCoinsFromModuleToAccount":
			return w.ExprOf(args[2])
		case "SendCoinsFromModuleToModule":
			return w.ExprOf(args[2])
		}
		return &ir.Expr{Op: "unknown", Name: e.Method}
	}) {
		var ok bool
		var want string
		switch in.Eff.Method {
		case "SendCoinsFromAccountToModule":
			want = "deposits are debited from addr(msg.Sender)"
			ok = isAddrOf(in.E, "Sender")
		case "SendCoinsFromModuleToAccount":
			// claim pays the receiver; the cancel refund pays the sender
			// (a payout made on a route through the claim step is a claim; any other module-to-account transfer is the refund)
			viaClaim := false
			for _, g := range claimSteps(c) {
				if in.Eff.Fn == g {
					viaClaim = true
				}
				for _, ci := range in.Chain {
					if ci.Parent() == g {
						viaClaim = true
					}
				}
			}
			if !viaClaim {
				want = "refunds are paid to addr(msg.Sender)"
				ok = isAddrOf(in.E, "Sender")
			} else {
				want = "claims are paid to addr(msg.Receiver)"
				ok = isAddrOf(in.E, "Receiver")
			}
		case "SendCoinsFromModuleToModule":
			want = "validator fees go to the keeper's fee collector module"
			ok = in.E.Op == "field" && in.E.Name == "feeCollectorName"
		default:
			want = "only account<->module transfers are used"
		}
		r.Require(ok, "A7.stream-roles", fmt.Sprintf("%s|%s|%s", key, in.Eff.Method, fn(in.Eff.Fn)), pos(c, in.Eff.Site), want, "party "+in.E.String())
	}
}

// refundSite: the transfer's amount is the stream's whole remaining Deposit (a refund), not a claim split.
func refundSite(c *Ctx, e ir.Effect) bool {
	amt := c.W.ExprOf(e.Call.Common().Args[3])
	return amt.Any(func(x *ir.Expr) bool { return isStateField(x, secStreams, "Deposit") }) &&
		!amt.Any(func(x *ir.Expr) bool { return x.Op == "call" && strings.Contains(x.Name, "CalculateValidatorFee") })
}

func authorityWiring(c *Ctx) {
	w, r := c.W, c.R
	pk := w.Pkg("app")
	if pk == nil {
		r.Undecided("A5.authority-wiring", "app", "", "package app loaded", "missing")
		return
	}
	n := 0
	for _, f := range pk.Syntax {
		ast.Inspect(f, func(nd ast.Node) bool {
			call, ok := nd.(*ast.CallExpr)
			if !ok {
				return true
			}
			obj := ir.CalleeObj(pk, call)
			if obj == nil || obj.Name() != "NewKeeper" || obj.Pkg() == nil {
				return true
			}
			rel := ir.RelPkg(obj.Pkg().Path())
			m := ""
			for _, mm := range ir.Modules {
				if rel == "x/"+mm+"/keeper" {
					m = mm
				}
			}
			if m == "" {
				return true
			}
			n++
			// the authority parameter is the string-typed parameter named by its use: find the parameter index stored into field `authority`
			idx := authorityParamIndex(c, obj.FullName())
			if idx < 0 || idx >= len(call.Args) {
				r.Undecided("A5.authority-wiring", m, w.Pos(call.Pos()), "NewKeeper stores one parameter into the authority field", "not resolvable")
				return true
			}
			arg := call.Args[idx]
			// a local that is assigned once (`govAuthority := authtypes.NewModuleAddress(gov).String()`) stands for its value
			if id, isIdent := arg.(*ast.Ident); isIdent {
				if obj := pk.TypesInfo.Uses[id]; obj != nil {
					var defs []ast.Expr
					ast.Inspect(f, func(n2 ast.Node) bool {
						as, ok := n2.(*ast.AssignStmt)
						if !ok || len(as.Lhs) != len(as.Rhs) {
							return true
						}
						for i, l := range as.Lhs {
							if lid, ok := l.(*ast.Ident); ok && (pk.TypesInfo.Defs[lid] == obj || pk.TypesInfo.Uses[lid] == obj) {
								defs = append(defs, as.Rhs[i])
							}
						}
						return true
					})
					if len(defs) == 1 {
						arg = defs[0]
					}
				}
			}
			ok2 := false
			if c1, ok := arg.(*ast.CallExpr); ok {
				if sel, ok := c1.Fun.(*ast.SelectorExpr); ok && sel.Sel.Name == "String" {
					if c2, ok := sel.X.(*ast.CallExpr); ok {
						if o2 := ir.CalleeObj(pk, c2); o2 != nil && o2.FullName() == "github.com/cosmos/cosmos-sdk/x/auth/types.NewModuleAddress" && len(c2.Args) == 1 {
							if s, ok := ir.ConstString(pk, c2.Args[0]); ok && s == "gov" {
								ok2 = true
							}
						}
					}
				}
			}
			r.Require(ok2, "A5.authority-wiring", m, w.Pos(call.Pos()), "the "+m+" keeper's authority is the governance module address", "authority argument is not authtypes.NewModuleAddress(\"gov\").String()")
			// key wiring: the store key handed to the keeper is the module's own
			for _, a := range call.Args {
				if ix, ok := a.(*ast.IndexExpr); ok {
					if s, ok := ir.ConstString(pk, ix.Index); ok {
						r.Require(s == m, "A5.authority-wiring", m+"|storekey", w.Pos(a.Pos()), "the "+m+" keeper is given its own module's store key", "keys[\""+s+"\"]")
					}
				}
			}
			return true
		})
	}
	r.Floor("custom NewKeeper calls in app", n, 4)
}

// authorityParamIndex finds the index of the NewKeeper parameter stored into the `authority` field.
func authorityParamIndex(c *Ctx, fullName string) int {
	for _, f := range c.W.Funcs {
		if f.Object() == nil || f.Object().(interface{ FullName() string }).FullName() != fullName {
			continue
		}
		sum := c.W.Summary(f)
		res := sum.Args[0]
		for _, a := range res.Alts() {
			if v := fieldOfStruct(a, "authority"); v != nil && v.Op == "param" {
				for i, p := range f.Params {
					if p.Name() == v.Name {
						return i
					}
				}
			}
		}
	}
	return -1
}

// decoratorsContinue (A3.decorator-continues): a decorator of the chain that returns successfully without
// calling next() ends the ante chain there: signature verification, sequence increment and fee deduction
// (all later in the chain) never run for that transaction, so a message naming its entitled signer is
// executed for anyone. Every success-capable return of each repo decorator must pass the call of its
// continuation parameter.
func decoratorsContinue(c *Ctx) {
	w, r := c.W, c.R
	n, nArgs := 0, 0
	for _, dec := range w.RootSet("ANTE") {
		if len(dec.Params) == 0 {
			continue
		}
		nextP := dec.Params[len(dec.Params)-1]
		if _, isFn := nextP.Type().Underlying().(*types.Signature); !isFn {
			continue
		}
		n++
		isNext := func(in ssa.Instruction) bool {
			call, ok := in.(ssa.CallInstruction)
			return ok && call.Common().Value == ssa.Value(nextP)
		}
		bad := w.MustPass(dec, isNext, nil)
		where := w.Pos(dec.Pos())
		if len(bad) > 0 {
			where = pos(c, bad[0])
		}
		r.Require(len(bad) == 0, "A3.decorator-continues", fn(dec), where, "every successful path of a chain decorator hands the transaction on to next() (signature verification runs later in the chain)", fmt.Sprintf("%d success return(s) end the chain without calling next()", len(bad)))
		// ... as it was handed in: the transaction and the simulate flag passed to next() are the decorator's own (the later
		// decorators skip signature verification and the pubkey/address match when told the run is a simulation, and verify
		// the signatures over the transaction they are given)
		var txP, simP *ssa.Parameter
		for _, p := range dec.Params {
			switch {
			case strings.HasSuffix(p.Type().String(), "cosmos-sdk/types.Tx"):
				txP = p
			case p.Type().String() == "bool":
				simP = p
			}
		}
		for _, b := range dec.Blocks {
			for _, in := range b.Instrs {
				call, ok := in.(ssa.CallInstruction)
				if !ok || !isNext(in) || len(call.Common().Args) != 3 {
					continue
				}
				nArgs++
				a := call.Common().Args
				okTx := txP == nil || a[1] == ssa.Value(txP)
				okSim := simP == nil || a[2] == ssa.Value(simP)
				r.Require(okTx && okSim, "A3.decorator-continues", fn(dec)+"|same-tx-and-mode", pos(c, in),
					"a chain decorator hands on to next() the transaction and the simulate flag it was given",
					fmt.Sprintf("next(ctx, %s, %s)", w.ExprOf(a[1]), w.ExprOf(a[2])))
			}
		}
	}
	r.Floor("next() calls of repo decorators judged for what they hand on", nArgs, 3)
	r.Floor("repo decorators in the ante chain", n, 3)
}

func sigDecorators(c *Ctx) {
	w, r := c.W, c.R
	chain, err := w.AnteChain()
	if err != nil {
		r.Undecided("A5.sig-decorators", "chain", "", "ante chain evaluable", err.Error())
		return
	}
	idx := map[string]int{}
	for i, e := range chain {
		idx[e.Ctor[strings.LastIndex(e.Ctor, ".")+1:]] = i + 1
	}
	for _, need := range []string{"NewSetPubKeyDecorator", "NewSigVerificationDecorator", "NewIncrementSequenceDecorator", "NewValidateBasicDecorator", "NewValidateSigCountDecorator"} {
		r.Require(idx[need] > 0, "A5.sig-decorators", need, "ante/ante.go", "the ante chain contains "+need, "missing from the decorator list")
	}
	r.Require(idx["NewSetPubKeyDecorator"] > 0 && idx["NewSetPubKeyDecorator"] < idx["NewSigVerificationDecorator"], "A5.sig-decorators", "order|pubkey<sigverify", "ante/ante.go", "SetPubKey precedes SigVerification", "wrong order")
	r.Analysed["ante_decorators"] = len(chain)
}

func legacyHandlers(c *Ctx) {
	w, r := c.W, c.R
	msgReach := w.Reachable(w.RootSet("MSG"))
	n := 0
	for _, f := range w.Funcs {
		if ir.IsFixture(f) || w.IsGenerated(f) || f.Parent() == nil || f.Parent().Name() != "NewHandler" || ir.ModuleOf(f) == "" {
			continue
		}
		n++
		bad := ""
		for g := range w.Reachable([]*ssa.Function{f}) {
			if _, viaMsg := msgReach[g]; viaMsg {
				continue
			}
			for _, e := range w.EffectsOf(g) {
				if isStateMutation(e) {
					bad = e.Kind + " in " + fn(g)
				}
			}
		}
		r.Require(bad == "", "A1.legacy-handler", fn(f), w.Pos(f.Pos()), "legacy handlers change state only by forwarding to the MsgServer methods", bad)
	}
	r.Analysed["legacy_handlers"] = n
}

// ownerMatcher accepts the predicate "addr(msg.<field>) equals the stored Owner of the
// registration named by msg.<idField>" (looking through the keeper's owner getter).
func ownerMatcher(c *Ctx, module, field, idField string) ir.Matcher {
	w := c.W
	sec := regSection[module]
	return func(p ir.Pred) bool {
		if !p.Pol {
			return false
		}
		e := p.E
		if e.Op == "call" && strings.HasSuffix(e.Name, "AccAddress).Equals") && len(e.Args) == 2 {
			for _, pr := range [][2]*ir.Expr{{e.Args[0], e.Args[1]}, {e.Args[1], e.Args[0]}} {
				if !isAddrOf(pr[0], field) {
					continue
				}
				other := w.Expand(pr[1], 5)
				sf := mentionsStateField(other, sec, "Owner")
				if sf == nil {
					continue
				}
				// every non-empty alternative must be the address of that stored owner, for the id named in the message
				good := true
				for _, a := range other.Alts() {
					if a.Op == "list" || a.Op == "slice" || a.Op == "zero" || a.Op == "const" {
						continue // the empty address returned for unknown ids
					}
					if mentionsStateField(a, sec, "Owner") == nil {
						good = false
					}
				}
				ka := keyArgs(stateKey(sf))
				if good && len(ka) == 1 && isMsgField(ka[0], idField) {
					return true
				}
			}
		}
		return false
	}
}
