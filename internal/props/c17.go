package props

import (
	"fmt"
	"go/ast"
	"go/constant"
	"go/token"
	"go/types"
	"strings"

	"golang.org/x/tools/go/ssa"

	"mcverif/internal/ir"
)

func init() {
	Registry["C17"] = C17
	Registry["C19"] = C19
}

func isTotalLocked(c *Ctx, e *ir.Expr) bool {
	x := c.W.Expand(e, 3)
	n := 0
	for _, a := range x.Alts() {
		if a.Op == "state" && a.Name == secTotLocked {
			n++
			continue
		}
		// default when nothing stored: a zero coin of the enterprise denom
		if calleeIs(a, "types.NewInt64Coin") && len(a.Args) == 2 && a.Args[1].Op == "const" && a.Args[1].Name == "0" {
			continue
		}
		return false
	}
	return n > 0
}

func isBankSupplyOf(c *Ctx, e *ir.Expr, denom func(*ir.Expr) bool) bool {
	if calleeIs(e, "BankKeeper.GetSupply") && len(e.Args) == 3 && denom(e.Args[2]) {
		return true
	}
	// (read through a small getter of the keeper)
	if e.Op == "call" && e.Callee != nil {
		x := c.W.Expand(e, 3)
		return calleeIs(x, "BankKeeper.GetSupply") && len(x.Args) == 3 && denom(x.Args[2])
	}
	return false
}

// denomOfSupply: e is the Denom of the coin bank.GetSupply hands back for a denomination accepted by denom — by the
// bank's contract that denomination itself (trusted: GetSupply(d) returns a coin of denomination d).
func denomOfSupply(c *Ctx, e *ir.Expr, denom func(*ir.Expr) bool) bool {
	return e.Op == "field" && e.Name == "Denom" && len(e.Args) == 1 && isBankSupplyOf(c, e.Args[0], denom)
}

func C17(c *Ctx) {
	w, r := c.W, c.R
	// values computed by small in-scope helpers (circulatingSupply(a, b) = a.Sub(b), a constructor of the
	// supply record) are looked into before they are compared with the expected shape
	inl := func(e *ir.Expr) *ir.Expr {
		for i := 0; i < 3 && e != nil && e.Op == "call" && e.Callee != nil && !reachesEffect(c, e.Callee, func(x ir.Effect) bool { return strings.HasPrefix(x.Kind, "Store") || x.Kind == "Bank" }); i++ {
			x := w.Inline(e)
			if x == nil {
				break
			}
			e = x
		}
		return e
	}
	r.Explanation = "(A2 + origins on go/ssa) the three supply functions: for the enterprise denomination the value returned is bank.GetSupply(d).Sub(stored TotalLocked) and for every other denomination bank.GetSupply(d) unchanged, each return being reachable only on the matching side of d == params.Denom; the paginated variant returns the bank's page itself and rewrites element i in place with c.Sub(stored TotalLocked) only under c.Denom == params.Denom (no append/removal); the EnterpriseSupply record maps Total←supply, Locked←locked, Amount←supply.Sub(locked) for denom params.Denom; " +
		"(A7) the gRPC SupplyOf/TotalSupply handlers (and the *Overwrite aliases bound to the bank REST paths) return those functions' results for the request's denom/pagination; (A3) the enterprise gateway routes are registered before ModuleBasics' routes so the overwrite paths win; (A7) the CLI supply commands call the enterprise query client. Numeric identities and non-negativity are not decided."
	r.Rules = []string{"A2.supply-of", "A2.paginated-supply", "A7.enterprise-supply", "A7.query-wiring", "A3.route-order", "A7.gateway-paths", "A7.cli-client", "A7.cli-override", "A3.counter-pairs"}
	// the figure subtracted is the stored total-locked counter: it moves whenever, and by what, an account's locked eFUND moves
	counterPairs(c)
	r.Trusted = []string{"bank GetSupply / GetPaginatedTotalSupply return the recorded supply, each denomination once", "bank GetSupply(d) hands back a coin of denomination d", "grpc-gateway mux: first registered handler for a pattern wins"}
	r.NotDecided = []string{"locked + unlocked == total numerically; non-negativity of supply - locked", "bank pagination itself"}
	isReqParam := func(e *ir.Expr) bool { return e.Op == "param" }
	isEntParamDenom := func(e *ir.Expr) bool { return isEntParam(c, e, "Denom") }
	// the requested (enterprise) denomination, also as the Denom of the coin the bank hands back for it
	isReqDenom := func(e *ir.Expr) bool { return isReqParam(e) || denomOfSupply(c, e, isReqParam) }
	isEntDenom := func(e *ir.Expr) bool { return isEntParamDenom(e) || denomOfSupply(c, e, isEntParamDenom) }
	// a test that can never hold: the bank's coin for the enterprise denomination in another denomination than that
	never := func(p ir.Pred) bool {
		return cmpIs(p, "!=", func(x *ir.Expr) bool { return denomOfSupply(c, x, isEntParamDenom) }, isEntParamDenom) ||
			cmpIs(p, "!=", isEntParamDenom, func(x *ir.Expr) bool { return denomOfSupply(c, x, isEntParamDenom) })
	}

	// SupplyOf
	n := 0
	supplyOfFns, pageFns, entSupplyFns := map[*ssa.Function]bool{}, map[*ssa.Function]bool{}, map[*ssa.Function]bool{}
	for _, f := range w.PkgFuncs("x/enterprise/keeper") {
		if w.IsGenerated(f) || f.Parent() != nil || f.Signature.Recv() == nil {
			continue
		}
		res := f.Signature.Results()
		// func(ctx, denom string) sdk.Coin reading bank supply
		if res.Len() == 1 && strings.HasSuffix(res.At(0).Type().String(), "types.Coin") && len(f.Params) == 3 && f.Params[2].Type().String() == "string" {
			callsSupply := false
			for _, b := range f.Blocks {
				for _, in := range b.Instrs {
					if call, ok := in.(ssa.CallInstruction); ok && methodNameOf(call) == "GetSupply" {
						callsSupply = true
					}
				}
			}
			if !callsSupply {
				continue
			}
			n++
			eq := func(pol bool) ir.Matcher {
				return func(p ir.Pred) bool {
					op := "=="
					if !pol {
						op = "!="
					}
					return cmpIs(p, op, isReqDenom, isEntDenom)
				}
			}
			supplyOfFns[f] = true
			// every way the function produces its result (a return of its own, or of a helper whose value it hands on), with
			// the value in the function's terms and in canonical form
			for i, alt := range returnAlts(c, f, 0) {
				v := inl(alt.E)
				if !(calleeIs(v, "types.Coin).Sub") || isBankSupplyOf(c, v, isReqDenom)) {
					v = w.Expand(alt.E, 4)
				}
				key := fmt.Sprintf("%s|return%d", fn(f), i)
				switch {
				case calleeIs(v, "types.Coin).Sub") && len(v.Args) == 2 && isBankSupplyOf(c, v.Args[0], isReqDenom) && isTotalLocked(c, v.Args[1]):
					r.Require(alt.Guarded(eq(true), 1), "A2.supply-of", key, pos(c, alt.Pos.In), "supply minus locked eFUND is returned only for the enterprise denomination", "reachable for other denominations")
				case isBankSupplyOf(c, v, isReqDenom):
					r.Require(alt.Guarded(eq(false), 1), "A2.supply-of", key, pos(c, alt.Pos.In), "the unchanged bank supply is returned only for denominations other than the enterprise one", "reachable for the enterprise denomination")
				default:
					r.Bad("A2.supply-of", key, pos(c, alt.Pos.In), "the supply of a denomination is bank.GetSupply(denom), minus stored TotalLocked for the enterprise denomination", "returns "+v.String())
				}
			}
		}
	}
	r.Floor("per-denomination supply functions", n, 1)

	// paginated
	np := 0
	for _, f := range w.PkgFuncs("x/enterprise/keeper") {
		if w.IsGenerated(f) || f.Parent() != nil {
			continue
		}
		var page *ssa.Call
		for _, b := range f.Blocks {
			for _, in := range b.Instrs {
				if call, ok := in.(*ssa.Call); ok && methodNameOf(call) == "GetPaginatedTotalSupply" {
					page = call
				}
			}
		}
		if page == nil {
			continue
		}
		np++
		pageFns[f] = true
		key := fn(f)
		pe := w.ExprOf(page)
		rets := ir.Returns(f)
		if sr := w.SuccessReturns(f); len(sr) > 0 && ir.ErrIndex(f) >= 0 {
			rets = sr // (what a failing return hands back beside the error is not a listing)
		}
		for i, ret := range rets {
			v := w.ExprOf(ret.Results[0])
			ok := v.Op == "res" && v.Name == "0" && v.Args[0].String() == pe.String()
			r.Require(ok, "A2.paginated-supply", fmt.Sprintf("%s|return%d|slice", key, i), pos(c, ret), "the listing returned is the bank's page itself (no element added or removed)", "returns "+v.String())
			pg := w.ExprOf(ret.Results[1])
			r.Require(pg.Op == "res" && pg.Name == "1" && pg.Args[0].String() == pe.String(), "A2.paginated-supply", fmt.Sprintf("%s|return%d|page", key, i), pos(c, ret), "the page response is the bank's", pg.String())
		}
		okArg := len(page.Common().Args) == 2 && w.ExprOf(page.Common().Args[1]).Op == "param"
		r.Require(okArg, "A2.paginated-supply", key+"|pagination-arg", pos(c, page), "the caller's pagination request is passed to the bank unchanged", "argument "+w.ExprOf(page.Common().Args[len(page.Common().Args)-1]).String())
		// element rewrites
		nst := 0
		for _, b := range f.Blocks {
			for _, in := range b.Instrs {
				st, ok := in.(*ssa.Store)
				if !ok {
					continue
				}
				ia, ok := st.Addr.(*ssa.IndexAddr)
				if !ok {
					continue
				}
				base := w.ExprOf(ia.X)
				if !(base.Op == "res" && base.Args[0].String() == pe.String()) {
					continue
				}
				nst++
				elem := func(e *ir.Expr) bool {
					return e.Op == "elem" && e.Args[0].String() == base.String() && e.Args[1].String() == w.ExprOf(ia.Index).String()
				}
				isEntElem := func(p ir.Pred) bool {
					return cmpIs(p, "==", func(x *ir.Expr) bool { return x.Op == "field" && x.Name == "Denom" && elem(x.Args[0]) }, isEntDenom)
				}
				// the ways the stored value is produced (a helper may decide between the element itself and element minus
				// locked): the element written back unchanged is no rewrite; the reduced one must be the enterprise entry's
				okV, g := true, true
				shown := ""
				for _, alt := range valueAlts(c, f, in, st.Val) {
					v := inl(alt.E)
					if !calleeIs(v, "types.Coin).Sub") && !elem(v) {
						v = w.Expand(alt.E, 4)
					}
					shown = v.String()
					if elem(v) {
						continue
					}
					if !(calleeIs(v, "types.Coin).Sub") && len(v.Args) == 2 && elem(v.Args[0]) && isTotalLocked(c, v.Args[1])) {
						okV = false
						continue
					}
					if alt.Pos.In == in && alt.Pos.Ctx != nil && alt.Pos.Ctx.Up == nil {
						g = g && w.Guarded(f, in, isEntElem, 1)
					} else {
						g = g && alt.Guarded(isEntElem, 1)
					}
				}
				if !g && okV {
					// two passes: the entries to rewrite were picked out first (position and element collected under the
					// denomination test), then rewritten: the test stands where each entry was collected
					idx := w.ExprOf(ia.Index).String()
					nApp, allG := 0, true
					for _, b2 := range f.Blocks {
						for _, in2 := range b2.Instrs {
							call, ok := in2.(*ssa.Call)
							if !ok {
								continue
							}
							if bi, ok := call.Common().Value.(*ssa.Builtin); !ok || bi.Name() != "append" || len(call.Common().Args) != 2 {
								continue
							}
							if !w.ExprOf(call.Common().Args[1]).Any(func(z *ir.Expr) bool { return z.String() == idx }) {
								continue
							}
							nApp++
							if !w.Guarded(f, in2, isEntElem, 1) {
								allG = false
							}
						}
					}
					g = nApp > 0 && allG
				}
				r.Require(okV, "A2.paginated-supply", key+"|rewrite-value", pos(c, in), "element i is replaced by element i minus the stored TotalLocked", "stores "+shown)
				r.Require(g, "A2.paginated-supply", key+"|rewrite-guard", pos(c, in), "only the enterprise denomination's entry is reduced", "rewrite reachable for other denominations")
			}
		}
		r.Require(nst == 1, "A2.paginated-supply", key+"|one-rewrite", w.Pos(f.Pos()), "exactly one in-place rewrite of the listing exists", fmt.Sprintf("%d stores into the listing", nst))
		// the listing is handed back only after its entries were looked at: no successful return goes round the loop that
		// holds the rewrite (a shortcut decided from the page's keys or continuation key skips the enterprise entry when
		// the decision is wrong — that it is right is a property of values, which is not decided here)
		seenHdr := map[*ssa.BasicBlock]bool{}
		for _, b := range f.Blocks {
			for _, in := range b.Instrs {
				// (any access to an entry of the listing marks the loop: the rewrite itself may be followed by a break)
				ia, ok := in.(*ssa.IndexAddr)
				if !ok {
					continue
				}
				if base := w.ExprOf(ia.X); !(base.Op == "res" && base.Args[0].String() == pe.String()) {
					continue
				}
				hdr := ir.EnclosingLoopHeader(f, ia)
				if hdr == nil || len(hdr.Instrs) == 0 || seenHdr[hdr] {
					continue
				}
				seenHdr[hdr] = true
				emptyPage := w.EstablishedEdges(f, func(p ir.Pred) bool {
					return cmpIs(p, "==", func(x *ir.Expr) bool {
						return x.Op == "call" && x.Name == "builtin:len" && len(x.Args) == 1 && x.Args[0].Op == "res" && x.Args[0].Args[0].String() == pe.String()
					}, func(y *ir.Expr) bool { return y.Op == "const" && y.Name == "0" })
				}, 0)
				for i, ret := range rets {
					round := ir.ReachesFrom(f, page.Block(), ir.InstrIndex(page)+1, ret, ir.Cut{Edges: emptyPage, Barrier: func(x ssa.Instruction) bool { return x.Block() == hdr }})
					r.Require(!round, "A2.paginated-supply", fmt.Sprintf("%s|return%d|examined", key, i), pos(c, ret), "the listing is returned only after the loop over its entries (the one that reduces the enterprise entry) has run", "a successful return is reachable without entering that loop")
				}
			}
		}
		// no append to the listing
		for _, b := range f.Blocks {
			for _, in := range b.Instrs {
				if call, ok := in.(*ssa.Call); ok {
					if bi, ok := call.Common().Value.(*ssa.Builtin); ok && bi.Name() == "append" {
						// (an append to a list of another type — positions picked out for a second pass — does not extend the listing)
						if page.Type() != nil && call.Type().String() != "github.com/cosmos/cosmos-sdk/types.Coins" && call.Type().String() != "[]github.com/cosmos/cosmos-sdk/types.Coin" {
							continue
						}
						r.Bad("A2.paginated-supply", key+"|append", pos(c, in), "the listing is never extended", "append in "+fn(f))
					}
				}
			}
		}
	}
	r.Floor("paginated supply functions", np, 1)

	// EnterpriseSupply record
	ns := 0
	for _, f := range w.PkgFuncs("x/enterprise/keeper") {
		if w.IsGenerated(f) || f.Parent() != nil {
			continue
		}
		res := f.Signature.Results()
		if res.Len() != 1 || !strings.HasSuffix(res.At(0).Type().String(), "types.UndSupply") {
			continue
		}
		// a plain constructor handed the figures (no context: it cannot read them) is judged where it is called
		takesCtx := false
		for _, p := range f.Params {
			if strings.HasSuffix(p.Type().String(), "types.Context") {
				takesCtx = true
			}
		}
		if !takesCtx {
			continue
		}
		ns++
		entSupplyFns[f] = true
		sum := inl(w.Summary(f).Args[0])
		amt := func(e *ir.Expr) *ir.Expr {
			// Uint64(<coin>.Amount)
			if calleeIs(e, "math.Int).Uint64") && len(e.Args) == 1 && e.Args[0].Op == "field" && e.Args[0].Name == "Amount" {
				a := inl(e.Args[0].Args[0])
				if a.Op == "field" || a.Op == "call" && a.Callee != nil {
					// figures loaded by a helper that bundles them (a struct of total / locked / unlocked): in canonical form
					if x := w.Expand(a, 3); x != nil && (calleeIs(x, "types.Coin).Sub") || calleeIs(x, "BankKeeper.GetSupply")) {
						a = x
					}
				}
				return a
			}
			return nil
		}
		chk := func(field string, ok func(*ir.Expr) bool, want string) {
			v := fieldOfStruct(sum, field)
			r.Require(v != nil && ok(v), "A7.enterprise-supply", fn(f)+"."+field, w.Pos(f.Pos()), "EnterpriseSupply."+field+" = "+want, fmt.Sprint(v))
		}
		chk("Denom", isEntDenom, "params.Denom")
		chk("Total", func(v *ir.Expr) bool { a := amt(v); return a != nil && isBankSupplyOf(c, a, isEntParamDenom) }, "bank supply of the enterprise denom")
		chk("Locked", func(v *ir.Expr) bool { a := amt(v); return a != nil && isTotalLocked(c, a) }, "stored TotalLocked")
		chk("Amount", func(v *ir.Expr) bool {
			a := amt(v)
			return a != nil && calleeIs(a, "types.Coin).Sub") && len(a.Args) == 2 && isBankSupplyOf(c, a.Args[0], isEntParamDenom) && isTotalLocked(c, a.Args[1])
		}, "supply.Sub(locked)")
	}
	r.Floor("functions building the EnterpriseSupply record", ns, 1)

	// unlocked total
	unlockedFns := map[*ssa.Function]bool{}
	if f := w.LookupFunc("(x/enterprise/keeper.Keeper).GetTotalUnLockedUnd"); f != nil {
		isDiff := func(v *ir.Expr) bool {
			return calleeIs(v, "types.Coin).Sub") && len(v.Args) == 2 && isBankSupplyOf(c, v.Args[0], isEntParamDenom) && isTotalLocked(c, v.Args[1])
		}
		v := inl(w.Summary(f).Args[0])
		if !calleeIs(v, "types.Coin).Sub") {
			if x := w.Expand(v, 3); calleeIs(x, "types.Coin).Sub") {
				v = x
			}
		}
		ok := isDiff(v)
		if !ok {
			// through a helper that decides by denomination: every way it can actually hand back its result
			ok = true
			nAlt := 0
			for _, alt := range returnAlts(c, f, 0) {
				if alt.Guarded(never, 1) {
					continue // the arm for other denominations is never taken for the bank's coin of the enterprise denomination
				}
				nAlt++
				x := inl(alt.E)
				if !isDiff(x) {
					x = w.Expand(alt.E, 4)
				}
				if !isDiff(x) {
					ok = false
					v = x
				}
			}
			ok = ok && nAlt > 0
		}
		if ok {
			unlockedFns[f] = true
		}
		r.Require(ok, "A7.enterprise-supply", "total-unlocked", w.Pos(f.Pos()), "total unlocked = bank supply of the enterprise denom minus stored TotalLocked", v.String())
	}

	// query wiring
	// the function each query must answer with is named by its role, established above by what it computes
	roleIs := func(set map[*ssa.Function]bool) func(*ir.Expr) bool {
		return func(src *ir.Expr) bool { return src.Op == "call" && src.Callee != nil && set[src.Callee] }
	}
	wiring := []struct {
		q, field, callee string
		is               func(*ir.Expr) bool
	}{
		{"SupplyOf", "Amount", "the per-denomination supply function", roleIs(supplyOfFns)},
		{"TotalSupply", "Supply", "the paginated supply function", roleIs(pageFns)},
		{"TotalUnlocked", "Amount", "bank supply of the enterprise denom minus stored TotalLocked", func(src *ir.Expr) bool {
			if src.Op == "call" && src.Callee != nil && unlockedFns[src.Callee] {
				return true
			}
			x := w.Expand(src, 4)
			return calleeIs(x, "types.Coin).Sub") && len(x.Args) == 2 && isBankSupplyOf(c, x.Args[0], isEntDenom) && isTotalLocked(c, x.Args[1])
		}},
		{"TotalLocked", "Amount", "the stored TotalLocked", func(src *ir.Expr) bool { return isTotalLocked(c, src) }},
		{"EnterpriseSupply", "Supply", "the EnterpriseSupply record function", roleIs(entSupplyFns)},
	}
	for _, wi := range wiring {
		q := queryOf(c, "enterprise", wi.q)
		if q == nil {
			r.Undecided("A7.query-wiring", wi.q, "", "query handler found", "missing")
			continue
		}
		ok := false
		got := ""
		for _, ret := range w.SuccessReturns(q) {
			v := structFromPtr(c, ret.Results[0], wi.field)
			if v == nil {
				continue
			}
			got = v.String()
			src := v
			if src.Op == "res" {
				src = src.Args[0]
			}
			if wi.is(src) {
				ok = true
				// request-derived arguments are passed through
				if src.Op == "call" && len(src.Args) > 2 {
					for _, a := range src.Args[2:] {
						if !(a.Op == "field" && len(a.Args) == 1 && a.Args[0].Op == "param") {
							ok = false
						}
					}
				}
			}
		}
		r.Require(ok, "A7.query-wiring", wi.q, w.Pos(q.Pos()), "the "+wi.q+" query returns "+wi.callee+" (for the request's fields)", got)
	}
	for _, alias := range [][2]string{{"SupplyOfOverwrite", "SupplyOf"}, {"TotalSupplyOverwrite", "TotalSupply"}} {
		q := queryOf(c, "enterprise", alias[0])
		t := queryOf(c, "enterprise", alias[1])
		ok := false
		if q != nil && t != nil {
			s := w.Summary(q)
			if s.Args[0].Op == "res" && s.Args[0].Args[0].Op == "call" && s.Args[0].Args[0].Callee == t {
				ok = true
			}
		}
		r.Require(ok, "A7.query-wiring", alias[0], "", alias[0]+" (bound to the bank REST path) delegates to "+alias[1], "does not")
	}
	routeOrder(c)
	gatewayPaths(c)
	cliClient(c)
}

func routeOrder(c *Ctx) {
	w, r := c.W, c.R
	f := w.LookupFunc("(*app.App).RegisterAPIRoutes")
	if f == nil {
		r.Undecided("A3.route-order", "func", "", "App.RegisterAPIRoutes exists", "not found")
		return
	}
	// asked on the flat view of RegisterAPIRoutes: the two registrations may stand in it or in a helper it calls
	classify := func(in ssa.Instruction, ctx *ir.FCtx) string {
		call, ok := in.(ssa.CallInstruction)
		if !ok || methodNameOf(call) != "RegisterGRPCGatewayRoutes" {
			return ""
		}
		cc := call.Common()
		if cc.IsInvoke() {
			e := w.ExprOf(cc.Value)
			if ctx != nil {
				e = ctx.Apply(e)
			}
			if e.Any(func(x *ir.Expr) bool { return x.Op == "const" && x.Name == `"enterprise"` }) {
				return "ent"
			}
		} else if sc := cc.StaticCallee(); sc != nil && strings.Contains(sc.String(), "BasicManager") {
			return "all"
		}
		return ""
	}
	root := w.FlatRoot(f)
	var ent, all []ir.FPos
	w.FlatWalk(root, nil, nil, func(p ir.FPos) bool {
		switch classify(p.In, p.Ctx) {
		case "ent":
			ent = append(ent, p)
		case "all":
			all = append(all, p)
		}
		return true
	})
	r.Require(len(ent) == 1 && len(all) == 1, "A3.route-order", "sites", w.Pos(f.Pos()), "RegisterAPIRoutes registers the enterprise gateway routes and the ModuleBasics routes once each", fmt.Sprintf("%d enterprise, %d basic-manager registrations", len(ent), len(all)))
	if len(ent) == 1 && len(all) == 1 {
		first := w.FlatReaches(root, nil, &ir.FlatCut{Barrier: func(cx *ir.FCtx, in ssa.Instruction) bool { return cx == ent[0].Ctx && in == ent[0].In }}, func(p ir.FPos) bool { return p.Ctx == all[0].Ctx && p.In == all[0].In })
		r.Require(first == nil, "A3.route-order", "enterprise-first", pos(c, all[0].In), "enterprise gateway routes are registered before the other modules' (so its bank-path overrides win)", "the basic manager's registration is reachable first")
	}
}

func gatewayPaths(c *Ctx) {
	w, r := c.W, c.R
	pk := w.Pkg("x/enterprise/types")
	if pk == nil {
		r.Undecided("A7.gateway-paths", "pkg", "", "package loaded", "missing")
		return
	}
	want := map[string][]string{
		"pattern_Query_TotalSupplyOverwrite_0": {"cosmos", "bank", "v1beta1", "supply"},
		"pattern_Query_SupplyOfOverwrite_0":    {"cosmos", "bank", "v1beta1", "supply", "by_denom"},
	}
	for name, segs := range want {
		init := w.VarInit(pk, name)
		var got []string
		if init != nil {
			ast.Inspect(init, func(n ast.Node) bool {
				if bl, ok := n.(*ast.BasicLit); ok && bl.Kind == token.STRING {
					got = append(got, strings.Trim(bl.Value, `"`))
				}
				return true
			})
		}
		ok := len(got) >= len(segs)
		for i := range segs {
			if i >= len(got) || got[i] != segs[i] {
				ok = false
			}
		}
		r.Require(ok, "A7.gateway-paths", name, "x/enterprise/types/query.pb.gw.go", "the overwrite query is bound to the bank REST path /"+strings.Join(segs, "/"), fmt.Sprint(got))
	}
}

func cliClient(c *Ctx) {
	w, r := c.W, c.R
	n := 0
	for _, f := range w.PkgFuncs("cmd/und/cmd") {
		usesSupply := false
		usesEnt := false
		usesBank := false
		for _, b := range f.Blocks {
			for _, in := range b.Instrs {
				call, ok := in.(ssa.CallInstruction)
				if !ok {
					continue
				}
				name := methodNameOf(call)
				if name == "TotalSupply" || name == "SupplyOf" {
					usesSupply = true
					if call.Common().IsInvoke() {
						t := call.Common().Value.Type().String()
						if strings.Contains(t, "x/enterprise/types.QueryClient") {
							usesEnt = true
						}
						if strings.Contains(t, "x/bank/types.QueryClient") {
							usesBank = true
						}
					}
				}
			}
		}
		if !usesSupply {
			continue
		}
		n++
		r.Require(usesEnt && !usesBank, "A7.cli-client", fn(f), w.Pos(f.Pos()), "the node's supply commands query the enterprise supply service, not the bank's", fmt.Sprintf("enterprise client=%v bank client=%v", usesEnt, usesBank))
	}
	r.Floor("CLI supply commands", n, 1)
	cliOverride(c)
}

// cliOverride (A7.cli-override): the SDK's `bank total` command is taken out of the command tree where it hangs. cobra's
// Find hands back the receiver itself when nothing matches and RemoveCommand ignores what is not a child, so a command
// looked up under one node and removed from another stays: the SDK's `total`, which prints the raw bank supply (locked
// eFUND included), would shadow the enterprise version added beside it. Every RemoveCommand(x) in the node's command
// package removes an x that was found under the very command it is removed from.
func cliOverride(c *Ctx) {
	w, r := c.W, c.R
	n := 0
	for _, f := range w.PkgFuncs("cmd/und/cmd") {
		for _, b := range f.Blocks {
			for _, in := range b.Instrs {
				call, ok := in.(*ssa.Call)
				if !ok || methodNameOf(call) != "RemoveCommand" || call.Common().IsInvoke() || len(call.Common().Args) != 2 {
					continue
				}
				recv := call.Common().Args[0]
				for _, el := range variadicElems(call.Common().Args[1]) {
					n++
					ok := false
					detail := "the removed command is not the result of a Find"
					if ex, isEx := el.(*ssa.Extract); isEx && ex.Index == 0 {
						if fc, isCall := ex.Tuple.(*ssa.Call); isCall && methodNameOf(fc) == "Find" && len(fc.Common().Args) >= 1 {
							if fc.Common().Args[0] == recv {
								ok = true
							} else {
								detail = "looked up under " + w.ExprOf(fc.Common().Args[0]).String() + " but removed from " + w.ExprOf(recv).String()
							}
						}
					}
					r.Require(ok, "A7.cli-override", fmt.Sprintf("%s|remove%d", fn(f), n), pos(c, in),
						"a command replaced by the enterprise version is removed from the command it was found under (a removal elsewhere is ignored by cobra and the SDK's command keeps answering)", detail)
				}
			}
		}
	}
	r.Floor("CLI commands removed in favour of the enterprise versions", n, 1)
}

// variadicElems: the values stored into the backing array of a variadic argument `f(a, b...)` built at the call.
func variadicElems(v ssa.Value) []ssa.Value {
	sl, ok := v.(*ssa.Slice)
	if !ok {
		return nil
	}
	al, ok := sl.X.(*ssa.Alloc)
	if !ok || al.Referrers() == nil {
		return nil
	}
	var out []ssa.Value
	for _, ref := range *al.Referrers() {
		ia, ok := ref.(*ssa.IndexAddr)
		if !ok || ia.Referrers() == nil {
			continue
		}
		for _, r2 := range *ia.Referrers() {
			if st, ok := r2.(*ssa.Store); ok && st.Addr == ssa.Value(ia) {
				out = append(out, st.Val)
			}
		}
	}
	return out
}

// ---------------------------------------------------------------------------------------

func C19(c *Ctx) {
	w, r := c.W, c.R
	r.Explanation = "(A9) no binary floating point on the conversion path: from the conversion function no float operation/conversion, strconv.ParseFloat or math/big.Float method is reachable; (A5, exact go/constant arithmetic) UndPow == 10^9, UndPow x NundPow == 1, the printed precision is 9 == log10(UndPow); the fund branch multiplies by the rational UndPow/1 and the nund branch by 1/UndPow, each guarded by the matching from-denomination comparison, and the switch covers exactly {fund, nund}. A necessary condition for exactness (binary floats cannot represent 10^-9 multiples); exactness of math/big.Rat is trusted."
	r.Rules = []string{"A9.no-float", "A9.no-fixed-width", "A5.constants", "A2.branch-scaling", "A7.cli-amount", "A2.accepts-zero"}
	r.Trusted = []string{"math/big.Rat arithmetic is exact", "Rat.FloatString rounds correctly"}
	r.NotDecided = []string{"round-trip equality as behaviour", "inputs with more than nine fractional digits (rounded)"}
	f := w.LookupFunc("types.ConvertUndDenomination")
	if f == nil {
		r.Undecided("A9.no-float", "func", "", "types.ConvertUndDenomination exists", "not found")
		return
	}
	nCalls := 0
	bad := 0
	for g := range w.Reachable([]*ssa.Function{f}) {
		for _, e := range w.EffectsOf(g) {
			if e.Kind == "Float" {
				bad++
				r.Bad("A9.no-float", fn(g)+"|"+e.Method, pos(c, e.Site), "no floating-point operation on the conversion path", "float "+e.Method)
			}
		}
		for _, b := range g.Blocks {
			for _, in := range b.Instrs {
				call, ok := in.(ssa.CallInstruction)
				if !ok {
					continue
				}
				nCalls++
				sc := call.Common().StaticCallee()
				if sc == nil {
					continue
				}
				full := sc.String()
				if strings.Contains(full, "strconv.ParseFloat") || strings.Contains(full, "math/big.Float") || strings.Contains(full, "math/big.NewFloat") || strings.Contains(full, "math/big.ParseFloat") {
					bad++
					r.Bad("A9.no-float", fn(g)+"|"+sc.Name(), pos(c, in), "no binary floating-point parsing or big.Float on the conversion path", "calls "+full)
				}
				for _, a := range call.Common().Args {
					if isFloatT(a.Type()) {
						if _, isC := a.(*ssa.Const); !isC {
							bad++
							r.Bad("A9.no-float", fn(g)+"|floatarg|"+sc.Name(), pos(c, in), "no float64 value flows on the conversion path", "float argument to "+full)
						}
					}
				}
			}
		}
	}
	if bad == 0 {
		r.OK("A9.no-float", fn(f), w.Pos(f.Pos()), "no float operation, ParseFloat or big.Float reachable from the conversion")
	}
	r.Floor("call sites on the conversion path", nCalls, 6)
	// the CLI command uses this function
	used := false
	for _, e := range w.Callers(f) {
		if strings.HasPrefix(fn(e.From), "cmd/und/cmd.") {
			used = true
		}
	}
	r.Require(used, "A9.no-float", "cli-uses", w.Pos(f.Pos()), "the node's convert command calls this conversion function", "no caller in cmd/und/cmd")
	acceptsZero(c, f)

	// constants
	pk := w.Pkg("types")
	und := constVal(pk.Types, "UndPow")
	nund := constVal(pk.Types, "NundPow")
	ten9 := constant.MakeInt64(1000000000)
	r.Require(und != nil && constant.Compare(und, token.EQL, ten9), "A5.constants", "UndPow", "types/denom.go", "UndPow == 10^9", fmt.Sprint(und))
	r.Require(und != nil && nund != nil && constant.Compare(constant.BinaryOp(und, token.MUL, nund), token.EQL, constant.MakeInt64(1)), "A5.constants", "UndPow*NundPow", "types/denom.go", "UndPow x NundPow == 1 exactly", fmt.Sprint(nund))

	// branch scaling, asked on the flat view (the two directions may be helpers) by feasibility: for every value
	// the source denomination can take (fund, nund, anything else) the edges that contradict it are deleted;
	// the x10^9 factor must then be reachable only for fund, the /10^9 factor only for nund. This accepts a
	// switch, an if-chain, early returns and "everything that is left is nund" alike.
	fromName := f.Params[1].Name()
	infeasibleUnder := func(v string) ir.Matcher {
		return func(p ir.Pred) bool {
			op, x, y, ok := p.Cmp()
			if !ok {
				return false
			}
			if y.Op == "param" && x.Op == "const" {
				x, y = y, x
			}
			if !(x.Op == "param" && x.Name == fromName && y.Op == "const") {
				return false
			}
			cst := strings.Trim(y.Name, `"`)
			switch op {
			case "==":
				return cst != v // from == cst cannot hold when from is v
			case "!=":
				return cst == v
			}
			return false
		}
	}
	reachableUnder := func(site ssa.Instruction, v string) bool {
		return len(w.FlatGuarded(f, func(in ssa.Instruction) bool { return in == site }, infeasibleUnder(v), 2)) > 0
	}
	nr := 0
	seenSite := map[ssa.Instruction]bool{}
	w.FlatWalk(w.FlatRoot(f), nil, nil, func(p ir.FPos) bool {
		in := p.In
		call, ok := in.(*ssa.Call)
		if !ok || seenSite[in] {
			return true
		}
		sc := call.Common().StaticCallee()
		if sc == nil {
			return true
		}
		name := sc.String()
		var a, b2 *ir.Expr
		switch name {
		case "math/big.NewRat":
			a, b2 = w.ExprOf(call.Common().Args[0]), w.ExprOf(call.Common().Args[1])
		case "(*math/big.Rat).SetInt64":
			// new(big.Rat).SetInt64(n) is n/1
			name = "math/big.NewRat"
			a, b2 = w.ExprOf(call.Common().Args[1]), &ir.Expr{Op: "const", Name: "1"}
		case "(*math/big.Rat).SetFrac64":
			name = "math/big.NewRat"
			a, b2 = w.ExprOf(call.Common().Args[1]), w.ExprOf(call.Common().Args[2])
		case "(*math/big.Rat).Mul":
			// a factor kept in a package-level *big.Rat that nothing modifies (`var ratio = big.NewRat(UndPow, 1)`), used as it
			// is or inverted into a fresh value
			for _, arg := range call.Common().Args[1:] {
				inv := false
				if ic, ok := arg.(*ssa.Call); ok {
					if isc := ic.Common().StaticCallee(); isc != nil && isc.String() == "(*math/big.Rat).Inv" && len(ic.Common().Args) == 2 {
						if _, fresh := ic.Common().Args[0].(*ssa.Alloc); fresh {
							arg, inv = ic.Common().Args[1], true
						}
					}
				}
				ld, ok := arg.(*ssa.UnOp)
				if !ok {
					continue
				}
				g, ok := ld.X.(*ssa.Global)
				if !ok || !ratOnlyRead(w, g) {
					continue
				}
				iv := w.InitOnlyValue(g)
				if iv == nil || !(iv.Op == "call" && strings.HasSuffix(iv.Name, "math/big.NewRat") && len(iv.Args) == 2) {
					continue
				}
				name = "math/big.NewRat"
				a, b2 = iv.Args[0], iv.Args[1]
				if inv {
					a, b2 = b2, a
				}
			}
		}
		switch name {
		case "math/big.NewRat":
			seenSite[in] = true
			nr++
			for a.Op == "conv" {
				a = a.Args[0]
			}
			for b2.Op == "conv" {
				b2 = b2.Args[0]
			}
			switch {
			case a.Name == "1000000000" && b2.Name == "1":
				r.Require(!reachableUnder(in, "nund") && !reachableUnder(in, "\x00other"), "A2.branch-scaling", "x10^9", pos(c, in), "multiplication by 10^9 happens only when converting from fund", "reachable for another source denomination")
				r.Require(reachableUnder(in, "fund"), "A2.branch-scaling", "x10^9|live", pos(c, in), "the fund direction reaches its scale factor", "unreachable when converting from fund")
			case a.Name == "1" && b2.Name == "1000000000":
				r.Require(!reachableUnder(in, "fund") && !reachableUnder(in, "\x00other"), "A2.branch-scaling", "/10^9", pos(c, in), "division by 10^9 happens only when converting from nund", "reachable for another source denomination")
				r.Require(reachableUnder(in, "nund"), "A2.branch-scaling", "/10^9|live", pos(c, in), "the nund direction reaches its scale factor", "unreachable when converting from nund")
			default:
				r.Bad("A2.branch-scaling", "factor|"+a.Name+"/"+b2.Name, pos(c, in), "the scale factor is 10^9 or 1/10^9", a.Name+"/"+b2.Name)
			}
		case "(*math/big.Rat).FloatString":
			seenSite[in] = true
			pe := w.ExprOf(call.Common().Args[1])
			okP := pe.Name == "9"
			if !okP && pe.Op == "phi" {
				// the places computed by a small helper that was looked into (nine for FUND, none for nund), the printing with
				// places standing where the same computation did not give zero
				nine, other := false, false
				for _, alt := range pe.Alts() {
					switch {
					case alt.Op == "const" && alt.Name == "9":
						nine = true
					case alt.Op == "const" && alt.Name == "0":
					default:
						other = true
					}
				}
				text := pe.String()
				isZero := func(y *ir.Expr) bool { return y.Op == "const" && y.Name == "0" }
				same := func(x *ir.Expr) bool { return x.String() == text }
				if nine && !other && w.Guarded(in.Parent(), in, func(p ir.Pred) bool { return cmpIs(p, "!=", same, isZero) || cmpIs(p, ">", same, isZero) }, 0) {
					okP = true
					pe = &ir.Expr{Op: "const", Name: "9"}
				}
			}
			if !okP && pe.Op == "call" && pe.Callee != nil {
				// the number of places chosen by a helper (nine for FUND, none for nund): the printing with places stands
				// where the helper's answer is not zero, and its only other answer is nine
				raw := pe
				nine, other := false, false
				for _, alt := range w.Expand(pe, 3).Alts() {
					switch {
					case alt.Op == "const" && alt.Name == "9":
						nine = true
					case alt.Op == "const" && alt.Name == "0":
					default:
						other = true
					}
				}
				isZero := func(y *ir.Expr) bool { return y.Op == "const" && y.Name == "0" }
				sameCall := func(x *ir.Expr) bool { return x.Op == "call" && x.Callee == raw.Callee }
				okP = nine && !other && w.Guarded(in.Parent(), in, func(p ir.Pred) bool { return cmpIs(p, "!=", sameCall, isZero) || cmpIs(p, ">", sameCall, isZero) }, 0)
				if okP {
					pe = &ir.Expr{Op: "const", Name: "9"}
				}
			}
			r.Require(okP, "A5.constants", "precision", pos(c, in), "FUND amounts are printed with nine decimals (log10 of UndPow)", pe.String())
		}
		return true
	})
	r.Require(nr == 2, "A2.branch-scaling", "factors", w.Pos(f.Pos()), "exactly two scale factors exist (one per direction)", fmt.Sprint(nr))

	// no fixed-width integer arithmetic or parsing on the conversion path (amounts beyond 2^63 must not wrap)
	nfw := 0
	for g := range w.Reachable([]*ssa.Function{f}) {
		if !w.InSet(g) {
			continue
		}
		for _, b := range g.Blocks {
			for _, in := range b.Instrs {
				switch x := in.(type) {
				case *ssa.BinOp:
					if bt, ok := x.Type().Underlying().(*types.Basic); ok && bt.Info()&types.IsInteger != 0 && (x.Op == token.MUL || x.Op == token.ADD || x.Op == token.SUB || x.Op == token.QUO || x.Op == token.REM) {
						_, cx := x.X.(*ssa.Const)
						_, cy := x.Y.(*ssa.Const)
						if !(cx && cy) && (x.Op == token.MUL || x.Op == token.QUO || x.Op == token.REM) {
							nfw++
							r.Bad("A9.no-fixed-width", fn(g)+"|"+x.Op.String(), pos(c, in), "amounts are converted with arbitrary-precision arithmetic only (a machine-integer product wraps beyond 2^63)", "integer "+x.Op.String()+" on "+w.ExprOf(x).String())
						}
					}
				case ssa.CallInstruction:
					if sc := x.Common().StaticCallee(); sc != nil {
						switch sc.String() {
						case "strconv.ParseInt", "strconv.ParseUint", "strconv.Atoi":
							nfw++
							r.Bad("A9.no-fixed-width", fn(g)+"|"+sc.Name(), pos(c, in), "amounts are parsed with arbitrary precision (a 64-bit parse restricts or wraps large amounts)", "calls "+sc.String())
						}
					}
				}
			}
		}
	}
	if nfw == 0 {
		r.OK("A9.no-fixed-width", fn(f), w.Pos(f.Pos()), "no machine-integer multiplication/division or 64-bit parsing on the conversion path")
	}

	// the command hands the amount it was given to the conversion unchanged
	ncli := 0
	for _, ed := range w.Callers(f) {
		if !strings.HasPrefix(fn(ed.From), "cmd/und/cmd.") {
			continue
		}
		call, ok := ed.Site.(ssa.CallInstruction)
		if !ok || len(call.Common().Args) < 1 {
			continue
		}
		ncli++
		amt := w.ExprOf(call.Common().Args[0])
		okAmt := false
		for _, up := range w.OriginsUp(ed.From, amt, 3) {
			e := w.Expand(up.E, 3)
			okAmt = sameAmountText(e)
			if !okAmt {
				break
			}
		}
		// whatever the command prints on success comes out of the conversion: no successful return goes round the call (a
		// shortcut that answers from a parse of its own — "zero is zero" — answers without the exact arithmetic)
		site := ed.Site
		round := w.FlatMustPass(ed.From, func(in ssa.Instruction) bool { return in == site }, nil)
		r.Require(len(round) == 0, "A7.cli-amount", fn(ed.From)+"|must-convert", pos(c, ed.Site), "every successful run of the convert command goes through the conversion function", fmt.Sprintf("%d successful return(s) do not pass the conversion call", len(round)))
		r.Require(okAmt, "A7.cli-amount", fn(ed.From), pos(c, ed.Site), "the convert command passes the amount argument to the conversion as typed (at most surrounding space and non-numeric separators removed: no slicing, no re-formatting through a number type)", "amount argument: "+amt.String())
		// ... and the command itself does not screen the amount through a machine-width parse (an amount of 2^64 nund or more
		// is a non-negative decimal string like any other)
		for g := range w.Reachable([]*ssa.Function{ed.From}) {
			if g == f || !strings.HasPrefix(fn(g), "cmd/und/cmd.") {
				continue
			}
			for _, b := range g.Blocks {
				for _, in := range b.Instrs {
					pc, ok := in.(ssa.CallInstruction)
					if !ok {
						continue
					}
					sc := pc.Common().StaticCallee()
					if sc == nil || sc.Pkg == nil || sc.Pkg.Pkg.Path() != "strconv" {
						continue
					}
					switch sc.Name() {
					case "ParseInt", "ParseUint", "Atoi":
						// (a ParseFloat used as a syntax screen only refuses what overflows a float64, beyond 10^308; the value
						// handed to the conversion is judged by A7.cli-amount)
						r.Bad("A9.no-fixed-width", fn(g)+"|"+sc.Name(), pos(c, in), "amounts are parsed with arbitrary precision (a 64-bit parse restricts or wraps large amounts)", "the convert command calls "+sc.String())
					}
				}
			}
		}
	}
	r.Floor("convert command call sites", ncli, 1)
	cliHooks(c, f)
}

// amountArgRewrites: the stores by which g replaces the first element of a []string parameter (the amount argument of a
// cobra hook: positional-argument validators and pre-run hooks share the slice the command's RunE receives) with anything but
// the text it held (surrounding space and non-numeric separators aside). Elements at another constant index (the
// denominations) are not the amount.
func amountArgRewrites(c *Ctx, g *ssa.Function) []ssa.Instruction {
	w := c.W
	var out []ssa.Instruction
	isArgs := func(v ssa.Value) bool {
		for i := 0; i < 4; i++ {
			if sl, ok := v.(*ssa.Slice); ok {
				if sl.Low != nil {
					if k, isC := sl.Low.(*ssa.Const); !isC || k.Value == nil || constant.Sign(k.Value) != 0 {
						return false
					}
				}
				v = sl.X
				continue
			}
			break
		}
		p, ok := v.(*ssa.Parameter)
		if !ok {
			return false
		}
		st, ok := p.Type().Underlying().(*types.Slice)
		if !ok {
			return false
		}
		b, ok := st.Elem().Underlying().(*types.Basic)
		return ok && b.Kind() == types.String
	}
	for _, b := range g.Blocks {
		for _, in := range b.Instrs {
			st, ok := in.(*ssa.Store)
			if !ok {
				continue
			}
			ia, ok := st.Addr.(*ssa.IndexAddr)
			if !ok || !isArgs(ia.X) {
				continue
			}
			if k, isC := ia.Index.(*ssa.Const); isC && k.Value != nil && constant.Sign(k.Value) != 0 {
				continue
			}
			if !sameAmountText(w.Expand(w.ExprOf(st.Val), 3)) {
				out = append(out, in)
			}
		}
	}
	return out
}

// cliHooks (A7.cli-amount|hook): the amount reaches the conversion as typed also when the command is given hooks. A
// function of cmd/und/cmd handed on as a value where the convert command is built or wrapped (its constructor, every
// function that calls the constructor), or stored into a Persistent* hook of any command (those run for every sub-command),
// does not rewrite the amount argument: `cmd.Args = cobra.MatchAll(cobra.ExactArgs(3), normalise)` with a `normalise`
// that stores FormatFloat(ParseFloat(args[0])) back into args[0] leaves RunE and the conversion function textually
// untouched and rounds every amount beyond 2^53.
func cliHooks(c *Ctx, conv *ssa.Function) {
	w, r := c.W, c.R
	ctors := map[*ssa.Function]bool{}
	for _, ed := range w.Callers(conv) {
		if strings.HasPrefix(fn(ed.From), "cmd/und/cmd.") {
			top := ed.From
			for top.Parent() != nil {
				top = top.Parent()
			}
			ctors[top] = true
		}
	}
	inCmd := func(g *ssa.Function) bool {
		return g != nil && !ir.IsFixture(g) && strings.HasPrefix(fn(g), "cmd/und/cmd.")
	}
	holders := map[*ssa.Function]bool{}
	for _, g := range w.Funcs {
		if !inCmd(g) {
			continue
		}
		top := g
		for top.Parent() != nil {
			top = top.Parent()
		}
		if ctors[top] {
			holders[g] = true
			continue
		}
		for _, b := range g.Blocks {
			for _, in := range b.Instrs {
				switch x := in.(type) {
				case ssa.CallInstruction:
					if sc := x.Common().StaticCallee(); sc != nil && ctors[sc] {
						holders[g] = true
					}
				case *ssa.Store:
					if fa, ok := x.Addr.(*ssa.FieldAddr); ok {
						if st, ok := ptrElem(fa.X.Type()).Underlying().(*types.Struct); ok && strings.HasPrefix(st.Field(fa.Field).Name(), "Persistent") && strings.HasSuffix(ptrElem(fa.X.Type()).String(), "cobra.Command") {
							holders[g] = true
						}
					}
				}
			}
		}
	}
	var hooks []*ssa.Function
	seen := map[*ssa.Function]bool{}
	for g := range holders {
		for _, b := range g.Blocks {
			for _, in := range b.Instrs {
				for _, op := range in.Operands(nil) {
					if op == nil || *op == nil {
						continue
					}
					var t *ssa.Function
					switch v := (*op).(type) {
					case *ssa.Function:
						t = v
					case *ssa.MakeClosure:
						t, _ = v.Fn.(*ssa.Function)
					}
					if inCmd(t) && !seen[t] {
						seen[t] = true
						hooks = append(hooks, t)
					}
				}
			}
		}
	}
	sortFuncs(hooks)
	n := 0
	judged := map[*ssa.Function]bool{}
	for _, h := range hooks {
		for g := range w.Reachable([]*ssa.Function{h}) {
			if !inCmd(g) || judged[g] {
				continue
			}
			judged[g] = true
			n++
			for i, in := range amountArgRewrites(c, g) {
				st := in.(*ssa.Store)
				r.Bad("A7.cli-amount", fmt.Sprintf("hook|%s|%d", fn(g), i), pos(c, in), "no hook of the convert command rewrites the amount argument before the conversion sees it (at most surrounding space and non-numeric separators removed)", "args[0] = "+w.Expand(w.ExprOf(st.Val), 3).String())
			}
		}
	}
	r.Floor("functions handed on as values where the convert command is built, judged for rewriting the amount argument", n, 1)
	hit := map[string]bool{}
	for _, g := range w.Funcs {
		if ir.IsFixture(g) && strings.Contains(fn(g), "fixtures/c19") && len(amountArgRewrites(c, g)) > 0 {
			hit[g.Name()] = true
		}
	}
	r.Control("A7.cli-amount|hook", "fixtures/c19", hit["RewritesAmount"] && !hit["TidiesArgs"])
}

func isFloatT(t types.Type) bool {
	b, ok := t.Underlying().(*types.Basic)
	return ok && b.Info()&types.IsFloat != 0
}

func constVal(pk *types.Package, name string) constant.Value {
	if o, ok := pk.Scope().Lookup(name).(*types.Const); ok {
		return o.Val()
	}
	return nil
}

// sameAmountText: the text is the command-line argument itself, possibly cleaned by operations that cannot change the
// number it spells: surrounding white space trimmed, a constant separator that contains no digit, sign, point, exponent
// or fraction character removed. Anything else (slicing, formatting a parsed number back into text) may change digits.
func sameAmountText(e *ir.Expr) bool {
	for _, a := range e.Alts() {
		switch {
		case a.Op == "param" || a.Op == "elem" && len(a.Args) > 0 && a.Args[0].Op == "param":
		case a.Op == "call" && a.Name == "strings.TrimSpace" && len(a.Args) == 1:
			if !sameAmountText(a.Args[0]) {
				return false
			}
		case a.Op == "call" && a.Name == "strings.ReplaceAll" && len(a.Args) == 3:
			old, nw := a.Args[1], a.Args[2]
			if old.Op != "const" || nw.Op != "const" || nw.Name != `""` || strings.ContainsAny(strings.Trim(old.Name, `"`), "0123456789.+-eE/xX") || len(strings.Trim(old.Name, `"`)) == 0 {
				return false
			}
			if !sameAmountText(a.Args[0]) {
				return false
			}
		default:
			return false
		}
	}
	return true
}

// acceptsZero (A2.accepts-zero): the conversion is defined for every non-negative amount, zero included. Wherever the
// conversion path branches on the sign of the amount (x.Sign() compared with 0, x.IsZero(), x.IsPositive(), x.IsNegative()), the side that an amount of
// exactly zero takes can still reach a successful return: a guard written `Sign() <= 0` where `< 0` was meant refuses "0",
// "0.0" and "0.000000000", which breaks the round trip 0nund -> 0.000000000fund -> nund. A sign test is not required.
func acceptsZero(c *Ctx, f *ssa.Function) {
	w, r := c.W, c.R
	n := 0
	var gs []*ssa.Function
	for g := range w.Reachable([]*ssa.Function{f}) {
		gs = append(gs, g)
	}
	sortFuncs(gs)
	for _, g := range gs {
		if ir.ErrIndex(g) < 0 {
			continue
		}
		succ := w.SuccessReturns(g)
		for _, b := range g.Blocks {
			if len(b.Instrs) == 0 {
				continue
			}
			iff, ok := b.Instrs[len(b.Instrs)-1].(*ssa.If)
			if !ok || len(b.Succs) != 2 {
				continue
			}
			cond, neg := iff.Cond, false
			for {
				u, ok := cond.(*ssa.UnOp)
				if !ok || u.Op != token.NOT {
					break
				}
				cond, neg = u.X, !neg
			}
			mathCallee := func(v ssa.Value) string {
				call, ok := v.(*ssa.Call)
				if !ok {
					return ""
				}
				sc := call.Common().StaticCallee()
				if sc == nil || sc.Pkg == nil || sc.Pkg.Pkg.Path() != "math/big" && !strings.HasSuffix(sc.Pkg.Pkg.Path(), "cosmossdk.io/math") {
					return ""
				}
				return sc.Name()
			}
			judge := func(side int, at ssa.Instruction, text string) {
				n++
				can := false
				for _, ret := range succ {
					if ret.Block() == b.Succs[side] || ir.ReachesFrom(g, b.Succs[side], 0, ret, ir.Cut{}) {
						can = true
					}
				}
				r.Require(can, "A2.accepts-zero", fmt.Sprintf("%s|sign-test%d", fn(g), n), pos(c, at),
					"an amount of exactly zero is converted like any other non-negative amount: the side of a sign test that zero takes can reach a successful return",
					"zero takes the "+map[int]string{0: "true", 1: "false"}[side]+" side of "+text+", from which only failing returns are reachable")
			}
			if name := mathCallee(cond); name != "" {
				// x.IsZero(), x.IsPositive(), x.IsNegative() used as the condition itself
				var holds, known bool
				switch name {
				case "IsZero":
					holds, known = true, true
				case "IsPositive", "IsNegative":
					holds, known = false, true
				}
				if known {
					if neg {
						holds = !holds
					}
					side := 1
					if holds {
						side = 0
					}
					judge(side, cond.(*ssa.Call), name+"()")
				}
				continue
			}
			bo, ok := cond.(*ssa.BinOp)
			if !ok {
				continue
			}
			isSign := func(v ssa.Value) bool { return mathCallee(v) == "Sign" }
			isZero := func(v ssa.Value) bool {
				cst, ok := v.(*ssa.Const)
				return ok && cst.Value != nil && cst.Value.String() == "0"
			}
			var signLeft bool
			switch {
			case isSign(bo.X) && isZero(bo.Y):
				signLeft = true
			case isSign(bo.Y) && isZero(bo.X):
				signLeft = false
			default:
				continue
			}
			// the side an amount with sign 0 takes
			var holds bool
			switch bo.Op {
			case token.EQL, token.LEQ, token.GEQ:
				holds = true
			case token.NEQ, token.LSS, token.GTR:
				holds = false
			default:
				continue
			}
			_ = signLeft // 0 op 0 is symmetric
			if neg {
				holds = !holds
			}
			side := 1
			if holds {
				side = 0
			}
			judge(side, bo, bo.String())
		}
	}
	if n == 0 {
		r.OK("A2.accepts-zero", fn(f)+"|none", w.Pos(f.Pos()), "the conversion path has no test on the sign of the amount (parsing alone decides what is refused)")
	}
}

// ratOnlyRead: the package-level *big.Rat g is never the receiver (the value written) of a math/big method and is never
// reassigned outside its initialiser: a shared constant ratio. `ratio.Inv(ratio)` modifies it for every later caller.
func ratOnlyRead(w *ir.World, g *ssa.Global) bool {
	for _, f := range w.Funcs {
		if f.Pkg != g.Pkg {
			continue
		}
		for _, b := range f.Blocks {
			for _, in := range b.Instrs {
				switch x := in.(type) {
				case *ssa.Store:
					if x.Addr == ssa.Value(g) && f.Name() != "init" {
						return false
					}
				case *ssa.Call:
					sc := x.Common().StaticCallee()
					if sc == nil || sc.Pkg == nil || sc.Pkg.Pkg.Path() != "math/big" || len(x.Common().Args) == 0 {
						continue
					}
					if ld, ok := x.Common().Args[0].(*ssa.UnOp); ok && ld.X == ssa.Value(g) && sc.Signature.Recv() != nil {
						// methods that only read their receiver
						switch sc.Name() {
						case "Cmp", "Sign", "String", "FloatString", "RatString", "Num", "Denom", "IsInt", "Float64", "Float32":
						default:
							return false
						}
					}
				}
			}
		}
	}
	return true
}
