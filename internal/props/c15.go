package props

import (
	"fmt"
	"go/ast"
	"go/constant"
	"go/token"
	"go/types"
	"os"
	"strings"

	"golang.org/x/tools/go/ssa"

	"mcverif/internal/ir"
)

func init() { Registry["C15"] = C15 }

// sectionsOf collects the module-own sections touched (by kinds) from the given roots.
func sectionsOf(c *Ctx, roots []*ssa.Function, m string, kinds map[string]bool) map[string]bool {
	out := map[string]bool{}
	for f := range c.W.Reachable(roots) {
		for _, e := range c.W.EffectsOf(f) {
			if kinds[e.Kind] && strings.HasPrefix(e.Section, "x/"+m+"/types.") {
				out[e.Section] = true
			}
		}
	}
	return out
}

func C15(c *Ctx) {
	w, r := c.W, c.R
	r.Explanation = "(A7 coverage agreement) per module: every store section written at run time (handlers, ante, begin/end block) is also written by genesis import, and is read by genesis export or is a derived section that import rebuilds under the stated guard (the enterprise raised/accepted queues from the order status); " +
		"(literal completeness) every keyed struct literal of a module type built on an import/export route names every field of that type, and each imported record field comes from the like-named genesis field; exported in-state counters are recomputed from the exported records (len, first element); " +
		"(A5) the export caps of both record modules are the constant 20000 and are what the reverse iteration stops at; (A8) import drops no error of a state setter (incl. SetParams); (A2) import asserts escrow balance == holdings for the enterprise and stream accounts; (A5) the four modules are in the init/export genesis order and implement InitGenesis/ExportGenesis. Byte-identical round trip and behavioural equivalence are not decided."
	r.Rules = []string{"A7.section-coverage", "A7.derived-queues", "A7.literal-completeness", "A7.import-fields", "A7.export-counters", "A7.export-fields", "A5.export-cap", "A8.import-errors", "A2.genesis-balance", "A5.genesis-order", "A12.decode-fresh", "A7.export-complete", "A7.import-accepts-export", "A3.element-carry", "A11.parser"}
	for _, m := range ir.Modules {
		r.Floor("loops of "+m+" on import and export paths judged for locals carried between elements", elementCarry(c, m, []string{"INITGEN", "EXPORTGEN"}), 2)
	}
	// the stream export names each stream by the parties parsed back out of its key: the parsers invert the key builder
	streamParsers(c, streamKeyBuilders(c))
	decodeFresh(c, ir.Modules...)
	exportComplete(c, ir.Modules...)
	exportNotPaginated(c, ir.Modules...)
	importRejects(c, ir.Modules...)
	r.Trusted = []string{"module manager runs InitGenesis/ExportGenesis in the configured order", "protobuf JSON round trip of the genesis document"}
	r.NotDecided = []string{"byte-identical re-export", "behavioural equivalence of the imported chain", "registered invariants holding after import (numeric)"}

	wkinds := map[string]bool{"StoreWrite": true}
	rkinds := map[string]bool{"StoreRead": true, "StoreIter": true, "StoreHas": true}
	floors := map[string]int{"enterprise": 10, "wrkchain": 5, "beacon": 5, "stream": 2}
	derived := derivedSections
	for _, m := range ir.Modules {
		var runtime []*ssa.Function
		runtime = append(runtime, w.Roots["MSG:"+m]...)
		runtime = append(runtime, w.Roots["BEGIN:"+m]...)
		runtime = append(runtime, w.Roots["END:"+m]...)
		runtime = append(runtime, w.Roots["ANTE"]...)
		runW := sectionsOf(c, runtime, m, wkinds)
		initW := sectionsOf(c, w.Roots["INITGEN:"+m], m, wkinds)
		expR := sectionsOf(c, w.Roots["EXPORTGEN:"+m], m, rkinds)
		r.Floor("sections written at run time in "+m, len(runW), floors[m])
		r.Require(len(w.Roots["INITGEN:"+m]) == 1 && len(w.Roots["EXPORTGEN:"+m]) == 1, "A5.genesis-order", "roots|"+m, "", "module "+m+" implements InitGenesis and ExportGenesis", fmt.Sprintf("%d/%d", len(w.Roots["INITGEN:"+m]), len(w.Roots["EXPORTGEN:"+m])))
		for _, sec := range sortedKeys(runW) {
			r.Require(initW[sec], "A7.section-coverage", "import|"+sec, "", "a section written at run time is also written by genesis import", "import never writes "+sec)
			_, isDerived := derived[m][sec]
			r.Require(expR[sec] || isDerived, "A7.section-coverage", "export|"+sec, "", "a section written at run time is read by genesis export (or is rebuilt from exported data)", "export never reads "+sec)
		}
		derivedQueues(c, m)
		literalCompleteness(c, m)
		importFields(c, m)
		importErrors(c, m)
	}
	exportCaps(c)
	exportCounters(c)
	exportRecordFields(c)
	exportSections(c)
	exportGenesisArgs(c, "A7.export-fields", false)
	genesisBalance(c, "enterprise")
	genesisBalance(c, "stream")
	genesisOrder(c)
}

// literalCompleteness: keyed struct literals of module types on import/export routes set every field.
func literalCompleteness(c *Ctx, m string) {
	w, r := c.W, c.R
	roots := append([]*ssa.Function{}, w.Roots["INITGEN:"+m]...)
	roots = append(roots, w.Roots["EXPORTGEN:"+m]...)
	n := 0
	seen := map[ast.Node]bool{}
	for f := range w.Reachable(roots) {
		if w.IsGenerated(f) || ir.ModuleOf(f) != m {
			continue
		}
		syn := f.Syntax()
		if syn == nil || seen[syn] {
			continue
		}
		seen[syn] = true
		pk := w.Pkg(ir.RelPkg(ir.FnPkg(f).Path()))
		if pk == nil {
			continue
		}
		ast.Inspect(syn, func(nd ast.Node) bool {
			if fl, ok := nd.(*ast.FuncLit); ok && nd != syn {
				_ = fl
			}
			cl, ok := nd.(*ast.CompositeLit)
			if !ok {
				return true
			}
			tv, ok := pk.TypesInfo.Types[cl]
			if !ok {
				return true
			}
			named, ok := tv.Type.(*types.Named)
			if !ok || named.Obj().Pkg() == nil || !strings.HasSuffix(named.Obj().Pkg().Path(), "/x/"+m+"/types") {
				return true
			}
			st, ok := named.Underlying().(*types.Struct)
			if !ok || len(cl.Elts) == 0 {
				return true
			}
			if _, keyed := cl.Elts[0].(*ast.KeyValueExpr); !keyed {
				return true
			}
			// response/event types are not persisted state: only genesis/state types matter
			name := named.Obj().Name()
			if strings.HasPrefix(name, "Query") || strings.HasPrefix(name, "Msg") {
				return true
			}
			n++
			set := map[string]bool{}
			for _, el := range cl.Elts {
				if kv, ok := el.(*ast.KeyValueExpr); ok {
					if id, ok := kv.Key.(*ast.Ident); ok {
						set[id.Name] = true
					}
				}
			}
			var missing []string
			for i := 0; i < st.NumFields(); i++ {
				fname := st.Field(i).Name()
				if strings.HasPrefix(fname, "XXX_") {
					continue
				}
				if !set[fname] {
					missing = append(missing, fname)
				}
			}
			r.Require(len(missing) == 0, "A7.literal-completeness", fmt.Sprintf("%s|%s", fn(f), name), w.Pos(cl.Pos()), "a "+name+" literal on a genesis route sets every field of the type", "missing "+strings.Join(missing, ", "))
			return true
		})
	}
	// (a copy written as a plain assignment has no literal to check: its fields are covered by the import-/export-fields rules)
	r.Floor("struct literals on genesis routes of "+m, n, 1)
}

// importFields: what import stores comes from the like-named field of the genesis input.
func importFields(c *Ctx, m string) {
	w, r := c.W, c.R
	rename := map[string]string{"Height": "He", "Blockhash": "Bh", "Parenthash": "Ph", "Hash1": "H1", "Hash2": "H2", "Hash3": "H3", "SubTime": "St", "TimestampId": "Id", "SubmitTime": "T", "Hash": "H"}
	n := 0
	for _, root := range w.Roots["INITGEN:"+m] {
		for _, in := range instantiate(c, root, func(e ir.Effect) bool {
			return e.Kind == "StoreWrite" && strings.HasPrefix(e.Section, "x/"+m+"/types.")
		}, func(e ir.Effect) *ir.Expr { return marshalArg(c, e) }) {
			st := in.E
			if st == nil {
				continue
			}
			// a record built by a constructor of the types package is looked into (a constructor that leaves a field out stores its zero value)
			for i := 0; i < 3; i++ {
				call, idx := st, -1
				if st.Op == "res" && len(st.Args) == 1 {
					call = st.Args[0]
					fmt.Sscan(st.Name, &idx)
				}
				if call.Op != "call" || call.Callee == nil || reachesEffect(c, call.Callee, func(x ir.Effect) bool { return strings.HasPrefix(x.Kind, "Store") }) {
					break
				}
				x := w.Inline(call)
				if x == nil {
					break
				}
				if idx >= 0 {
					if x.Op != "tuple" || idx >= len(x.Args) {
						break
					}
					x = x.Args[idx]
				}
				st = x
			}
			if os.Getenv("MCDEBUG") == "impf" {
				fmt.Fprintln(os.Stderr, "IMPF", m, in.Eff.Section, st.Op, st.String())
			}
			if st.Op != "struct" {
				// the whole record is stored as imported (a literal copying every like-named field collapses to its source)
				n++
				fromGenesis := st.Any(func(x *ir.Expr) bool { return x.Op == "decode" || x.Op == "param" }) && !st.Any(func(x *ir.Expr) bool { return x.Op == "state" || x.Op == "zero" })
				r.Require(fromGenesis, "A7.import-fields", fmt.Sprintf("%s|%s|%s", m, fn(in.Eff.Fn), in.Eff.Section), pos(c, in.Eff.Site), "import stores the genesis record unchanged (every field from the like-named genesis field)", "stores "+st.String())
				continue
			}
			for i, f := range st.Fields {
				v := st.Args[i]
				n++
				ok := false
				// (a bare loop-carried alternative is the field's own value from the previous iteration: X = phi(A, X) is A)
				if v.Op == "phi" {
					var keep []*ir.Expr
					for _, a := range v.Args {
						if a.Op != "loop" {
							keep = append(keep, a)
						}
					}
					if len(keep) > 0 && len(keep) < len(v.Args) {
						v = ir.MkPhi(keep)
					}
				}
				leaf := v
				for leaf.Op == "conv" {
					leaf = leaf.Args[0]
				}
				// a field read off a record made by a constructor of the types package (`wc, _ := types.NewX(a, b, ...); wc.F`) is
				// what the constructor puts into F: arguments handed over in another order end up in each other's fields
				for i := 0; i < 3 && leaf.Op == "field" && len(leaf.Args) == 1; i++ {
					call, idx := leaf.Args[0], -1
					if call.Op == "res" && len(call.Args) == 1 {
						fmt.Sscan(call.Name, &idx)
						call = call.Args[0]
					}
					if call.Op != "call" || call.Callee == nil || reachesEffect(c, call.Callee, func(x ir.Effect) bool { return strings.HasPrefix(x.Kind, "Store") }) {
						break
					}
					x := w.Inline(call)
					if x != nil && idx >= 0 {
						if x.Op != "tuple" || idx >= len(x.Args) {
							break
						}
						x = x.Args[idx]
					}
					if x == nil || x.Op != "struct" {
						break
					}
					var got *ir.Expr
					for j, fname := range x.Fields {
						if fname == leaf.Name {
							got = x.Args[j]
						}
					}
					if got == nil {
						break
					}
					leaf = got
					for leaf.Op == "conv" {
						leaf = leaf.Args[0]
					}
				}
				if leaf.Op == "field" && (leaf.Name == f || leaf.Name == rename[f]) {
					ok = !leaf.Any(func(x *ir.Expr) bool { return x.Op == "state" })
				}
				// ids taken from the enclosing record (storage limit rows) are fine when like-named
				if !ok && leaf.Op == "param" {
					ok = true
				}
				r.Require(ok, "A7.import-fields", fmt.Sprintf("%s|%s.%s", m, st.Name, f), pos(c, in.Eff.Site), "imported "+st.Name+"."+f+" comes from the like-named field of the genesis data", f+" = "+v.String())
			}
		}
	}
	fl := map[string]int{"enterprise": 8, "wrkchain": 5, "beacon": 5, "stream": 2}
	r.Floor("imported records/fields of "+m, n, fl[m])
}

func importErrors(c *Ctx, m string) {
	w, r := c.W, c.R
	n := 0
	for _, root := range w.Roots["INITGEN:"+m] {
		for f := range w.Reachable([]*ssa.Function{root}) {
			if ir.ModuleOf(f) != m || !genesisFuncs(c, "INITGEN", m)[f] {
				continue
			}
			is := callReaching(c, f, func(e ir.Effect) bool { return e.Kind == "StoreWrite" })
			for _, in := range findInstrs(f, is) {
				call, ok := in.(ssa.CallInstruction)
				if !ok || ir.ErrIndexOfCall(call) < 0 || len(w.CalleesOf(call)) == 0 {
					continue
				}
				n++
				r.Require(!errorDropped(call), "A8.import-errors", fn(f)+"|"+siteName(c, in), pos(c, in), "genesis import never drops the error of a state setter", "result discarded")
			}
		}
	}
	fl := map[string]int{"enterprise": 6, "wrkchain": 4, "beacon": 4, "stream": 1}
	r.Floor("fallible state setters called by genesis import of "+m, n, fl[m])
}

func exportCaps(c *Ctx) {
	w, r := c.W, c.R
	caps := map[string]string{"wrkchain": "MaxBlockSubmissionsKeepInState", "beacon": "MaxHashSubmissionsToExport"}
	for m, name := range caps {
		pk := w.Pkg("x/" + m + "/types")
		v := constVal(pk.Types, name)
		r.Require(v != nil && constant.Compare(v, token.EQL, constant.MakeInt64(20000)), "A5.export-cap", m+"|value", "x/"+m+"/types/types.go", "the export cap of "+m+" is 20000 records per registration", fmt.Sprint(v))
		// used as the stop condition of the reverse iteration on the export route: the route walks the record section
		// newest-first, and a function on it compares a count with the cap — written as the constant, or as a field of a
		// collector object that is given the constant where it is made (`&collector{limit: Max}` ... `c.seen == c.limit`)
		used := false
		secRec := ""
		for _, rm := range recMods {
			if rm.M == m {
				secRec = rm.SecRec
			}
		}
		reach := w.Reachable(w.Roots["EXPORTGEN:"+m])
		hasReverse := false
		isCap := func(v ssa.Value) bool {
			cst, ok := v.(*ssa.Const)
			return ok && cst.Value != nil && cst.Value.Kind() == constant.Int && constant.Compare(cst.Value, token.EQL, constant.MakeInt64(20000))
		}
		capFields := map[string]bool{} // <struct type>.<field> given the cap constant
		for f := range reach {
			if ir.ModuleOf(f) != m || w.IsGenerated(f) {
				continue
			}
			for _, ef := range w.EffectsOf(f) {
				if ef.Kind == "StoreIter" && strings.Contains(ef.Method, "Reverse") && (ef.Section == secRec || ef.Generic) {
					hasReverse = true
				}
			}
			for _, b := range f.Blocks {
				for _, in := range b.Instrs {
					if st, ok := in.(*ssa.Store); ok && isCap(st.Val) {
						if fa, ok := st.Addr.(*ssa.FieldAddr); ok {
							capFields[ptrElem(fa.X.Type()).String()+"."+ir.FieldName(fa.X.Type(), fa.Field)] = true
						}
					}
				}
			}
		}
		cmpWithCap := false
		for f := range reach {
			if ir.ModuleOf(f) != m || w.IsGenerated(f) {
				continue
			}
			for _, b := range f.Blocks {
				for _, in := range b.Instrs {
					bo, ok := in.(*ssa.BinOp)
					if !ok {
						continue
					}
					for oi, o := range []ssa.Value{bo.X, bo.Y} {
						// count == cap / count >= cap stop the walk, count < cap / count != cap let it go on: all end it after exactly
						// cap records (count <= cap or count > cap would take one more); with the cap on the left the order is mirrored
						op := bo.Op
						if oi == 0 {
							switch op {
							case token.LSS:
								op = token.GTR
							case token.GTR:
								op = token.LSS
							case token.LEQ:
								op = token.GEQ
							case token.GEQ:
								op = token.LEQ
							}
						}
						if op != token.EQL && op != token.GEQ && op != token.LSS && op != token.NEQ {
							continue
						}
						if isCap(o) {
							cmpWithCap = true
						}
						if u, ok := o.(*ssa.UnOp); ok && u.Op == token.MUL {
							if fa, ok := u.X.(*ssa.FieldAddr); ok && capFields[ptrElem(fa.X.Type()).String()+"."+ir.FieldName(fa.X.Type(), fa.Field)] {
								cmpWithCap = true
							}
						}
						// ... or as a parameter every caller gives the constant (`floor(ctx, id, keep uint64)` called with Max)
						if pr, ok := o.(*ssa.Parameter); ok {
							idx := -1
							for i, q := range f.Params {
								if q == pr {
									idx = i
								}
							}
							callers := w.Callers(f)
							all := idx >= 0 && len(callers) > 0
							for _, ed := range callers {
								cs, ok := ed.Site.(ssa.CallInstruction)
								if !ok || cs.Common().IsInvoke() || idx >= len(cs.Common().Args) || !isCap(stripConvV(cs.Common().Args[idx])) {
									all = false
								}
							}
							if all {
								cmpWithCap = true
							}
						}
					}
				}
			}
		}
		// the same list cut out of a complete ascending walk: list[len(list)-cap:]
		trims := false
		for f := range reach {
			if ir.ModuleOf(f) != m || w.IsGenerated(f) {
				continue
			}
			for _, b := range f.Blocks {
				for _, in := range b.Instrs {
					sl, ok := in.(*ssa.Slice)
					if !ok || sl.High != nil || sl.Low == nil {
						continue
					}
					bo, ok := sl.Low.(*ssa.BinOp)
					if !ok || bo.Op != token.SUB || !isCap(stripConvV(bo.Y)) {
						continue
					}
					if lc, ok := stripConvV(bo.X).(*ssa.Call); ok {
						if bi, ok := lc.Common().Value.(*ssa.Builtin); ok && bi.Name() == "len" && len(lc.Common().Args) == 1 && w.ExprOf(lc.Common().Args[0]).String() == w.ExprOf(sl.X).String() {
							trims = true
						}
					}
				}
			}
		}
		used = hasReverse && cmpWithCap || trims
		r.Require(used, "A5.export-cap", m+"|use", "", "export walks the records newest-first and stops after exactly the cap", "no reverse iteration stopping at count == 20000 on the export route")
	}
}

// exportCounters: exported NumBlocks/NumInState = len(exported records); LowestHeight/FirstIdInState = first exported element.
func exportCounters(c *Ctx) { exportCountersRule(c, "", nil) }

// exportCountersRule checks the exported registration fields; with a non-nil `only` set it is
// restricted to those fields and reports under `rule` (used by C07 for the cursor field).
func exportCountersRule(c *Ctx, rule string, only map[string]bool) {
	w, r := c.W, c.R
	nEmpty := 0
	defer func() {
		// (no floor: a marker computed by a helper, or stored with the whole registration, has no choice at the store to judge)
		r.Analysed["exported_first_record_markers_zero_case_judged"] += nEmpty
	}()
	for _, rm := range recMods {
		n := 0
		for _, root := range w.Roots["EXPORTGEN:"+rm.M] {
			for f := range w.Reachable([]*ssa.Function{root}) {
				if ir.ModuleOf(f) != rm.M || !genesisFuncs(c, "EXPORTGEN", rm.M)[f] {
					continue
				}
				// every value that ends up in a field of the exported registration: assigned field by field, or the whole
				// registration stored in one go (a copy of the stored record with the recomputed counters replaced)
				regT := "/x/" + rm.M + "/types." + regTypeName(rm)
				checkField := func(fname string, v *ir.Expr, in ssa.Instruction) {
					if only != nil && !only[fname] {
						return
					}
					if fname != rm.Count && fname != rm.Lowest {
						// every other exported registration field is the stored registration's like-named field
						n++
						isStored := func(v *ir.Expr) bool {
							iter := func(y *ir.Expr) bool {
								return y.Any(func(x *ir.Expr) bool {
									return x.Op == "call" && x.Callee != nil && reachesEffect(c, x.Callee, func(e ir.Effect) bool { return e.Kind == "StoreIter" && e.Section == rm.SecReg })
								})
							}
							return v.Op == "field" && v.Name == fname && v.Args[0].Op == "elem" && (iter(v.Args[0].Args[0]) || iter(w.Expand(v.Args[0].Args[0], 1)))
						}
						// the per-registration step may be a helper handed the registration: judge the value as its callers instantiate it
						ok := isStored(v) || liftAll(c, f, v, isStored)
						rl := "A7.export-fields"
						if rule != "" {
							rl = rule
						}
						r.Require(ok, rl, rm.M+"."+fname, pos(c, in), "exported registration field "+fname+" is the stored registration's "+fname, fname+" = "+v.String())
						return
					}
					isRecords := func(x *ir.Expr) bool {
						iter := func(y *ir.Expr) bool {
							return y.Any(func(z *ir.Expr) bool {
								return z.Op == "call" && z.Callee != nil && reachesEffect(c, z.Callee, func(e ir.Effect) bool { return e.Kind == "StoreIter" && e.Section == rm.SecRec })
							})
						}
						// (as written — the collecting function may gather its result in a way that has no origin expression — or looked into)
						return iter(x) || iter(w.Expand(x, 1))
					}
					switch fname {
					case rm.Count:
						n++
						// len(exported records); a helper computing it may hand back the constant 0 for the empty list, which is len of it
						ok, seenLen := true, false
						for _, a := range v.Alts() {
							a = stripConvE(a)
							if a.Op == "const" && a.Name == "0" {
								continue
							}
							if a.Op == "call" && a.Name == "builtin:len" && len(a.Args) == 1 && isRecords(a.Args[0]) {
								seenLen = true
								continue
							}
							ok = false
						}
						r.Require(ok && seenLen, "A7.export-counters", rm.M+"."+rm.Count, pos(c, in), "exported "+rm.Count+" is the number of exported records", v.String())
					case rm.Lowest:
						n++
						ok := true
						seenElem := false
						for _, a := range v.Alts() {
							if a.Op == "const" && a.Name == "0" {
								continue
							}
							if a.Op == "field" && a.Args[0].Op == "elem" && a.Args[0].Args[1].Op == "const" && a.Args[0].Args[1].Name == "0" {
								seenElem = true
								continue
							}
							ok = false
						}
						r.Require(ok && seenElem, "A7.export-counters", rm.M+"."+rm.Lowest, pos(c, in), "exported "+rm.Lowest+" is the key of the first exported record (0 when none)", v.String())
					}
				}
				for _, b := range f.Blocks {
					for _, in := range b.Instrs {
						st, ok := in.(*ssa.Store)
						if !ok {
							continue
						}
						fa, ok := st.Addr.(*ssa.FieldAddr)
						if !ok {
							continue
						}
						if !strings.Contains(ptrElem(fa.X.Type()).String(), "/x/"+rm.M+"/types.") {
							continue
						}
						fname := ir.FieldName(fa.X.Type(), fa.Field)
						if strings.HasSuffix(ptrElem(fa.X.Type()).String(), regT) {
							// a field of a registration
							checkField(fname, w.ExprOf(st.Val), in)
							if fname == rm.Lowest && (only == nil || only[fname]) {
								// ... and it is 0 only when nothing is exported: the choice between 0 and the first record's key is made by a
								// test that separates the empty list from every other length
								if judged, exact, detail := zeroOnlyWhenEmpty(st.Val); judged {
									nEmpty++
									r.Require(exact, ruleOr(rule, "A7.export-counters"), rm.M+"."+rm.Lowest+"|empty-only", pos(c, in),
										"exported "+rm.Lowest+" is 0 only when no record is exported (import reads 0 as \"nothing recorded yet\")", detail)
								}
							}
							continue
						}
						if strings.HasSuffix(st.Val.Type().String(), regT) {
							// a whole registration stored into the export record
							ve := w.ExprOf(st.Val)
							if ve.Op == "struct" {
								for fi, fn2 := range ve.Fields {
									checkField(fn2, ve.Args[fi], in)
								}
							} else if only == nil {
								n++
								isStoredReg := func(v *ir.Expr) bool {
									return v.Op == "elem" && w.Expand(v.Args[0], 1).Any(func(x *ir.Expr) bool {
										return x.Op == "call" && x.Callee != nil && reachesEffect(c, x.Callee, func(e ir.Effect) bool { return e.Kind == "StoreIter" && e.Section == rm.SecReg })
									})
								}
								r.Require(isStoredReg(ve) || liftAll(c, f, ve, isStoredReg), "A7.export-fields", rm.M+".<record>", pos(c, in), "the exported registration is the stored registration", ve.String())
							}
						}
					}
				}
			}
		}
		if only == nil {
			r.Floor("exported registration fields checked in "+rm.M, n, 2)
		} else {
			r.Floor("exported cursor fields checked in "+rm.M, n, 1)
		}
	}
}

func genesisOrder(c *Ctx) {
	w, r := c.W, c.R
	pk := w.Pkg("app")
	if pk == nil {
		r.Undecided("A5.genesis-order", "app", "", "package app loaded", "missing")
		return
	}
	// the slice literal handed to SetOrderInitGenesis / SetOrderExportGenesis
	lists := map[string][]string{}
	for _, file := range pk.Syntax {
		ast.Inspect(file, func(nd ast.Node) bool {
			call, ok := nd.(*ast.CallExpr)
			if !ok {
				return true
			}
			sel, ok := call.Fun.(*ast.SelectorExpr)
			if !ok || (sel.Sel.Name != "SetOrderInitGenesis" && sel.Sel.Name != "SetOrderExportGenesis" && sel.Sel.Name != "SetOrderBeginBlockers") {
				return true
			}
			var names []string
			for _, a := range call.Args {
				if s, ok := ir.ConstString(pk, a); ok {
					names = append(names, s)
					continue
				}
				if id, ok := a.(*ast.Ident); ok {
					// variable holding a []string literal
					if obj := pk.TypesInfo.Uses[id]; obj != nil {
						ast.Inspect(file, func(n2 ast.Node) bool {
							as, ok := n2.(*ast.AssignStmt)
							if !ok || len(as.Lhs) != 1 || len(as.Rhs) != 1 {
								return true
							}
							if lid, ok := as.Lhs[0].(*ast.Ident); ok && pk.TypesInfo.Defs[lid] == obj {
								if cl, ok := as.Rhs[0].(*ast.CompositeLit); ok {
									for _, el := range cl.Elts {
										if s, ok := ir.ConstString(pk, el); ok {
											names = append(names, s)
										}
									}
								}
							}
							return true
						})
					}
				}
			}
			lists[sel.Sel.Name] = names
			return true
		})
	}
	for _, which := range []string{"SetOrderInitGenesis", "SetOrderExportGenesis"} {
		have := setOf(lists[which]...)
		for _, m := range ir.Modules {
			r.Require(have[m], "A5.genesis-order", which+"|"+m, "app/app.go", "module "+m+" takes part in "+which, fmt.Sprintf("order list: %v", lists[which]))
		}
		// bank before the modules that assert balances
		idx := func(s string) int {
			for i, x := range lists[which] {
				if x == s {
					return i
				}
			}
			return -1
		}
		if which == "SetOrderInitGenesis" {
			r.Require(idx("bank") >= 0 && idx("bank") < idx("enterprise") && idx("bank") < idx("stream"), "A5.genesis-order", "bank-before-escrow-modules", "app/app.go", "bank balances are imported before the enterprise and stream modules assert their escrow balances", fmt.Sprintf("order list: %v", lists[which]))
		}
	}
	r.Require(setOf(lists["SetOrderBeginBlockers"]...)["enterprise"], "A5.genesis-order", "begin-blockers|enterprise", "app/app.go", "the enterprise begin blocker is scheduled", fmt.Sprintf("%v", lists["SetOrderBeginBlockers"]))
}

func regTypeName(rm recMod) string {
	if rm.M == "wrkchain" {
		return "WrkChain"
	}
	return "Beacon"
}

// exportRecordFields: the compact export record copies each stored record field (He<-Height ...).
func exportRecordFields(c *Ctx) {
	w, r := c.W, c.R
	rename := map[string]string{"He": "Height", "Bh": "Blockhash", "Ph": "Parenthash", "H1": "Hash1", "H2": "Hash2", "H3": "Hash3", "St": "SubTime", "Id": "TimestampId", "T": "SubmitTime", "H": "Hash"}
	for _, rm := range recMods {
		n := 0
		for _, root := range w.Roots["EXPORTGEN:"+rm.M] {
			for f := range w.Reachable([]*ssa.Function{root}) {
				if ir.ModuleOf(f) != rm.M || w.IsGenerated(f) {
					continue
				}
				for _, b := range f.Blocks {
					for _, in := range b.Instrs {
						st, ok := in.(*ssa.Store)
						if !ok {
							continue
						}
						fa, ok := st.Addr.(*ssa.FieldAddr)
						if !ok || !strings.Contains(ptrElem(fa.X.Type()).String(), "GenesisExport") {
							continue
						}
						fname := ir.FieldName(fa.X.Type(), fa.Field)
						want, known := rename[fname]
						if !known {
							continue
						}
						n++
						v := w.ExprOf(st.Val)
						ok2 := v.Op == "field" && v.Name == want && (v.Args[0].Op == "param" || v.Args[0].Op == "decode" || v.Args[0].Op == "state")
						r.Require(ok2, "A7.export-fields", rm.M+"|record."+fname, pos(c, in), "exported record field "+fname+" is the stored record's "+want, fname+" = "+v.String())
					}
				}
			}
		}
		fl := map[string]int{"wrkchain": 7, "beacon": 3}
		r.Floor("exported record fields of "+rm.M, n, fl[rm.M])
	}
}

// exportSections: each field of the exported enterprise GenesisState is read from its own section.
func exportSections(c *Ctx) {
	w, r := c.W, c.R
	want := map[string]string{"Params": secEntParams, "StartingPurchaseOrderId": secEntHigh, "PurchaseOrders": secPO, "LockedUnd": secLocked, "TotalLocked": secTotLocked, "Whitelist": secWhitelist, "TotalSpent": secTotSpent, "SpentEfund": secSpent}
	n := 0
	for _, root := range w.Roots["EXPORTGEN:enterprise"] {
		for f := range w.Reachable([]*ssa.Function{root}) {
			if ir.ModuleOf(f) != "enterprise" || !strings.Contains(fn(f), "ExportGenesis") {
				continue
			}
			for _, b := range f.Blocks {
				for _, in := range b.Instrs {
					st, ok := in.(*ssa.Store)
					if !ok {
						continue
					}
					fa, ok := st.Addr.(*ssa.FieldAddr)
					if !ok || !strings.HasSuffix(ptrElem(fa.X.Type()).String(), "x/enterprise/types.GenesisState") {
						continue
					}
					fname := ir.FieldName(fa.X.Type(), fa.Field)
					sec, known := want[fname]
					if !known {
						r.Bad("A7.export-fields", "enterprise|GenesisState."+fname, pos(c, in), "every field of the exported enterprise genesis has a specified source section", "unknown field "+fname)
						continue
					}
					n++
					v := w.ExprOf(st.Val)
					src := v
					if src.Op == "res" {
						src = src.Args[0]
					}
					ok2 := false
					if src.Op == "call" && src.Callee != nil {
						secs := map[string]bool{}
						for g := range w.Reachable([]*ssa.Function{src.Callee}) {
							for _, e := range w.EffectsOf(g) {
								if (e.Kind == "StoreRead" || e.Kind == "StoreIter") && strings.HasPrefix(e.Section, "x/enterprise/types.") && e.Section != secEntParams {
									secs[e.Section] = true
								}
								if e.Section == secEntParams && sec == secEntParams {
									secs[e.Section] = true
								}
							}
						}
						ok2 = secs[sec] && len(secs) == 1
					} else if secs, ok := collectorFieldSections(c, st.Val); ok {
						// a field of a collector record filled through its methods, handed as callbacks to the keeper's iterate helpers
						delete(secs, secEntParams)
						ok2 = secs[sec] && len(secs) == 1
					}
					r.Require(ok2, "A7.export-fields", "enterprise|GenesisState."+fname, pos(c, in), "exported "+fname+" is read from section "+sec+" only", fname+" = "+v.String())
				}
			}
		}
	}
	r.Floor("exported enterprise genesis fields", n, 8)
}

// builtFields: the fields of the struct a returned alternative was built with — the stores into the fresh allocation
// where it was made, overlaid by the stores made through the pointer in every caller it was handed up through
// (`state := types.DefaultGenesisState(); state.Params = k.GetParams(ctx); return state`). ok=false when the
// alternative is not a fresh allocation (the value cannot be judged field by field).
func builtFields(c *Ctx, a retAlt) (map[string]*ir.Expr, bool) {
	w := c.W
	v := a.V
	if u, ok := v.(*ssa.UnOp); ok && u.Op == token.MUL {
		v = u.X
	}
	al, ok := v.(*ssa.Alloc)
	if !ok {
		return nil, false
	}
	fields := map[string]*ir.Expr{}
	collect := func(ctx *ir.FCtx, base ssa.Value) {
		if base.Referrers() == nil {
			return
		}
		level := map[string]*ir.Expr{}
		for _, r := range *base.Referrers() {
			fa, ok := r.(*ssa.FieldAddr)
			if !ok || fa.Referrers() == nil {
				continue
			}
			for _, rr := range *fa.Referrers() {
				st, ok := rr.(*ssa.Store)
				if !ok || st.Addr != ssa.Value(fa) {
					continue
				}
				e := w.ExprOf(st.Val)
				if ctx != a.root {
					e = ctx.Apply(e)
				}
				name := ir.FieldName(fa.X.Type(), fa.Field)
				if old, dup := level[name]; dup {
					e = &ir.Expr{Op: "phi", Args: []*ir.Expr{old, e}}
				}
				level[name] = e
			}
		}
		for k, e := range level {
			fields[k] = e
		}
	}
	collect(a.Pos.Ctx, al)
	for ctx := a.Pos.Ctx; ctx != nil && ctx.Call != nil; ctx = ctx.Up {
		if cv, ok := ctx.Call.(*ssa.Call); ok {
			collect(ctx.Up, cv)
		}
	}
	return fields, true
}

// exportGenesisArgs: every genesis state ExportGenesis can return (each return alternative, through whatever
// constructor or helper it was built by) takes its fields from the right sections: the id counter field from the
// counter section (not a constant, not the registrations), params from the params section.
func exportGenesisArgs(c *Ctx, rule string, onlyStartID bool) {
	w, r := c.W, c.R
	// rule "A7.export-fields|params": the Params field alone (C16: a voted value stays in force across an export/import)
	onlyParams := false
	if rule == "A7.export-fields|params" {
		rule, onlyParams = "A7.export-fields", true
	}
	for _, m := range []string{"wrkchain", "beacon", "stream"} {
		secHigh := ""
		for _, rm := range recMods {
			if rm.M == m {
				secHigh = rm.SecHigh
			}
		}
		n := 0
		// the export functions: the functions of the module on the export route that return the module's genesis
		// state and are not merely helpers of another such function
		var exporters []*ssa.Function
		isGS := func(f *ssa.Function) bool {
			rs := f.Signature.Results()
			return rs.Len() >= 1 && strings.HasSuffix(ptrElem(rs.At(0).Type()).String(), "x/"+m+"/types.GenesisState")
		}
		reach := w.Reachable(w.Roots["EXPORTGEN:"+m])
		for f := range reach {
			if ir.ModuleOf(f) != m || w.IsGenerated(f) || !isGS(f) {
				continue
			}
			top := true
			for _, ed := range w.Callers(f) {
				if _, in := reach[ed.From]; in && isGS(ed.From) && ed.From != f {
					top = false
				}
			}
			if top {
				exporters = append(exporters, f)
			}
		}
		sortFuncs(exporters)
		for _, root := range exporters {
			for ai, a := range returnAlts(c, root, 0) {
				suffix := ""
				if ai > 0 {
					suffix = fmt.Sprintf("#%d", ai+1)
				}
				if !strings.HasSuffix(ptrElem(a.V.Type()).String(), "types.GenesisState") {
					continue
				}
				fields, ok := builtFields(c, a)
				if !ok {
					r.Undecided("A7.export-fields", m+"|GenesisState"+suffix, pos(c, a.Pos.In), "the exported genesis state is built where it can be read field by field", "returned "+a.E.String())
					continue
				}
				// the fields the type has: an unset one is its zero value
				var names []string
				if st, ok := ptrElem(a.V.Type()).Underlying().(*types.Struct); ok {
					for i := 0; i < st.NumFields(); i++ {
						names = append(names, st.Field(i).Name())
					}
				}
				for _, field := range names {
					raw := fields[field]
					if raw == nil {
						raw = &ir.Expr{Op: "zero"}
					}
					e := w.Expand(raw, 3)
					secs := map[string]bool{}
					e.Walk(func(x *ir.Expr) bool {
						if x.Op == "state" {
							secs[x.Name] = true
						}
						return true
					})
					switch {
					case field == "Params" && !onlyStartID:
						n++
						okp := secs[secParams(m)] && len(secs) == 1
						// ... on every way the state is built: no alternative that replaces the stored params by something else
						// (a constructor that "falls back to the defaults" for a stored value it takes for unset)
						var palts []*ir.Expr
						for _, ra := range raw.Alts() {
							palts = append(palts, w.Expand(ra, 3).Alts()...)
						}
						for _, alt := range append(palts, e.Alts()...) {
							// (the zero value is what the getter hands back when nothing is stored: nothing replaced)
							if alt.Op != "zero" && !alt.Any(func(x *ir.Expr) bool { return x.Op == "state" && x.Name == secParams(m) }) {
								okp = false
							}
						}
						if os.Getenv("MCDEBUG") == "expp" {
							fmt.Fprintln(os.Stderr, "EXPP", m, raw.String(), "=>", e.String())
						}
						r.Require(okp, "A7.export-fields", m+"|GenesisState.Params"+suffix, pos(c, a.Pos.In), "exported Params are the stored module params, on every way the exported state is built", e.String())
					case strings.HasPrefix(field, "Starting") && !onlyParams:
						n++
						okv := secs[secHigh] && len(secs) == 1
						for _, alt := range e.Alts() {
							if !alt.Any(func(x *ir.Expr) bool { return x.Op == "state" && x.Name == secHigh }) {
								okv = false
							}
						}
						r.Require(okv, rule, m+"|GenesisState."+field+suffix, pos(c, a.Pos.In), "the exported starting id is the stored id counter (the next unused id) on every way the exported state is built, so that import never re-issues an id", field+" = "+e.String()+" (state built via "+strings.Join(a.Pos.Ctx.Chain(), " -> ")+")")
					}
				}
			}
		}
		fl := map[string]int{"wrkchain": 2, "beacon": 2, "stream": 1}
		if onlyStartID {
			fl = map[string]int{"wrkchain": 1, "beacon": 1, "stream": 0}
		}
		if onlyParams {
			fl = map[string]int{"wrkchain": 1, "beacon": 1, "stream": 1}
		}
		r.Floor("exported genesis state fields checked on the "+m+" export route", n, fl[m])
	}
}

// collectorFieldSections: v is field F of a local record whose methods were handed on as bound method values
// (`ledger := &ledgerExport{}; k.IterateLockedUnds(ctx, ledger.addLocked); ... ledger.locked`): the store sections read by
// the functions that were given a method writing F (and by those methods). ok=false when v has another shape or the
// record's field is written in a way that is not followed.
func collectorFieldSections(c *Ctx, v ssa.Value) (map[string]bool, bool) {
	w := c.W
	for {
		if ct, isCT := v.(*ssa.ChangeType); isCT {
			v = ct.X
			continue
		}
		break
	}
	ld, ok := v.(*ssa.UnOp)
	if !ok || ld.Op != token.MUL {
		if os.Getenv("MCDEBUG") == "coll" {
			fmt.Fprintf(os.Stderr, "collector v=%T %v\n", v, v)
		}
		return dbgFail(1)
	}
	fa, ok := ld.X.(*ssa.FieldAddr)
	if !ok {
		return dbgFail(2)
	}
	al, ok := fa.X.(*ssa.Alloc)
	if !ok || al.Referrers() == nil {
		return dbgFail(3)
	}
	secs := map[string]bool{}
	fillers := 0
	addReads := func(g *ssa.Function) {
		for h := range w.Reachable([]*ssa.Function{g}) {
			for _, e := range w.EffectsOf(h) {
				if e.Kind == "StoreRead" || e.Kind == "StoreIter" {
					secs[e.Section] = true
				}
			}
		}
	}
	for _, r := range *al.Referrers() {
		switch x := r.(type) {
		case *ssa.MakeClosure:
			wrapper, _ := x.Fn.(*ssa.Function)
			if wrapper == nil || len(x.Bindings) != 1 || x.Bindings[0] != ssa.Value(al) {
				return dbgFail(4)
			}
			// the method behind the bound-method wrapper
			var method *ssa.Function
			for _, b := range wrapper.Blocks {
				for _, in := range b.Instrs {
					if call, ok := in.(ssa.CallInstruction); ok {
						if sc := call.Common().StaticCallee(); sc != nil {
							method = sc
						}
					}
				}
			}
			if method == nil || len(method.Params) == 0 {
				return dbgFail(5)
			}
			writes := false
			if refs := method.Params[0].Referrers(); refs != nil {
				for _, u := range *refs {
					if mfa, ok := u.(*ssa.FieldAddr); ok && mfa.Field == fa.Field && mfa.Referrers() != nil {
						for _, uu := range *mfa.Referrers() {
							if st, ok := uu.(*ssa.Store); ok && st.Addr == ssa.Value(mfa) {
								writes = true
							}
						}
					}
				}
			}
			if !writes {
				continue
			}
			if x.Referrers() == nil {
				return dbgFail(6)
			}
			for _, u := range *x.Referrers() {
				call, ok := u.(ssa.CallInstruction)
				if !ok {
					if _, dbg := u.(*ssa.DebugRef); dbg {
						continue
					}
					return dbgFail(7)
				}
				gs := w.CalleesOf(call)
				if len(gs) == 0 {
					return dbgFail(8)
				}
				for _, g := range gs {
					addReads(g)
				}
				addReads(method)
				fillers++
			}
		case *ssa.FieldAddr:
			if x.Field != fa.Field || x.Referrers() == nil {
				continue
			}
			for _, u := range *x.Referrers() {
				if st, ok := u.(*ssa.Store); ok && st.Addr == ssa.Value(x) {
					return dbgFail(9) // assigned directly as well: not judged here
				}
			}
		}
	}
	return secs, fillers > 0
}

func dbgFail(i int) (map[string]bool, bool) {
	if os.Getenv("MCDEBUG") == "coll" {
		fmt.Fprintln(os.Stderr, "collector fail", i)
	}
	return nil, false
}

// stripConvV strips numeric conversions of an SSA value.
func stripConvV(v ssa.Value) ssa.Value {
	for {
		switch x := v.(type) {
		case *ssa.Convert:
			v = x.X
		case *ssa.ChangeType:
			v = x.X
		default:
			return v
		}
	}
}

func ruleOr(rule, dflt string) string {
	if rule != "" {
		return rule
	}
	return dflt
}

// zeroOnlyWhenEmpty: val is a choice (phi) between the constant 0 and other values; every edge that brings the 0 is taken
// exactly when a length is 0 — the branch it hangs on compares len(x) with a constant such that the side taken holds for
// length 0 and for no other length. judged is false when val is not such a choice or the deciding test is not a length
// comparison.
func zeroOnlyWhenEmpty(val ssa.Value) (judged, exact bool, detail string) {
	for {
		if cv, ok := val.(*ssa.Convert); ok {
			val = cv.X
			continue
		}
		break
	}
	phi, ok := val.(*ssa.Phi)
	if !ok {
		return false, false, ""
	}
	exact = true
	for i, e := range phi.Edges {
		cst, ok := e.(*ssa.Const)
		if !ok || cst.Value == nil || cst.Value.String() != "0" {
			continue
		}
		// the branch the 0 edge hangs on
		succ := phi.Block()
		p := succ.Preds[i]
		for len(p.Succs) == 1 && len(p.Preds) == 1 {
			succ, p = p, p.Preds[0]
		}
		if len(p.Instrs) == 0 {
			continue
		}
		iff, ok := p.Instrs[len(p.Instrs)-1].(*ssa.If)
		if !ok || len(p.Succs) != 2 {
			continue
		}
		side := -1
		for k, sc := range p.Succs {
			if sc == succ {
				side = k
			}
		}
		bo, ok := iff.Cond.(*ssa.BinOp)
		if !ok || side < 0 {
			continue
		}
		isLen := func(v ssa.Value) bool {
			for {
				if cv, ok := v.(*ssa.Convert); ok {
					v = cv.X
					continue
				}
				break
			}
			call, ok := v.(*ssa.Call)
			if !ok {
				return false
			}
			b, ok := call.Call.Value.(*ssa.Builtin)
			return ok && b.Name() == "len"
		}
		var k int64
		lenLeft := true
		switch {
		case isLen(bo.X):
			kc, ok := bo.Y.(*ssa.Const)
			if !ok || kc.Value == nil {
				continue
			}
			k = kc.Int64()
		case isLen(bo.Y):
			kc, ok := bo.X.(*ssa.Const)
			if !ok || kc.Value == nil {
				continue
			}
			k, lenLeft = kc.Int64(), false
		default:
			continue
		}
		holds := func(n int64) bool {
			a, b := n, k
			if !lenLeft {
				a, b = k, n
			}
			var res bool
			switch bo.Op {
			case token.EQL:
				res = a == b
			case token.NEQ:
				res = a != b
			case token.LSS:
				res = a < b
			case token.LEQ:
				res = a <= b
			case token.GTR:
				res = a > b
			case token.GEQ:
				res = a >= b
			default:
				return false
			}
			if side == 1 {
				res = !res
			}
			return res
		}
		judged = true
		if !(holds(0) && !holds(1) && !holds(2) && !holds(3)) {
			exact = false
			detail = "the 0 is taken on the " + map[int]string{0: "true", 1: "false"}[side] + " side of a length test that also holds for a non-empty list (" + bo.String() + ")"
		}
	}
	return judged, exact, detail
}

// derivedSections: store sections that genesis export does not carry and genesis import rebuilds from exported data
// (module -> section -> the order status whose orders it lists).
var derivedSections = map[string]map[string]string{
	"enterprise": {secRaisedQ: stRaised, secAcceptedQ: stAccepted},
}

// derivedQueues (A7.derived-queues): genesis import of module m rebuilds each derived queue — an entry exactly for the
// imported orders of the matching status, and for every one of them.
func derivedQueues(c *Ctx, m string) {
	w, r := c.W, c.R
	derived := derivedSections
	// derived queues: written in import under the matching status guard
	for sec, status := range derived[m] {
		n := 0
		for _, root := range w.Roots["INITGEN:"+m] {
			for f := range w.Reachable([]*ssa.Function{root}) {
				if !genesisFuncs(c, "INITGEN", m)[f] {
					continue
				}
				is := callReaching(c, f, func(e ir.Effect) bool { return e.Kind == "StoreWrite" && e.Section == sec })
				for _, s := range findInstrs(f, is) {
					if callReaching(c, f, func(e ir.Effect) bool { return e.Kind == "StoreWrite" && e.Section == secPO })(s) {
						continue // a call that runs the whole import, not the queue step itself
					}
					n++
					var idArg *ir.Expr
					if call, ok := s.(ssa.CallInstruction); ok {
						a := call.Common().Args
						idArg = w.ExprOf(a[len(a)-1])
						// (the order may come out of a list prepared beforehand: resolved to the imported element)
						if x := w.Expand(idArg, 4); x.Op == "field" && x.Name == "Id" {
							idArg = x
						}
					}
					g := w.Guarded(f, s, func(p ir.Pred) bool {
						return cmpIs(p, "==", func(x *ir.Expr) bool {
							return x.Op == "field" && x.Name == "Status" && idArg != nil && idArg.Op == "field" && idArg.Name == "Id" && x.Args[0].String() == idArg.Args[0].String()
						}, func(y *ir.Expr) bool { return y.Op == "const" && y.Name == status })
					}, 1)
					r.Require(g, "A7.derived-queues", sec, pos(c, s), "import re-creates the queue entry exactly for imported orders with Status == "+status+" (same order's Id)", "not guarded by that status comparison")
				}
			}
		}
		r.Require(n >= 1, "A7.derived-queues", "rebuilt|"+sec, "", "genesis import rebuilds the "+sec+" queue", "no write on the import route")
		// converse: every imported order with that status gets its queue entry before the next iteration
		for _, root := range w.Roots["INITGEN:"+m] {
			for f := range w.Reachable([]*ssa.Function{root}) {
				if !genesisFuncs(c, "INITGEN", m)[f] || ir.ModuleOf(f) != m {
					continue
				}
				isQ := callReaching(c, f, func(e ir.Effect) bool { return e.Kind == "StoreWrite" && e.Section == sec })
				isPO := callReaching(c, f, func(e ir.Effect) bool { return e.Kind == "StoreWrite" && e.Section == secPO })
				for _, pw := range findInstrs(f, isPO) {
					if isQ(pw) {
						continue
					}
					call, ok := pw.(ssa.CallInstruction)
					if !ok {
						continue
					}
					args := call.Common().Args
					stored := w.ExprOf(args[len(args)-1])
					storedX := w.Expand(stored, 4)
					isStatusOfStored := func(x *ir.Expr) bool {
						if x.Op != "field" || x.Name != "Status" {
							return false
						}
						if x.Args[0].String() == stored.String() || stored.Op == "struct" || x.Args[0].String() == storedX.String() {
							return true
						}
						// the stored order is a copy, field by field, of the imported element whose status is tested
						if os.Getenv("MCDEBUG") == "dq" {
							fmt.Fprintln(os.Stderr, "dq x=", x.String(), " storedX=", storedX.String()[:min(300, len(storedX.String()))])
						}
						if storedX.Op == "struct" {
							if st := fieldOfStruct(storedX, "Status"); st != nil && st.String() == x.String() {
								return true
							}
						}
						return false
					}
					otherStatus := w.EstablishedEdges(f, func(p ir.Pred) bool {
						// the status differs from the queue's status: tested as != status, or as == a different status constant (switch form)
						return cmpIs(p, "!=", isStatusOfStored, func(y *ir.Expr) bool { return y.Op == "const" && y.Name == status }) ||
							cmpIs(p, "==", isStatusOfStored, func(y *ir.Expr) bool {
								return y.Op == "const" && y.Name != status && strings.Contains(y.Name, "types.Status")
							})
					}, 1)
					bad := ir.AfterReachesBackEdgeWithoutCut(f, pw, isQ, otherStatus)
					if ir.EnclosingLoopHeader(f, pw) == nil {
						// the per-order step is a helper of its own (the loop stands in its caller): no successful return of the
						// helper is reached for such an order without the queue write
						rets := ir.Returns(f)
						if sr := w.SuccessReturns(f); len(sr) > 0 && ir.ErrIndex(f) >= 0 {
							rets = sr
						}
						for _, ret := range rets {
							if ir.ReachesFrom(f, pw.Block(), ir.InstrIndex(pw)+1, ret, ir.Cut{Edges: otherStatus, Barrier: isQ}) {
								bad = append(bad, ret.Block())
							}
						}
					}
					r.Require(len(bad) == 0, "A7.derived-queues", "every|"+sec, pos(c, pw), "every imported order with Status == "+status+" gets its queue entry (no imported order of that status is skipped)", "the next iteration is reachable for such an order without the queue write")
				}
			}
		}
	}
}
