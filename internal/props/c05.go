package props

import (
	"fmt"
	"go/types"
	"sort"
	"strings"

	"golang.org/x/tools/go/ssa"

	"mcverif/internal/ir"
	"mcverif/internal/load"
)

func init() { Registry["C05"] = C05 }

// feeBearingTypes returns the request types of module m's Msg service, minus MsgUpdateParams.
func feeBearingTypes(c *Ctx, m string) map[string]bool {
	out := map[string]bool{}
	for _, h := range c.W.Roots["MSG:"+m] {
		t := msgTypeOf(h)
		if t != "" && t != "MsgUpdateParams" {
			out[m+"."+t] = true
		}
	}
	return out
}

// assertedMsgType: e is the ok flag (or value) of a type assertion of a message to a repo
// message type; returns "module.Type".
func assertedMsgType(e *ir.Expr) string {
	var t string
	e.Walk(func(x *ir.Expr) bool {
		if x.Op == "assert" && t == "" {
			n := strings.TrimPrefix(x.Name, "*")
			if strings.HasPrefix(n, "x/") && strings.Contains(n, "/types.Msg") {
				parts := strings.Split(n, "/")
				t = parts[1] + "." + n[strings.LastIndex(n, ".")+1:]
			}
			return false
		}
		return true
	})
	return t
}

// typeSwitchCases returns, for function f, the set of repo message types whose type-assertion
// ok-edge is taken somewhere in f.
// typeSwitchCases: the repo message types f (or a helper it calls, e.g. a per-message predicate) type-asserts.
func typeSwitchCases(c *Ctx, f *ssa.Function) map[string]bool {
	out := map[string]bool{}
	// (what *this* function recognises: its own code, its static callees and the callbacks it names — not every
	// callback some other caller hands to a helper they share)
	for g := range c.W.ReachableNoDynamic([]*ssa.Function{f}) {
		if c.W.IsGenerated(g) {
			continue
		}
		for _, b := range g.Blocks {
			for _, in := range b.Instrs {
				if ta, ok := in.(*ssa.TypeAssert); ok {
					n := types.TypeString(ta.AssertedType, func(p *types.Package) string { return ir.RelPkg(p.Path()) })
					n = strings.TrimPrefix(n, "*")
					if strings.HasPrefix(n, "x/") && strings.Contains(n, "/types.Msg") {
						parts := strings.Split(n, "/")
						out[parts[1]+"."+n[strings.LastIndex(n, ".")+1:]] = true
					}
				}
			}
		}
	}
	return out
}

// isModuleTxPred: the predicate says "a message of the tx has a fee-bearing type of module m".
func isModuleTxPred(c *Ctx, p ir.Pred, mods ...string) bool {
	if !p.Pol {
		return false
	}
	e := p.E
	if !(e.Op == "res" && e.Name == "1" && len(e.Args) == 1 && e.Args[0].Op == "assert") {
		return false
	}
	t := assertedMsgType(e)
	for _, m := range mods {
		if feeBearingTypes(c, m)[t] {
			// the asserted value is an element of tx.GetMsgs()
			if e.Any(func(x *ir.Expr) bool { return x.Op == "call" && strings.HasSuffix(x.Name, ".GetMsgs") }) {
				return true
			}
		}
	}
	return false
}

func C05(c *Ctx) {
	w, r := c.W, c.R
	r.Explanation = "(A1) the only route to UndelegateCoinsFromModuleToAccount(enterprise) starts at the CheckLockedUnd ante decorator; (A2) in that decorator the unlock call is guarded (cut-reachability, looking through the detector helpers down to their type assertions) by [tx contains a WRKChain fee-bearing message ∨ a BEACON one] and by a positive locked balance of feeTx.FeePayer(), and receives that payer and feeTx.GetFee(); " +
		"(A7) the case sets of the tx detectors and of the fee calculators equal the fee-bearing request types of each module's Msg service; (A5) decorator order ValidateBasic < WRKChain fee < BEACON fee < CheckLockedUnd < DeductFee < SigVerification < IncrementSequence; " +
		"(A2) amount rule: the site undelegating the fee is guarded by ¬hasNeg(locked − fee_d), the site undelegating the whole locked amount by hasNeg(locked − fee_d) ∧ ¬hasNeg(spendable + locked − fee_d), and there is no third site. The mint-route pairing of C04 gives 'completion never raises spendable balance'. Structural necessary conditions; ante rollback on later failure (baseapp) and numeric min(fee, locked) are not decided."
	r.Rules = []string{"A1.unlock-route", "A2.unlock-guard", "A7.detector-cases", "A7.detector-exhaustive", "A5.decorator-order", "A2.amount-rule", "A3.mint-route-pairing", "A2.decorator-checks", "A3.counter-pairs", "A3.lost-update", "A3.stale-element-pointer", "A3.element-carry", "A2.spendable-neutral"}
	// completing an order never increases the purchaser's spendable balance: what is minted for an order is moved into the
	// escrow and booked as locked, with the same amount at each step, and no update of the books is dropped on a copy
	mintRoutePairing(c)
	lostUpdates(c, "enterprise")
	// "... and passes all pre-execution checks": the WRKChain and BEACON decorators let a module transaction through to
	// execution only after their affordability and max-slot checks (in every mode, not in CheckTx alone)
	for _, m := range []string{"wrkchain", "beacon"} {
		if _, f := feeFunc(c, m); f != nil {
			decoratorChecks(c, m, f)
		}
	}
	counterPairs(c) // "... which is recorded as spent": the spent total moves with the account's spent counter
	spendableNeutral(c)
	r.Trusted = []string{"baseapp discards ante state when a later decorator fails", "sdk.Coins.SafeSub hasNeg semantics", "bank vesting/delegation bookkeeping"}
	r.NotDecided = []string{"nested (authz/group/gov) execution of WRKChain/BEACON messages bypasses the ante chain (see C06 known finding K1)", "numeric min(fee, locked)"}

	isUnlock := func(e ir.Effect) bool { return e.Method == "UndelegateCoinsFromModuleToAccount" }
	n := whoMayReach(c, "A1.unlock-route", "unlocking eFUND (UndelegateCoinsFromModuleToAccount)", isUnlock, []string{"ANTE:enterprise"})
	r.Floor("root/unlock-site pairs", n, 1)

	// A2 guard in the decorator
	var dec *ssa.Function
	for _, f := range w.Roots["ANTE:enterprise"] {
		dec = f
	}
	if dec == nil {
		r.Bad("A2.unlock-guard", "decorator", "", "the enterprise ante decorator is part of the ante chain", "not found in NewAnteHandler's decorator list")
		return
	}
	sites := mutatingSites(c, dec, isUnlock)
	r.Floor("unlock call sites in the decorator", len(sites), 1)
	for i, s := range sites {
		k := fmt.Sprintf("%s|site%d", fn(dec), i)
		g1 := w.Guarded(dec, s, func(p ir.Pred) bool { return isModuleTxPred(c, p, "wrkchain", "beacon") }, 6)
		r.Require(g1, "A2.unlock-guard", "module-tx|"+k, pos(c, s), "eFUND is unlocked only for transactions containing a WRKChain or BEACON fee-bearing message", "reachable for other transactions")
		var payer *ir.Expr
		call := s.(ssa.CallInstruction)
		args := call.Common().Args
		if len(args) >= 3 {
			payer = valueAtSite(c, dec, s, args[len(args)-2])
		}
		isPayer := payer != nil && payer.Op == "call" && strings.HasSuffix(payer.Name, "FeeTx.FeePayer")
		r.Require(isPayer, "A2.unlock-guard", "payer|"+k, pos(c, s), "the account unlocked is feeTx.FeePayer()", fmt.Sprint(payer))
		fee := valueAtSite(c, dec, s, args[len(args)-1])
		r.Require(fee.Op == "call" && strings.HasSuffix(fee.Name, "FeeTx.GetFee"), "A2.unlock-guard", "fee|"+k, pos(c, s), "the amount considered is feeTx.GetFee()", fee.String())
		g2 := w.Guarded(dec, s, func(p ir.Pred) bool {
			if !p.Pol || p.E.Op != "call" || !strings.HasSuffix(p.E.Name, "types.Coin).IsPositive") {
				return false
			}
			x := w.Expand(p.E.Args[0], 3)
			ok := false
			for _, a := range x.Alts() {
				if isStateField(a, secLocked, "Amount") && payer != nil {
					ka := keyArgs(stateKey(a))
					if len(ka) == 1 && (ka[0].String() == payer.String() || sameNonZeroAlts(ka[0], payer)) {
						ok = true
					}
				}
			}
			return ok
		}, 6)
		r.Require(g2, "A2.unlock-guard", "is-locked|"+k, pos(c, s), "eFUND is unlocked only when the fee payer's stored locked amount is positive", "reachable without that check")
		// the unlocked eFUND is what pays the fee: DeductFeeDecorator charges the fee granter when the transaction names
		// one, so the payer's eFUND is unlocked only when no other account is the granter (else it becomes spendable balance
		// without having been paid as a fee)
		isGranter := func(x *ir.Expr) bool {
			x = w.Expand(x, 2)
			return x.Op == "call" && strings.HasSuffix(x.Name, "FeeTx.FeeGranter")
		}
		g3 := w.Guarded(dec, s, func(p ir.Pred) bool {
			if cmpIs(p, "==", isGranter, func(y *ir.Expr) bool { return y.Op == "const" && y.Name == "nil" }) {
				return true
			}
			if p.Pol && p.E.Op == "call" && strings.HasSuffix(p.E.Name, "AccAddress).Equals") && len(p.E.Args) == 2 {
				isP := func(x *ir.Expr) bool {
					x = w.Expand(x, 2)
					return x.Op == "call" && strings.HasSuffix(x.Name, "FeeTx.FeePayer")
				}
				return isGranter(p.E.Args[0]) && isP(p.E.Args[1]) || isGranter(p.E.Args[1]) && isP(p.E.Args[0])
			}
			return false
		}, 6)
		r.Require(g3, "A2.unlock-guard", "no-granter|"+k, pos(c, s), "eFUND is unlocked only when the fee payer itself pays the fee (feeTx.FeeGranter() is nil or the payer): with a fee granter the SDK deducts the fee from the granter", "reachable for a transaction whose fee another account grants")
	}

	detectorCases(c)
	decoratorOrder(c)
	amountRule(c)
}

func detectorCases(c *Ctx) {
	w, r := c.W, c.R
	n := 0
	for _, m := range []string{"wrkchain", "beacon"} {
		want := feeBearingTypes(c, m)
		r.Floor("fee-bearing message types of "+m, len(want), 3)
		for _, f := range w.Funcs {
			if w.IsGenerated(f) || ir.IsFixture(f) || f.Parent() != nil {
				continue
			}
			rel := ir.RelPkg(ir.FnPkg(f).Path())
			if rel != "x/"+m+"/exported" && rel != "x/"+m+"/ante" {
				continue
			}
			cases := typeSwitchCases(c, f)
			if len(cases) == 0 {
				continue
			}
			n++
			// a function that only looks at one message type (max-slot check) is judged by its own rule
			isDetector := f.Signature.Results().Len() == 1 && f.Signature.Results().At(0).Type().String() == "bool"
			isFeeCalc := false
			for g := range w.Reachable([]*ssa.Function{f}) {
				if strings.Contains(fn(g), "FeeAsCoin") {
					isFeeCalc = true
				}
			}
			if !isDetector && !isFeeCalc {
				continue
			}
			r.Require(sameSet(cases, want), "A7.detector-cases", fn(f), w.Pos(f.Pos()), "the message types recognised equal the fee-bearing request types of the "+m+" Msg service "+setStr(want), "cases "+setStr(cases))
			if isDetector {
				detectorExistential(c, f, m)
			}
		}
	}
	r.Floor("type-switching functions in exported/ante packages", n, 6)
}

// detectorExistential: a transaction detector answers "does ANY message of the tx have a module type": a
// constant-false return must not be reachable from inside the loop over the messages without going round
// the loop again (a `default: return false` in the loop body decides on the first message only, so
// [bank send, register] is not recognised and skips the fee checks and the unlock).
func detectorExistential(c *Ctx, f *ssa.Function, m string) {
	w, r := c.W, c.R
	backs := ir.BackEdges(f)
	getsMsgs := false
	for _, b := range f.Blocks {
		for _, in := range b.Instrs {
			if call, ok := in.(ssa.CallInstruction); ok && methodNameOf(call) == "GetMsgs" {
				getsMsgs = true
			}
		}
	}
	if !getsMsgs {
		// a per-message predicate: nothing to decide here, its caller loops
		return
	}
	if len(backs) == 0 {
		r.Bad("A7.detector-exhaustive", fn(f)+"|loop", w.Pos(f.Pos()), "a "+m+" transaction detector inspects every message of the transaction", "the function takes the message list but no path ever reaches a second message (every branch of the loop body returns)")
		return
	}
	for i, ret := range ir.Returns(f) {
		if len(ret.Results) != 1 {
			continue
		}
		cst, ok := ret.Results[0].(*ssa.Const)
		if !ok || cst.Value == nil || cst.Value.String() != "false" {
			continue
		}
		early := false
		for _, be := range backs {
			src, hdr := be[0], be[1]
			term := src.Instrs[len(src.Instrs)-1]
			for _, b := range f.Blocks {
				if b == hdr || !hdr.Dominates(b) || !ir.ReachesFrom(f, b, 0, term, ir.Cut{}) {
					continue
				}
				// b is a loop-body block: can it reach the false return without passing the loop header again?
				if ir.ReachesFrom(f, b, 0, ret, ir.Cut{Barrier: func(in ssa.Instruction) bool { return in == hdr.Instrs[0] }}) {
					early = true
				}
			}
		}
		r.Require(!early, "A7.detector-exhaustive", fmt.Sprintf("%s|return%d", fn(f), i), pos(c, ret), "a "+m+" transaction detector answers false only after every message was inspected", "a false result is returned from inside the loop over the messages (decided on one message)")
	}
	detectorMonotone(c, f, m, 0)
}

// detectorMonotone (A7.detector-monotone): once one message of the transaction has been recognised as a fee-bearing
// message of the module, the detector's answer (bool result resIdx) is true — whatever the later messages are. Decided
// on the SSA form: from the edge on which a message is recognised, no return can hand back a value that may be false:
// a constant true, or a flag whose every later assignment is again true (`found = true`; `found = found || ok` with
// the branch on ok), is fine; a flag re-assigned from each message in turn (`is = isFee(msg)`) is decided by the LAST
// message, so [fee message, other message] is waved through unchecked.
func detectorMonotone(c *Ctx, f *ssa.Function, m string, resIdx int) {
	w, r := c.W, c.R
	match := w.EstablishedEdges(f, func(p ir.Pred) bool { return isModuleTxPred(c, p, m) }, 3)
	if len(match) == 0 {
		r.Undecided("A7.detector-monotone", fn(f), w.Pos(f.Pos()), "the place where a message is recognised as a "+m+" fee-bearing message is a branch of the detector", "no such branch found (the recognition result flows on as a value)")
		return
	}
	reach := func(from *ssa.BasicBlock, to *ssa.BasicBlock) bool {
		return from == to || len(to.Instrs) > 0 && ir.ReachesFrom(f, from, 0, to.Instrs[0], ir.Cut{})
	}
	bad := ""
	for e := range match {
		b := f.Blocks[e[0]]
		s := b.Succs[e[1]]
		var mayBeFalse func(v ssa.Value, seen map[ssa.Value]bool) bool
		mayBeFalse = func(v ssa.Value, seen map[ssa.Value]bool) bool {
			switch x := v.(type) {
			case *ssa.Const:
				return x.Value == nil || x.Value.String() != "true"
			case *ssa.Phi:
				if seen[x] {
					return false
				}
				seen[x] = true
				if !reach(s, x.Block()) {
					return true // computed before the recognition and not since: unknown
				}
				for i, op := range x.Edges {
					pred := x.Block().Preds[i]
					taken := reach(s, pred) || pred == b && x.Block() == s
					if taken && mayBeFalse(op, seen) {
						return true
					}
				}
				return false
			}
			return true // any other value is computed from a (later) message or unknown
		}
		for _, ret := range ir.Returns(f) {
			if resIdx >= len(ret.Results) || !reach(s, ret.Block()) {
				continue
			}
			if mayBeFalse(ret.Results[resIdx], map[ssa.Value]bool{}) {
				bad = "after a message was recognised at " + w.InstrPos(b.Instrs[len(b.Instrs)-1]) + " the return at " + w.InstrPos(ret) + " can still answer false"
			}
		}
	}
	r.Require(bad == "", "A7.detector-monotone", fn(f), w.Pos(f.Pos()), "a "+m+" transaction detector answers true once any message of the transaction is a fee-bearing "+m+" message", bad)
}

func decoratorOrder(c *Ctx) {
	w, r := c.W, c.R
	chain, err := w.AnteChain()
	if err != nil {
		r.Undecided("A5.decorator-order", "chain", "", "the decorator list is evaluable", err.Error())
		return
	}
	idx := map[string]int{}
	var names []string
	for i, e := range chain {
		n := e.Ctor
		n = strings.TrimPrefix(n, load.RepoMod+"/")
		n = n[strings.LastIndex(n, "/")+1:]
		idx[n] = i + 1
		names = append(names, n)
	}
	order := []string{"ante.NewValidateBasicDecorator", "ante.NewCorrectWrkChainFeeDecorator", "ante.NewCorrectBeaconFeeDecorator", "ante.NewCheckLockedUndDecorator", "ante.NewDeductFeeDecorator", "ante.NewSigVerificationDecorator", "ante.NewIncrementSequenceDecorator"}
	// constructor identities resolved by object: check package too
	full := map[string]string{}
	for _, e := range chain {
		full[e.Ctor[strings.LastIndex(e.Ctor, "/")+1:]] = e.Ctor
	}
	wantPkg := map[string]string{
		"ante.NewCorrectWrkChainFeeDecorator": load.RepoMod + "/x/wrkchain/ante.NewCorrectWrkChainFeeDecorator",
		"ante.NewCorrectBeaconFeeDecorator":   load.RepoMod + "/x/beacon/ante.NewCorrectBeaconFeeDecorator",
		"ante.NewCheckLockedUndDecorator":     load.RepoMod + "/x/enterprise/ante.NewCheckLockedUndDecorator",
		"ante.NewDeductFeeDecorator":          "github.com/cosmos/cosmos-sdk/x/auth/ante.NewDeductFeeDecorator",
		"ante.NewValidateBasicDecorator":      "github.com/cosmos/cosmos-sdk/x/auth/ante.NewValidateBasicDecorator",
		"ante.NewSigVerificationDecorator":    "github.com/cosmos/cosmos-sdk/x/auth/ante.NewSigVerificationDecorator",
		"ante.NewIncrementSequenceDecorator":  "github.com/cosmos/cosmos-sdk/x/auth/ante.NewIncrementSequenceDecorator",
	}
	for i := 0; i < len(order); i++ {
		r.Require(idx[order[i]] > 0 && full[order[i]] == wantPkg[order[i]], "A5.decorator-order", "present|"+order[i], "ante/ante.go", "decorator "+wantPkg[order[i]]+" is in the chain", fmt.Sprintf("chain: %v", names))
		if i+1 < len(order) {
			r.Require(idx[order[i]] > 0 && idx[order[i+1]] > 0 && idx[order[i]] < idx[order[i+1]], "A5.decorator-order", order[i]+"<"+order[i+1], "ante/ante.go", order[i]+" runs before "+order[i+1], fmt.Sprintf("positions %d and %d", idx[order[i]], idx[order[i+1]]))
		}
	}
	r.Analysed["ante_decorators"] = len(chain)
	// the chain is what the app installs
	af := w.LookupFunc("app.NewApp")
	if af == nil {
		af = w.LookupFunc("app.New")
	}
	ok := false
	for _, f := range w.Funcs {
		if ir.RelPkg(ir.FnPkg(f).Path()) != "app" || w.IsGenerated(f) {
			continue
		}
		for _, b := range f.Blocks {
			for _, in := range b.Instrs {
				if call, okc := in.(ssa.CallInstruction); okc && methodNameOf(call) == "SetAnteHandler" {
					e := w.ExprOf(call.Common().Args[len(call.Common().Args)-1])
					if e.Any(func(x *ir.Expr) bool {
						return x.Op == "call" && (x.Name == "ante.NewAnteHandler" || strings.HasSuffix(x.Name, "types.ChainAnteDecorators"))
					}) {
						ok = true
					}
				}
			}
		}
	}
	r.Require(ok, "A5.decorator-order", "installed", "app/app.go", "the application installs ante.NewAnteHandler's chain with SetAnteHandler", "no such call")
}

func amountRule(c *Ctx) {
	w, r := c.W, c.R
	unds := w.AllEffects(func(e ir.Effect) bool { return e.Method == "UndelegateCoinsFromModuleToAccount" })
	sort.Slice(unds, func(i, j int) bool { return unds[i].Site.Pos() < unds[j].Site.Pos() })
	isHasNeg := func(p ir.Pred, pol bool, plusSpendable bool, f *ssa.Function) bool {
		e := p.E
		var a []*ir.Expr
		switch {
		case e.Op == "res" && e.Name == "1" && len(e.Args) == 1 && e.Args[0].Op == "call" && strings.HasSuffix(e.Args[0].Name, "types.Coins).SafeSub"):
			// _, hasNeg := lhs.SafeSub(fee)
			if p.Pol != pol {
				return false
			}
			a = e.Args[0].Args
		case e.Op == "call" && strings.HasSuffix(e.Name, "types.Coins).IsAllGTE"):
			// lhs.IsAllGTE(fee) is "not hasNeg" for a fee of one denomination
			if p.Pol == pol {
				return false
			}
			a = e.Args
		default:
			return false
		}
		if len(a) != 2 {
			return false
		}
		lhs := w.Expand(a[0], 3)
		hasLocked := lhs.Any(func(x *ir.Expr) bool { return isStateField(x, secLocked, "Amount") })
		hasSpend := lhs.Any(func(x *ir.Expr) bool { return x.Op == "call" && strings.HasSuffix(x.Name, ".SpendableCoins") })
		rhs := w.Expand(a[1], 3)
		feeD := rhs.Any(func(x *ir.Expr) bool {
			return x.Op == "call" && (strings.HasSuffix(x.Name, "types.Coins).Find") || strings.HasSuffix(x.Name, "types.Coins).AmountOf")) && len(x.Args) == 2 && isParamPath(x.Args[0]) && isEntParam(c, x.Args[1], "Denom")
		})
		return hasLocked && feeD && hasSpend == plusSpendable
	}
	n := 0
	// classify judges one instantiation of an unlock site: amt is the undelegated amount in f's terms, chain the
	// call sites from f down to the function containing the site. An amount that is still an opaque parameter
	// and is not guarded at this level is judged one level up, at each caller (a helper shared by both branches).
	// extra: edges of the site's own function that are deleted for this instance (the other ways into the block whose phis
	// choose the site's arguments)
	var extra map[[2]int]bool
	var classify func(ue ir.Effect, f *ssa.Function, chain []ssa.Instruction, amt *ir.Expr, key string, depth int)
	classify = func(ue ir.Effect, f *ssa.Function, chain []ssa.Instruction, amt *ir.Expr, key string, depth int) {
		guarded := func(m ir.Matcher) bool {
			if len(extra) == 0 {
				return chainGuarded(c, f, chain, ue.Site, m, 1)
			}
			site := ue.Site
			root := w.FlatRoot(f)
			cut := &ir.FlatCut{Matcher: m, Depth: 1, Edges: func(ctx *ir.FCtx) map[[2]int]bool {
				if ctx.Fn == ue.Fn {
					return extra
				}
				return nil
			}}
			return w.FlatReaches(root, nil, cut, func(p ir.FPos) bool { return p.In == site }) == nil
		}
		lockedAll := w.Expand(amt, 3).Any(func(x *ir.Expr) bool { return isStateField(x, secLocked, "Amount") })
		switch {
		case lockedAll:
			n++
			g1 := guarded(func(p ir.Pred) bool { return isHasNeg(p, true, false, f) })
			g2 := guarded(func(p ir.Pred) bool { return isHasNeg(p, false, true, f) })
			r.Require(g1 && g2, "A2.amount-rule", key+"|all-locked", pos(c, ue.Site), "the whole locked amount is unlocked only when it does not cover the fee but spendable + locked does", fmt.Sprintf("locked<fee guard=%v, spendable+locked>=fee guard=%v", g1, g2))
		case isParamPath(amt) || feePortion(c, amt):
			if guarded(func(p ir.Pred) bool { return isHasNeg(p, false, false, f) }) {
				n++
				r.OK("A2.amount-rule", key+"|fee", pos(c, ue.Site), "the fee is unlocked only when locked − fee (fee denomination) is not negative")
				return
			}
			ups := w.OriginsUp(f, amt, 1)
			lifted := false
			for ui, up := range ups {
				if up.Top == f || depth >= 3 {
					continue
				}
				lifted = true
				classify(ue, up.Top, append(append([]ssa.Instruction{}, up.Chain...), chain...), up.E, fmt.Sprintf("%s@%d", key, ui), depth+1)
			}
			if !lifted {
				n++
				r.Bad("A2.amount-rule", key+"|fee", pos(c, ue.Site), "the fee is unlocked only when locked − fee (fee denomination) is not negative", "no such guard")
			}
		default:
			n++
			r.Bad("A2.amount-rule", key+"|amount", pos(c, ue.Site), "an unlock releases either the fee coins or the whole locked amount", "amount "+amt.String())
		}
	}
	for i, ue := range unds {
		f := ue.Fn
		if !c.Rooted(f) {
			continue
		}
		// (one site whose amount is chosen by a branch beforehand counts once per way of choosing it)
		insts := ir.PhiInstances(ue.Call.Common().Args[3])
		for k, inst := range insts {
			extra = inst.Cut
			key := fmt.Sprintf("%s|undelegate%d", fn(f), i)
			if len(insts) > 1 {
				key += fmt.Sprintf("/%d", k)
			}
			classify(ue, f, nil, w.ExprOf(inst.Value(ue.Call.Common().Args[3])), key, 0)
		}
		extra = nil
	}
	r.Require(n == 2, "A2.amount-rule", "site-count", "", "there are exactly two unlock sites", fmt.Sprintf("%d", n))
}

// isParamPath: a parameter, or a field (of a field ...) of one — a value the function was handed, possibly inside a bundle struct.
func isParamPath(e *ir.Expr) bool {
	for e != nil && e.Op == "field" && len(e.Args) == 1 {
		e = e.Args[0]
	}
	return e != nil && e.Op == "param"
}

// spendableNeutral is rule A2.spendable-neutral: completing a purchase order does not route the minted coins through the
// purchaser's own account with a send followed by DelegateCoinsFromAccountToModule from that account. The bank books such a
// delegation against the account's *vesting* coins first (TrackDelegation: DelegatedVesting grows by min(amount, vesting -
// delegated vesting)), so for a purchaser that is a vesting account LockedCoins shrinks by the order amount and as much of
// its original, still-vesting balance becomes spendable — "completing a purchase order never increases the purchaser's
// spendable balance" fails for that account kind. (Trusted: the SDK's vesting bookkeeping as of v0.47.)
func spendableNeutral(c *Ctx) {
	w, r := c.W, c.R
	n := 0
	for _, e := range w.AllEffects(func(e ir.Effect) bool {
		return e.Method == "DelegateCoinsFromAccountToModule" && ir.ModuleOf(e.Fn) == "enterprise"
	}) {
		if !c.Rooted(e.Fn) || w.IsGenerated(e.Fn) {
			continue
		}
		call := e.Call
		if call == nil || len(call.Common().Args) < 2 {
			continue
		}
		n++
		args := call.Common().Args
		delegator := w.ExprOf(args[len(args)-3]).String()
		// is the delegator the recipient of a send of minted coins in the same function?
		viaOwn := false
		isSend := directSites(c, func(x ir.Effect) bool { return x.Method == "SendCoinsFromModuleToAccount" })
		w.FlatWalk(w.FlatRoot(e.Fn), nil, nil, func(p ir.FPos) bool {
			if !isSend(p.In) {
				return true
			}
			if sc, ok := p.In.(ssa.CallInstruction); ok {
				a2 := sc.Common().Args
				if len(a2) >= 2 && p.Ctx.Apply(w.ExprOf(a2[len(a2)-2])).String() == delegator {
					viaOwn = true
				}
			}
			return true
		})
		r.Require(!viaOwn, "A2.spendable-neutral", fn(e.Fn)+"|delegate-from-purchaser", pos(c, e.Site),
			"locking the minted coins does not delegate them from the purchaser's own account (for a vesting account the bank counts that delegation against its vesting coins: as much still-vesting balance becomes spendable)",
			"the minted coins are sent to "+delegator+" and delegated back from that account")
	}
	r.Floor("delegations into the enterprise escrow", n, 1)
}

// feePortion: amt is the part of the fee coins (a parameter) in the enterprise denomination, as a coin set:
// NewCoins(NewCoin(params.Denom, fees.AmountOf(params.Denom))).
func feePortion(c *Ctx, amt *ir.Expr) bool {
	x := c.W.Expand(amt, 3)
	if calleeIs(x, "types.NewCoins") && len(x.Args) == 1 && x.Args[0].Op == "list" && len(x.Args[0].Args) == 1 {
		x = x.Args[0].Args[0]
	}
	if !calleeIs(x, "types.NewCoin") || len(x.Args) != 2 || !isEntParam(c, x.Args[0], "Denom") {
		return false
	}
	a := x.Args[1]
	return a.Op == "call" && strings.HasSuffix(a.Name, "types.Coins).AmountOf") && len(a.Args) == 2 && isParamPath(a.Args[0]) && isEntParam(c, a.Args[1], "Denom")
}
