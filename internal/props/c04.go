package props

import (
	"fmt"
	"go/ast"
	"os"
	"strings"

	"golang.org/x/tools/go/ssa"

	"mcverif/internal/ir"
)

func init() { Registry["C04"] = C04 }

// bankModuleArgs returns the constant module-name arguments of a bank call as (from, to).
func bankModuleArgs(c *Ctx, e ir.Effect) (from, to string) {
	args := e.Call.Common().Args
	cs := func(i int) string {
		if i < len(args) {
			x := c.W.ExprOf(args[i])
			if x.Op == "const" {
				return strings.Trim(x.Name, `"`)
			}
			return "?" + x.String()
		}
		return ""
	}
	switch e.Method {
	case "MintCoins", "BurnCoins":
		return "", cs(1)
	case "SendCoinsFromModuleToAccount", "UndelegateCoinsFromModuleToAccount":
		return cs(1), ""
	case "SendCoinsFromAccountToModule", "DelegateCoinsFromAccountToModule":
		return "", cs(2)
	case "SendCoinsFromModuleToModule":
		return cs(1), cs(2)
	}
	return "", ""
}

func isBankish(e ir.Effect) bool { return e.Kind == "Bank" || e.Kind == "Mint" || e.Kind == "Burn" }

// escrowMoves checks that bank movements naming `module` occur only with the allowed methods
// from the allowed roots. allowed: method -> root kinds.
func escrowMoves(c *Ctx, rule, module string, allowed map[string][]string) int {
	w, r := c.W, c.R
	n := 0
	seen := map[string]bool{}
	for _, h := range w.WhoReaches(ir.RootKinds, isBankish) {
		from, to := bankModuleArgs(c, h.Eff)
		if from != module && to != module && !strings.HasPrefix(from, "?") && !strings.HasPrefix(to, "?") {
			continue
		}
		if strings.HasPrefix(from, "?") || strings.HasPrefix(to, "?") {
			// non-constant module name: only acceptable in another module's own keeper (e.g. the fee collector name field)
			if ir.ModuleOf(h.Eff.Fn) == module || ir.ModuleOf(h.Eff.Fn) == "" {
				k := "nonconst|" + fn(h.Eff.Fn) + "|" + h.Eff.Method
				if !seen[k] {
					seen[k] = true
					okNC := module == "stream" && strings.HasSuffix(to, "feeCollectorName") && from == module
					r.Require(okNC, rule, k, pos(c, h.Eff.Site), "module names in bank calls are constants (or the stream keeper's fee-collector field as recipient)", "from="+from+" to="+to)
				}
				if !(module == "stream" && from == module) {
					continue
				}
			} else {
				continue
			}
		}
		sub := w.SubRootKind(h.Kind, h.Root)
		dir := "from"
		if to == module {
			dir = "to"
		}
		k := fmt.Sprintf("%s|%s|%s|root=%s", h.Eff.Method, dir, fn(h.Eff.Fn), fn(h.Root))
		if seen[k] {
			continue
		}
		seen[k] = true
		n++
		ok := false
		for _, a := range allowed[h.Eff.Method+":"+dir] {
			if sub == a || strings.HasPrefix(sub, a+":") || strings.HasPrefix(sub, a+".") {
				ok = true
			}
		}
		r.Require(ok, rule, k, pos(c, h.Eff.Site), fmt.Sprintf("%s %s the %s module account only from %v", h.Eff.Method, dir, module, allowed[h.Eff.Method+":"+dir]),
			"reachable from "+sub+" via "+pathStr(h.Path))
	}
	return n
}

func C04(c *Ctx) {
	w, r := c.W, c.R
	r.Explanation = "(A1) who-may-reach: the locked/spent sections and every bank movement naming the enterprise module account are reachable only from the mint route (enterprise BeginBlock), the unlock route (CheckLockedUnd ante decorator) and genesis import; no transfer names the enterprise account as recipient except the lock step; " +
		"(A3) pairing with one coin origin: in the mint route Mint(c) ≺ SendModuleToAccount(enterprise→r, c) ≺ Delegate(r→enterprise, c) ≺ locked[r]+=c & total+=c on every success path (the only other success path is the zero-amount early return); in the unlock route every Undelegate(X) is followed on all success paths by locked-=a and spent+=a with a = X or its fee-denom projection; the increment/decrement helpers write both the per-account and the total counter; " +
		"(A8) no bank error is dropped on those routes; (A5) BlockedAddresses() is built from all maccPerms keys, deletes only non-escrow accounts and is what the bank keeper receives; (A2) genesis import returns normally only when the escrow balance equals TotalLocked. " +
		"Structural necessary conditions on every path; the numeric Σ-invariants themselves are not decided."
	r.Rules = []string{"A1.book-writers", "A1.escrow-moves", "A3.mint-route-pairing", "A3.unlock-pairing", "A3.counter-pairs", "A8.bank-errors", "A5.blocked-addresses", "A2.genesis-balance", "A3.lost-update", "A3.stale-element-pointer", "A3.element-carry", "A3.no-stale-writeback", "A7.export-complete", "A7.export-fields", "A3.completion-pairing", "A3.tally-pairing", "A3.one-block-delay", "A7.derived-queues", "A7.import-fields", "TS.status-transition"}
	lostUpdateControl(c)
	r.Floor("functions of enterprise scanned for dropped updates to record copies", lostUpdates(c, "enterprise"), 40)
	r.Trusted = []string{"bank DelegateCoinsFromAccountToModule / UndelegateCoinsFromModuleToAccount move exactly the given coins or fail", "bank refuses transfers to blocked addresses"}
	r.NotDecided = []string{"escrow balance == Σ locked as a numeric invariant", "the clamp-to-zero branch of decrementLockedUnd is never taken", "consistency of per-account and total figures in a genesis file"}

	writes := func(sec string) func(ir.Effect) bool {
		return func(e ir.Effect) bool { return (e.Kind == "StoreWrite" || e.Kind == "StoreDelete") && e.Section == sec }
	}
	n := 0
	lockRoots := []string{"BEGIN:enterprise", "ANTE", "INITGEN:enterprise"}
	spentRoots := []string{"ANTE", "INITGEN:enterprise"}
	n += whoMayReach(c, "A1.book-writers", "the per-account locked section", writes(secLocked), lockRoots)
	n += whoMayReach(c, "A1.book-writers", "the total-locked counter", writes(secTotLocked), lockRoots)
	n += whoMayReach(c, "A1.book-writers", "the per-account spent section", writes(secSpent), spentRoots)
	n += whoMayReach(c, "A1.book-writers", "the total-spent counter", writes(secTotSpent), spentRoots)
	r.Floor("root/book-writer pairs", n, 10)
	// ANTE must be exactly the CheckLockedUnd decorator
	for _, h := range w.WhoReaches([]string{"ANTEALL"}, func(e ir.Effect) bool {
		return writes(secLocked)(e) || writes(secSpent)(e) || writes(secTotLocked)(e) || writes(secTotSpent)(e)
	}) {
		r.Require(ir.ModuleOf(h.Root) == "enterprise", "A1.book-writers", "ante-root|"+fn(h.Root)+"|"+h.Eff.Section, pos(c, h.Eff.Site), "among ante decorators only the enterprise one touches the eFUND books", "reachable from "+fn(h.Root))
	}

	m := escrowMoves(c, "A1.escrow-moves", "enterprise", map[string][]string{
		"MintCoins:to":                            {"BEGIN:enterprise"},
		"SendCoinsFromModuleToAccount:from":       {"BEGIN:enterprise"},
		"DelegateCoinsFromAccountToModule:to":     {"BEGIN:enterprise"},
		"UndelegateCoinsFromModuleToAccount:from": {"ANTE"},
	})
	r.Floor("bank movements naming the enterprise account", m, 4)

	mintRoutePairing(c)
	unlockPairing(c)
	bankErrors(c, "enterprise")
	blockedAddresses(c, []string{"enterprise", "stream"})
	// the books balance across a restart as well: the export lists every per-account record the totals were built from
	exportComplete(c, "enterprise")
	// "locked plus spent equals the sum of its completed purchase orders": every completed order is minted and locked exactly once
	blockerOrdering(c)
	statusTypestate(c)
	exportSections(c) // each exported list is the whole section it stands for (no per-record selection on the way out)
	genesisBalance(c, "enterprise")
}

// callReaching returns a predicate over instructions of f: a call that is, or reaches, an effect accepted by pred.
func callReaching(c *Ctx, f *ssa.Function, pred func(ir.Effect) bool) func(ssa.Instruction) bool {
	direct := map[ssa.Instruction]bool{}
	for _, e := range c.W.EffectsOf(f) {
		if pred(e) {
			direct[e.Site] = true
		}
	}
	memo := map[ssa.Instruction]bool{}
	return func(in ssa.Instruction) bool {
		if direct[in] {
			return true
		}
		if v, ok := memo[in]; ok {
			return v
		}
		res := false
		if call, ok := in.(ssa.CallInstruction); ok {
			for _, t := range c.W.CalleesOf(call) {
				if reachesEffect(c, t, pred) {
					res = true
				}
			}
		}
		memo[in] = res
		return res
	}
}

func findInstrs(f *ssa.Function, pred func(ssa.Instruction) bool) []ssa.Instruction {
	var out []ssa.Instruction
	for _, b := range f.Blocks {
		for _, in := range b.Instrs {
			if pred(in) {
				out = append(out, in)
			}
		}
	}
	return out
}

func mintRoutePairing(c *Ctx) {
	w, r := c.W, c.R
	mints := w.AllEffects(func(e ir.Effect) bool { return e.Kind == "Mint" })
	n := 0
	type scoped struct {
		me ir.Effect
		f  *ssa.Function
	}
	var work []scoped
	for _, me := range mints {
		if !c.Rooted(me.Fn) {
			continue
		}
		// the route is judged in the function that holds all of it: the function of the mint call itself, or — when the
		// route was split into phases (mint and deliver / delegate and book) — the nearest caller(s) from which every step
		// is reached
		hasAll := func(g *ssa.Function) bool {
			root := w.FlatRoot(g)
			for _, is := range []func(ssa.Instruction) bool{
				directSites(c, func(e ir.Effect) bool { return e.Method == "SendCoinsFromModuleToAccount" }),
				directSites(c, func(e ir.Effect) bool { return e.Method == "DelegateCoinsFromAccountToModule" }),
				directSites(c, func(e ir.Effect) bool { return e.Kind == "StoreWrite" && e.Section == secLocked }),
			} {
				if len(w.FlatOccurrences(root, is)) == 0 {
					return false
				}
			}
			return true
		}
		level := []*ssa.Function{me.Fn}
		seen := map[*ssa.Function]bool{me.Fn: true}
		found := false
		for depth := 0; depth < 4 && len(level) > 0 && !found; depth++ {
			var next []*ssa.Function
			for _, g := range level {
				if hasAll(g) {
					work = append(work, scoped{me, g})
					found = true
					continue
				}
				for _, ed := range w.Callers(g) {
					if c.Rooted(ed.From) && !seen[ed.From] && ir.ModuleOf(ed.From) == "enterprise" {
						seen[ed.From] = true
						next = append(next, ed.From)
					}
				}
			}
			level = next
		}
		if !found {
			work = append(work, scoped{me, me.Fn})
		}
	}
	for _, sc := range work {
		me, f := sc.me, sc.f
		n++
		key := fn(f)
		isMint := func(in ssa.Instruction) bool { return in == me.Site }
		// asked on the flat (call-expanded) view: a step counts where the bank / store call itself stands,
		// whether in this function, in a wrapper, or inlined
		isSend := directSites(c, func(e ir.Effect) bool { return e.Method == "SendCoinsFromModuleToAccount" })
		isDeleg := directSites(c, func(e ir.Effect) bool { return e.Method == "DelegateCoinsFromAccountToModule" })
		isIncL := directSites(c, func(e ir.Effect) bool { return e.Kind == "StoreWrite" && e.Section == secLocked })
		isIncT := directSites(c, func(e ir.Effect) bool { return e.Kind == "StoreWrite" && e.Section == secTotLocked })
		// the only success paths that skip the steps are those on which the amount is zero / the coin set empty
		zero := func(p ir.Pred) bool {
			return p.Pol && p.E.Op == "call" && (strings.HasSuffix(p.E.Name, ".IsZero") || strings.HasSuffix(p.E.Name, "types.Coins).Empty"))
		}
		steps := []struct {
			name string
			is   func(ssa.Instruction) bool
		}{{"MintCoins", isMint}, {"SendCoinsFromModuleToAccount", isSend}, {"DelegateCoinsFromAccountToModule", isDeleg}, {"locked[recipient] += amount", isIncL}, {"total locked += amount", isIncT}}
		for _, s := range steps {
			bad := w.FlatMustPassM(f, s.is, zero)
			r.Require(len(bad) == 0, "A3.mint-route-pairing", key+"|must|"+s.name, pos(c, me.Site), "every successful, non-zero mint performs "+s.name, fmt.Sprintf("%d success return(s) reachable without it", len(bad)))
		}
		for i := 0; i+1 < len(steps)-1; i++ {
			r.Require(w.FlatPrecedesM(f, steps[i].is, steps[i+1].is, zero), "A3.mint-route-pairing", key+"|order|"+steps[i].name+"<"+steps[i+1].name, pos(c, me.Site), steps[i].name+" precedes "+steps[i+1].name+" on every path", "a path reaches the later step without the earlier one")
		}
		// one coin origin and one recipient throughout
		coins := w.ExprOf(me.Call.Common().Args[2]).String()
		if f != me.Fn {
			for _, in := range instantiate(c, f, func(e ir.Effect) bool { return e.Kind == "Mint" && e.Site == me.Site }, func(e ir.Effect) *ir.Expr { return w.ExprOf(e.Call.Common().Args[2]) }) {
				coins = in.E.String()
			}
		}
		var recips []string
		for _, in := range instantiate(c, f, func(e ir.Effect) bool {
			return e.Method == "SendCoinsFromModuleToAccount" || e.Method == "DelegateCoinsFromAccountToModule"
		}, func(e ir.Effect) *ir.Expr {
			a := e.Call.Common().Args
			who := a[2]
			if e.Method == "DelegateCoinsFromAccountToModule" {
				who = a[1]
			}
			return &ir.Expr{Op: "pair", Args: []*ir.Expr{w.ExprOf(a[3]), w.ExprOf(who)}}
		}) {
			r.Require(in.E.Args[0].String() == coins, "A3.mint-route-pairing", key+"|coins|"+in.Eff.Method, pos(c, in.Eff.Site), "the coins sent and delegated are exactly the coins minted", "minted "+coins+" but moves "+in.E.Args[0].String())
			recips = append(recips, in.E.Args[1].String())
		}
		same := len(recips) == 2 && recips[0] == recips[1]
		r.Require(same, "A3.mint-route-pairing", key+"|recipient", pos(c, me.Site), "the account credited is the account whose coins are delegated back", fmt.Sprint(recips))
		// locked increment uses the same recipient and amount
		for _, in := range instantiate(c, f, func(e ir.Effect) bool {
			return e.Kind == "StoreWrite" && (e.Section == secLocked || e.Section == secTotLocked)
		}, func(e ir.Effect) *ir.Expr { return marshalArg(c, e) }) {
			// (the loaded record may be handed in by the caller: judged in the terms of each caller then)
			coinsE := w.ExprOf(me.Call.Common().Args[2])
			if f != me.Fn {
				for _, in2 := range instantiate(c, f, func(e ir.Effect) bool { return e.Kind == "Mint" && e.Site == me.Site }, func(e ir.Effect) *ir.Expr { return w.ExprOf(e.Call.Common().Args[2]) }) {
					coinsE = in2.E
				}
			}
			tup := &ir.Expr{Op: "tuple", Args: []*ir.Expr{in.E, coinsE}}
			forms := []*ir.Expr{tup}
			if tup.Any(func(x *ir.Expr) bool { return x.Op == "param" && x.Name != "k" && x.Name != "ctx" }) {
				if ups := w.OriginsUp(f, tup, 3); len(ups) > 0 {
					forms = nil
					for _, up := range ups {
						forms = append(forms, up.E)
					}
				}
			}
			ok := true
			d := "<unresolved>"
			for _, form := range forms {
				if form.Op != "tuple" || len(form.Args) != 2 {
					ok = false
					continue
				}
				v := w.Expand(form.Args[0], 3)
				coinsU := form.Args[1].String()
				amt := v
				if in.Eff.Section == secLocked {
					amt = fieldOfStruct(v, "Amount")
				}
				ok1 := amt != nil && amt.Op == "call" && strings.HasSuffix(amt.Name, "types.Coin).Add") && len(amt.Args) == 2 &&
					(strings.Contains(coinsU, amt.Args[1].String()) || strings.Contains(w.Expand(form.Args[1], 3).String(), amt.Args[1].String()))
				if ok1 {
					// base is the stored value of the same section
					base := amt.Args[0]
					ok1 = base.Any(func(x *ir.Expr) bool { return x.Op == "state" && x.Name == in.Eff.Section })
				}
				if amt != nil {
					d = amt.String()
				}
				ok = ok && ok1
			}
			r.Require(ok, "A3.mint-route-pairing", key+"|increment|"+in.Eff.Section, pos(c, in.Eff.Site), "the locked counter becomes (stored value).Add(minted amount)", "stored "+d)
		}
	}
	r.Floor("rooted mint sites", n, 1)
}

func unlockPairing(c *Ctx) {
	w, r := c.W, c.R
	unds := w.AllEffects(func(e ir.Effect) bool { return e.Method == "UndelegateCoinsFromModuleToAccount" })
	n := 0
	for i, ue := range unds {
		f := ue.Fn
		if !c.Rooted(f) {
			continue
		}
		key := fmt.Sprintf("%s|undelegate%d", fn(f), i)
		x := w.ExprOf(ue.Call.Common().Args[3])
		whoE := w.ExprOf(ue.Call.Common().Args[2])
		// one unlock site per way the undelegated amount is instantiated by the callers (a helper shared by both branches
		// counts twice), and per way a branch beforehand chooses it (`switch verdict { case fee: x, a = ...; case all: x, a = ... }`)
		insts := ir.PhiInstances(ue.Call.Common().Args[3])
		n += len(w.OriginsUp(f, x, 4)) * len(insts)
		isDec := callReaching(c, f, func(e ir.Effect) bool { return e.Kind == "StoreWrite" && e.Section == secLocked })
		isSpent := callReaching(c, f, func(e ir.Effect) bool { return e.Kind == "StoreWrite" && e.Section == secSpent })
		// after the undelegate, every success return passes a decrement and a spent increment
		for _, step := range []struct {
			name string
			is   func(ssa.Instruction) bool
		}{{"locked -= a", isDec}, {"spent += a", isSpent}} {
			bad := 0
			for _, ret := range w.SuccessReturns(f) {
				if ir.ReachesFrom(f, ue.Site.Block(), ir.InstrIndex(ue.Site)+1, ret, ir.Cut{Barrier: step.is}) {
					bad++
				}
			}
			r.Require(bad == 0, "A3.unlock-pairing", key+"|must|"+step.name, pos(c, ue.Site), "after undelegating, every successful path records "+step.name, fmt.Sprintf("%d success return(s) reachable without it", bad))
		}
		// amounts: the first decrement/increment calls after the site carry a = X or proj_denom(X)
		for _, b := range f.Blocks {
			for _, in := range b.Instrs {
				if !(isDec(in) || isSpent(in)) || in == ue.Site {
					continue
				}
				if !ue.Site.Block().Dominates(in.Block()) || !ir.ReachesFrom(f, ue.Site.Block(), ir.InstrIndex(ue.Site)+1, in, ir.Cut{}) {
					continue
				}
				call := in.(ssa.CallInstruction)
				args := call.Common().Args
				if len(args) < 3 {
					continue
				}
				addrE := w.ExprOf(args[len(args)-2])
				okAll, detail := true, ""
				for _, inst := range insts {
					xk := w.ExprOf(inst.Value(ue.Call.Common().Args[3]))
					amt := w.ExprOf(inst.Value(args[len(args)-1]))
					// judged in the callers' terms: lift the four expressions together along every call chain
					tup := &ir.Expr{Op: "tuple", Args: []*ir.Expr{xk, amt, whoE, addrE}}
					for _, up := range w.OriginsUp(f, tup, 4) {
						if up.E.Op != "tuple" || len(up.E.Args) != 4 {
							okAll, detail = false, "cannot instantiate the amounts at the callers"
							break
						}
						ux, uamt, uwho, uaddr := up.E.Args[0], up.E.Args[1], up.E.Args[2], up.E.Args[3]
						if !(uaddr.String() == uwho.String() && amountMatches(c, uamt, ux)) {
							okAll = false
							detail = fmt.Sprintf("undelegated %s to %s; booked %s for %s (in %s)", ux, uwho, uamt, uaddr, fn(up.Top))
						}
					}
				}
				r.Require(okAll, "A3.unlock-pairing", key+"|amount|"+siteName(c, in), pos(c, in), "the books are adjusted for the same account and by the undelegated amount (or its fee-denomination part)", detail)
			}
		}
	}
	r.Floor("rooted undelegate sites", n, 2)
	r.Require(n == 2, "A3.unlock-pairing", "site-count", "", "exactly two unlock sites exist (fee fully covered / locked funds used up)", fmt.Sprintf("%d sites", n))

	counterPairs(c)
	// no counter record is written twice from one read (lost update across the iterations of a block step)
	ns := 0
	roots := append(append([]*ssa.Function{}, w.Roots["BEGIN:enterprise"]...), w.Roots["ANTE:enterprise"]...)
	for _, sec := range []string{secLocked, secTotLocked, secSpent, secTotSpent} {
		ns += staleRewrite(c, "A3.no-stale-writeback", roots, sec)
	}
	r.Floor("counter write occurrences judged for re-reads", ns, 4)
}

// amountMatches: a == X, or a == NewCoin(d, X.AmountOf(d)) with d the enterprise denom, or X == NewCoins(a).
func amountMatches(c *Ctx, a, x *ir.Expr) bool {
	if a.String() == x.String() {
		return true
	}
	if x.Op == "call" && strings.HasSuffix(x.Name, "types.NewCoins") && len(x.Args) == 1 && x.Args[0].Op == "list" && len(x.Args[0].Args) == 1 && x.Args[0].Args[0].String() == a.String() {
		return true
	}
	if a.Op == "call" && strings.HasSuffix(a.Name, "types.NewCoin") && len(a.Args) == 2 {
		d, amt := a.Args[0], a.Args[1]
		if isEntParam(c, d, "Denom") && amt.Op == "call" && strings.HasSuffix(amt.Name, "types.Coins).AmountOf") && len(amt.Args) == 2 && amt.Args[0].String() == x.String() && isEntParam(c, amt.Args[1], "Denom") {
			return true
		}
	}
	return false
}

// bankErrors (A8): no call site on a rooted route drops the error of a bank mutation or of a
// repo function that transitively performs one.
func bankErrors(c *Ctx, module string) {
	w, r := c.W, c.R
	n := 0
	for _, f := range w.Funcs {
		if w.IsGenerated(f) || ir.IsFixture(f) || !c.Rooted(f) || ir.ModuleOf(f) != module {
			continue
		}
		is := callReaching(c, f, func(e ir.Effect) bool { return isBankish(e) })
		for _, in := range findInstrs(f, is) {
			call := in.(ssa.CallInstruction)
			if ir.ErrIndexOfCall(call) < 0 {
				continue
			}
			n++
			r.Require(!errorDropped(call), "A8.bank-errors", fn(f)+"|"+siteName(c, in), pos(c, in), "the error of a bank movement (or of a helper performing one) is never dropped", "result discarded")
		}
	}
	r.Floor("bank-moving call sites with an error result in "+module, n, 4)
}

func blockedAddresses(c *Ctx, must []string, free ...string) {
	w, r := c.W, c.R
	f := w.LookupFunc("app.BlockedAddresses")
	if f == nil {
		r.Undecided("A5.blocked-addresses", "func", "", "app.BlockedAddresses exists", "not found")
		return
	}
	deleted := map[string]bool{}
	rangesAll := false
	constModule := func(e *ir.Expr) string {
		name := ""
		e.Walk(func(z *ir.Expr) bool {
			if z.Op == "call" && strings.HasSuffix(z.Name, "types.NewModuleAddress") && len(z.Args) == 1 && z.Args[0].Op == "const" {
				name = strings.Trim(z.Args[0].Name, `"`)
			}
			return true
		})
		return name
	}
	var updates []*ssa.MapUpdate
	var next *ssa.Next
	for _, b := range f.Blocks {
		for _, in := range b.Instrs {
			switch x := in.(type) {
			case *ssa.Call:
				if bi, ok := x.Common().Value.(*ssa.Builtin); ok && bi.Name() == "delete" {
					ke := w.Expand(w.ExprOf(x.Common().Args[1]), 2)
					name := constModule(ke)
					if name == "" {
						// the key may range over a list of constant module names written in place (`for _, m := range []string{gov}`)
						all := true
						var names []string
						for _, alt := range ir.UnrollLists(ke).Alts() {
							if nm := constModule(alt); nm != "" {
								names = append(names, nm)
							} else {
								all = false
							}
						}
						if all && len(names) > 0 {
							for _, nm := range names {
								deleted[nm] = true
							}
							continue
						}
					}
					if name == "" {
						// the key may range over a constant table of module names (a package-level []string never written after init)
						if names := tableModules(c, ke); len(names) > 0 {
							for _, nm := range names {
								deleted[nm] = true
							}
							continue
						}
						name = "?"
					}
					deleted[name] = true
				}
			case *ssa.Range:
				e := w.Expand(w.ExprOf(x.X), 2)
				if e.Any(func(z *ir.Expr) bool { return z.Op == "global" && z.Name == "app."+maccPermsVar(c) }) || copiesPermsMap(c, x.X) {
					rangesAll = true
					if refs := x.Referrers(); refs != nil {
						for _, y := range *refs {
							if n, ok := y.(*ssa.Next); ok {
								next = n
							}
						}
					}
				}
			case *ssa.MapUpdate:
				updates = append(updates, x)
			}
		}
	}
	// every entry written is the constant true (BlockedAddr looks the value up: a false entry is not blocked)
	for i, u := range updates {
		v, isConst := u.Value.(*ssa.Const)
		okTrue := isConst && v.Value != nil && v.Value.String() == "true"
		r.Require(okTrue, "A5.blocked-addresses", fmt.Sprintf("entry-value|%d", i+1), pos(c, u), "every entry of the blocked-address map is the constant true", "entry value "+w.ExprOf(u.Value).String())
	}
	// every iteration over maccPerms inserts its key, except where the key is compared with a constant module's address
	if next != nil && len(updates) > 0 {
		skip := w.EstablishedEdges(f, func(p ir.Pred) bool {
			op, x, y, ok := p.Cmp()
			if !ok || op != "==" {
				return false
			}
			for _, side := range []*ir.Expr{x, y} {
				if m := constModule(w.Expand(side, 2)); m != "" {
					deleted[m] = true
					return true
				}
			}
			return false
		}, 0)
		// ... or where a constant table of per-account policies, looked up by the key, says so (a package-level map literal
		// that nothing writes; the zero value for an account it does not list): judged account by account — the edges on
		// which a test of the table holds that is false for the account are not taken for it
		tableTest := func(p ir.Pred) (table map[string]string, want, op string, ok bool) {
			op, x, y, okc := p.Cmp()
			if !okc || op != "==" && op != "!=" {
				return nil, "", "", false
			}
			for _, pr := range [][2]*ir.Expr{{x, y}, {y, x}} {
				lk, kc := pr[0], pr[1]
				if lk.Op == "res" && len(lk.Args) == 1 {
					lk = lk.Args[0]
				}
				if lk.Op != "lookup" || len(lk.Args) != 2 || kc.Op != "const" || lk.Args[0].Op != "global" {
					continue
				}
				g, _ := lk.Args[0].V.(*ssa.Global)
				if g == nil || !globalNeverWritten(c, g) {
					continue
				}
				pk := w.Pkg(ir.RelPkg(g.Pkg.Pkg.Path()))
				if pk == nil {
					continue
				}
				init := w.VarInit(pk, g.Name())
				if init == nil {
					continue
				}
				t, err := ir.EvalConstMap(pk, init)
				if err != nil {
					continue
				}
				if wv := constExact(kc); wv != "" {
					return t, wv, op, true
				}
			}
			return nil, "", "", false
		}
		usesTable := len(w.EstablishedEdges(f, func(p ir.Pred) bool { _, _, _, ok := tableTest(p); return ok }, 0)) > 0
		if usesTable {
			isUpd := func(in ssa.Instruction) bool { _, ok := in.(*ssa.MapUpdate); return ok }
			if mp, _, err := MaccPerms(c); err == nil {
				for acct := range mp {
					acct := acct
					notTaken := w.EstablishedEdges(f, func(p ir.Pred) bool {
						table, want, op, ok := tableTest(p)
						if !ok {
							return false
						}
						val, listed := table[acct]
						if !listed {
							val = "0"
						}
						return (val == want) != (op == "==")
					}, 0)
					if len(ir.AfterReachesBackEdgeWithoutCut(f, next, isUpd, notTaken)) > 0 {
						deleted[acct] = true
					}
				}
			} else {
				deleted["?"] = true
			}
			for k := range w.EstablishedEdges(f, func(p ir.Pred) bool { _, _, _, ok := tableTest(p); return ok }, 0) {
				skip[k] = true
			}
		}
		isUpd := func(in ssa.Instruction) bool { _, ok := in.(*ssa.MapUpdate); return ok }
		missed := ir.AfterReachesBackEdgeWithoutCut(f, next, isUpd, skip)
		r.Require(len(missed) == 0, "A5.blocked-addresses", "every-key-inserted", pos(c, next), "every module account of maccPerms is inserted into the blocked list, except those compared with a constant module address", "an iteration can finish without inserting its key")
	} else if names, at := blockedFromTable(c, f, updates); len(names) > 0 {
		// the list written out: a package-level []string of module names that nothing modifies, every element inserted. What it
		// leaves out of maccPerms is what is exempt
		rangesAll = true
		listed := map[string]bool{}
		for _, nm := range names {
			listed[nm] = true
		}
		if mp, _, err := MaccPerms(c); err == nil {
			for acct := range mp {
				if !listed[acct] {
					deleted[acct] = true
				}
			}
		} else {
			deleted["?"] = true
		}
		r.OK("A5.blocked-addresses", "every-key-inserted", pos(c, at), "every name of the constant list of blocked module accounts is inserted")
	} else {
		r.Require(false, "A5.blocked-addresses", "every-key-inserted", w.Pos(f.Pos()), "the blocked list is filled by a loop over maccPerms", "no range-over-maccPerms loop with a map insert found")
	}
	r.Require(rangesAll, "A5.blocked-addresses", "source", w.Pos(f.Pos()), "the blocked list is built from every key of maccPerms", "does not range over maccPerms")
	mp, _, err := MaccPerms(c)
	if err != nil {
		r.Undecided("A5.blocked-addresses", "maccperms", "", "maccPerms evaluable", err.Error())
		return
	}
	for _, m := range must {
		_, has := mp[m]
		r.Require(has && !deleted[m] && !deleted["?"], "A5.blocked-addresses", "blocked|"+m, w.Pos(f.Pos()), "the "+m+" module account is a blocked recipient", fmt.Sprintf("in maccPerms=%v, removed from blocked list=%v (deletions: %s)", has, deleted[m], setStr(deleted)))
	}
	// accounts that must stay able to receive: the governance account funds streams through proposals and is refunded when
	// it cancels them (a blocked sender's cancel aborts at the refund)
	for _, m := range free {
		_, has := mp[m]
		r.Require(has && deleted[m], "A5.blocked-addresses", "receivable|"+m, w.Pos(f.Pos()), "the "+m+" module account is exempt from the blocked list (it can be refunded)", fmt.Sprintf("in maccPerms=%v, removed from blocked list=%v (deletions: %s)", has, deleted[m], setStr(deleted)))
	}
	// the bank keeper receives BlockedAddresses()
	pk := w.Pkg("app")
	okArg := false
	if pk != nil {
		for _, file := range pk.Syntax {
			astInspectCalls(file, func(callee string, args []string) {
				if callee == "github.com/cosmos/cosmos-sdk/x/bank/keeper.NewBaseKeeper" {
					for _, a := range args {
						if a == "BlockedAddresses()" {
							okArg = true
						}
					}
				}
			}, pk)
		}
	}
	r.Require(okArg, "A5.blocked-addresses", "bank-wiring", "app/app.go", "bankkeeper.NewBaseKeeper receives BlockedAddresses()", "argument not found")
}

func genesisBalance(c *Ctx, module string) {
	w, r := c.W, c.R
	n := 0
	for _, root := range w.Roots["INITGEN:"+module] {
		for f := range w.Reachable([]*ssa.Function{root}) {
			if ir.ModuleOf(f) != module {
				continue
			}
			// the function that reads the module account's balances
			reads := false
			for _, b := range f.Blocks {
				for _, in := range b.Instrs {
					if call, ok := in.(ssa.CallInstruction); ok && methodNameOf(call) == "GetAllBalances" {
						reads = true
					}
				}
			}
			if !reads || !genesisFuncs(c, "INITGEN", module)[f] {
				continue
			}
			n++
			var isBalL, isHoldL func(x *ir.Expr) bool
			// "both are empty" is an equality too: the balance and the holdings each found zero on the way
			zeroOf := func(which *func(*ir.Expr) bool) ir.Matcher {
				return func(p ir.Pred) bool {
					if !p.Pol || p.E.Op != "call" || len(p.E.Args) != 1 || !(strings.HasSuffix(p.E.Name, "types.Coins).IsZero") || strings.HasSuffix(p.E.Name, "types.Coins).Empty")) {
						return false
					}
					return *which != nil && (*which)(w.Expand(p.E.Args[0], 3))
				}
			}
			m := func(p ir.Pred) bool {
				if !p.Pol || p.E.Op != "call" || !strings.HasSuffix(p.E.Name, "types.Coins).IsEqual") || len(p.E.Args) != 2 {
					return false
				}
				a, b := w.Expand(p.E.Args[0], 3), w.Expand(p.E.Args[1], 3)
				if os.Getenv("MCDEBUG") == "gb" {
					fmt.Fprintln(os.Stderr, "genesis-balance IsEqual:", a.String(), "<>", b.String())
				}
				return isBalL(a) && isHoldL(b) || isBalL(b) && isHoldL(a)
			}
			{
				isBal := func(x *ir.Expr) bool {
					return x.Op == "call" && strings.HasSuffix(x.Name, ".GetAllBalances") && x.Any(func(z *ir.Expr) bool {
						return z.Op == "call" && strings.HasSuffix(z.Name, ".GetModuleAccount") || z.Op == "const" && z.Name == `"`+module+`"`
					})
				}
				isHold := func(x *ir.Expr) bool {
					if module == "enterprise" {
						return x.Op == "call" && (strings.HasSuffix(x.Name, "types.Coins).Add") || strings.HasSuffix(x.Name, "types.NewCoins")) && x.Any(func(z *ir.Expr) bool { return z.Op == "field" && z.Name == "TotalLocked" }) &&
							!x.Any(func(z *ir.Expr) bool { return z.Op == "call" && strings.HasSuffix(z.Name, ".GetAllBalances") })
					}
					// stream: Σ of imported deposits accumulated in a loop
					return x.Any(func(z *ir.Expr) bool { return z.Op == "field" && z.Name == "Deposit" }) && !x.Any(func(z *ir.Expr) bool { return z.Op == "call" && strings.HasSuffix(z.Name, ".GetAllBalances") })
				}
				// the comparison may sit in a helper that is handed the holdings: judge them as the callers instantiate them
				isHoldL = func(x *ir.Expr) bool {
					return isHold(x) || liftAll(c, f, x, func(y *ir.Expr) bool { return isHold(w.Expand(y, 3)) })
				}
				isBalL = func(x *ir.Expr) bool {
					return isBal(x) || liftAll(c, f, x, func(y *ir.Expr) bool { return isBal(w.Expand(y, 3)) })
				}
			}
			either := func(a, b ir.Matcher) ir.Matcher { return func(p ir.Pred) bool { return a(p) || b(p) } }
			for i, ret := range ir.Returns(f) {
				g := w.Guarded(f, ret, m, 1) || w.Guarded(f, ret, either(m, zeroOf(&isBalL)), 1) && w.Guarded(f, ret, either(m, zeroOf(&isHoldL)), 1)
				r.Require(g, "A2.genesis-balance", fmt.Sprintf("%s|return%d", fn(f), i), pos(c, ret), "genesis import returns normally only when the module account balance equals the imported holdings", "a return is reachable without the equality check")
			}
		}
	}
	r.Floor("genesis import functions of "+module+" reading the module balance", n, 1)
}

func methodNameOf(call ssa.CallInstruction) string {
	cc := call.Common()
	if cc.IsInvoke() {
		return cc.Method.Name()
	}
	if sc := cc.StaticCallee(); sc != nil {
		return sc.Name()
	}
	return ""
}

// tableModules: e is NewModuleAddress(<element of a package-level string table>): returns the table's constant
// elements, provided the table is assigned only by its initialiser.
func tableModules(c *Ctx, e *ir.Expr) []string {
	w := c.W
	var g *ir.Expr
	e.Walk(func(z *ir.Expr) bool {
		if z.Op == "call" && strings.HasSuffix(z.Name, "types.NewModuleAddress") && len(z.Args) == 1 {
			a := z.Args[0]
			if a.Op == "elem" && len(a.Args) == 2 && a.Args[0].Op == "global" {
				g = a.Args[0]
			}
		}
		return true
	})
	if g == nil {
		return nil
	}
	gv, ok := g.V.(*ssa.Global)
	if !ok || gv.Pkg == nil {
		return nil
	}
	// no write outside the package initialiser
	for _, ef := range w.AllEffects(func(e ir.Effect) bool { return e.Kind == "GlobalWrite" && e.Method == g.Name }) {
		if !strings.HasSuffix(fn(ef.Fn), ".init") && !strings.Contains(fn(ef.Fn), ".init#") {
			return nil
		}
	}
	for _, pk := range w.P.Pkgs {
		if pk.Types != gv.Pkg.Pkg {
			continue
		}
		init := w.VarInit(pk, gv.Name())
		cl, ok := init.(*ast.CompositeLit)
		if !ok {
			return nil
		}
		var out []string
		for _, el := range cl.Elts {
			s, ok := ir.ConstString(pk, el)
			if !ok {
				return nil
			}
			out = append(out, s)
		}
		return out
	}
	return nil
}

// copiesPermsMap: v is the result of an in-scope function that returns a fresh map filled with every key (and value)
// of the module-account permissions map (GetMaccPerms hands out a copy).
func copiesPermsMap(c *Ctx, v ssa.Value) bool {
	call, ok := v.(*ssa.Call)
	if !ok {
		return false
	}
	for _, g := range c.W.CalleesOf(call) {
		var rng *ssa.Range
		var upd *ssa.MapUpdate
		for _, b := range g.Blocks {
			for _, in := range b.Instrs {
				switch x := in.(type) {
				case *ssa.Range:
					if u, ok := x.X.(*ssa.UnOp); ok {
						if gl, ok := u.X.(*ssa.Global); ok && gl.Name() == maccPermsVar(c) {
							rng = x
						}
					}
				case *ssa.MapUpdate:
					upd = x
				}
			}
		}
		if rng == nil || upd == nil {
			continue
		}
		// the inserted key is the key of the current iteration, into a map made here, and every iteration inserts
		mm, fresh := upd.Map.(*ssa.MakeMap)
		ex, isEx := upd.Key.(*ssa.Extract)
		if !fresh || !isEx || ex.Index != 1 {
			continue
		}
		nx, isNext := ex.Tuple.(*ssa.Next)
		if !isNext || nx.Iter != ssa.Value(rng) || !nx.Block().Dominates(upd.Block()) {
			continue
		}
		returnsIt := false
		for _, rt := range ir.Returns(g) {
			if len(rt.Results) == 1 && rt.Results[0] == ssa.Value(mm) {
				returnsIt = true
			}
		}
		// no way round the insert inside the loop body: the body block is the only successor path back to the header
		if returnsIt && len(ir.AfterReachesBackEdgeWithoutCut(g, nx, func(in ssa.Instruction) bool { return in == ssa.Instruction(upd) }, nil)) == 0 {
			return true
		}
	}
	return false
}

// globalNeverWritten: the package variable is assigned only by its initialiser (no store, map update or delete through it
// outside the package init).
func globalNeverWritten(c *Ctx, g *ssa.Global) bool {
	for _, f := range c.W.Funcs {
		if f.Pkg != g.Pkg || f.Name() == "init" {
			continue
		}
		for _, b := range f.Blocks {
			for _, in := range b.Instrs {
				switch x := in.(type) {
				case *ssa.Store:
					if x.Addr == ssa.Value(g) {
						return false
					}
				case *ssa.MapUpdate:
					if ld, ok := x.Map.(*ssa.UnOp); ok && ld.X == ssa.Value(g) {
						return false
					}
				case *ssa.Call:
					if bi, ok := x.Common().Value.(*ssa.Builtin); ok && bi.Name() == "delete" && len(x.Common().Args) > 0 {
						if ld, ok := x.Common().Args[0].(*ssa.UnOp); ok && ld.X == ssa.Value(g) {
							return false
						}
					}
				}
			}
		}
	}
	return true
}

// constExact: the exact value of a constant expression node (resolved through the constant's SSA value).
func constExact(e *ir.Expr) string {
	if cst, ok := e.V.(*ssa.Const); ok && cst.Value != nil {
		return cst.Value.ExactString()
	}
	return ""
}

// counterDelta: the setter call stores (stored value of the section) ± d; returns the operation ("Add"/"Sub") and d.
func counterDelta(c *Ctx, call ssa.CallInstruction, section string) (string, *ir.Expr, bool) {
	w := c.W
	args := call.Common().Args
	if len(args) == 0 {
		return "", nil, false
	}
	v := w.Expand(w.ExprOf(args[len(args)-1]), 3)
	var cands []*ir.Expr
	x := v
	for x.Op == "ref" && len(x.Args) == 1 {
		x = x.Args[0]
	}
	if x.Op == "struct" {
		cands = append(cands, x.Args...)
	} else {
		cands = append(cands, x)
	}
	var flat []*ir.Expr
	for _, a := range cands {
		if a != nil {
			flat = append(flat, a.Alts()...)
		}
	}
	for _, a := range flat {
		if a == nil || a.Op != "call" || len(a.Args) != 2 {
			continue
		}
		op := ""
		switch {
		case strings.HasSuffix(a.Name, "types.Coin).Add"):
			op = "Add"
		case strings.HasSuffix(a.Name, "types.Coin).Sub"):
			op = "Sub"
		default:
			continue
		}
		if !a.Args[0].Any(func(z *ir.Expr) bool { return z.Op == "state" && z.Name == section }) {
			continue
		}
		if os.Getenv("MCDEBUG") == "delta" {
			fmt.Fprintln(os.Stderr, "delta", section, op, a.Args[1])
		}
		return op, a.Args[1], true
	}
	if os.Getenv("MCDEBUG") == "delta" {
		fmt.Fprintln(os.Stderr, "delta?", section, v)
	}
	return "", nil, false
}

// counterPairs (A3.counter-pairs): whoever writes a per-account counter also writes its total on every success path, and moves
// the total by the same amount.
func counterPairs(c *Ctx) {
	w, r := c.W, c.R
	// helper pairs: whoever writes the per-account counter also writes the total on every success path
	pairs := [][2]string{{secLocked, secTotLocked}, {secSpent, secTotSpent}}
	np, ndelta := 0, 0
	covered := map[string]bool{}
	for _, f := range w.Funcs {
		if w.IsGenerated(f) || ir.IsFixture(f) || !c.Rooted(f) || ir.ModuleOf(f) != "enterprise" || genesisFuncs(c, "INITGEN", "enterprise")[f] {
			continue
		}
		for _, p := range pairs {
			a := callReaching(c, f, func(e ir.Effect) bool { return e.Kind == "StoreWrite" && e.Section == p[0] })
			b := callReaching(c, f, func(e ir.Effect) bool { return e.Kind == "StoreWrite" && e.Section == p[1] })
			as := findInstrs(f, a)
			bs := findInstrs(f, b)
			if len(as) == 0 && len(bs) == 0 {
				continue
			}
			// only judge the innermost function that calls the two setters separately
			sep := false
			for _, x := range as {
				if _, isCall := x.(ssa.CallInstruction); isCall && !b(x) && len(w.CalleesOf(x.(ssa.CallInstruction))) > 0 {
					sep = true
				}
			}
			if !sep {
				continue
			}
			np++
			covered[p[0]] = true
			for _, x := range as {
				bad := 0
				for _, ret := range w.SuccessReturns(f) {
					if ir.ReachesFrom(f, x.Block(), ir.InstrIndex(x)+1, ret, ir.Cut{Barrier: b}) {
						bad++
					}
				}
				r.Require(bad == 0, "A3.counter-pairs", fn(f)+"|"+p[0], pos(c, x), "a per-account counter update is always followed by the matching total update before success", fmt.Sprintf("%d success return(s) skip the total", bad))
			}
			// ... and the total moves by what the account's counter moves by: both new values are (stored value) ± d for one d
			for _, x := range as {
				xc, isCall := x.(ssa.CallInstruction)
				if !isCall || b(x) {
					continue
				}
				op1, d1, ok1 := counterDelta(c, xc, p[0])
				if !ok1 {
					continue
				}
				for _, y := range bs {
					yc, isCall := y.(ssa.CallInstruction)
					if !isCall || a(y) || !ir.ReachesFrom(f, x.Block(), ir.InstrIndex(x)+1, y, ir.Cut{}) && !ir.ReachesFrom(f, y.Block(), ir.InstrIndex(y)+1, x, ir.Cut{}) {
						continue
					}
					op2, d2, ok2 := counterDelta(c, yc, p[1])
					if !ok2 {
						continue
					}
					ndelta++
					d1, d2 = cancelCoin(d1), cancelCoin(d2)
					r.Require(op1 == op2 && ir.EqualExpr(d1, d2), "A3.counter-pairs", fn(f)+"|"+p[0]+"|delta", pos(c, y),
						"the total moves by exactly what the per-account counter moves by (the total equals the sum of the per-account counters)",
						fmt.Sprintf("the per-account counter becomes stored.%s(%s), the total stored.%s(%s)", op1, d1, op2, d2))
				}
			}
		}
	}
	// (one updater per counter pair is the least there must be: the increment and decrement of the locked pair may share one)
	_ = np
	r.Floor("per-account counter / total pairs with a judged updater", len(covered), 2)
	r.Floor("per-account / total updates whose amounts were compared", ndelta, 1)
}

// cancelCoin: (a.Add(b)).Sub(a) is b and (a.Add(b)).Sub(b) is a — "the new running total minus the previous one" is the
// amount that was added.
func cancelCoin(e *ir.Expr) *ir.Expr {
	isCoin := func(x *ir.Expr, m string) bool {
		return x != nil && x.Op == "call" && len(x.Args) == 2 && strings.HasSuffix(x.Name, "types.Coin)."+m)
	}
	if isCoin(e, "Sub") && isCoin(e.Args[0], "Add") {
		a, b := e.Args[0].Args[0], e.Args[0].Args[1]
		switch {
		case ir.EqualExpr(a, e.Args[1]):
			return b
		case ir.EqualExpr(b, e.Args[1]):
			return a
		}
	}
	return e
}

// blockedFromTable: the blocked-address map is filled by a loop over a constant package-level list of module names, each
// element inserted on every turn; returns the names and the insert.
func blockedFromTable(c *Ctx, f *ssa.Function, updates []*ssa.MapUpdate) ([]string, ssa.Instruction) {
	for _, u := range updates {
		hdr := ir.EnclosingLoopHeader(f, u)
		if hdr == nil {
			continue
		}
		names := tableModules(c, c.W.Expand(c.W.ExprOf(u.Key), 2))
		if len(names) == 0 {
			continue
		}
		// unconditional within the loop: no way round the insert from the top of the loop back to it
		isU := func(in ssa.Instruction) bool { return in == ssa.Instruction(u) }
		if len(ir.AfterReachesBackEdgeWithout(f, hdr.Instrs[0], isU)) > 0 {
			continue
		}
		return names, u
	}
	return nil, nil
}
