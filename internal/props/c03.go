package props

import (
	"fmt"
	"os"
	"strconv"
	"strings"

	"golang.org/x/tools/go/ssa"

	"mcverif/internal/ir"
)

func init() { Registry["C03"] = C03 }

const (
	stRaised    = "x/enterprise/types.StatusRaised"
	stAccepted  = "x/enterprise/types.StatusAccepted"
	stRejected  = "x/enterprise/types.StatusRejected"
	stCompleted = "x/enterprise/types.StatusCompleted"
)

// allStateField: every non-zero alternative of the (expanded) expression is <state:section>.<field>;
// returns the key of the state read.
func allStateField(c *Ctx, e *ir.Expr, section, field string) (*ir.Expr, bool) {
	x := c.W.Expand(e, 4)
	var key *ir.Expr
	n := 0
	for _, a := range x.Alts() {
		if a.Op == "zero" {
			continue
		}
		if !isStateField(a, section, field) {
			return nil, false
		}
		key = stateKey(a)
		n++
	}
	return key, n > 0
}

func isEntParam(c *Ctx, e *ir.Expr, field string) bool {
	_, ok := allStateField(c, e, secEntParams, field)
	return ok
}

// stripConvE removes numeric conversions.
func stripConvE(e *ir.Expr) *ir.Expr {
	for e != nil && e.Op == "conv" && len(e.Args) == 1 {
		e = e.Args[0]
	}
	return e
}

// cmpIs matches a normalised comparison `x op y` (or its mirror) using fx, fy.
func cmpIs(p ir.Pred, op string, fx, fy func(*ir.Expr) bool) bool {
	o, x, y, ok := p.Cmp()
	if !ok {
		return false
	}
	mirror := map[string]string{"<": ">", ">": "<", "<=": ">=", ">=": "<=", "==": "==", "!=": "!="}
	if o == op && fx(x) && fy(y) {
		return true
	}
	if mirror[o] == op && fx(y) && fy(x) {
		return true
	}
	return false
}

func isBlockTime(e *ir.Expr) bool {
	return e.Any(func(x *ir.Expr) bool {
		return x.Op == "call" && (strings.HasSuffix(x.Name, "types.Context).BlockHeader") || strings.HasSuffix(x.Name, "types.Context).BlockTime"))
	}) && !e.Any(func(x *ir.Expr) bool { return x.Op == "call" && strings.HasPrefix(x.Name, "time.Now") })
}

// isCounterOf: e is counter(<order>.Decisions[i].Decision == status) for the order with key `key`.
func isCounterOf(c *Ctx, e *ir.Expr, status string, key string) bool {
	// the count may be taken by a helper returning it (possibly as one of several results)
	e = stripConvE(c.W.Expand(stripConvE(e), 3))
	if e != nil && e.Op == "res" && len(e.Args) == 1 && e.Args[0].Op == "tuple" {
		if i, err := strconv.Atoi(e.Name); err == nil && i < len(e.Args[0].Args) {
			e = stripConvE(e.Args[0].Args[i])
		}
	}
	// (the zero a counter starts from may show up as an alternative of its own)
	if e != nil && e.Op == "phi" {
		if nz := nonZeroAlts(e); len(nz) == 1 {
			e = stripConvE(nz[0])
		}
	}
	if e == nil || e.Op != "counter" || e.Name != "true" || len(e.Args) != 1 {
		return false
	}
	cond := e.Args[0]
	if cond.Op != "bin" || cond.Name != "==" {
		return false
	}
	for _, pr := range [][2]*ir.Expr{{cond.Args[0], cond.Args[1]}, {cond.Args[1], cond.Args[0]}} {
		if pr[1].Op != "const" || pr[1].Name != status {
			continue
		}
		d := pr[0]
		if d.Op != "field" || d.Name != "Decision" || len(d.Args) != 1 || d.Args[0].Op != "elem" {
			continue
		}
		k, ok := allStateField(c, d.Args[0].Args[0], secPO, "Decisions")
		if ok && k.String() == key {
			return true
		}
	}
	return false
}

func C03(c *Ctx) {
	r := c.R
	r.Explanation = "Guard, typestate, ordering and pairing rules over go/ssa CFGs (cut-reachability; comparisons normalised; loop counters recognised as counter(cond)): " +
		"(A1) the order, raised-queue, accepted-queue and whitelist sections are written/deleted only from the roots the life-cycle allows; " +
		"(A2) raising is guarded by denom==params.Denom and Amount.IsPositive() and stores exactly the message's purchaser and amount with Status=Raised under the fresh id counter; deciding is guarded by Status==Raised of the order named in the message, a valid decision, and a rejecting loop over that order's existing decisions comparing the signer, and (A4) re-stores the loaded order with only Decisions extended by {signer, decision, block time}; " +
		"(typestate) every store of an order whose Status is a constant is one of: Raised on a fresh order; Rejected under Status==Raised and [elapsed>=DecisionTimeLimit ∧ accepts<MinAccepts] or [rejects > len(signers)-MinAccepts]; Accepted under Status==Raised ∧ accepts>=MinAccepts ∧ ¬(rejects>threshold); Completed under Status==Accepted; any other writer must copy Status from the loaded order (or be genesis import); " +
		"(A3) in the begin blocker no path runs the minting step after the tally step (one-block delay); inside the completion loop every iteration that stores Completed also mints and dequeues the same id, and every tally outcome dequeues from the raised queue (accept also enqueues in the accepted queue) before the next iteration. " +
		"Decides these structural necessary conditions on every path; does not decide queue/status consistency as an inductive invariant over histories."
	r.Rules = []string{"A1.section-writers", "A2.whitelist-action", "A2.raise-guards", "A7.raise-fields", "A2.decide-guards", "A2.decide-once-loop", "A7.decision-signer-form", "A4.decide-fields", "TS.status-transition", "A3.one-block-delay", "A3.completion-pairing", "A3.tally-pairing", "A3.queue-membership", "A3.no-stale-writeback", "A3.lost-update", "A3.stale-element-pointer", "A3.element-carry", "A3.tally-complete", "A7.derived-queues", "A7.import-fields", "A7.validate-fields", "A7.validate-rule", "A7.validate-cross-field", "A6.entitlement-from-state"}
	r.Trusted = []string{"bank MintCoins semantics", "params are read from the store at every use (C16)"}
	r.NotDecided = []string{"consistency of queues and statuses over all histories (inductive)", "behaviour of uint64 subtraction now-RaiseTime when block time goes backwards"}

	// A1
	isSec := func(kind, sec string) func(ir.Effect) bool {
		return func(e ir.Effect) bool { return e.Kind == kind && e.Section == sec }
	}
	n := 0
	n += whoMayReach(c, "A1.section-writers", "writes of the purchase-order section", isSec("StoreWrite", secPO), []string{"MSG:enterprise.UndPurchaseOrder", "MSG:enterprise.ProcessUndPurchaseOrder", "BEGIN:enterprise", "INITGEN:enterprise"})
	n += whoMayReach(c, "A1.section-writers", "writes of the raised queue", isSec("StoreWrite", secRaisedQ), []string{"MSG:enterprise.UndPurchaseOrder", "INITGEN:enterprise"})
	n += whoMayReach(c, "A1.section-writers", "deletes from the raised queue", isSec("StoreDelete", secRaisedQ), []string{"BEGIN:enterprise"})
	n += whoMayReach(c, "A1.section-writers", "writes of the accepted queue", isSec("StoreWrite", secAcceptedQ), []string{"BEGIN:enterprise", "INITGEN:enterprise"})
	n += whoMayReach(c, "A1.section-writers", "deletes from the accepted queue", isSec("StoreDelete", secAcceptedQ), []string{"BEGIN:enterprise"})
	n += whoMayReach(c, "A1.section-writers", "whitelist changes", func(e ir.Effect) bool {
		return (e.Kind == "StoreWrite" || e.Kind == "StoreDelete") && e.Section == secWhitelist
	}, []string{"MSG:enterprise.WhitelistAddress", "INITGEN:enterprise"})
	n += whoMayReach(c, "A1.section-writers", "deletes of purchase orders", isSec("StoreDelete", secPO), []string{})
	n += whoMayReach(c, "A1.section-writers", "writes of the order id counter", isSec("StoreWrite", secEntHigh), []string{"MSG:enterprise.UndPurchaseOrder", "INITGEN:enterprise"})
	r.Floor("root/section-writer pairs", n, 12)

	raiseRules(c)
	whitelistRules(c)
	decideRules(c)
	statusTypestate(c)
	blockerOrdering(c)
	queueMembership(c)
	// "crediting exactly its amount as locked eFUND to its purchaser exactly once": no credit of the completion step is
	// computed on a copy and dropped, or written back from a record read before an earlier credit (the rules are C04's)
	lostUpdateControl(c)
	r.Floor("functions of enterprise scanned for dropped updates to record copies", lostUpdates(c, "enterprise"), 40)
	nsw := 0
	for _, sec := range []string{secLocked, secTotLocked} {
		nsw += staleRewrite(c, "A3.no-stale-writeback", c.W.Roots["BEGIN:enterprise"], sec)
	}
	r.Floor("locked-counter write occurrences of the completion step judged for re-reads", nsw, 2)
	// "approved by the quorum of authorised signers": who is authorised is read from committed state at every decision, never
	// from a copy a discarded branch (failed proposal, simulation, CheckTx) may have left in a module object
	entitlementFromState(c)
}

func raiseRules(c *Ctx) {
	w, r := c.W, c.R
	h := handlerOf(c, "enterprise", "UndPurchaseOrder")
	if h == nil {
		r.Undecided("A2.raise-guards", "handler", "", "UndPurchaseOrder handler found", "missing")
		return
	}
	sites := mutatingSites(c, h, isStateMutation)
	r.Floor("mutating sites in UndPurchaseOrder", len(sites), 1)
	denom := func(p ir.Pred) bool {
		return cmpIs(p, "==", func(x *ir.Expr) bool {
			return x.Op == "field" && x.Name == "Denom" && len(x.Args) == 1 && isMsgField(x.Args[0], "Amount")
		}, func(y *ir.Expr) bool { return isEntParam(c, y, "Denom") })
	}
	positive := func(p ir.Pred) bool {
		return p.Pol && p.E.Op == "call" && strings.HasSuffix(p.E.Name, "types.Coin).IsPositive") && len(p.E.Args) == 1 && isMsgField(p.E.Args[0], "Amount")
	}
	for i, s := range sites {
		k := fmt.Sprintf("site%d:%s", i, siteName(c, s))
		r.Require(w.Guarded(h, s, denom, 2), "A2.raise-guards", "denom|"+k, pos(c, s), "an order is raised only when msg.Amount.Denom equals the enterprise denom parameter", "reachable without that comparison")
		r.Require(w.Guarded(h, s, positive, 2), "A2.raise-guards", "positive|"+k, pos(c, s), "an order is raised only when msg.Amount is positive", "reachable without IsPositive()")
	}
	// stored order fields
	nw := 0
	for _, in := range instantiate(c, h, func(e ir.Effect) bool { return e.Kind == "StoreWrite" && e.Section == secPO }, func(e ir.Effect) *ir.Expr { return marshalArg(c, e) }) {
		nw++
		st := in.E
		chk := func(field string, ok func(*ir.Expr) bool, want string) {
			v := fieldOfStruct(st, field)
			d := "<unresolved " + st.String() + ">"
			if v != nil {
				d = v.String()
			}
			r.Require(v != nil && ok(v), "A7.raise-fields", field, pos(c, in.Eff.Site), "raised order stores "+field+" = "+want, field+" = "+d)
		}
		chk("Purchaser", func(v *ir.Expr) bool { return isMsgField(v, "Purchaser") }, "msg.Purchaser")
		chk("Amount", func(v *ir.Expr) bool { return isMsgField(v, "Amount") }, "msg.Amount")
		chk("Status", func(v *ir.Expr) bool { return v.Op == "const" && v.Name == stRaised }, "StatusRaised")
		chk("RaiseTime", func(v *ir.Expr) bool { return isBlockTime(v) }, "block time")
		chk("Decisions", func(v *ir.Expr) bool { return v.Op == "zero" || v.Op == "const" && v.Name == "nil" }, "empty")
		chk("Id", func(v *ir.Expr) bool {
			x := c.W.Expand(v, 3)
			return x.Any(func(z *ir.Expr) bool { return z.Op == "state" && z.Name == secEntHigh })
		}, "the id counter read from the store")
		// key equals the stored id
		if in.Eff.Key != nil {
			for _, up := range w.OriginsUpTo(in.Eff.Fn, in.Eff.Key, h, 8) {
				ka := keyArgs(up.E)
				idv := fieldOfStruct(st, "Id")
				r.Require(len(ka) == 1 && idv != nil && ka[0].String() == idv.String(), "A7.raise-fields", "key=id", pos(c, in.Eff.Site), "the order is stored under the key of its own Id", "key "+up.E.String())
			}
		}
	}
	r.Floor("order writes reachable from UndPurchaseOrder", nw, 1)
	// counter increment and queue entry on every success path after the order write
	idCounter(c, h, secPO, secEntHigh, "A3.raise-counter", []string{secRaisedQ})
}

// marshalArg returns the struct expression marshalled at a store write (in the writer's terms).
func marshalArg(c *Ctx, e ir.Effect) *ir.Expr {
	if e.Call == nil || len(e.Call.Common().Args) != 2 {
		return nil
	}
	v := c.W.ExprOf(e.Call.Common().Args[1])
	if v.Op == "call" && strings.HasSuffix(v.Name, "Marshal") && len(v.Args) >= 1 {
		st := v.Args[len(v.Args)-1]
		if st.Op == "ref" {
			st = st.Args[0]
		}
		return st
	}
	return v
}

// idCounter: in the function that allocates an id (reads counter section) and writes the entity
// section, every success return is preceded by a write of counter := id+1 (and writes to the
// extra sections), and the entity write precedes none of them being skipped.
func idCounter(c *Ctx, h *ssa.Function, entitySec, counterSec, rule string, extra []string) {
	w, r := c.W, c.R
	// find the function reachable from h that both reads the counter and (transitively) writes it
	var alloc *ssa.Function
	for f := range w.Reachable([]*ssa.Function{h}) {
		reads := false
		for _, call := range w.CallsTo(f, func(g *ssa.Function) bool {
			for _, e := range w.EffectsOf(g) {
				if e.Kind == "StoreRead" && e.Section == counterSec {
					return true
				}
			}
			return false
		}) {
			_ = call
			reads = true
		}
		if reads && reachesEffect(c, f, func(e ir.Effect) bool { return e.Kind == "StoreWrite" && e.Section == counterSec }) {
			if alloc == nil || len(w.Reachable([]*ssa.Function{f})) < len(w.Reachable([]*ssa.Function{alloc})) {
				alloc = f
			}
		}
	}
	if alloc == nil {
		r.Bad(rule, "allocator|"+fn(h), w.Pos(h.Pos()), "the id counter is read and advanced by one function on the route", "no such function reachable from "+fn(h))
		return
	}
	callTo := func(sec, kind string) func(ssa.Instruction) bool {
		return func(in ssa.Instruction) bool {
			call, ok := in.(ssa.CallInstruction)
			if !ok {
				return false
			}
			for _, e := range w.EffectsOf(alloc) {
				if e.Site == in && e.Kind == kind && e.Section == sec {
					return true
				}
			}
			for _, t := range w.CalleesOf(call) {
				if reachesEffect(c, t, func(e ir.Effect) bool { return e.Kind == kind && e.Section == sec }) {
					return true
				}
			}
			return false
		}
	}
	secs := append([]string{entitySec, counterSec}, extra...)
	for _, sec := range secs {
		bad := w.MustPass(alloc, callTo(sec, "StoreWrite"), nil)
		r.Require(len(bad) == 0, rule, fn(alloc)+"|must-write|"+sec, w.Pos(alloc.Pos()), "every successful allocation writes section "+sec, fmt.Sprintf("%d success return(s) reachable without it", len(bad)))
	}
	// the counter is advanced to id+1 where id is the value read
	for _, in := range instantiate(c, alloc, func(e ir.Effect) bool { return e.Kind == "StoreWrite" && e.Section == counterSec }, func(e ir.Effect) *ir.Expr {
		return w.ExprOf(e.Call.Common().Args[1])
	}) {
		v := w.Expand(in.E, 3)
		ok := false
		v.Walk(func(x *ir.Expr) bool {
			if x.Op == "enc" && x.Name == "be64" && len(x.Args) == 1 {
				y := x.Args[0]
				if y.Op == "bin" && y.Name == "+" && y.Args[1].Op == "const" && y.Args[1].Name == "1" {
					src := w.Expand(y.Args[0], 3)
					if src.Any(func(z *ir.Expr) bool { return z.Op == "state" && z.Name == counterSec }) {
						ok = true
					}
				}
			}
			return !ok
		})
		r.Require(ok, rule, fn(alloc)+"|counter+1", pos(c, in.Eff.Site), "the counter is stored as (value read from the counter section) + 1, big-endian", "stored "+v.String())
	}
}

func decideRules(c *Ctx) {
	w, r := c.W, c.R
	h := handlerOf(c, "enterprise", "ProcessUndPurchaseOrder")
	if h == nil {
		r.Undecided("A2.decide-guards", "handler", "", "handler found", "missing")
		return
	}
	sites := mutatingSites(c, h, isStateMutation)
	r.Floor("mutating sites in ProcessUndPurchaseOrder", len(sites), 1)
	statusRaised := func(p ir.Pred) bool {
		return cmpIs(p, "==", func(x *ir.Expr) bool {
			k, ok := allStateField(c, x, secPO, "Status")
			if !ok {
				return false
			}
			ka := keyArgs(k)
			return len(ka) == 1 && isMsgField(ka[0], "PurchaseOrderId")
		}, func(y *ir.Expr) bool { return y.Op == "const" && y.Name == stRaised })
	}
	validDecision := func(p ir.Pred) bool {
		// decision ∈ {accept, reject}: either a helper's truth reduces to comparisons of msg.Decision with the two constants
		return cmpIs(p, "==", func(x *ir.Expr) bool { return isMsgField(x, "Decision") }, func(y *ir.Expr) bool {
			return y.Op == "const" && (y.Name == stAccepted || y.Name == stRejected)
		})
	}
	for i, s := range sites {
		k := fmt.Sprintf("site%d:%s", i, siteName(c, s))
		r.Require(w.Guarded(h, s, statusRaised, 2), "A2.decide-guards", "status-raised|"+k, pos(c, s), "a decision is recorded only while the order named in the message has Status == Raised", "reachable without that comparison")
		r.Require(w.Guarded(h, s, validDecision, 3), "A2.decide-guards", "valid-decision|"+k, pos(c, s), "a decision is recorded only when msg.Decision is Accepted or Rejected", "reachable with any other decision value")
		decideOnce(c, h, s, k)
	}
	// A4: stored order = loaded order with Decisions extended
	nw := 0
	for _, in := range instantiate(c, h, func(e ir.Effect) bool { return e.Kind == "StoreWrite" && e.Section == secPO }, func(e ir.Effect) *ir.Expr { return marshalArg(c, e) }) {
		nw++
		st := w.Expand(in.E, 4)
		if st.Op != "struct" {
			r.Bad("A4.decide-fields", "shape", pos(c, in.Eff.Site), "the stored order is the loaded order with Decisions extended", "stored "+st.String())
			continue
		}
		for i, f := range st.Fields {
			v := st.Args[i]
			if f == "Decisions" {
				ok := false
				if v.Op == "call" && v.Name == "builtin:append" && len(v.Args) == 2 {
					base, okb := allStateField(c, v.Args[0], secPO, "Decisions")
					el := v.Args[1]
					if okb && len(keyArgs(base)) == 1 && isMsgField(keyArgs(base)[0], "PurchaseOrderId") && el.Op == "list" && len(el.Args) == 1 {
						d := el.Args[0]
						sg, dc, tm := fieldOfStruct(d, "Signer"), fieldOfStruct(d, "Decision"), fieldOfStruct(d, "DecisionTime")
						ok = sg != nil && sg.Op == "call" && strings.HasSuffix(sg.Name, "AccAddress).String") && isAddrOf(sg.Args[0], "Signer") &&
							dc != nil && isMsgField(dc, "Decision") && tm != nil && isBlockTime(tm)
					}
				}
				r.Require(ok, "A4.decide-fields", "Decisions", pos(c, in.Eff.Site), "Decisions := append(loaded.Decisions, {str(addr(msg.Signer)), msg.Decision, block time})", "Decisions = "+v.String())
				continue
			}
			k, ok := allStateField(c, v, secPO, f)
			ok = ok && len(keyArgs(k)) == 1 && isMsgField(keyArgs(k)[0], "PurchaseOrderId")
			r.Require(ok, "A4.decide-fields", f, pos(c, in.Eff.Site), "recording a decision leaves field "+f+" of the loaded order unchanged", f+" = "+v.String())
		}
	}
	r.Floor("order writes reachable from ProcessUndPurchaseOrder", nw, 1)
}

// decideOnce: a loop over the loaded order's decisions rejects when msg.Signer already decided,
// and the site is only reachable through that loop.
func decideOnce(c *Ctx, h *ssa.Function, site ssa.Instruction, k string) {
	w, r := c.W, c.R
	ok := false
	form := ""
	detail := "no rejecting loop over the order's decisions comparing the signer"
	// the loop may stand in the handler or in any helper expanded on the way (flat view)
	root := w.FlatRoot(h)
	var ctxs []*ir.FCtx
	seenCtx := map[*ir.FCtx]bool{}
	w.FlatWalk(root, nil, nil, func(p ir.FPos) bool {
		if !seenCtx[p.Ctx] {
			seenCtx[p.Ctx] = true
			ctxs = append(ctxs, p.Ctx)
		}
		return true
	})
	for _, ctx := range ctxs {
		g := ctx.Fn
		for _, b := range g.Blocks {
			iff, isIf := b.Instrs[len(b.Instrs)-1].(*ssa.If)
			if !isIf {
				continue
			}
			e := ctx.Apply(w.ExprOf(iff.Cond))
			match := false
			var rejectSucc int
			for si, pol := range []bool{true, false} {
				p := ir.Pred{E: e, Pol: pol}
				if cmpIs(p, "==", func(x *ir.Expr) bool {
					// the signer as spelled in the message, or its canonical bech32 form str(addr(msg.Signer))
					if isMsgField(x, "Signer") {
						form = "the raw msg.Signer string"
						return true
					}
					if (x.Op == "call" || x.Op == "invoke") && strings.HasSuffix(x.Name, "AccAddress).String") && len(x.Args) >= 1 && isAddrOf(x.Args[0], "Signer") {
						form = "canonical"
						return true
					}
					return false
				}, func(y *ir.Expr) bool {
					if y.Op != "field" || y.Name != "Signer" || len(y.Args) != 1 || y.Args[0].Op != "elem" {
						return false
					}
					key, okk := allStateField(c, y.Args[0].Args[0], secPO, "Decisions")
					return okk && len(keyArgs(key)) == 1 && isMsgField(keyArgs(key)[0], "PurchaseOrderId")
				}) {
					match = true
					rejectSucc = si
				}
			}
			if !match {
				continue
			}
			if !onlyErrorsFrom(c, g, b.Succs[rejectSucc]) {
				// ... or to a verdict on which the handler gives up: from that branch the recording step is out of reach
				rb := b.Succs[rejectSucc]
				from := ir.FPos{Ctx: ctx, In: iff}
				reach := w.FlatReaches(root, &from, &ir.FlatCut{Edges: func(fc *ir.FCtx) map[[2]int]bool {
					if fc == ctx {
						return map[[2]int]bool{{b.Index, 1 - rejectSucc}: true}
					}
					return nil
				}}, func(p ir.FPos) bool { return p.Ctx == root && p.In == site })
				_ = rb
				if reach != nil {
					detail = "the signer-already-decided branch does not lead to an error"
					continue
				}
			}
			hdr := ir.EnclosingLoopHeader(g, iff)
			if hdr == nil {
				detail = "the signer comparison is not inside a loop over the decisions"
				continue
			}
			// every iteration passes the comparison: from the loop body no back edge is reachable around it
			skip := false
			for _, be := range ir.BackEdges(g) {
				if be[1] != hdr {
					continue
				}
				term := be[0].Instrs[len(be[0].Instrs)-1]
				for si, s := range hdr.Succs {
					_ = si
					if s.Dominates(b) || s == b {
						if ir.ReachesFrom(g, s, 0, term, ir.Cut{Barrier: func(in ssa.Instruction) bool { return in == ssa.Instruction(iff) }}) && term != ssa.Instruction(iff) {
							skip = true
						}
					}
				}
			}
			if skip {
				detail = "an iteration can bypass the signer comparison"
				continue
			}
			// the site is reachable only through the loop header
			cx := ctx
			if w.FlatReaches(root, nil, &ir.FlatCut{Barrier: func(fc *ir.FCtx, in ssa.Instruction) bool { return fc == cx && in == hdr.Instrs[0] }}, func(p ir.FPos) bool { return p.Ctx == root && p.In == site }) != nil {
				detail = "the decision can be recorded without running the loop"
				continue
			}
			ok = true
		}
	}
	r.Require(ok, "A2.decide-once-loop", k, pos(c, site), "each signer decides at most once per order: a loop over the order's decisions rejects a repeated signer before the decision is recorded", detail)
	if ok {
		// writer/reader agreement: decisions are stored under str(addr(msg.Signer)) (A4.decide-fields), so the
		// repeated-signer test must compare that same canonical form. Bech32 is valid in all upper case too: the raw
		// message string of a second decision spelled that way differs from every stored (lower-case) signer although
		// it is the same account (finding F8).
		r.Require(form == "canonical", "A7.decision-signer-form", k, pos(c, site), "the repeated-signer test compares the form the decision is stored under (str(addr(msg.Signer))), not the spelling used in the message", "compares "+form+" with the stored canonical signer")
	}
}

type poWriter struct {
	Top    *ssa.Function
	Chain  []ssa.Instruction // call sites from Top down to the writing function
	First  ssa.Instruction   // instruction in Top leading to the write
	Struct *ir.Expr
	Eff    ir.Effect
}

// poWriters instantiates every purchase-order write up to the function where the stored
// struct no longer depends on parameters.
func poWriters(c *Ctx) []poWriter {
	w := c.W
	var out []poWriter
	for _, e := range w.AllEffects(func(e ir.Effect) bool { return e.Kind == "StoreWrite" && e.Section == secPO }) {
		st := marshalArg(c, e)
		if st == nil {
			continue
		}
		for _, up := range w.OriginsUp(e.Fn, st, 6) {
			if !c.Rooted(up.Top) {
				continue
			}
			first := e.Site
			if len(up.Chain) > 0 {
				first = up.Chain[0]
			}
			out = append(out, poWriter{Top: up.Top, Chain: up.Chain, First: first, Struct: up.E, Eff: e})
		}
	}
	return out
}

func statusTypestate(c *Ctx) {
	w, r := c.W, c.R
	ws := poWriters(c)
	nw := len(ws)
	defer func() { r.Floor("instantiated purchase-order writers (status transitions)", nw, 6) }()
	count := map[string]int{}
	var extra []poWriter
	for qi := 0; qi < len(ws)+len(extra); qi++ {
		var pw poWriter
		if qi < len(ws) {
			pw = ws[qi]
		} else {
			pw = extra[qi-len(ws)]
		}
		st := pw.Struct
		if st.Op != "struct" {
			// whole struct copied: genesis import or untouched re-store
			x := w.Expand(st, 3)
			fromState := false
			for _, a := range x.Alts() {
				if a.Op == "state" && a.Name == secPO {
					fromState = true
				}
			}
			isGenesis := false
			for _, g := range w.Roots["INITGEN:enterprise"] {
				if _, ok := w.Reachable([]*ssa.Function{g})[pw.Top]; ok {
					isGenesis = true
				}
			}
			r.Require(fromState || isGenesis, "TS.status-transition", "copy|"+fn(pw.Top), pos(c, pw.First), "an order stored without a constant status is the loaded order itself or genesis data", "stored "+st.String())
			continue
		}
		status := fieldOfStruct(st, "Status")
		// a status chosen between constants on the way to one store (`if accepted { po.Status = Accepted } else { po.Status =
		// Rejected }; k.Set(po)`) is one transition per constant: each is judged where that constant is assigned — the
		// assignment must stand under the guards of its transition
		vcall, vidx := status, 0
		if vcall.Op == "res" && len(vcall.Args) == 1 {
			fmt.Sscan(vcall.Name, &vidx)
			vcall = vcall.Args[0]
		}
		if vcall.Op == "call" && vcall.Callee != nil && w.EnumResult(vcall.Callee, vidx) {
			// the status is the verdict of a helper (kept as the helper's call): one transition per constant it returns
			if split := verdictSplit(c, pw, st); len(split) > 0 {
				extra = append(extra, split...)
				nw += len(split) - 1
				continue
			}
		}
		if alts := status.Alts(); len(alts) > 1 {
			allConst := true
			// (an alternative that is the loaded order's own status — the arm of a verdict switch that assigns nothing —
			// keeps the status, which any writer may do; the constants are the transitions to judge)
			var consts []*ir.Expr
			ownKey := ""
			if idv := fieldOfStruct(st, "Id"); idv != nil {
				if k, ok := allStateField(c, idv, secPO, "Id"); ok {
					ownKey = k.String()
				}
			}
			for _, a := range alts {
				if a.Op == "const" {
					consts = append(consts, a)
					continue
				}
				if k, ok := allStateField(c, a, secPO, "Status"); ok && ownKey != "" && k.String() == ownKey {
					continue
				}
				allConst = false
			}
			if allConst && len(consts) > 0 {
				alts = consts
			}
			var split []poWriter
			if allConst {
				for _, a := range alts {
					sup := statusSuppliers(c, pw, a.Name)
					if len(sup) == 0 {
						split = nil
						break
					}
					for _, sp := range sup {
						st2 := *st
						st2.Args = append([]*ir.Expr{}, st.Args...)
						for i, f := range st2.Fields {
							if f == "Status" {
								st2.Args[i] = a
							}
						}
						pw2 := pw
						pw2.Chain, pw2.Struct = sp.chain, &st2
						pw2.Eff.Site = sp.site
						split = append(split, pw2)
					}
				}
			}
			if len(split) == 0 && allConst {
				split = verdictSplit(c, pw, st)
			}
			if len(split) > 0 {
				extra = append(extra, split...)
				nw += len(split) - 1
				continue
			}
		}
		key := fn(pw.Top) + "|" + status.String()
		count[status.String()]++
		key = fmt.Sprintf("%s#%d", key, count[status.String()])
		baseKey := ""
		if idv := fieldOfStruct(st, "Id"); idv != nil {
			if k, ok := allStateField(c, idv, secPO, "Id"); ok {
				baseKey = k.String()
			}
		}
		guardStatus := func(want string) bool {
			m := func(p ir.Pred) bool {
				return cmpIs(p, "==", func(x *ir.Expr) bool {
					k, ok := allStateField(c, x, secPO, "Status")
					return ok && k.String() == baseKey
				}, func(y *ir.Expr) bool { return y.Op == "const" && y.Name == want })
			}
			if chainGuarded(c, pw.Top, pw.Chain, pw.Eff.Site, m, 2) {
				return true
			}
			// the order may come out of a list of checked orders collected beforehand
			if idv := fieldOfStruct(st, "Id"); idv != nil {
				return collectedGuard(c, idv, m)
			}
			return false
		}
		unchanged := func(except ...string) string {
			ex := setOf(except...)
			for i, f := range st.Fields {
				if ex[f] {
					continue
				}
				k, ok := allStateField(c, st.Args[i], secPO, f)
				if !ok || k.String() != baseKey {
					return f + " = " + st.Args[i].String()
				}
			}
			return ""
		}
		switch {
		case status.Op == "const" && status.Name == stRaised:
			idv := fieldOfStruct(st, "Id")
			fresh := idv != nil && w.Expand(idv, 3).Any(func(z *ir.Expr) bool { return z.Op == "state" && z.Name == secEntHigh })
			r.Require(fresh, "TS.status-transition", key, pos(c, pw.First), "Status=Raised is stored only on a new order whose Id comes from the id counter", "Id = "+fmt.Sprint(idv))
		case status.Op == "const" && status.Name == stCompleted:
			r.Require(baseKey != "" && guardStatus(stAccepted), "TS.status-transition", key, pos(c, pw.First), "Status=Completed is stored only under Status==Accepted of the same stored order", "no such guard")
			d := unchanged("Status")
			r.Require(d == "", "TS.status-transition", key+"|fields", pos(c, pw.First), "completion changes only Status", d)
		case status.Op == "const" && (status.Name == stAccepted || status.Name == stRejected):
			r.Require(baseKey != "" && guardStatus(stRaised), "TS.status-transition", key, pos(c, pw.First), "Status="+status.Name+" is stored only under Status==Raised of the same stored order", "no such guard")
			d := unchanged("Status", "CompletionTime")
			r.Require(d == "", "TS.status-transition", key+"|fields", pos(c, pw.First), "the tally changes only Status and CompletionTime", d)
			ct := fieldOfStruct(st, "CompletionTime")
			r.Require(ct != nil && isBlockTime(ct), "TS.status-transition", key+"|time", pos(c, pw.First), "CompletionTime is the block time", fmt.Sprint(ct))
			thresholds(c, pw, status.Name, baseKey, key)
			if status.Name == stAccepted {
				tallyComplete(c, pw, baseKey)
			}
		default:
			// status copied from somewhere: must be the loaded order's own status, or genesis
			k, ok := allStateField(c, status, secPO, "Status")
			isGenesis := false
			for _, g := range w.Roots["INITGEN:enterprise"] {
				if _, in := w.Reachable([]*ssa.Function{g})[pw.Top]; in {
					isGenesis = true
				}
			}
			r.Require(ok && k.String() == baseKey || isGenesis, "TS.status-transition", key, pos(c, pw.First), "any other writer keeps the loaded order's status (or is genesis import)", "Status = "+status.String())
		}
	}
	r.Require(count[stRaised] >= 1 && count[stAccepted] >= 1 && count[stRejected] >= 1 && count[stCompleted] >= 1, "floor", "status-writers", "", "writers exist for Raised, Accepted, Rejected and Completed", fmt.Sprint(count))
}

func thresholds(c *Ctx, pw poWriter, status, baseKey, key string) {
	r := c.R
	g := func(m ir.Matcher) bool { return chainGuarded(c, pw.Top, pw.Chain, pw.Eff.Site, m, 2) }
	minAcc := func(e *ir.Expr) bool { return isEntParam(c, stripConvE(e), "MinAccepts") }
	accepts := func(e *ir.Expr) bool { return isCounterOf(c, e, stAccepted, baseKey) }
	rejects := func(e *ir.Expr) bool { return isCounterOf(c, e, stRejected, baseKey) }
	thr := func(e *ir.Expr) bool {
		e = stripConvE(e)
		if e.Op == "call" && e.Callee != nil {
			// the threshold computed by a helper (of a decoded signer list, say)
			e = stripConvE(c.W.Expand(e, 5))
		}
		if e.Op != "bin" || e.Name != "-" {
			return false
		}
		l := e.Args[0]
		if l.Op != "call" || l.Name != "builtin:len" {
			// the number of listed signers kept in a decoded signer record
			l = stripConvE(c.W.Expand(l, 5))
		}
		okLen := l.Op == "call" && l.Name == "builtin:len" && len(l.Args) == 1 && l.Args[0].Op == "call" && l.Args[0].Name == "strings.Split" && isEntParam(c, l.Args[0].Args[0], "EntSigners")
		return okLen && minAcc(e.Args[1])
	}
	stale := func(p ir.Pred) bool {
		return cmpIs(p, ">=", func(x *ir.Expr) bool {
			if x.Op != "bin" || x.Name != "-" {
				return false
			}
			k, ok := allStateField(c, x.Args[1], secPO, "RaiseTime")
			return isBlockTime(x.Args[0]) && ok && k.String() == baseKey
		}, func(y *ir.Expr) bool { return isEntParam(c, y, "DecisionTimeLimit") })
	}
	fewAccepts := func(p ir.Pred) bool { return cmpIs(p, "<", accepts, minAcc) }
	manyRejects := func(p ir.Pred) bool { return cmpIs(p, ">", rejects, thr) }
	enoughAccepts := func(p ir.Pred) bool {
		if os.Getenv("MCDEBUG") == "thr" {
			fmt.Fprintln(os.Stderr, "thr pred", p.Pol, p.E.String())
		}
		return cmpIs(p, ">=", accepts, minAcc)
	}
	notManyRejects := func(p ir.Pred) bool { return cmpIs(p, "<=", rejects, thr) }
	switch status {
	case stRejected:
		a := g(stale) && g(fewAccepts)
		b := g(manyRejects)
		if !a && !b {
			// one assignment serving both reasons (a verdict computed first, the status set afterwards): every path to it
			// passes [stale and few accepts] or [many rejects] — (S and F) or R = (S or R) and (F or R), each a cut of its own
			either := func(m1, m2 ir.Matcher) ir.Matcher { return func(p ir.Pred) bool { return m1(p) || m2(p) } }
			a = g(either(stale, manyRejects)) && g(either(fewAccepts, manyRejects))
		}
		r.Require(a || b, "TS.status-transition", key+"|threshold", pos(c, pw.First),
			"an order is rejected only when [now-RaiseTime >= DecisionTimeLimit and accepts < MinAccepts] or [rejects > len(signers) - MinAccepts]",
			fmt.Sprintf("stale-guard=%v reject-guard=%v", a, b))
	case stAccepted:
		a := g(enoughAccepts)
		b := g(notManyRejects)
		r.Require(a && b, "TS.status-transition", key+"|threshold", pos(c, pw.First),
			"an order is accepted only when accepts >= MinAccepts and not (rejects > len(signers) - MinAccepts)",
			fmt.Sprintf("accepts-guard=%v not-rejected-guard=%v", a, b))
	}
}

func blockerOrdering(c *Ctx) {
	w, r := c.W, c.R
	isMint := func(e ir.Effect) bool { return e.Kind == "Mint" }
	isAccQWrite := func(e ir.Effect) bool { return e.Kind == "StoreWrite" && e.Section == secAcceptedQ }
	nOrd := 0
	for _, root := range w.Roots["BEGIN:enterprise"] {
		for f := range w.Reachable([]*ssa.Function{root}) {
			var mintCalls, tallyCalls []ssa.Instruction
			for _, s := range mutatingSites(c, f, isMint) {
				mintCalls = append(mintCalls, s)
			}
			for _, s := range mutatingSites(c, f, isAccQWrite) {
				tallyCalls = append(tallyCalls, s)
			}
			for _, t := range tallyCalls {
				for _, m := range mintCalls {
					if t == m {
						continue
					}
					nOrd++
					after := ir.ReachesFrom(f, t.Block(), ir.InstrIndex(t)+1, m, ir.Cut{})
					r.Require(!after, "A3.one-block-delay", fn(f), pos(c, t), "orders accepted by the tally are never minted in the same block: no path runs the minting step after the tally step", "the minting call is reachable after the accepting call")
				}

			}
		}
	}
	r.Floor("tally/mint call pairs ordered", nOrd, 1)
	// the function that stores Status=Accepted must not be able to mint at all
	for _, pw := range poWriters(c) {
		if st := fieldOfStruct(pw.Struct, "Status"); st != nil && st.Op == "const" && st.Name == stAccepted {
			r.Require(!reachesEffect(c, pw.Top, isMint), "A3.one-block-delay", "accepting-step-cannot-mint|"+fn(pw.Top), pos(c, pw.First), "the step that accepts orders cannot reach MintCoins", "MintCoins is reachable from "+fn(pw.Top))
		}
	}

	r.Floor("mint sites of the completion loop judged for the completed mark", mintMarksCompleted(c), 1)
	// "an accepted order is completed in the following block" also across a restart: import puts every accepted (raised)
	// order back on its queue
	derivedQueues(c, "enterprise")
	// ... and every imported order is the exported one, recorded decisions included ("each signer at most once per order")
	importFields(c, "enterprise")
	// the thresholds count well-formed signers: the stored signer list passed the parameter validators (every entry an address)
	validateCoverage(c, "enterprise", 4)
	statusPairing(c)
}

// statusPairing (A3.tally-pairing / A3.completion-pairing): after an order is stored with a new status, every non-aborting
// path of that turn does what the status entails: leave the raised queue (accepted, rejected), join the accepted queue
// (accepted), mint and leave the accepted queue (completed). An order left on a queue in another status makes the next
// block's step panic.
func statusPairing(c *Ctx) {
	w, r := c.W, c.R
	isMint := func(e ir.Effect) bool { return e.Kind == "Mint" }
	isAccQWrite := func(e ir.Effect) bool { return e.Kind == "StoreWrite" && e.Section == secAcceptedQ }
	// completion loop pairing
	for _, pw := range poWriters(c) {
		st := pw.Struct
		if st.Op != "struct" {
			continue
		}
		status := fieldOfStruct(st, "Status")
		if status == nil || status.Op != "const" {
			continue
		}
		f := pw.Top
		idv := fieldOfStruct(st, "Id")
		baseKey, _ := allStateField(c, idv, secPO, "Id")
		if baseKey == nil || len(keyArgs(baseKey)) != 1 {
			continue
		}
		id := keyArgs(baseKey)[0].String()
		reqCall := func(pred func(ir.Effect) bool, keySec string) func(*ir.FCtx, ssa.Instruction) bool {
			return func(ctx *ir.FCtx, in ssa.Instruction) bool {
				call, ok := in.(ssa.CallInstruction)
				if !ok {
					return false
				}
				for _, t := range w.CalleesOf(call) {
					if os.Getenv("MCDEBUG") == "req" {
						fmt.Fprintln(os.Stderr, "req", fn(t), reachesEffect(c, t, pred), "id=", id)
					}
					if !reachesEffect(c, t, pred) {
						continue
					}
					// the id argument of the call is the same order id (in the terms of the top function)
					for _, a := range call.Common().Args {
						e := w.ExprOf(a)
						if ctx != nil {
							e = ctx.Apply(e)
						}
						if e.String() == id || w.Expand(e, 4).String() == id {
							return true
						}
						// the id field of the order loaded under that id: an order is stored under the key of its own id
						// (A7.raise-fields: the key written at raise time is the key of the Id stored)
						if nz := nonZeroAlts(w.Expand(e, 4)); len(nz) == 1 && isStateField(nz[0], secPO, "Id") {
							if ka := keyArgs(stateKey(nz[0])); len(ka) == 1 && ka[0].String() == id {
								return true
							}
						}
					}
					if keySec == "" {
						return true
					}
				}
				return false
			}
		}
		need := map[string]func(*ir.FCtx, ssa.Instruction) bool{}
		switch status.Name {
		case stCompleted:
			need["mint the order amount"] = func(_ *ir.FCtx, in ssa.Instruction) bool {
				call, ok := in.(ssa.CallInstruction)
				if !ok {
					return false
				}
				for _, t := range w.CalleesOf(call) {
					if reachesEffect(c, t, isMint) {
						return true
					}
				}
				return false
			}
			need["dequeue the same id from the accepted queue"] = reqCall(func(e ir.Effect) bool { return e.Kind == "StoreDelete" && e.Section == secAcceptedQ }, secAcceptedQ)
		case stAccepted:
			need["dequeue the same id from the raised queue"] = reqCall(func(e ir.Effect) bool { return e.Kind == "StoreDelete" && e.Section == secRaisedQ }, secRaisedQ)
			need["enqueue the same id in the accepted queue"] = reqCall(isAccQWrite, secAcceptedQ)
		case stRejected:
			need["dequeue the same id from the raised queue"] = reqCall(func(e ir.Effect) bool { return e.Kind == "StoreDelete" && e.Section == secRaisedQ }, secRaisedQ)
		default:
			continue
		}
		rule := "A3.tally-pairing"
		if status.Name == stCompleted {
			rule = "A3.completion-pairing"
		}
		for _, what := range sortedKeys(need) {
			req := need[what]
			ok, found := afterMust(c, f, pw.Chain, pw.Eff.Site, req)
			if !found {
				// the write cannot be located in the call-expanded view: judge inside the top function
				if ir.EnclosingLoopHeader(f, pw.First) == nil {
					r.Bad(rule, fn(f)+"|"+status.Name+"|loop", pos(c, pw.First), "queue processing happens in a loop over the queue", "the status write is not inside a loop")
					continue
				}
				ok = len(ir.AfterReachesBackEdgeWithout(f, pw.First, func(in ssa.Instruction) bool { return req(nil, in) })) == 0
			}
			if !ok && what == "mint the order amount" {
				// the two steps of one turn in the other order (mint, then mark and store): every path from the top of the loop to
				// the store has passed the mint
				if hdr := ir.EnclosingLoopHeader(f, pw.First); hdr != nil && pw.First.Parent() == f {
					ok = !ir.ReachesFrom(f, hdr, 0, pw.First, ir.Cut{Barrier: func(in ssa.Instruction) bool { return in != pw.First && req(nil, in) }})
				}
			}
			r.Require(ok, rule, fn(f)+"|"+status.Name+"|"+what, pos(c, pw.First), "after storing Status="+status.Name+" every non-aborting path of the iteration must "+what, "the next iteration (or the end of the step) is reachable without it")
		}
	}
}

func containsInstr(xs []ssa.Instruction, x ssa.Instruction) bool {
	for _, y := range xs {
		if y == x {
			return true
		}
	}
	return false
}

// whitelistRules: the whitelist handler adds / removes exactly addr(msg.Address), the add only
// under msg.Action == Add, the remove only under msg.Action == Remove.
func whitelistRules(c *Ctx) {
	w, r := c.W, c.R
	h := handlerOf(c, "enterprise", "WhitelistAddress")
	if h == nil {
		r.Undecided("A2.whitelist-action", "handler", "", "WhitelistAddress handler found", "missing")
		return
	}
	n := 0
	for _, in := range instantiate(c, h, func(e ir.Effect) bool {
		return (e.Kind == "StoreWrite" || e.Kind == "StoreDelete") && e.Section == secWhitelist && e.Key != nil
	}, func(e ir.Effect) *ir.Expr { return e.Key }) {
		n++
		ka := keyArgs(in.E)
		r.Require(len(ka) == 1 && isAddrOf(ka[0], "Address"), "A2.whitelist-action", "key|"+in.Eff.Kind, pos(c, in.Eff.Site), "the whitelist entry changed is that of addr(msg.Address)", "key "+in.E.String())
		want := "x/enterprise/types.WhitelistActionAdd"
		if in.Eff.Kind == "StoreDelete" {
			want = "x/enterprise/types.WhitelistActionRemove"
		}
		// the guard lives in the keeper helper that switches on the action: judge it at the first call in the handler
		first := in.Eff.Site
		top := in.Eff.Fn
		if len(in.Chain) > 0 {
			first = in.Chain[len(in.Chain)-1]
			top = first.Parent()
		}
		_ = top
		ok := false
		// walk the chain from the handler down: some function on it must guard its step by action == want
		sites := append([]ssa.Instruction{}, in.Chain...)
		sites = append(sites, in.Eff.Site)
		for _, s := range sites {
			f := s.Parent()
			if w.Guarded(f, s, func(p ir.Pred) bool {
				return cmpIs(p, "==", func(x *ir.Expr) bool {
					return x.Op == "param" || isMsgField(x, "Action")
				}, func(y *ir.Expr) bool { return y.Op == "const" && y.Name == want })
			}, 1) {
				ok = true
			}
		}
		r.Require(ok, "A2.whitelist-action", "action|"+in.Eff.Kind, pos(c, in.Eff.Site), "an address is "+map[string]string{"StoreWrite": "added", "StoreDelete": "removed"}[in.Eff.Kind]+" only for the matching msg.Action", "no action == "+want+" guard on the route")
	}
	r.Floor("whitelist writes/deletes reachable from WhitelistAddress", n, 2)
}

// statusSuppliers: the assignments `<order>.Status = <constant K>` in the functions on the writer's route (the top
// function, the functions along the call chain, the writing function), each with the chain leading to its function.
type statusSupplier struct {
	site  ssa.Instruction
	chain []ssa.Instruction
}

func statusSuppliers(c *Ctx, pw poWriter, k string) []statusSupplier {
	var out []statusSupplier
	type level struct {
		f     *ssa.Function
		chain []ssa.Instruction
	}
	levels := []level{{pw.Top, nil}}
	for i, ci := range pw.Chain {
		var next *ssa.Function
		if i+1 < len(pw.Chain) {
			next = pw.Chain[i+1].Parent()
		} else {
			next = pw.Eff.Fn
		}
		_ = ci
		levels = append(levels, level{next, pw.Chain[:i+1]})
	}
	seen := map[*ssa.Function]bool{}
	for _, lv := range levels {
		if lv.f == nil || seen[lv.f] {
			continue
		}
		seen[lv.f] = true
		for _, b := range lv.f.Blocks {
			for _, in := range b.Instrs {
				st, ok := in.(*ssa.Store)
				if !ok {
					continue
				}
				fa, ok := st.Addr.(*ssa.FieldAddr)
				if !ok || fieldAddrName(fa) != "Status" {
					continue
				}
				if e := c.W.ExprOf(st.Val); e.Op == "const" && e.Name == k {
					out = append(out, statusSupplier{in, lv.chain})
				}
			}
		}
	}
	return out
}

// verdictSplit: the status stored is the verdict of a helper that returns one of several status constants
// (`status := tally.outcome(params); ...; po.Status = status`). Each constant the store can actually receive (judged with
// the facts of the flat view: a verdict the caller tests and turns away never arrives) is one transition, judged at the
// helper's return that produces it — the return must stand under the guards of its transition.
func verdictSplit(c *Ctx, pw poWriter, st *ir.Expr) []poWriter {
	w := c.W
	type level struct {
		f     *ssa.Function
		chain []ssa.Instruction
	}
	levels := []level{{pw.Top, nil}}
	for i := range pw.Chain {
		var next *ssa.Function
		if i+1 < len(pw.Chain) {
			next = pw.Chain[i+1].Parent()
		} else {
			next = pw.Eff.Fn
		}
		levels = append(levels, level{next, pw.Chain[:i+1]})
	}
	var out []poWriter
	seen := map[*ssa.Function]bool{}
	for _, lv := range levels {
		if lv.f == nil || seen[lv.f] {
			continue
		}
		seen[lv.f] = true
		for _, b := range lv.f.Blocks {
			for _, in := range b.Instrs {
				store, ok := in.(*ssa.Store)
				if !ok {
					continue
				}
				fa, ok := store.Addr.(*ssa.FieldAddr)
				if !ok || fieldAddrName(fa) != "Status" {
					continue
				}
				if _, isConst := store.Val.(*ssa.Const); isConst {
					continue
				}
				// which constants arrive at the store?
				feasible := map[string]bool{}
				unknown := false
				root := w.FlatRoot(lv.f)
				w.FlatWalk(root, nil, nil, func(p ir.FPos) bool {
					if p.Ctx == root && p.In == ssa.Instruction(store) {
						if k, ok := p.ConstAt(store.Val); ok {
							feasible[k] = true
						} else {
							unknown = true
						}
					}
					return true
				})
				for _, a := range valueAlts(c, lv.f, store, store.Val) {
					cst, ok := a.V.(*ssa.Const)
					if !ok || cst.Value == nil || a.E.Op != "const" {
						return nil
					}
					if !unknown && !feasible[cst.Value.ExactString()] {
						continue
					}
					if _, isRet := a.Pos.In.(*ssa.Return); !isRet {
						return nil
					}
					var calls []ssa.Instruction
					for x := a.Pos.Ctx; x != nil && x.Call != nil; x = x.Up {
						calls = append([]ssa.Instruction{x.Call}, calls...)
					}
					st2 := *st
					st2.Args = append([]*ir.Expr{}, st.Args...)
					for i, f := range st2.Fields {
						if f == "Status" {
							st2.Args[i] = a.E
						}
					}
					pw2 := pw
					pw2.Chain = append(append([]ssa.Instruction{}, lv.chain...), calls...)
					pw2.Struct = &st2
					pw2.Eff.Site = a.Pos.In
					out = append(out, pw2)
				}
			}
		}
	}
	return out
}

// queueMembership is rule A3.queue-membership, the converse of the pairing rules: an id is put on the raised (accepted)
// queue only on a path on which an order was given Status=Raised (Accepted) — every path from a transaction or block
// entry point to the enqueue passes an instruction that assigns that constant to a Status field or returns it as the
// verdict the status is set from. The later steps rely on it: the tally and the minting step panic (halting the chain)
// on a queued order in another status. Judged on the flat view with its facts, so `if po.Status == Accepted { enqueue }`
// after `po.Status = verdict` is followed to the verdict's returns.
func queueMembership(c *Ctx) {
	w, r := c.W, c.R
	n := 0
	for _, q := range []struct{ sec, status, name string }{{secRaisedQ, stRaised, "raised"}, {secAcceptedQ, stAccepted, "accepted"}} {
		isEnq := func(e ir.Effect) bool { return e.Kind == "StoreWrite" && e.Section == q.sec }
		direct := directSites(c, isEnq)
		isStatusConst := func(v ssa.Value) bool {
			cst, ok := v.(*ssa.Const)
			if !ok || cst.Value == nil {
				return false
			}
			e := w.ExprOf(v)
			return e.Op == "const" && e.Name == q.status
		}
		gives := func(cx *ir.FCtx, in ssa.Instruction) bool {
			switch x := in.(type) {
			case *ssa.Store:
				fa, ok := x.Addr.(*ssa.FieldAddr)
				if !ok || fieldAddrName(fa) != "Status" {
					return false
				}
				if isStatusConst(x.Val) {
					return true
				}
				// a helper that is handed the status to record (`closeDecision(&po, types.StatusAccepted, now)`)
				if p, isParam := x.Val.(*ssa.Parameter); isParam && cx != nil {
					if arg := cx.ArgValue(p); arg != nil && isStatusConst(arg) {
						return true
					}
				}
				return false
			case *ssa.Return:
				for _, rv := range x.Results {
					if isStatusConst(rv) {
						return true
					}
				}
			}
			return false
		}
		seen := map[*ssa.Function]bool{}
		for _, h := range w.WhoReaches([]string{"MSG", "BEGIN", "END", "ANTE"}, isEnq) {
			if seen[h.Root] {
				continue
			}
			seen[h.Root] = true
			n++
			root := w.FlatRoot(h.Root)
			hit := w.FlatReaches(root, nil, &ir.FlatCut{Barrier: gives}, func(p ir.FPos) bool { return direct(p.In) })
			where := ""
			if hit != nil {
				where = pos(c, hit.In) + " via " + strings.Join(hit.Ctx.Chain(), " -> ")
			}
			r.Require(hit == nil, "A3.queue-membership", q.name+"|root="+fn(h.Root), w.Pos(h.Root.Pos()),
				"an id is put on the "+q.name+" queue only on a path that gives an order Status="+q.status+" (the next step panics on a queued order in any other status)",
				"the enqueue at "+where+" is reachable without any assignment or verdict of "+q.status)
		}
	}
	r.Floor("entry points enqueuing purchase orders", n, 2)
	// genesis import rebuilds the queues from the stored statuses: an imported order goes on a queue only where its Status
	// has been found equal to that queue's status
	ng := 0
	for _, q := range []struct{ sec, status, name string }{{secRaisedQ, stRaised, "raised"}, {secAcceptedQ, stAccepted, "accepted"}} {
		isEnq := func(e ir.Effect) bool { return e.Kind == "StoreWrite" && e.Section == q.sec }
		direct := directSites(c, isEnq)
		m := func(p ir.Pred) bool {
			return cmpIs(p, "==", func(x *ir.Expr) bool { return x.Op == "field" && x.Name == "Status" }, func(y *ir.Expr) bool { return y.Op == "const" && y.Name == q.status })
		}
		seen := map[*ssa.Function]bool{}
		for _, h := range w.WhoReaches([]string{"INITGEN"}, isEnq) {
			if seen[h.Root] {
				continue
			}
			seen[h.Root] = true
			ng++
			root := w.FlatRoot(h.Root)
			hit := w.FlatReaches(root, nil, &ir.FlatCut{Matcher: m, Depth: 1}, func(p ir.FPos) bool { return direct(p.In) })
			where := ""
			if hit != nil {
				where = pos(c, hit.In) + " via " + strings.Join(hit.Ctx.Chain(), " -> ")
			}
			r.Require(hit == nil, "A3.queue-membership", q.name+"|genesis|root="+fn(h.Root), w.Pos(h.Root.Pos()),
				"genesis import puts an order on the "+q.name+" queue only where its Status was found to be "+q.status+" (the next block step panics on a queued order in any other status)",
				"the enqueue at "+where+" is reachable without a test Status == "+q.status)
		}
	}
	r.Floor("queues rebuilt by genesis import", ng, 1)
}

// tallyComplete is rule A3.tally-complete: at every block each raised order is held against the thresholds. In the
// function that tallies (the one whose loop over the raised queue reaches the store of Status=Accepted), no turn of the
// loop goes on to the next order without either storing a new status or having found "accepts < MinAccepts" for this very
// order: a shortcut that skips an order for any other reason (nothing new since the last tally, a cached verdict) leaves
// it raised although the parameters in force — which governance may have changed since — would settle it.
func tallyComplete(c *Ctx, pw poWriter, baseKey string) {
	w, r := c.W, c.R
	f := pw.Top
	if f == nil || pw.First == nil {
		return
	}
	hdr := ir.EnclosingLoopHeader(f, pw.First)
	key := fn(f)
	if c.done == nil {
		c.done = map[string]bool{}
	}
	if c.done["tally-complete|"+key] {
		return
	}
	c.done["tally-complete|"+key] = true
	if hdr == nil {
		r.Undecided("A3.tally-complete", key, pos(c, pw.First), "the tally stands in a loop over the raised queue", "the store of Status=Accepted is not inside a loop of "+key)
		return
	}
	minAcc := func(e *ir.Expr) bool { return isEntParam(c, stripConvE(e), "MinAccepts") }
	accepts := func(e *ir.Expr) bool { return isCounterOf(c, e, stAccepted, baseKey) }
	few := func(p ir.Pred) bool {
		ok := cmpIs(p, "<", accepts, minAcc)
		if os.Getenv("MCDEBUG") == "tally" {
			fmt.Fprintln(os.Stderr, "tally pred", ok, p.Pol, p.E.String()[:min(200, len(p.E.String()))])
		}
		return ok
	}
	isStore := directSites(c, func(e ir.Effect) bool { return e.Kind == "StoreWrite" && e.Section == secPO })
	root := w.FlatRoot(f)
	bad := ""
	for _, be := range ir.BackEdges(f) {
		if be[1] != hdr {
			continue
		}
		latch := be[0]
		term := latch.Instrs[len(latch.Instrs)-1]
		for _, su := range hdr.Succs {
			if su == hdr || !hdr.Dominates(su) || !ir.ReachesFrom(f, su, 0, term, ir.Cut{}) {
				continue
			}
			from := ir.FPos{Ctx: root, In: hdr.Instrs[len(hdr.Instrs)-1]}
			su := su
			cut := &ir.FlatCut{Matcher: few, Depth: 2,
				Barrier: func(_ *ir.FCtx, x ssa.Instruction) bool { return isStore(x) },
				Edges: func(cx *ir.FCtx) map[[2]int]bool {
					if cx != root {
						return nil
					}
					out := map[[2]int]bool{}
					for si, s2 := range hdr.Succs {
						if s2 != su {
							out[[2]int{hdr.Index, si}] = true
						}
					}
					return out
				}}
			if os.Getenv("MCDEBUG") == "tally" {
				var trail []string
				w.FlatWalk(root, &from, cut, func(p ir.FPos) bool {
					if p.Ctx == root {
						if _, isIf := p.In.(*ssa.If); isIf {
							trail = append(trail, fmt.Sprintf("%d:%s", p.In.Block().Index, p.In.Block().Comment))
						}
					}
					return true
				})
				fmt.Fprintln(os.Stderr, "tally walk hdr", hdr.Index, hdr.Comment, "su", su.Index, "latch", latch.Index, latch.Comment, "ifs visited:", trail)
			}
			// (coming round to the header again: the back edge itself may be the untaken side of the last test)
			first := hdr.Instrs[0]
			if hit := w.FlatReaches(root, &from, cut, func(p ir.FPos) bool { return p.Ctx == root && p.In == first }); hit != nil {
				bad = "the next order is reached from " + w.InstrPos(hdr.Instrs[0]) + " without a status being stored and without this order's accepts having been found below MinAccepts"
			}
		}
	}
	r.Require(bad == "", "A3.tally-complete", key, pos(c, pw.First), "every raised order is held against the thresholds at every block (an order stays raised only because its accepts are below MinAccepts and no reject condition holds)", bad)
}

// mintMarksCompleted is the converse of the completion pairing (A3.completion-pairing|mint-marks-completed): in the block
// step that mints for accepted orders, no turn of the loop mints without also storing the order with Status=Completed —
// before the mint on every path from the top of the loop, or after it on every path to the next turn. An order that was
// paid but is still stored as accepted is queued again when the accepted queue is rebuilt from the stored statuses (genesis
// import after an export / restart) and is paid a second time. Returns the number of mint sites judged.
func mintMarksCompleted(c *Ctx) int {
	w, r := c.W, c.R
	n := 0
	isMint := func(e ir.Effect) bool { return e.Kind == "Mint" }
	var completed []poWriter
	for _, pw := range poWriters(c) {
		if st := fieldOfStruct(pw.Struct, "Status"); st != nil && st.Op == "const" && st.Name == stCompleted {
			completed = append(completed, pw)
		}
	}
	// an instruction that is, or leads to, a store of an order as Completed
	isWc := func(in ssa.Instruction) bool {
		for _, pw := range completed {
			if pw.First == in || pw.Eff.Site == in {
				return true
			}
			for _, cs := range pw.Chain {
				if cs == in {
					return true
				}
			}
		}
		return false
	}
	var judge func(f *ssa.Function, depth int)
	seen := map[*ssa.Function]bool{}
	judge = func(f *ssa.Function, depth int) {
		if seen[f] || depth > 4 {
			return
		}
		seen[f] = true
		for _, m := range mutatingSites(c, f, isMint) {
			if isWc(m) {
				// one call both marks and mints: the two steps are siblings further down
				if call, ok := m.(ssa.CallInstruction); ok {
					for _, g := range w.CalleesOf(call) {
						if len(g.Blocks) > 0 {
							judge(g, depth+1)
						}
					}
				}
				continue
			}
			n++
			notM := func(in ssa.Instruction) bool { return in != m && isWc(in) }
			var before, after bool
			if hdr := ir.EnclosingLoopHeader(f, m); hdr != nil {
				before = !ir.ReachesFrom(f, hdr, 0, m, ir.Cut{Barrier: notM})
				after = len(ir.AfterReachesBackEdgeWithout(f, m, isWc)) == 0
			} else {
				before = !ir.Reaches(f, m, ir.Cut{Barrier: notM})
				after = true
				for _, ret := range w.SuccessReturns(f) {
					if ir.ReachesFrom(f, m.Block(), ir.InstrIndex(m)+1, ret, ir.Cut{Barrier: isWc}) {
						after = false
					}
				}
				if len(w.SuccessReturns(f)) == 0 {
					after = false
				}
			}
			r.Require(before || after, "A3.completion-pairing", fn(f)+"|mint-marks-completed", pos(c, m),
				"a turn of the completion loop that mints also stores the order with Status=Completed (before the mint on every path, or after it on every path to the next order)",
				"the mint is reached, and the next order taken up, without the order having been stored as completed")
		}
	}
	for _, root := range w.Roots["BEGIN:enterprise"] {
		var fs []*ssa.Function
		for f := range w.Reachable([]*ssa.Function{root}) {
			fs = append(fs, f)
		}
		sortFuncs(fs)
		for _, f := range fs {
			// start where the loop over the accepted queue stands
			for _, m := range mutatingSites(c, f, isMint) {
				if ir.EnclosingLoopHeader(f, m) != nil {
					judge(f, 0)
					break
				}
			}
		}
	}
	return n
}
