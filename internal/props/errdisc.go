package props

import (
	"fmt"
	"strings"

	"golang.org/x/tools/go/ssa"

	"mcverif/internal/ir"
)

// errorPropagation is rule A8.error-propagation (C14 clause "a transaction any of whose messages
// fail — by error — leaves all module state as it was"): baseapp rolls a transaction back only
// when the handler *returns* the error. A call that can change state (a store write/delete or a
// bank move, directly or through in-scope callees) and returns an error must therefore not have
// that error discarded on a transaction / block / genesis path: a discarded error lets the
// handler carry on and commit the remaining steps of a half-done operation.
//
// "Discarded" is decided on the SSA value, not on the spelling: the error result (the call value
// or its tuple extract) has no use at all — `_ = f()`, `x, _ := f()`, a bare `f()` statement and
// `err = f()` overwritten before any read all look the same here. Any use (returned, wrapped,
// compared with nil, stored in a result variable, passed on) discharges the obligation; what the
// handler then does with it is the business of the pairing rules of C04/C10.
func errorPropagation(c *Ctx, fs []*ssa.Function, rule string) (sites, dropped int) {
	w, r := c.W, c.R
	for _, f := range fs {
		direct := map[ssa.Instruction]bool{}
		for _, e := range w.EffectsOf(f) {
			if isStateMutation(e) {
				direct[e.Site] = true
			}
		}
		ord := map[string]int{}
		for _, b := range f.Blocks {
			for _, in := range b.Instrs {
				call, ok := in.(*ssa.Call)
				if !ok {
					continue
				}
				idx := ir.ErrIndexOfCall(call)
				if idx < 0 {
					continue
				}
				mut := direct[in]
				name := ""
				if !mut {
					for _, t := range w.CalleesOf(call) {
						if reachesEffect(c, t, isStateMutation) {
							mut = true
							name = ir.ShortFn(t)
							break
						}
					}
				}
				if !mut {
					continue
				}
				if name == "" {
					name = callName(call)
				}
				sites++
				ord[name]++
				key := fmt.Sprintf("%s|%s|%d", fn(f), name, ord[name])
				used := errResultUsed(call, idx)
				if !used {
					dropped++
				}
				r.Require(used, rule, key, pos(c, in),
					"the error of a state-changing call is never discarded on a transaction, block or genesis path (baseapp rolls back only on a returned error)",
					"the error result of "+name+" has no use: a failure of this step is ignored and the remaining steps are committed")
			}
		}
	}
	return
}

func callName(call *ssa.Call) string {
	cc := call.Common()
	if cc.IsInvoke() {
		return cc.Method.Name()
	}
	if sc := cc.StaticCallee(); sc != nil {
		return ir.ShortFn(sc)
	}
	return strings.TrimSpace(cc.Value.Name())
}

func errResultUsed(call *ssa.Call, idx int) bool {
	used := func(v ssa.Value) bool {
		refs := v.Referrers()
		if refs == nil {
			return false
		}
		for _, x := range *refs {
			if _, dbg := x.(*ssa.DebugRef); !dbg {
				return true
			}
		}
		return false
	}
	if call.Common().Signature().Results().Len() == 1 {
		return used(call)
	}
	refs := call.Referrers()
	if refs == nil {
		return false
	}
	for _, x := range *refs {
		if ex, ok := x.(*ssa.Extract); ok && ex.Index == idx && used(ex) {
			return true
		}
	}
	return false
}
