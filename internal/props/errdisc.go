package props

import (
	"fmt"
	"go/token"
	"go/types"
	"strings"

	"golang.org/x/tools/go/ssa"

	"mcverif/internal/ir"
)

// errorPropagation is rule A8.error-propagation (C14 clause "a transaction any of whose messages
// fail — by error — leaves all module state as it was"): baseapp rolls a transaction back only
// when the handler *returns* the error. A call that can change state (a store write/delete or a
// bank move, directly or through in-scope callees) and returns an error must therefore not have
// that error discarded on a transaction / block / genesis path: a discarded error lets the
// handler carry on and commit the remaining steps of a half-done operation.
//
// "Discarded" is decided on the SSA value, not on the spelling: the error result (the call value
// or its tuple extract) has no use at all — `_ = f()`, `x, _ := f()`, a bare `f()` statement and
// `err = f()` overwritten before any read all look the same here. Any use (returned, wrapped,
// compared with nil, stored in a result variable, passed on) discharges the obligation; what the
// handler then does with it is the business of the pairing rules of C04/C10.
func errorPropagation(c *Ctx, fs []*ssa.Function, rule string) (sites, dropped int) {
	w, r := c.W, c.R
	for _, f := range fs {
		direct := map[ssa.Instruction]bool{}
		for _, e := range w.EffectsOf(f) {
			if isStateMutation(e) {
				direct[e.Site] = true
			}
		}
		ord := map[string]int{}
		untested := 0
		_ = untested
		for _, b := range f.Blocks {
			for _, in := range b.Instrs {
				call, ok := in.(*ssa.Call)
				if !ok {
					continue
				}
				idx := ir.ErrIndexOfCall(call)
				if idx < 0 {
					continue
				}
				mut := direct[in]
				name := ""
				if !mut {
					for _, t := range w.CalleesOf(call) {
						if reachesEffect(c, t, isStateMutation) {
							mut = true
							name = ir.ShortFn(t)
							break
						}
					}
				}
				if !mut {
					continue
				}
				if name == "" {
					name = callName(call)
				}
				sites++
				ord[name]++
				key := fmt.Sprintf("%s|%s|%d", fn(f), name, ord[name])
				used := errResultUsed(call, idx)
				if !used {
					dropped++
				}
				r.Require(used, rule, key, pos(c, in),
					"the error of a state-changing call is never discarded on a transaction, block or genesis path (baseapp rolls back only on a returned error)",
					"the error result of "+name+" has no use: a failure of this step is ignored and the remaining steps are committed")
				if used {
					// ... and it is this error that decides: no successful return is reached from the call except over the nil side of
					// a test of this very value (testing another error variable — `if accErr != nil` after `_, err = f()` — lets the
					// operation go on, and succeed, after the step failed)
					if ret := untestedSuccess(w, f, call, idx); ret != nil {
						untested++
						r.Bad(rule, key+"|tested", pos(c, in),
							"after a state-changing call no successful return is reached except over the nil side of a test of that call's error (or the error itself is what is returned)",
							"the return at "+w.InstrPos(ret)+" is reached from the call without the error of "+name+" having been found nil")
					}
				}
			}
		}
	}
	return
}

func callName(call *ssa.Call) string {
	cc := call.Common()
	if cc.IsInvoke() {
		return cc.Method.Name()
	}
	if sc := cc.StaticCallee(); sc != nil {
		return ir.ShortFn(sc)
	}
	return strings.TrimSpace(cc.Value.Name())
}

func errResultUsed(call *ssa.Call, idx int) bool {
	used := func(v ssa.Value) bool {
		refs := v.Referrers()
		if refs == nil {
			return false
		}
		for _, x := range *refs {
			if _, dbg := x.(*ssa.DebugRef); !dbg {
				return true
			}
		}
		return false
	}
	if call.Common().Signature().Results().Len() == 1 {
		return used(call)
	}
	refs := call.Referrers()
	if refs == nil {
		return false
	}
	for _, x := range *refs {
		if ex, ok := x.(*ssa.Extract); ok && ex.Index == idx && used(ex) {
			return true
		}
	}
	return false
}

// errValueOf: the SSA value holding the error result of the call (the call itself, or the extract of its error position).
func errValueOf(call *ssa.Call, idx int) ssa.Value {
	if call.Common().Signature().Results().Len() == 1 {
		return call
	}
	if refs := call.Referrers(); refs != nil {
		for _, x := range *refs {
			if ex, ok := x.(*ssa.Extract); ok && ex.Index == idx {
				return ex
			}
		}
	}
	return nil
}

// untestedSuccess: a success-capable return of f that is reachable from just after the call when every edge on which the
// call's error is known to be nil is removed, and that does not hand the error on itself. nil when there is none.
func untestedSuccess(w *ir.World, f *ssa.Function, call *ssa.Call, idx int) *ssa.Return {
	ev := errValueOf(call, idx)
	if ev == nil {
		return nil
	}
	// values that carry the error on: phis it flows into, interface conversions, stores into a result local
	carries := map[ssa.Value]bool{ev: true}
	stored := map[*ssa.Alloc]bool{} // allocs the error is stored into
	work := []ssa.Value{ev}
	for len(work) > 0 {
		v := work[len(work)-1]
		work = work[:len(work)-1]
		refs := v.Referrers()
		if refs == nil {
			continue
		}
		for _, r := range *refs {
			switch x := r.(type) {
			case *ssa.Phi:
				if !carries[x] {
					carries[x] = true
					work = append(work, x)
				}
			case *ssa.MakeInterface:
				if !carries[x] {
					carries[x] = true
					work = append(work, x)
				}
			case *ssa.ChangeInterface:
				if !carries[x] {
					carries[x] = true
					work = append(work, x)
				}
			case *ssa.Store:
				if x.Val == v {
					if al, ok := x.Addr.(*ssa.Alloc); ok {
						stored[al] = true
					}
				}
			case *ssa.Call:
				// wrapped: the wrapper's result stands for the error
				if !carries[x] && ir.ErrIndexOfCall(x) >= 0 || types.Identical(x.Type(), ev.Type()) {
					carries[x] = true
					work = append(work, x)
				}
			}
		}
	}
	// loads of a local the error was stored into carry it too — where the load sees that store: with a deferred call the
	// results are spilled into locals that every return block assigns (`*r1 = nil`) and loads again
	for al := range stored {
		if refs := al.Referrers(); refs != nil {
			for _, r := range *refs {
				if u, ok := r.(*ssa.UnOp); ok && u.X == ssa.Value(al) {
					if st := lastStoreBefore(u, al); st != nil {
						if carries[st.Val] {
							carries[u] = true
						}
						continue
					}
					carries[u] = true
				}
			}
		}
	}
	nilEdges := map[[2]int]bool{}
	tested := false
	for _, b := range f.Blocks {
		if len(b.Instrs) == 0 {
			continue
		}
		iff, ok := b.Instrs[len(b.Instrs)-1].(*ssa.If)
		if !ok {
			continue
		}
		cond := iff.Cond
		neg := false
		for {
			u, ok := cond.(*ssa.UnOp)
			if !ok || u.Op != token.NOT {
				break
			}
			cond, neg = u.X, !neg
		}
		bo, ok := cond.(*ssa.BinOp)
		if !ok || bo.Op != token.EQL && bo.Op != token.NEQ {
			continue
		}
		var other ssa.Value
		switch {
		case carries[bo.X]:
			other = bo.Y
		case carries[bo.Y]:
			other = bo.X
		default:
			continue
		}
		if cst, ok := other.(*ssa.Const); !ok || cst.Value != nil {
			continue
		}
		tested = true
		nilSide := 0 // err == nil: the true successor
		if bo.Op == token.NEQ {
			nilSide = 1
		}
		if neg {
			nilSide = 1 - nilSide
		}
		nilEdges[[2]int{b.Index, nilSide}] = true
	}
	_ = tested
	errIdx := ir.ErrIndex(f)
	for _, ret := range w.SuccessReturns(f) {
		if errIdx >= 0 && errIdx < len(ret.Results) && carries[ret.Results[errIdx]] {
			continue // the error itself is handed to the caller
		}
		if errIdx < 0 {
			continue // no error to report: what the function does with a failure is judged at its own rules (panics)
		}
		if !ir.ReachesFrom(f, call.Block(), ir.InstrIndex(call)+1, ret, ir.Cut{}) {
			continue
		}
		if ir.ReachesFrom(f, call.Block(), ir.InstrIndex(call)+1, ret, ir.Cut{Edges: nilEdges}) {
			return ret
		}
	}
	return nil
}
