package props

import (
	"fmt"
	"go/types"
	"os"
	"strings"

	"golang.org/x/tools/go/ssa"

	"mcverif/internal/ir"
)

// appendAlias is rule A11.append-alias: two keys never share a backing array.
//
// append(b, x...) writes into b's own array when b has room to spare, so two appends to the same b hand back slices
// that overlap: the second overwrites what the first put there, and a key kept from the first (in a list, as a store
// key used later) silently becomes the second key. The rule looks at every append (and every call of a module function
// that appends to a slice it is handed) in the key-building code of the modules, takes its base b, and asks whether the
// same value b can reach an append twice: two appends with that base, or one inside a loop whose base is created
// outside it. That is harmless only when b provably has no room (a section-prefix variable initialised by a literal
// and never written, a full literal, make with equal length and capacity, a three-index slice with max = high, nil).
func appendAlias(c *Ctx) {
	w, r := c.W, c.R
	n := 0
	summ := map[*ssa.Function]map[int]bool{}
	for _, m := range ir.Modules {
		var fs []*ssa.Function
		fs = append(fs, moduleFuncs(c, m)...)
		for _, f := range w.Funcs {
			if w.IsGenerated(f) || ir.IsFixture(f) || ir.FnPkg(f) == nil {
				continue
			}
			if rel := ir.RelPkg(ir.FnPkg(f).Path()); rel == "x/"+m+"/types" || rel == "x/"+m+"/ante" {
				fs = append(fs, f)
			}
		}
		sortFuncs(fs)
		for _, f := range fs {
			for _, fd := range appendAliasFindings(c, f, summ) {
				n++
				key := fmt.Sprintf("%s|%s|%d", m, fn(f), fd.ord)
				r.Require(fd.detail == "", "A11.append-alias", key, pos(c, fd.in),
					"a byte slice that is appended to more than once has no spare capacity (else the results share one array and the later append overwrites the earlier key)", fd.detail)
			}
		}
	}
	r.Floor("appends to byte slices in key-building and store code", n, 5)
	appendAliasControl(c)
}

type aliasFinding struct {
	in     ssa.Instruction
	ord    int
	detail string
}

func isByteSlice(t types.Type) bool {
	s, ok := t.Underlying().(*types.Slice)
	if !ok {
		return false
	}
	b, ok := s.Elem().Underlying().(*types.Basic)
	return ok && b.Kind() == types.Uint8
}

// appendBase: in is an append to a byte slice (or a call handing a byte slice to a function that appends to it):
// the base value.
func appendBases(c *Ctx, in ssa.Instruction, summ map[*ssa.Function]map[int]bool) []ssa.Value {
	call, ok := in.(ssa.CallInstruction)
	if !ok {
		return nil
	}
	cc := call.Common()
	if b, ok := cc.Value.(*ssa.Builtin); ok && b.Name() == "append" && len(cc.Args) == 2 {
		if isByteSlice(cc.Args[0].Type()) {
			return []ssa.Value{cc.Args[0]}
		}
		return nil
	}
	sc := cc.StaticCallee()
	if sc == nil || cc.IsInvoke() || len(sc.Blocks) == 0 || ir.FnPkg(sc) == nil || !(strings.HasPrefix(ir.RelPkg(ir.FnPkg(sc).Path()), "x/") || ir.IsFixture(sc)) || c.W.IsGenerated(sc) {
		return nil
	}
	var out []ssa.Value
	for i := range appendsToParams(c, sc, summ, 0) {
		if i < len(cc.Args) {
			out = append(out, cc.Args[i])
		}
	}
	return out
}

// appendsToParams: the parameters of g (by index) that g appends to (directly or through another module function).
func appendsToParams(c *Ctx, g *ssa.Function, summ map[*ssa.Function]map[int]bool, depth int) map[int]bool {
	if s, ok := summ[g]; ok {
		return s
	}
	out := map[int]bool{}
	summ[g] = out
	if depth > 4 {
		return out
	}
	for _, b := range g.Blocks {
		for _, in := range b.Instrs {
			for _, base := range appendBases2(c, in, summ, depth) {
				if p, ok := sliceRoot(base).(*ssa.Parameter); ok {
					for i, q := range g.Params {
						if q == p {
							out[i] = true
						}
					}
				}
			}
		}
	}
	return out
}

func appendBases2(c *Ctx, in ssa.Instruction, summ map[*ssa.Function]map[int]bool, depth int) []ssa.Value {
	call, ok := in.(ssa.CallInstruction)
	if !ok {
		return nil
	}
	cc := call.Common()
	if b, ok := cc.Value.(*ssa.Builtin); ok && b.Name() == "append" && len(cc.Args) == 2 {
		if isByteSlice(cc.Args[0].Type()) {
			return []ssa.Value{cc.Args[0]}
		}
		return nil
	}
	sc := cc.StaticCallee()
	if sc == nil || cc.IsInvoke() || len(sc.Blocks) == 0 || ir.FnPkg(sc) == nil || !(strings.HasPrefix(ir.RelPkg(ir.FnPkg(sc).Path()), "x/") || ir.IsFixture(sc)) || c.W.IsGenerated(sc) {
		return nil
	}
	var out []ssa.Value
	for i := range appendsToParams(c, sc, summ, depth+1) {
		if i < len(cc.Args) {
			out = append(out, cc.Args[i])
		}
	}
	return out
}

// sliceRoot strips type changes (a named byte-slice type and back).
func sliceRoot(v ssa.Value) ssa.Value {
	for i := 0; i < 8; i++ {
		switch x := v.(type) {
		case *ssa.ChangeType:
			v = x.X
		case *ssa.Convert:
			if isByteSlice(x.X.Type()) {
				v = x.X
			} else {
				return v
			}
		default:
			return v
		}
	}
	return v
}

// noSpare: v provably has capacity == length (or is nil).
func noSpare(c *Ctx, v ssa.Value, seen map[ssa.Value]bool) bool {
	v = sliceRoot(v)
	if seen[v] {
		return true
	}
	seen[v] = true
	switch x := v.(type) {
	case *ssa.Const:
		return x.IsNil()
	case *ssa.MakeSlice:
		return sameIntValue(x.Len, x.Cap)
	case *ssa.Slice:
		if x.Max != nil {
			return sameIntValue(x.Max, x.High)
		}
		// a full slice of an array created on the spot (a composite literal)
		if a, ok := x.X.(*ssa.Alloc); ok && x.Low == nil && x.High == nil {
			_, isArr := a.Type().Underlying().(*types.Pointer).Elem().Underlying().(*types.Array)
			return isArr
		}
		return false
	case *ssa.UnOp:
		g, ok := x.X.(*ssa.Global)
		if !ok {
			return false
		}
		return literalGlobal(c, g)
	case *ssa.Phi:
		for _, e := range x.Edges {
			if !noSpare(c, e, seen) {
				return false
			}
		}
		return true
	}
	return false
}

// literalGlobal: the package variable is given its value once, in the package initialiser, from a literal (a full slice
// of a new array) — the section-prefix idiom `var XPrefix = []byte{0x01}`.
func literalGlobal(c *Ctx, g *ssa.Global) bool {
	stores := 0
	ok := true
	for _, f := range c.W.Funcs {
		if f.Pkg != g.Pkg {
			continue
		}
		for _, b := range f.Blocks {
			for _, in := range b.Instrs {
				st, isStore := in.(*ssa.Store)
				if !isStore || st.Addr != ssa.Value(g) {
					continue
				}
				stores++
				if f.Name() != "init" || !noSpare(c, st.Val, map[ssa.Value]bool{}) {
					ok = false
				}
			}
		}
	}
	if init := g.Pkg.Func("init"); init != nil && stores == 0 {
		for _, b := range init.Blocks {
			for _, in := range b.Instrs {
				if st, isStore := in.(*ssa.Store); isStore && st.Addr == ssa.Value(g) {
					stores++
					if !noSpare(c, st.Val, map[ssa.Value]bool{}) {
						ok = false
					}
				}
			}
		}
	}
	return ok && stores == 1
}

func appendAliasFindings(c *Ctx, f *ssa.Function, summ map[*ssa.Function]map[int]bool) []aliasFinding {
	type use struct {
		in   ssa.Instruction
		base ssa.Value
	}
	var uses []use
	for _, b := range f.Blocks {
		for _, in := range b.Instrs {
			for _, base := range appendBases(c, in, summ) {
				uses = append(uses, use{in, sliceRoot(base)})
			}
		}
	}
	useAt := map[ssa.Instruction][]ssa.Value{}
	for _, u := range uses {
		useAt[u.in] = append(useAt[u.in], u.base)
	}
	// the values a base may be: through the variables (phis) that carry it from one iteration or branch to the next
	var srcs []ssa.Value
	seenSrc := map[ssa.Value]bool{}
	var leaves func(v ssa.Value, seen map[ssa.Value]bool)
	leaves = func(v ssa.Value, seen map[ssa.Value]bool) {
		v = sliceRoot(v)
		if seen[v] {
			return
		}
		seen[v] = true
		if phi, ok := v.(*ssa.Phi); ok {
			for _, e := range phi.Edges {
				leaves(e, seen)
			}
			return
		}
		if !seenSrc[v] {
			seenSrc[v] = true
			srcs = append(srcs, v)
		}
	}
	for _, u := range uses {
		leaves(u.base, map[ssa.Value]bool{})
	}
	bad := map[ssa.Instruction]string{}
	for _, s := range srcs {
		if _, isParam := s.(*ssa.Parameter); isParam {
			continue // judged at the callers, where the slice handed in is known (the summary above)
		}
		if noSpare(c, s, map[ssa.Value]bool{}) {
			continue
		}
		for in, first := range twiceBase(f, s, useAt) {
			if bad[in] == "" {
				bad[in] = "the slice " + s.Name() + " (" + describeBase(s) + ") may have spare capacity and is appended to at " + pos(c, first) + " and then here without being created anew in between: both results share its array"
			}
		}
	}
	var out []aliasFinding
	for i, u := range uses {
		out = append(out, aliasFinding{in: u.in, ord: i + 1, detail: bad[u.in]})
	}
	return out
}

// twiceBase follows one creation of the slice value s through f: which variables hold that very value (s itself and the
// phis it is carried by, decided per incoming edge), and whether an append has already used it as its base. Returns the
// appends reached with s as their base for the second time (with the first).
func twiceBase(f *ssa.Function, s ssa.Value, useAt map[ssa.Instruction][]ssa.Value) map[ssa.Instruction]ssa.Instruction {
	out := map[ssa.Instruction]ssa.Instruction{}
	def, _ := s.(ssa.Instruction)
	type state struct {
		b     *ssa.BasicBlock
		from  *ssa.BasicBlock
		held  string
		first ssa.Instruction
	}
	keyOf := func(held map[ssa.Value]bool) string {
		var names []string
		for v := range held {
			names = append(names, v.Name())
		}
		sortStrings(names)
		return strings.Join(names, ",")
	}
	type item struct {
		b     *ssa.BasicBlock
		from  *ssa.BasicBlock
		idx   int
		held  map[ssa.Value]bool
		first ssa.Instruction
	}
	seen := map[state]bool{}
	var work []item
	if def != nil {
		b := def.Block()
		for i, in := range b.Instrs {
			if in == def {
				work = append(work, item{b, nil, i + 1, map[ssa.Value]bool{s: true}, nil})
			}
		}
	} else if len(f.Blocks) > 0 {
		work = append(work, item{f.Blocks[0], nil, 0, map[ssa.Value]bool{s: true}, nil})
	}
	for len(work) > 0 && len(seen) < 20000 {
		it := work[len(work)-1]
		work = work[:len(work)-1]
		held := map[ssa.Value]bool{}
		for v := range it.held {
			held[v] = true
		}
		first := it.first
		stopped := false
		for i := it.idx; i < len(it.b.Instrs); i++ {
			in := it.b.Instrs[i]
			if phi, ok := in.(*ssa.Phi); ok {
				if it.from == nil {
					continue
				}
				for pi, p := range it.b.Preds {
					if p == it.from && pi < len(phi.Edges) {
						if held[sliceRoot(phi.Edges[pi])] {
							held[phi] = true
						} else {
							delete(held, phi)
						}
					}
				}
				continue
			}
			if def != nil && in == def {
				stopped = true // a new creation: followed on its own from the start
				break
			}
			for _, base := range useAt[in] {
				if !held[sliceRoot(base)] {
					continue
				}
				if first != nil {
					if _, dup := out[in]; !dup {
						out[in] = first
					}
				} else {
					first = in
				}
			}
		}
		if stopped {
			continue
		}
		for _, succ := range it.b.Succs {
			// phis of the successor are decided on entry; they are evaluated together from the values held before
			st := state{succ, it.b, keyOf(held), first}
			if seen[st] {
				continue
			}
			seen[st] = true
			// evaluate the successor's phis simultaneously
			h2 := map[ssa.Value]bool{}
			for v := range held {
				h2[v] = true
			}
			for _, in := range succ.Instrs {
				phi, ok := in.(*ssa.Phi)
				if !ok {
					break
				}
				for pi, p := range succ.Preds {
					if p == it.b && pi < len(phi.Edges) {
						if held[sliceRoot(phi.Edges[pi])] {
							h2[phi] = true
						} else {
							delete(h2, phi)
						}
					}
				}
			}
			idx := 0
			for idx < len(succ.Instrs) {
				if _, ok := succ.Instrs[idx].(*ssa.Phi); !ok {
					break
				}
				idx++
			}
			work = append(work, item{succ, it.b, idx, h2, first})
		}
	}
	return out
}

func sortStrings(a []string) {
	for i := 1; i < len(a); i++ {
		for j := i; j > 0 && a[j] < a[j-1]; j-- {
			a[j], a[j-1] = a[j-1], a[j]
		}
	}
}

func describeBase(v ssa.Value) string {
	switch x := v.(type) {
	case *ssa.Call:
		return "result of " + x.Common().String()
	case *ssa.MakeSlice:
		return "make with capacity beyond its length"
	case *ssa.Phi:
		return "a variable assigned on several paths"
	case *ssa.UnOp:
		return "read from " + x.X.Name()
	case *ssa.FreeVar:
		return "a variable of the enclosing function"
	}
	return v.String()
}

// appendAliasControl: the rule reports the shared-base forms of the fixture and not the correct ones.
func appendAliasControl(c *Ctx) {
	posN, negN := 0, 0
	summ := map[*ssa.Function]map[int]bool{}
	for _, f := range c.W.Funcs {
		if !ir.IsFixture(f) || !strings.Contains(fn(f), "fixtures/c18") {
			continue
		}
		for _, fd := range appendAliasFindings(c, f, summ) {
			if os.Getenv("MCDEBUG") == "alias" {
				fmt.Fprintln(os.Stderr, "alias control", f.Name(), fd.ord, fd.detail)
			}
			if fd.detail == "" {
				continue
			}
			switch f.Name() {
			case "KeysOfOneReceiverShared", "TwoKeysFromOnePrefix":
				posN++
			default:
				negN++
			}
		}
	}
	c.R.Control("A11.append-alias", "fixtures/c18", posN == 2 && negN == 0)
}

// sameIntValue: a and b are the same value (go/ssa does not merge repeated len(x) calls or equal constants).
func sameIntValue(a, b ssa.Value) bool {
	if a == nil || b == nil {
		return false
	}
	if a == b {
		return true
	}
	if ca, ok := a.(*ssa.Const); ok {
		cb, ok2 := b.(*ssa.Const)
		return ok2 && ca.Value != nil && cb.Value != nil && ca.Value.ExactString() == cb.Value.ExactString()
	}
	la, ok1 := a.(*ssa.Call)
	lb, ok2 := b.(*ssa.Call)
	if ok1 && ok2 {
		ba, ok3 := la.Call.Value.(*ssa.Builtin)
		bb, ok4 := lb.Call.Value.(*ssa.Builtin)
		if ok3 && ok4 && ba.Name() == "len" && bb.Name() == "len" && len(la.Call.Args) == 1 && len(lb.Call.Args) == 1 {
			return la.Call.Args[0] == lb.Call.Args[0]
		}
	}
	return false
}
