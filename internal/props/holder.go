package props

import (
	"go/types"
	"strings"

	"golang.org/x/tools/go/packages"
	"golang.org/x/tools/go/ssa"

	"mcverif/internal/ir"
	"mcverif/internal/load"
)

// Long-lived module objects ("holderTypes"): keepers, message/query servers, ante decorators, app
// modules, the application itself. They are recognised by structure, not by name: a named
// struct type defined in the repository is a holder when one of its fields (transitively,
// through embedded or nested structs and pointers) is a store key of the SDK store package, is
// itself a holder, or is an interface that a holder implements (the keeper interfaces the ante
// packages declare). Memory reachable from such an object outlives the transaction and is not
// part of the multistore: writing it on a consensus path creates state that a restart, a
// discarded CheckTx/simulate/failed-proposal branch or a second node does not share.

type holderTypes struct {
	named  []*types.Named
	is     map[*types.Named]bool
	ifaces map[*types.Interface]bool
}

func (c *Ctx) holderSet() *holderTypes {
	if c.hold != nil {
		return c.hold
	}
	h := &holderTypes{is: map[*types.Named]bool{}, ifaces: map[*types.Interface]bool{}}
	for _, pk := range append(append([]*packages.Package{}, c.W.P.Pkgs...), c.W.P.Fixtures...) {
		sc := pk.Types.Scope()
		for _, n := range sc.Names() {
			tn, ok := sc.Lookup(n).(*types.TypeName)
			if !ok || tn.IsAlias() {
				continue
			}
			if nt, ok := tn.Type().(*types.Named); ok {
				if _, ok := nt.Underlying().(*types.Struct); ok {
					h.named = append(h.named, nt)
				}
			}
		}
	}
	for changed := true; changed; {
		changed = false
		for _, nt := range h.named {
			if h.is[nt] {
				continue
			}
			st := nt.Underlying().(*types.Struct)
			for i := 0; i < st.NumFields(); i++ {
				if h.fieldHolds(st.Field(i).Type()) {
					h.is[nt] = true
					changed = true
					break
				}
			}
		}
	}
	c.hold = h
	return h
}

func isStoreKeyType(t types.Type) bool {
	if p, ok := t.(*types.Pointer); ok {
		t = p.Elem()
	}
	nt, ok := t.(*types.Named)
	if !ok || nt.Obj().Pkg() == nil {
		return false
	}
	path := nt.Obj().Pkg().Path()
	if !strings.HasSuffix(path, "cosmos-sdk/store/types") && !strings.HasSuffix(path, "cosmos-sdk/types") {
		return false
	}
	switch nt.Obj().Name() {
	case "StoreKey", "KVStoreKey", "TransientStoreKey", "MemoryStoreKey":
		return true
	}
	return false
}

func (h *holderTypes) fieldHolds(t types.Type) bool {
	if isStoreKeyType(t) {
		return true
	}
	if p, ok := t.(*types.Pointer); ok {
		t = p.Elem()
	}
	switch x := t.(type) {
	case *types.Named:
		if h.is[x] {
			return true
		}
		if it, ok := x.Underlying().(*types.Interface); ok && it.NumMethods() > 0 && x.Obj().Pkg() != nil && (ir.InScope(x.Obj().Pkg()) || load.IsFixturePkg(x.Obj().Pkg())) {
			for _, nt := range h.named {
				if h.is[nt] && (types.Implements(nt, it) || types.Implements(types.NewPointer(nt), it)) {
					return true
				}
			}
		}
	}
	return false
}

// IsHolder reports whether t (or the struct it points to) is a long-lived module object.
func (c *Ctx) IsHolder(t types.Type) (*types.Named, bool) {
	if p, ok := t.(*types.Pointer); ok {
		t = p.Elem()
	}
	nt, ok := t.(*types.Named)
	if !ok {
		return nil, false
	}
	return nt, c.holderSet().is[nt]
}

// sharedBases walks the address (or map) operand of a write back to the parameters it is
// derived from, counting the pointer / map / slice indirections crossed on the way. A write is
// to shared memory when it goes through a pointer-typed parameter, or crosses at least one
// indirection from a value-typed one (a write into the local copy of a value receiver is not).
type memBase struct {
	P      *ssa.Parameter
	Derefs int
}

func sharedBases(v ssa.Value, derefs int, seen map[ssa.Value]bool, out *[]memBase) {
	if v == nil || seen[v] || len(seen) > 64 {
		return
	}
	seen[v] = true
	switch x := v.(type) {
	case *ssa.Parameter:
		*out = append(*out, memBase{x, derefs})
	case *ssa.FieldAddr:
		sharedBases(x.X, derefs, seen, out)
	case *ssa.Field:
		// a reference (pointer, map, slice) taken out of a struct value points to memory the struct's owner shares
		d := derefs
		switch x.Type().Underlying().(type) {
		case *types.Pointer, *types.Map, *types.Slice:
			d++
		}
		sharedBases(x.X, d, seen, out)
	case *ssa.IndexAddr:
		d := derefs
		if _, isSlice := x.X.Type().Underlying().(*types.Slice); isSlice {
			d++
		}
		sharedBases(x.X, d, seen, out)
	case *ssa.UnOp:
		if x.Op.String() == "*" {
			// a load: if the loaded value is itself a reference (pointer, map, slice), following it crosses an indirection
			d := derefs
			switch x.Type().Underlying().(type) {
			case *types.Pointer, *types.Map, *types.Slice:
				d++
			}
			sharedBases(x.X, d, seen, out)
		}
	case *ssa.ChangeType:
		sharedBases(x.X, derefs, seen, out)
	case *ssa.Slice:
		sharedBases(x.X, derefs, seen, out)
	case *ssa.Phi:
		for _, e := range x.Edges {
			sharedBases(e, derefs, seen, out)
		}
	case *ssa.Alloc:
		// a spilled parameter (value receivers are copied into a local): continue from the parameter
		if refs := x.Referrers(); refs != nil {
			for _, r := range *refs {
				if st, ok := r.(*ssa.Store); ok && st.Addr == x {
					if p, ok := st.Val.(*ssa.Parameter); ok {
						sharedBases(p, derefs, seen, out)
					}
				}
			}
		}
	case *ssa.Call:
		// a reference handed out by a method of a module object (k.cache(), k.tracker()): treat it as reachable from the receiver
		switch x.Type().Underlying().(type) {
		case *types.Pointer, *types.Map:
			if sc := x.Call.StaticCallee(); sc != nil && sc.Signature.Recv() != nil && len(x.Call.Args) > 0 && ir.FnPkg(sc) != nil && ir.InScope(ir.FnPkg(sc)) {
				// (a method that makes a new object on every call — k.newPayments(ctx) — hands out memory nobody held before)
				if _, isPtr := x.Type().Underlying().(*types.Pointer); isPtr && len(sc.Blocks) > 0 && sc.Signature.Results().Len() == 1 && notFresh(sc, 0) == "" {
					return
				}
				sharedBases(x.Call.Args[0], derefs+1, seen, out)
			}
		}
	}
}

// writtenParams returns the indices of f's parameters (receiver first) through which f, or an
// in-scope function it hands them to, writes memory the caller can see: a store or map update
// whose target derives from the parameter through a pointer (a write into the callee's own
// copy of a by-value struct does not count).
func (c *Ctx) writtenParams(f *ssa.Function) map[int]bool {
	if c.wparams == nil {
		c.wparams = map[*ssa.Function]map[int]bool{}
	}
	if m, ok := c.wparams[f]; ok {
		return m
	}
	m := map[int]bool{}
	c.wparams[f] = m // recursion guard: a cycle sees the partial result
	idx := map[*ssa.Parameter]int{}
	for i, p := range f.Params {
		idx[p] = i
	}
	mark := func(v ssa.Value, extra int) {
		var bases []memBase
		sharedBases(v, extra, map[ssa.Value]bool{}, &bases)
		for _, mb := range bases {
			_, ptr := mb.P.Type().(*types.Pointer)
			if _, isMap := mb.P.Type().Underlying().(*types.Map); isMap {
				ptr = true
			}
			if i, ok := idx[mb.P]; ok && (ptr || mb.Derefs > 0) {
				m[i] = true
			}
		}
	}
	for _, b := range f.Blocks {
		for _, in := range b.Instrs {
			switch x := in.(type) {
			case *ssa.Store:
				mark(x.Addr, 0)
			case *ssa.MapUpdate:
				mark(x.Map, 0)
			case ssa.CallInstruction:
				c.eachWrittenArg(x, func(arg ssa.Value) { mark(arg, 0) })
			}
		}
	}
	return m
}

// eachWrittenArg calls visit for every argument of the call that an in-scope callee writes through.
func (c *Ctx) eachWrittenArg(call ssa.CallInstruction, visit func(arg ssa.Value)) {
	cc := call.Common()
	for _, g := range c.W.CalleesOf(call) {
		if g == nil || len(g.Blocks) == 0 {
			continue
		}
		for i := range c.writtenParams(g) {
			var arg ssa.Value
			if cc.IsInvoke() {
				if i == 0 {
					arg = cc.Value
				} else if i-1 < len(cc.Args) {
					arg = cc.Args[i-1]
				}
			} else if i < len(cc.Args) {
				arg = cc.Args[i]
			}
			if arg != nil {
				visit(arg)
			}
		}
	}
}

// transientHolder: objects of the holder type nt are made only while a block, transaction or query is being processed
// (every function that allocates one is handed the sdk.Context of that processing) — a per-operation helper that wraps a keeper (`&payments{ctx: ctx, k: k}`), not a module object that
// lives as long as the application. Writes into such an object itself are local to the operation; writes through the
// references it holds are not.
func (c *Ctx) transientHolder(nt *types.Named) bool {
	if c.transient == nil {
		c.transient = map[*types.Named]bool{}
	}
	if v, ok := c.transient[nt]; ok {
		return v
	}
	c.transient[nt] = false
	var makers []*ssa.Function
	for _, f := range c.W.Funcs {
		if c.W.IsGenerated(f) {
			continue
		}
		for _, b := range f.Blocks {
			for _, in := range b.Instrs {
				al, ok := in.(*ssa.Alloc)
				if !ok {
					continue
				}
				if et, ok := al.Type().Underlying().(*types.Pointer); ok && types.Identical(et.Elem(), nt) {
					makers = append(makers, f)
				}
			}
		}
	}
	if len(makers) == 0 {
		return false
	}
	// made only where a block, transaction or query is being processed: the maker (or the function a literal is written
	// in) is handed the sdk.Context of that processing. The constructors of module objects (NewKeeper, NewMsgServerImpl,
	// the decorator constructors) run before any context exists.
	for _, f := range makers {
		has := false
		for g := f; g != nil && !has; g = g.Parent() {
			for _, p := range g.Params {
				if strings.HasSuffix(p.Type().String(), "cosmos-sdk/types.Context") {
					has = true
				}
			}
		}
		if !has {
			return false
		}
	}
	c.transient[nt] = true
	return true
}
