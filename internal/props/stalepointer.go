package props

import (
	"fmt"
	"go/types"
	"os"
	"strings"

	"golang.org/x/tools/go/ssa"

	"mcverif/internal/ir"
)

// staleElementPointers is rule A3.stale-element-pointer (the lost-update family): a pointer to an element of a list is not
// kept while the list can still grow.
//
// `p := &xs[i]` points into the array xs has now; `xs = append(xs, …)` may move the elements to a new array, after which
// an update made through a kept p lands on the old array and is lost (an amount added to a per-purchaser total, say).
// For every place where the address of a list element is stored away (into a map, a field, another list, or returned) the
// list must not be appended to afterwards: for a list held in a local variable, no append to it can follow on any path;
// for a list held in a field of a record, no method or function appends to that field at all (calls of the methods can
// follow one another in any order).
func staleElementPointers(c *Ctx, fs []*ssa.Function) (sites int) {
	r := c.R
	for _, f := range fs {
		for _, fd := range stalePointerFindings(c, f) {
			sites++
			r.Require(fd.detail == "", "A3.stale-element-pointer", fmt.Sprintf("%s|%d", fn(f), fd.ord), pos(c, fd.in),
				"a pointer to a list element is stored away only when the list no longer grows (append may move the elements: an update through the kept pointer is then lost)", fd.detail)
		}
	}
	return sites
}

type stalePtrFinding struct {
	in     ssa.Instruction
	ord    int
	detail string
}

// listCell: the variable or field a slice value was loaded from ("" when it is not a plain load of one).
func listCell(v ssa.Value) (key string, addr ssa.Value) {
	ld, ok := v.(*ssa.UnOp)
	if !ok || ld.Op.String() != "*" {
		return "", nil
	}
	switch a := ld.X.(type) {
	case *ssa.Alloc:
		return "local:" + a.Name() + "@" + fmt.Sprint(a.Pos()), a
	case *ssa.FieldAddr:
		t := a.X.Type()
		if p, ok := t.Underlying().(*types.Pointer); ok {
			t = p.Elem()
		}
		return "field:" + t.String() + "#" + fmt.Sprint(a.Field), a
	case *ssa.FreeVar:
		return "free:" + a.Name() + "@" + fmt.Sprint(a.Pos()), a
	}
	return "", nil
}

// appendsToCell: in stores append(<load of the same cell>, …) back into the cell named key.
func appendsToCell(in ssa.Instruction, key string) bool {
	st, ok := in.(*ssa.Store)
	if !ok {
		return false
	}
	call, ok := st.Val.(*ssa.Call)
	if !ok {
		return false
	}
	if bi, ok := call.Call.Value.(*ssa.Builtin); !ok || bi.Name() != "append" || len(call.Call.Args) == 0 {
		return false
	}
	k, _ := listCell(call.Call.Args[0])
	if k != key {
		return false
	}
	switch a := st.Addr.(type) {
	case *ssa.Alloc:
		return "local:"+a.Name()+"@"+fmt.Sprint(a.Pos()) == key
	case *ssa.FieldAddr:
		t := a.X.Type()
		if p, ok := t.Underlying().(*types.Pointer); ok {
			t = p.Elem()
		}
		return "field:"+t.String()+"#"+fmt.Sprint(a.Field) == key
	case *ssa.FreeVar:
		return "free:"+a.Name()+"@"+fmt.Sprint(a.Pos()) == key
	}
	return false
}

func stalePointerFindings(c *Ctx, f *ssa.Function) []stalePtrFinding {
	var out []stalePtrFinding
	n := 0
	for _, b := range f.Blocks {
		for _, in := range b.Instrs {
			ia, ok := in.(*ssa.IndexAddr)
			if !ok || ia.Referrers() == nil {
				continue
			}
			if _, isSlice := ia.X.Type().Underlying().(*types.Slice); !isSlice {
				continue
			}
			key, _ := listCell(ia.X)
			if key == "" {
				key = "value"
			}
			// is the element's address stored away?
			var kept ssa.Instruction
			for _, u := range *ia.Referrers() {
				switch x := u.(type) {
				case *ssa.Store:
					if x.Val == ssa.Value(ia) {
						kept = x
					}
				case *ssa.MapUpdate:
					if x.Value == ssa.Value(ia) {
						kept = x
					}
				case *ssa.Return:
					kept = x
				case *ssa.MakeInterface:
					kept = x
				}
			}
			if kept == nil {
				continue
			}
			n++
			fd := stalePtrFinding{in: kept, ord: n}
			switch {
			case strings.HasPrefix(key, "field:"):
				// any function of the program that appends to this field
				for _, g := range c.W.Funcs {
					if c.W.IsGenerated(g) || fd.detail != "" {
						continue
					}
					for _, gb := range g.Blocks {
						for _, gi := range gb.Instrs {
							if appendsToCell(gi, key) {
								fd.detail = "the address of an element of this field's list is kept here, and " + fn(g) + " appends to the list at " + c.W.InstrPos(gi)
							}
						}
					}
				}
			case key == "value":
				// a list held in a plain local: an append whose base is this very list value, or a variable it was carried into
				derives := func(a0 ssa.Value) bool {
					seen := map[ssa.Value]bool{}
					var visit func(v ssa.Value) bool
					visit = func(v ssa.Value) bool {
						if v == ia.X {
							return true
						}
						if seen[v] {
							return false
						}
						seen[v] = true
						if ph, ok := v.(*ssa.Phi); ok {
							for _, e := range ph.Edges {
								if visit(e) {
									return true
								}
							}
						}
						return false
					}
					return visit(a0)
				}
				for _, gb := range f.Blocks {
					for _, gi := range gb.Instrs {
						call, ok := gi.(*ssa.Call)
						if !ok {
							continue
						}
						if bi, ok := call.Call.Value.(*ssa.Builtin); !ok || bi.Name() != "append" || len(call.Call.Args) == 0 {
							continue
						}
						if derives(call.Call.Args[0]) && instrPathAvoiding(kept, gi, func(ssa.Instruction) bool { return false }) {
							fd.detail = "the address of an element is kept here, and the list is appended to afterwards at " + c.W.InstrPos(gi)
						}
					}
				}
			default:
				for _, gb := range f.Blocks {
					for _, gi := range gb.Instrs {
						if appendsToCell(gi, key) && instrPathAvoiding(kept, gi, func(ssa.Instruction) bool { return false }) {
							fd.detail = "the address of an element is kept here, and the list is appended to afterwards at " + c.W.InstrPos(gi)
						}
					}
				}
			}
			out = append(out, fd)
		}
	}
	return out
}

// stalePointerControl: the rule reports the two keeping-while-growing forms of fixtures/c04 and none of the correct ones.
func stalePointerControl(c *Ctx) {
	posN, negN := 0, 0
	for _, f := range c.W.Funcs {
		if !ir.IsFixture(f) || !strings.Contains(fn(f), "fixtures/c04") {
			continue
		}
		for _, fd := range stalePointerFindings(c, f) {
			if os.Getenv("MCDEBUG") == "stale" {
				fmt.Fprintln(os.Stderr, "stale control", fn(f), fd.ord, fd.detail)
			}
			if fd.detail == "" {
				continue
			}
			switch f.Name() {
			case "KeepsElementPointers", "PointersWhileFilling":
				posN++
			default:
				negN++
			}
		}
	}
	c.R.Control("A3.stale-element-pointer", "fixtures/c04", posN == 2 && negN == 0)
}
