package props

import (
	"fmt"
	"go/token"
	"go/types"
	"os"
	"strings"

	"golang.org/x/tools/go/ssa"

	"mcverif/internal/ir"
	"mcverif/internal/load"
)

// Content-validated memos. The keeper-mutation rule forbids writing memory a module object holds,
// because such memory is shared by every branch of state and is never rolled back. One kind of held
// memory is harmless by construction: the memo of a *pure function*. It remembers pairs (w, F(w)) —
// the raw bytes of a stored value and their decoded form, a bech32 string and the address it decodes
// to — and hands the remembered F(w) out only to a caller that presents the same w again. Whatever
// branch, block or restart filled it, a hit returns exactly what the caller would have computed
// itself, and a miss makes the caller compute it: the memo cannot be observed.
//
// A named struct type M is accepted as such a memo when all of the following hold (each is checked on
// the resolved program; a type failing any of them is treated like any other held memory):
//
//	encapsulated   every instruction that touches a field of M (or of the entry records it keeps) is in a method of M
//	               or in a function that makes the M
//	validated get  every return of a method of M that hands out memory read from M is reached only through the
//	               equal side of a comparison between a value read from M (the witness field) and a parameter
//	paired set     every method of M that stores anything but constants stores a parameter into the witness field, and
//	               only parameters / constants elsewhere
//	pure pairs     at every call of such a method, the value arguments are a deterministic function of the witness
//	               argument alone (decoded from it by calls that take no context, store or module object), or the
//	               witness is the marshalled form of the value
type memoVerdict struct {
	ok    bool
	why   string
	shape *memoShape
}

// memoShape: what an accepted memo remembers — per getter the witness parameter and the field each result is read from,
// per field the function of the witness its fill sites store there (nil when the fill sites only show the inverse,
// witness = marshal(value)).
type memoShape struct {
	wfield  string
	getters map[*ssa.Function]*memoGetter
	f       map[string]*ir.Expr
}

type memoGetter struct {
	wparam  int
	results map[int]string
}

const memoMarker = "<witness>"

func (c *Ctx) validatedMemo(nt *types.Named) (bool, string) {
	if c.memo == nil {
		c.memo = map[*types.Named]memoVerdict{}
	}
	if v, ok := c.memo[nt]; ok {
		return v.ok, v.why
	}
	c.memo[nt] = memoVerdict{false, "recursive", nil}
	shape, why := c.decideMemo(nt)
	ok := shape != nil
	c.memo[nt] = memoVerdict{ok, why, shape}
	if os.Getenv("MCDEBUG") == "memo" {
		fmt.Fprintf(os.Stderr, "memo %s: %v %s\n", nt.Obj().Name(), ok, why)
	}
	return ok, why
}

// memoFamily: M and the named struct types of the same package it keeps as elements (map values, slice elements, fields).
func memoFamily(nt *types.Named) map[*types.Named]bool {
	fam := map[*types.Named]bool{nt: true}
	var add func(t types.Type, depth int)
	add = func(t types.Type, depth int) {
		if depth > 4 {
			return
		}
		switch x := t.(type) {
		case *types.Pointer:
			add(x.Elem(), depth+1)
		case *types.Map:
			add(x.Elem(), depth+1)
		case *types.Slice:
			add(x.Elem(), depth+1)
		case *types.Array:
			add(x.Elem(), depth+1)
		case *types.Named:
			st, ok := x.Underlying().(*types.Struct)
			if !ok || x.Obj().Pkg() != nt.Obj().Pkg() || fam[x] || x.Obj().Exported() {
				return
			}
			fam[x] = true
			for i := 0; i < st.NumFields(); i++ {
				add(st.Field(i).Type(), depth+1)
			}
		}
	}
	if st, ok := nt.Underlying().(*types.Struct); ok {
		for i := 0; i < st.NumFields(); i++ {
			add(st.Field(i).Type(), 0)
		}
	}
	return fam
}

func namedOf(t types.Type) *types.Named {
	if p, ok := t.Underlying().(*types.Pointer); ok {
		t = p.Elem()
	}
	n, _ := t.(*types.Named)
	return n
}

func isSyncType(t types.Type) bool {
	n := namedOf(t)
	return n != nil && n.Obj().Pkg() != nil && (n.Obj().Pkg().Path() == "sync" || n.Obj().Pkg().Path() == "sync/atomic")
}

func (c *Ctx) decideMemo(nt *types.Named) (*memoShape, string) {
	st, ok := nt.Underlying().(*types.Struct)
	if !ok || nt.Obj().Pkg() == nil || !(ir.InScope(nt.Obj().Pkg()) || load.IsFixturePkg(nt.Obj().Pkg())) {
		return nil, "not a struct of the repository"
	}
	if _, hold := c.IsHolder(nt); hold {
		return nil, "a module object itself"
	}
	for i := 0; i < st.NumFields(); i++ {
		if st.Field(i).Exported() {
			return nil, "field " + st.Field(i).Name() + " is exported"
		}
	}
	fam := memoFamily(nt)
	recvOf := func(f *ssa.Function) *types.Named {
		if f.Signature.Recv() == nil {
			return nil
		}
		return namedOf(f.Signature.Recv().Type())
	}
	// encapsulated
	var methods []*ssa.Function
	seenM := map[*ssa.Function]bool{}
	for _, f := range c.W.Funcs {
		if c.W.IsGenerated(f) {
			continue
		}
		touches, makes := false, false
		for _, b := range f.Blocks {
			for _, in := range b.Instrs {
				switch x := in.(type) {
				case *ssa.FieldAddr:
					if n := namedOf(x.X.Type()); n != nil && fam[n] {
						touches = true
					}
				case *ssa.Field:
					if n := namedOf(x.X.Type()); n != nil && fam[n] {
						touches = true
					}
				case *ssa.Alloc:
					if n := namedOf(x.Type()); n == nt {
						makes = true
					}
				}
			}
		}
		root := f
		for root.Parent() != nil {
			root = root.Parent()
		}
		if r := recvOf(root); r == nt {
			if !seenM[root] {
				seenM[root] = true
				methods = append(methods, root)
			}
			if root != f {
				return nil, "a method of the type uses a closure (" + fn(f) + ")"
			}
			continue
		}
		if touches && !makes {
			return nil, "its memory is touched outside its methods (" + fn(f) + ")"
		}
	}
	if len(methods) == 0 {
		return nil, "no methods"
	}
	sortFuncs(methods)
	// validated get
	wfield := ""
	getters := 0
	shape := &memoShape{getters: map[*ssa.Function]*memoGetter{}, f: map[string]*ir.Expr{}}
	for _, m := range methods {
		if m.Signature.Results().Len() == 0 || len(m.Blocks) == 0 {
			continue
		}
		for _, b := range m.Blocks {
			ret, ok := b.Instrs[len(b.Instrs)-1].(*ssa.Return)
			if !ok || b == m.Recover {
				continue // (the recover block re-returns what a panicking path left in the results: nothing the normal returns do not hand out)
			}
			hands := false
			fields := map[int]string{}
			for i, rv := range ret.Results {
				if fld := memoDerived(rv, m, fam, map[ssa.Value]bool{}); fld != "" {
					hands = true
					fields[i] = fld
				}
			}
			if !hands {
				continue
			}
			wf, wp := validatedReturn(b, m, fam)
			if g := shape.getters[m]; g == nil {
				shape.getters[m] = &memoGetter{wparam: wp, results: fields}
			} else {
				if g.wparam != wp {
					wf = ""
				}
				for i, fld := range fields {
					if old, ok := g.results[i]; ok && old != fld {
						g.results[i] = "?"
					} else if !ok {
						g.results[i] = fld
					}
				}
			}
			if wf == "" {
				return nil, "method " + m.Name() + " hands out remembered memory without comparing a remembered witness with what the caller presents (" + c.W.InstrPos(ret) + ")"
			}
			if wfield != "" && wf != wfield {
				return nil, "methods validate against different fields (" + wfield + ", " + wf + ")"
			}
			wfield = wf
			getters++
		}
	}
	if getters == 0 {
		return nil, "nothing is ever read back under a validation"
	}
	// paired set
	type setter struct {
		f      *ssa.Function
		wparam int
		vals   []int
		fields []string
	}
	var setters []setter
	for _, m := range methods {
		idx := map[*ssa.Parameter]int{}
		for i, p := range m.Params {
			idx[p] = i
		}
		s := setter{f: m, wparam: -1}
		stores := false
		for _, b := range m.Blocks {
			for _, in := range b.Instrs {
				var val ssa.Value
				field := ""
				switch x := in.(type) {
				case *ssa.Store:
					fa, ok := x.Addr.(*ssa.FieldAddr)
					if !ok {
						if _, isAlloc := x.Addr.(*ssa.Alloc); isAlloc {
							continue // a local
						}
						if ia, ok := x.Addr.(*ssa.IndexAddr); ok {
							if _, fresh := addrRootAlloc(ia.X); fresh {
								continue
							}
						}
						return nil, "method " + m.Name() + " stores through something other than a field (" + c.W.InstrPos(in) + ")"
					}
					n := namedOf(fa.X.Type())
					if n == nil || !fam[n] {
						return nil, "method " + m.Name() + " writes memory of another type (" + c.W.InstrPos(in) + ")"
					}
					field = ir.FieldName(fa.X.Type(), fa.Field)
					val = x.Val
				case *ssa.MapUpdate:
					if memoDerived(x.Map, m, fam, map[ssa.Value]bool{}) == "" {
						if _, fresh := addrRootAlloc(x.Map); fresh {
							continue
						}
						return nil, "method " + m.Name() + " updates a map that is not the memo's (" + c.W.InstrPos(in) + ")"
					}
					// the stored entry is judged where its fields are set (composite literal) or as a whole parameter
					val = x.Value
					field = "*"
				default:
					continue
				}
				if field == "*" {
					// whole entry: loaded from a local literal whose field stores are judged on their own, or a constant
					if isLocalLiteralLoad(val) || isConstLike(val) {
						continue
					}
					return nil, "method " + m.Name() + " stores an entry that is not built in place (" + c.W.InstrPos(in) + ")"
				}
				if isConstLike(val) || isSyncType(val.Type()) || isFreshContainer(val) {
					continue
				}
				p := paramRoot(val, map[ssa.Value]bool{})
				if p == nil || idx[p] == 0 && m.Signature.Recv() != nil {
					return nil, "method " + m.Name() + " stores a value that is neither a constant nor one of its arguments into " + field + " (" + c.W.InstrPos(in) + ")"
				}
				stores = true
				if field == wfield {
					if s.wparam >= 0 && s.wparam != idx[p] {
						return nil, "method " + m.Name() + " stores two different arguments as witness"
					}
					s.wparam = idx[p]
				} else {
					s.vals = append(s.vals, idx[p])
					s.fields = append(s.fields, field)
				}
			}
		}
		if !stores {
			continue
		}
		if s.wparam < 0 {
			return nil, "method " + m.Name() + " stores values without the witness (" + wfield + ") they belong to"
		}
		setters = append(setters, s)
	}
	if len(setters) == 0 {
		return nil, "nothing is ever remembered"
	}
	// pure pairs
	sites := 0
	for _, f := range c.W.Funcs {
		if c.W.IsGenerated(f) {
			continue
		}
		for _, b := range f.Blocks {
			for _, in := range b.Instrs {
				call, ok := in.(ssa.CallInstruction)
				if !ok {
					continue
				}
				sc := call.Common().StaticCallee()
				if sc == nil {
					continue
				}
				for _, s := range setters {
					if sc != s.f {
						continue
					}
					sites++
					args := call.Common().Args
					if s.wparam >= len(args) {
						return nil, "call shape"
					}
					wv := args[s.wparam]
					for k, vi := range s.vals {
						if vi >= len(args) {
							return nil, "call shape"
						}
						fw, why := c.pureFunctionOf(f, in, args[vi], wv)
						if why != "" {
							return nil, "at " + c.W.InstrPos(in) + " the remembered value is not a function of the remembered witness alone: " + why
						}
						fld := s.fields[k]
						if old, seen := shape.f[fld]; seen && old != nil && fw != nil && !ir.EqualExpr(old, fw) {
							return nil, "at " + c.W.InstrPos(in) + " field " + fld + " is filled with a different function of the witness than elsewhere (" + fw.String() + " / " + old.String() + ")"
						} else if !seen || old == nil {
							shape.f[fld] = fw
						}
					}
				}
			}
		}
	}
	if sites == 0 {
		return nil, "never filled"
	}
	shape.wfield = wfield
	return shape, fmt.Sprintf("memo of a pure function: witness field %s, %d validated reads, %d fill sites", wfield, getters, sites)
}

func addrRootAlloc(v ssa.Value) (*ssa.Alloc, bool) {
	for i := 0; i < 16; i++ {
		switch x := v.(type) {
		case *ssa.Alloc:
			return x, true
		case *ssa.FieldAddr:
			v = x.X
		case *ssa.IndexAddr:
			v = x.X
		case *ssa.Slice:
			v = x.X
		case *ssa.MakeMap, *ssa.MakeSlice:
			return nil, true
		default:
			return nil, false
		}
	}
	return nil, false
}

func isConstLike(v ssa.Value) bool {
	switch x := v.(type) {
	case *ssa.Const:
		return true
	case *ssa.Convert:
		return isConstLike(x.X)
	case *ssa.ChangeType:
		return isConstLike(x.X)
	case *ssa.MakeInterface:
		return isConstLike(x.X)
	}
	return false
}

func isFreshContainer(v ssa.Value) bool {
	switch v.(type) {
	case *ssa.MakeMap, *ssa.MakeSlice:
		return true
	}
	return false
}

// isLocalLiteralLoad: `*t` of a local composite literal.
func isLocalLiteralLoad(v ssa.Value) bool {
	u, ok := v.(*ssa.UnOp)
	if !ok || u.Op != token.MUL {
		return false
	}
	_, ok = u.X.(*ssa.Alloc)
	return ok
}

// paramRoot: the parameter a stored value is (a copy or conversion of).
func paramRoot(v ssa.Value, seen map[ssa.Value]bool) *ssa.Parameter {
	if v == nil || seen[v] || len(seen) > 32 {
		return nil
	}
	seen[v] = true
	switch x := v.(type) {
	case *ssa.Parameter:
		return x
	case *ssa.Convert:
		return paramRoot(x.X, seen)
	case *ssa.ChangeType:
		return paramRoot(x.X, seen)
	case *ssa.Slice:
		return paramRoot(x.X, seen)
	case *ssa.Call:
		// append([]T(nil), p...), bytes.Clone(p), strings.Clone(p): a copy of the argument
		if b, ok := x.Call.Value.(*ssa.Builtin); ok && b.Name() == "append" && len(x.Call.Args) == 2 {
			if isConstLike(x.Call.Args[0]) {
				return paramRoot(x.Call.Args[1], seen)
			}
		}
		if sc := x.Call.StaticCallee(); sc != nil && sc.Name() == "Clone" && len(x.Call.Args) == 1 && sc.Pkg != nil && (sc.Pkg.Pkg.Path() == "bytes" || sc.Pkg.Pkg.Path() == "strings" || sc.Pkg.Pkg.Path() == "slices") {
			return paramRoot(x.Call.Args[0], seen)
		}
	case *ssa.UnOp:
		// a spilled parameter
		if x.Op == token.MUL {
			if al, ok := x.X.(*ssa.Alloc); ok {
				var p *ssa.Parameter
				n := 0
				for _, r := range *al.Referrers() {
					if st, ok := r.(*ssa.Store); ok && st.Addr == al {
						n++
						p, _ = st.Val.(*ssa.Parameter)
					}
				}
				if n == 1 {
					return p
				}
			}
		}
	}
	return nil
}

// memoDerived: v is (part of) memory read from the memo the method m was called on; returns the name of the
// family field it was last taken from ("" if not derived; "?" when derived without crossing a named field).
func memoDerived(v ssa.Value, m *ssa.Function, fam map[*types.Named]bool, seen map[ssa.Value]bool) string {
	if v == nil || seen[v] || len(seen) > 64 {
		return ""
	}
	seen[v] = true
	via := func(x ssa.Value) string { return memoDerived(x, m, fam, seen) }
	switch x := v.(type) {
	case *ssa.Parameter:
		if len(m.Params) > 0 && x == m.Params[0] && m.Signature.Recv() != nil {
			return "?"
		}
	case *ssa.FieldAddr:
		if r := via(x.X); r != "" {
			if n := namedOf(x.X.Type()); n != nil && fam[n] {
				return ir.FieldName(x.X.Type(), x.Field)
			}
			return r
		}
	case *ssa.Field:
		if r := via(x.X); r != "" {
			if n := namedOf(x.X.Type()); n != nil && fam[n] {
				return ir.FieldName(x.X.Type(), x.Field)
			}
			return r
		}
	case *ssa.UnOp:
		if x.Op == token.MUL {
			if al, ok := x.X.(*ssa.Alloc); ok {
				// a local (with a deferred unlock the results are spilled): the store of the same block that the load sees
				if st := lastStoreBefore(x, al); st != nil {
					return via(st.Val)
				}
			}
			return via(x.X)
		}
	case *ssa.Lookup:
		return via(x.X)
	case *ssa.Index:
		return via(x.X)
	case *ssa.IndexAddr:
		return via(x.X)
	case *ssa.Extract:
		if x.Index == 0 {
			return via(x.Tuple)
		}
	case *ssa.Slice:
		return via(x.X)
	case *ssa.Convert:
		return via(x.X)
	case *ssa.ChangeType:
		return via(x.X)
	case *ssa.MakeInterface:
		return via(x.X)
	case *ssa.Phi:
		for _, e := range x.Edges {
			if r := via(e); r != "" {
				return r
			}
		}
	case *ssa.Alloc:
		// a local copy of an entry: `entry := c.m[id]` spilled
		for _, r := range *x.Referrers() {
			if st, ok := r.(*ssa.Store); ok && st.Addr == x {
				if r := via(st.Val); r != "" {
					return r
				}
			}
		}
	case *ssa.Call:
		// a copy of remembered memory is still remembered content
		if p := copyArg(x); p != nil {
			return via(p)
		}
	}
	return ""
}

func copyArg(x *ssa.Call) ssa.Value {
	if b, ok := x.Call.Value.(*ssa.Builtin); ok && b.Name() == "append" && len(x.Call.Args) == 2 && isConstLike(x.Call.Args[0]) {
		return x.Call.Args[1]
	}
	if sc := x.Call.StaticCallee(); sc != nil && sc.Name() == "Clone" && len(x.Call.Args) == 1 && sc.Pkg != nil {
		switch sc.Pkg.Pkg.Path() {
		case "bytes", "strings", "slices":
			return x.Call.Args[0]
		}
	}
	return nil
}

// validatedReturn: the block b (ending in a return that hands out remembered memory) is reached only through the equal
// side of a comparison between a remembered value and a (non-receiver) parameter; returns the witness field's name.
func validatedReturn(b *ssa.BasicBlock, m *ssa.Function, fam map[*types.Named]bool) (string, int) {
	for cur := b; cur != nil; {
		d := cur.Idom()
		if d == nil {
			return "", -1
		}
		if br, ok := d.Instrs[len(d.Instrs)-1].(*ssa.If); ok && len(d.Succs) == 2 {
			for side, s := range d.Succs {
				if len(s.Preds) != 1 || !(s == b || s.Dominates(b)) {
					continue
				}
				if wf, wp := equalityOn(br.Cond, side == 0, m, fam); wf != "" {
					return wf, wp
				}
			}
		}
		cur = d
	}
	return "", -1
}

// equalityOn: cond, taken on its `onTrue` side, states that a remembered value equals a parameter.
func equalityOn(cond ssa.Value, onTrue bool, m *ssa.Function, fam map[*types.Named]bool) (string, int) {
	for {
		u, ok := cond.(*ssa.UnOp)
		if !ok || u.Op != token.NOT {
			break
		}
		cond, onTrue = u.X, !onTrue
	}
	var a, b ssa.Value
	switch x := cond.(type) {
	case *ssa.BinOp:
		if !(x.Op == token.EQL && onTrue || x.Op == token.NEQ && !onTrue) {
			return "", -1
		}
		a, b = x.X, x.Y
	case *ssa.Call:
		if !onTrue {
			return "", -1
		}
		cc := x.Common()
		name := ""
		if sc := cc.StaticCallee(); sc != nil {
			name = sc.Name()
		} else if cc.IsInvoke() {
			name = cc.Method.Name()
		}
		if name != "Equal" && name != "Equals" {
			return "", -1
		}
		switch {
		case cc.IsInvoke() && len(cc.Args) == 1:
			a, b = cc.Value, cc.Args[0]
		case len(cc.Args) == 2:
			a, b = cc.Args[0], cc.Args[1]
		default:
			return "", -1
		}
	default:
		return "", -1
	}
	paramIdx := func(v ssa.Value) int {
		p := paramRoot(v, map[ssa.Value]bool{})
		if p == nil {
			return -1
		}
		for i, q := range m.Params {
			if q == p && !(i == 0 && m.Signature.Recv() != nil) {
				return i
			}
		}
		return -1
	}
	if wf := memoDerived(a, m, fam, map[ssa.Value]bool{}); wf != "" && wf != "?" && paramIdx(b) >= 0 {
		return wf, paramIdx(b)
	}
	if wf := memoDerived(b, m, fam, map[ssa.Value]bool{}); wf != "" && wf != "?" && paramIdx(a) >= 0 {
		return wf, paramIdx(a)
	}
	return "", -1
}

// pureFunctionOf: in f, at the call `at`, the value v is determined by the witness w alone. "" when it is.
func (c *Ctx) pureFunctionOf(f *ssa.Function, at ssa.Instruction, v, w ssa.Value) (*ir.Expr, string) {
	ev, ew := c.W.ExprOf(v), c.W.ExprOf(w)
	if os.Getenv("MCDEBUG") == "memo" {
		fmt.Fprintf(os.Stderr, "  pair at %s\n    value   %s\n    witness %s\n", c.W.InstrPos(at), ev, ew)
	}
	if ev == nil || ew == nil {
		return nil, "unresolved"
	}
	marker := &ir.Expr{Op: "const", Name: memoMarker}
	impure := func(e *ir.Expr) string {
		bad := ""
		e.Walk(func(x *ir.Expr) bool {
			if bad != "" {
				return false
			}
			switch x.Op {
			case "const", "zero", "field", "res", "conv", "struct", "bin", "un", "index", "slice", "decode", "phi", "assert", "elem", "lookup":
			case "call":
				// deterministic: no context, store or module object among the arguments (the receiver of a codec is fine)
				if x.Call != nil {
					for _, a := range x.Call.Common().Args {
						if isCtxLike(a.Type()) {
							bad = "call of " + x.Name + " reads the context"
							return false
						}
						if _, hold := c.IsHolder(a.Type()); hold {
							bad = "call of " + x.Name + " uses a module object"
							return false
						}
					}
				}
			case "global":
				// package-level tables are fixed at start-up (written nowhere on a consensus path: A6)
			default:
				bad = x.Op + ":" + x.Name
				return false
			}
			return true
		})
		return bad
	}
	// value = F(witness)
	rv := ir.Replace(ev, ew, marker)
	if rv != ev {
		if why := impure(rv); why == "" {
			return rv, ""
		} else if os.Getenv("MCDEBUG") == "memo" {
			fmt.Fprintf(os.Stderr, "    F(w) impure: %s\n", why)
		}
	}
	// witness = marshal(value): the encoding is injective, so the value is the decoding of the witness
	rw := ir.Replace(ew, ev, marker)
	if rw != ew {
		onlyMarshal := true
		rw.Walk(func(x *ir.Expr) bool {
			if x.Op == "call" && !strings.Contains(x.Name, "Marshal") {
				onlyMarshal = false
			}
			return true
		})
		if onlyMarshal {
			if why := impure(rw); why == "" {
				return nil, ""
			}
		}
	}
	// the value was handed (by pointer) to the Marshal call whose result is the witness; encoders do not modify what they encode
	if ev.Op == "out" && strings.Contains(ev.Name, "Marshal") && ev.Call != nil && ew.Op == "call" && ew.Call == ev.Call {
		return nil, ""
	}
	// both read from the same stored value: the decoded record of a section and the raw bytes of the same key
	if ks, kw := stateRead(ev), stateRead(ew); ks != nil && kw != nil && ks.Name == kw.Name && len(ks.Args) == len(kw.Args) {
		same := true
		for i := range ks.Args {
			if !ir.EqualExpr(ks.Args[i], kw.Args[i]) {
				same = false
			}
		}
		if same {
			return nil, ""
		}
	}
	return nil, fmt.Sprintf("value %s, witness %s", ev, ew)
}

func isCtxLike(t types.Type) bool {
	s := t.String()
	return strings.HasSuffix(s, "cosmos-sdk/types.Context") || strings.HasSuffix(s, "context.Context") || strings.Contains(s, "store/types.KVStore") || strings.Contains(s, "store/prefix.Store")
}

// stateRead: e is exactly a read of one stored value (possibly decoded, possibly a field-less whole record).
func stateRead(e *ir.Expr) *ir.Expr {
	for e != nil {
		switch e.Op {
		case "state":
			return e
		case "decode", "conv":
			if len(e.Args) == 1 {
				e = e.Args[0]
				continue
			}
		}
		return nil
	}
	return nil
}

// throughValidatedMemo: the written memory belongs to an object of a validated memo type (the write goes through a
// pointer to it, or into one of its fields).
func (c *Ctx) throughValidatedMemo(target ssa.Value) bool {
	v := target
	for i := 0; i < 16 && v != nil; i++ {
		if n := namedOf(v.Type()); n != nil {
			if _, isStruct := n.Underlying().(*types.Struct); isStruct {
				if _, hold := c.IsHolder(n); !hold {
					if ok, _ := c.validatedMemo(n); ok {
						return true
					}
				}
			}
		}
		switch x := v.(type) {
		case *ssa.FieldAddr:
			v = x.X
		case *ssa.IndexAddr:
			v = x.X
		case *ssa.UnOp:
			if x.Op != token.MUL {
				return false
			}
			v = x.X
		case *ssa.Slice:
			v = x.X
		case *ssa.ChangeType:
			v = x.X
		default:
			return false
		}
	}
	return false
}

// lastStoreBefore: the last store to the local al that precedes the load ld within ld's block (nil if none).
func lastStoreBefore(ld *ssa.UnOp, al *ssa.Alloc) *ssa.Store {
	var last *ssa.Store
	for _, in := range ld.Block().Instrs {
		if in == ssa.Instruction(ld) {
			return last
		}
		if st, ok := in.(*ssa.Store); ok && st.Addr == ssa.Value(al) {
			last = st
		}
	}
	return nil
}

// InstallMemos decides, once per loaded program, which objects held by module objects are content-validated memos, and
// makes their getters transparent to the origin expressions: a hit is F(witness), exactly what the miss path computes.
func (c *Ctx) InstallMemos() {
	if c.W.MemosInstalled {
		return
	}
	c.W.MemosInstalled = true
	h := c.holderSet()
	seen := map[*types.Named]bool{}
	getters := map[*ssa.Function]*ir.MemoGet{}
	var names []string
	for _, nt := range h.named {
		if !h.is[nt] {
			continue
		}
		st := nt.Underlying().(*types.Struct)
		for i := 0; i < st.NumFields(); i++ {
			n := namedOf(st.Field(i).Type())
			if n == nil || seen[n] || h.is[n] {
				continue
			}
			seen[n] = true
			if _, isStruct := n.Underlying().(*types.Struct); !isStruct {
				continue
			}
			ok, _ := c.validatedMemo(n)
			if !ok {
				continue
			}
			names = append(names, n.Obj().Name())
			sh := c.memo[n].shape
			for g, mg := range sh.getters {
				out := &ir.MemoGet{Witness: mg.wparam, Results: map[int]*ir.Expr{}}
				for ri, fld := range mg.results {
					if f := sh.f[fld]; f != nil {
						out.Results[ri] = f
					}
				}
				getters[g] = out
			}
		}
	}
	if len(getters) > 0 {
		c.W.SetMemoGetters(getters)
	}
	c.W.MemoNames = names
}
