package props

import (
	"fmt"
	"go/token"
	"go/types"
	"os"
	"strings"

	"golang.org/x/tools/go/ssa"

	"mcverif/internal/ir"
)

func init() {
	Registry["C01"] = C01
	Registry["C14"] = C14
}

var consensusKinds = []string{"MSG", "ANTE", "BEGIN", "END", "INITGEN", "MSGIFACE", "INV", "MIGR"}

// consensusScope returns the repo functions reachable from consensus roots with one path each.
func consensusScope(c *Ctx, kinds []string) map[*ssa.Function]*ir.Edge {
	return c.W.Reachable(c.W.RootSet(kinds...))
}

// onlyTelemetry: every use of the value (through conversions) is an argument of a call into
// cosmos-sdk/telemetry.
func onlyTelemetry(v ssa.Value, depth int) bool {
	refs := v.Referrers()
	if refs == nil || depth > 4 {
		return false
	}
	n := 0
	for _, r := range *refs {
		switch x := r.(type) {
		case *ssa.DebugRef:
			continue
		case ssa.CallInstruction:
			sc := x.Common().StaticCallee()
			if sc == nil || ir.FnPkg(sc) == nil || ir.FnPkg(sc).Path() != "github.com/cosmos/cosmos-sdk/telemetry" {
				return false
			}
			n++
		case *ssa.MakeInterface, *ssa.ChangeType, *ssa.Convert:
			if !onlyTelemetry(x.(ssa.Value), depth+1) {
				return false
			}
			n++
		default:
			return false
		}
	}
	return n > 0
}

func C01(c *Ctx) {
	w, r := c.W, c.R
	r.Explanation = "(A6) nondeterminism / out-of-band-state taint over the repo call graph from all consensus roots (MsgServer methods, ante decorators of the chain, Begin/EndBlock, InitGenesis, ValidateBasic/GetSigners, invariants, migrations): no wall clock, math/rand or crypto/rand, environment/CPU queries, file or network I/O, goroutines, select, channel operations, unsafe conversions, architecture-dependent floating point, or iteration over a map is reachable, except by three value-flow exceptions that are themselves checked: " +
		"a wall-clock value whose every use is an argument of cosmos-sdk/telemetry; a wall-clock read dominated by a predicate on a message field that the message's own ValidateBasic provably rejects (the pair is the obligation); a map range whose body has no store access of any kind (reads are gas-metered), event or bank effect and whose only escaping values are errors wrapping a loop-invariant sentinel. " +
		"Out-of-band state: no assignment to a package-level variable outside init and no store through a keeper/decorator receiver is reachable, no package-level variable written outside init is read on a consensus path. Necessary conditions for C01; hash equality itself and the determinism/crash-atomicity of the SDK, IAVL and CometBFT are trusted."
	r.Rules = []string{"A6.sources", "A6.root-clean", "A6.wallclock-telemetry", "A6.wallclock-refuted", "A6.map-range", "A6.global-write", "A6.global-read", "A6.keeper-mutation", "A6.float", "A6.persistent-store", "A6.module-account-at-genesis"}
	r.Trusted = []string{"cosmos-sdk baseapp / store / IAVL / CometBFT determinism and crash recovery", "baseapp, authz, gov and group call ValidateBasic on every (nested) message before dispatch", "telemetry does not feed back into state"}
	r.NotDecided = []string{"equality of application hashes", "gas accounting equality", "restart/replay behaviour (governed by the multistore)"}

	scope := consensusScope(c, consensusKinds)
	r.Analysed["functions_on_consensus_paths"] = len(scope)
	persistentStores(c)
	moduleAccountsAtGenesis(c)
	if os.Getenv("MCDEBUG") == "dyn" {
		var fl []*ssa.Function
		for f := range scope {
			fl = append(fl, f)
		}
		sortFuncs(fl)
		for _, call := range w.UnresolvedDynamicCalls(fl) {
			fmt.Fprintln(os.Stderr, "dyn", fn(call.Parent()), w.InstrPos(call), w.ExprOf(call.Common().Value).String())
		}
	}
	r.Floor("consensus roots", len(w.RootSet(consensusKinds...)), 60)
	var fs []*ssa.Function
	for f := range scope {
		if !w.IsGenerated(f) {
			fs = append(fs, f)
		}
	}
	sortFuncs(fs)
	counts := map[string]int{}
	for _, f := range fs {
		for _, e := range w.EffectsOf(f) {
			key := fn(f) + "|" + e.Kind + ":" + e.Method
			path := pathStr(w.PathTo(scope, f))
			switch e.Kind {
			case "Rand", "Env", "IO", "Goroutine", "Select", "Chan", "Unsafe":
				counts["forbidden"]++
				r.Bad("A6.sources", key, pos(c, e.Site), "no "+e.Kind+" source on a consensus path", "reachable via "+path)
			case "WallClock":
				counts["wallclock"]++
				wallClock(c, f, e, path)
			case "MapRange":
				counts["maprange"]++
				mapRange(c, f, e, path)
			case "GlobalWrite":
				if strings.HasSuffix(fn(f), ".init") || strings.Contains(fn(f), ".init#") {
					continue
				}
				counts["globalwrite"]++
				r.Bad("A6.global-write", key, pos(c, e.Site), "no package-level variable is assigned on a consensus path (state lives in the KVStore only)", "reachable via "+path)
			case "Float":
				counts["float"]++
				floatOp(c, f, e, path)
			}
		}
	}
	for _, k := range []string{"forbidden", "globalwrite"} {
		if counts[k] == 0 {
			r.OK("A6.sources", "none|"+k, "", "no such site reachable from consensus roots")
		}
	}
	// one obligation per consensus root, so that the evidence shows what was covered
	isForbidden := func(e ir.Effect) bool {
		switch e.Kind {
		case "Rand", "Env", "IO", "Goroutine", "Select", "Chan", "Unsafe":
			return true
		case "GlobalWrite":
			return !strings.HasSuffix(fn(e.Fn), ".init") && !strings.Contains(fn(e.Fn), ".init#")
		}
		return false
	}
	for _, kind := range consensusKinds {
		for _, root := range w.Roots[kind] {
			bad := ""
			n := 0
			for g := range w.Reachable([]*ssa.Function{root}) {
				n++
				for _, e := range w.EffectsOf(g) {
					if isForbidden(e) {
						bad = e.Kind + " in " + fn(g)
					}
				}
			}
			r.Require(bad == "", "A6.root-clean", w.SubRootKind(kind, root)+"|"+fn(root), w.Pos(root.Pos()), "no forbidden nondeterminism source or package-variable write is reachable from this consensus root", bad)
		}
	}
	r.Analysed["wallclock_sites_on_consensus_paths"] = counts["wallclock"]
	r.Analysed["map_ranges_on_consensus_paths"] = counts["maprange"]
	r.Analysed["float_sites_on_consensus_paths"] = counts["float"]
	r.Floor("wall-clock sites on consensus paths (exceptions exercised)", counts["wallclock"], 1)
	// (no floor on the map ranges: a tree without any on its consensus paths is what the rule asks for; that the rule sees
	// a map range when there is one is the fixture control A6.sources below)

	// package-level variables written outside init must not be read on consensus paths
	written := map[string]string{}
	for _, e := range w.AllEffects(func(e ir.Effect) bool { return e.Kind == "GlobalWrite" }) {
		if strings.HasSuffix(fn(e.Fn), ".init") || strings.Contains(fn(e.Fn), ".init#") {
			continue
		}
		written[e.Method] = fn(e.Fn)
	}
	nr := 0
	for _, f := range fs {
		for _, b := range f.Blocks {
			for _, in := range b.Instrs {
				u, ok := in.(*ssa.UnOp)
				if !ok || u.Op != token.MUL {
					continue
				}
				g, ok := u.X.(*ssa.Global)
				if !ok {
					continue
				}
				name := ir.GlobalName(g)
				if by, bad := written[name]; bad {
					nr++
					r.Bad("A6.global-read", fn(f)+"|"+name, pos(c, in), "consensus code reads no package-level variable that is mutated after init", name+" is written in "+by)
				}
			}
		}
	}
	if nr == 0 {
		r.OK("A6.global-read", "none", "", "no mutable package-level state is read on consensus paths")
	}
	keeperMutation(c, fs)

	// positive controls
	ctl := w.FixtureEffects(func(e ir.Effect) bool {
		return e.Kind == "WallClock" || e.Kind == "Goroutine" || e.Kind == "MapRange" || e.Kind == "Rand" || e.Kind == "GlobalWrite"
	})
	kinds := map[string]bool{}
	for _, e := range ctl {
		kinds[e.Kind] = true
	}
	{
		// positive control for the module-object write rule: four deliberate writes, one harmless local copy
		var ffs []*ssa.Function
		for _, f := range w.Funcs {
			if ir.IsFixture(f) && strings.Contains(fn(f), "fixtures/c01") {
				ffs = append(ffs, f)
			}
		}
		sortFuncs(ffs)
		mark := len(r.Obls)
		keeperMutationRule(c, ffs, "A6.keeper-mutation")
		hit := map[string]bool{}
		for _, o := range r.Obls[mark:] {
			if o.Status == "violated" {
				for _, nm := range []string{"MutatesHeld", "MutatesMap", "MutatesViaHelper", "MutatesField", "LocalCopyOnly", "ValidatedMemo", "UnvalidatedMemo", "MixedMemo"} {
					if strings.Contains(o.Key, nm) {
						hit[nm] = true
					}
					if strings.Contains(o.Key, "."+nm+"|") {
						hit["."+nm] = true
					}
				}
			}
		}
		r.Obls = r.Obls[:mark]
		r.Control("A6.keeper-mutation", "fixtures/c01", hit["MutatesHeld"] && hit["MutatesMap"] && hit["MutatesViaHelper"] && hit["MutatesField"] && !hit["LocalCopyOnly"])
		// the memo exception: a memo of a pure function read back only against its witness is not a finding; one that answers by
		// id alone, and one filled with a value that is not a function of its witness, still are
		r.Control("A6.keeper-mutation|validated-memo", "fixtures/c01", !hit[".ValidatedMemo"] && hit["UnvalidatedMemo"] && hit["MixedMemo"])
	}
	r.Control("A6.sources", "fixtures/c01", kinds["WallClock"] && kinds["Goroutine"] && kinds["MapRange"] && kinds["Rand"] && kinds["GlobalWrite"])
}

func sortFuncs(fs []*ssa.Function) {
	for i := 1; i < len(fs); i++ {
		for j := i; j > 0 && fn(fs[j]) < fn(fs[j-1]); j-- {
			fs[j], fs[j-1] = fs[j-1], fs[j]
		}
	}
}

func wallClock(c *Ctx, f *ssa.Function, e ir.Effect, path string) {
	w, r := c.W, c.R
	key := fn(f) + "|" + e.Method
	call, ok := e.Site.(*ssa.Call)
	if ok && onlyTelemetry(call, 0) {
		r.OK("A6.wallclock-telemetry", key, pos(c, e.Site), "the wall-clock value flows only into cosmos-sdk/telemetry")
		return
	}
	// refuted by ValidateBasic: every consensus root reaching the read is a MsgServer method, and on each route the
	// read itself — or, failing that, every place its value ends up in — is guarded by a predicate on a message
	// field that the message's own ValidateBasic rejects. Routes are followed on the flat view, so the read may sit
	// in a helper (`effectiveSubmitTime(msg)`) or be evaluated eagerly and chosen later (`orNow(msg.T, time.Now())`).
	var handlers []*ssa.Function
	onlyMsg := true
	for _, kind := range consensusKinds {
		for _, root := range w.Roots[kind] {
			if _, reach := w.Reachable([]*ssa.Function{root})[f]; !reach {
				continue
			}
			if kind == "MSG" && len(root.Params) >= 3 {
				handlers = append(handlers, root)
			} else {
				onlyMsg = false
			}
		}
	}
	if ok && onlyMsg && len(handlers) > 0 {
		allRefuted := true
		desc := ""
		for _, h := range handlers {
			mt := msgTypeOf(h)
			var vb *ssa.Function
			for _, g := range w.Roots["MSGIFACE:ValidateBasic"] {
				if ir.ModuleOf(g) == ir.ModuleOf(h) && g.Signature.Recv() != nil && typeName(g.Signature.Recv().Type()) == mt {
					vb = g
				}
			}
			var guardField, guardOp, guardConst string
			m := func(p ir.Pred) bool {
				op, x, y, ok := p.Cmp()
				if !ok {
					return false
				}
				for _, pr := range [][2]*ir.Expr{{x, y}, {y, x}} {
					if pr[0].Op == "field" && len(pr[0].Args) == 1 && pr[0].Args[0].Op == "param" && pr[1].Op == "const" && op == "==" {
						guardField, guardOp, guardConst = pr[0].Name, op, pr[1].Name
						return true
					}
				}
				return false
			}
			guarded := true
			nocc := 0
			for _, up := range w.OriginsUpTo(f, &ir.Expr{Op: "const", Name: "0"}, h, 8) {
				nocc++
				if chainGuarded(c, h, up.Chain, e.Site, m, 0) {
					continue
				}
				ends := clockValueEnds(c, call, up.Chain, 0)
				if len(ends) == 0 {
					guarded = false
				}
				for _, end := range ends {
					if !chainGuarded(c, h, end.chain, end.in, m, 0) {
						guarded = false
					}
				}
			}
			if !guarded || nocc == 0 || vb == nil {
				allRefuted = false
				break
			}
			refuted := hasRejectingCmp(c, vb, func(op string, x, y *ir.Expr) bool {
				for _, pr := range [][2]*ir.Expr{{x, y}, {y, x}} {
					if op == guardOp && pr[0].Op == "field" && pr[0].Name == guardField && len(pr[0].Args) == 1 && pr[0].Args[0].Op == "param" && pr[1].Op == "const" && pr[1].Name == guardConst {
						return true
					}
				}
				return false
			})
			desc = fmt.Sprintf("the wall-clock value is used only when msg.%s %s %s, and %s.ValidateBasic rejects exactly that case (so no valid transaction reaches it)", guardField, guardOp, guardConst, mt)
			r.Require(refuted, "A6.wallclock-refuted", key, pos(c, e.Site), desc, "ValidateBasic has no rejecting comparison msg."+guardField+" "+guardOp+" "+guardConst)
		}
		if allRefuted {
			return
		}
	}
	r.Bad("A6.sources", key, pos(c, e.Site), "no wall-clock read influences state on a consensus path", "reachable via "+path+" and neither telemetry-only nor refuted by ValidateBasic")
}

func mapRange(c *Ctx, f *ssa.Function, e ir.Effect, path string) {
	w, r := c.W, c.R
	key := fn(f) + "|range"
	rg := e.Site.(*ssa.Range)
	// loop blocks: those dominated by the block of the Next instruction and able to reach it again
	var next *ssa.Next
	if refs := rg.Referrers(); refs != nil {
		for _, x := range *refs {
			if n, ok := x.(*ssa.Next); ok {
				next = n
			}
		}
	}
	if next == nil {
		r.Undecided("A6.map-range", key, pos(c, e.Site), "map iteration shape recognised", "no Next instruction")
		return
	}
	hdr := next.Block()
	inLoop := func(b *ssa.BasicBlock) bool {
		return hdr.Dominates(b) && ir.ReachesFrom(f, b, 0, hdr.Instrs[0], ir.Cut{}) || b == hdr
	}
	var problems []string
	sentinels := map[string]bool{} // distinct registered errors returned from inside the loop
	for _, b := range f.Blocks {
		if !hdr.Dominates(b) {
			continue
		}
		loopBlock := inLoop(b)
		for _, in := range b.Instrs {
			switch x := in.(type) {
			case *ssa.MapUpdate:
				if !loopBlock {
					continue
				}
				// insert keyed by a value derived from the range key only
				continue
			case *ssa.Store:
				if loopBlock {
					if _, ok := x.Addr.(*ssa.Alloc); !ok {
						root, _ := addrRoot(x.Addr)
						if _, isAlloc := root.(*ssa.Alloc); !isAlloc {
							problems = append(problems, "store to non-local memory inside the loop at "+w.InstrPos(in))
						}
					}
				}
			case *ssa.Return:
				// a return reached from inside the loop: error must wrap a loop-invariant sentinel
				if !loopBlock && !reachedFromLoopOnly(f, hdr, b) {
					continue
				}
				idx := ir.ErrIndex(f)
				if idx < 0 {
					// a search helper ("is there an element that ...") hands back the element it met first: harmless when
					// every caller uses the non-constant results only to word an error (the verdict itself is a constant)
					for i, res := range x.Results {
						if _, isC := res.(*ssa.Const); !isC && !resultErrorOnly(c, f, i) {
							problems = append(problems, "value returned from inside the loop at "+w.InstrPos(in))
							break
						}
					}
					continue
				}
				ev := w.ExprOf(x.Results[idx])
				ok := ev.Op == "const" && ev.Name == "nil"
				if ev.Op == "call" && (strings.HasSuffix(ev.Name, "errors.Wrap") || strings.HasSuffix(ev.Name, "errors.Wrapf")) && len(ev.Args) >= 1 && (ev.Args[0].Op == "global" || isParamPath(ev.Args[0])) {
					// a registered error, or one the function was handed (a shared helper told which module's error to use): the same for every iteration
					ok = true
					sentinels[ev.Args[0].String()] = true
				}
				if !ok {
					problems = append(problems, "error returned from the loop is not a wrapped loop-invariant sentinel: "+ev.String())
				}
				for i, res := range x.Results {
					if i == idx {
						continue
					}
					if _, isC := res.(*ssa.Const); !isC {
						problems = append(problems, "non-constant value returned from the loop at "+w.InstrPos(in))
					}
				}
			}
		}
		if loopBlock {
			for _, in := range b.Instrs {
				call, ok := in.(ssa.CallInstruction)
				if !ok {
					continue
				}
				if n := methodNameOf(call); n == "ConsumeGas" || n == "GasMeter" || n == "KVStore" {
					problems = append(problems, "gas-metered operation ("+n+") inside the loop at "+w.InstrPos(in))
				}
				targets := w.CalleesOf(call)
				if cc := call.Common(); len(targets) == 0 && !cc.IsInvoke() && cc.StaticCallee() == nil {
					if _, isB := cc.Value.(*ssa.Builtin); !isB {
						// a call through a function value: every function that can be handed in is judged; one that cannot be
						// traced to its definitions could do anything
						ts, known := funcValueTargets(c, cc.Value, 0)
						if !known {
							problems = append(problems, "call through a function value of unknown origin inside the loop at "+w.InstrPos(in))
						}
						targets = ts
					}
				}
				for _, t := range targets {
					if reachesEffect(c, t, func(x ir.Effect) bool {
						return isStateMutation(x) || x.Kind == "Event" || strings.HasPrefix(x.Kind, "Store")
					}) {
						problems = append(problems, "state/event effect or gas-metered store access inside the loop via "+fn(t))
					}
				}
			}
			for _, x := range w.EffectsOf(f) {
				if x.Site.Block() == b && (isStateMutation(x) || x.Kind == "Event" || strings.HasPrefix(x.Kind, "Store")) {
					problems = append(problems, x.Kind+" inside the loop at "+w.InstrPos(x.Site))
				}
			}
		}
	}
	if len(sentinels) > 1 {
		// which element is met first decides the error code (part of the DeliverTx result and of LastResultsHash)
		problems = append(problems, "returns inside the loop wrap different registered errors "+setStr(sentinels)+": the result code depends on iteration order")
	}
	// values accumulated in the loop must not leave it other than through map inserts / errors
	r.Require(len(problems) == 0, "A6.map-range", key, pos(c, e.Site), "iteration over a map is order-insensitive: no store/event/bank effect in the body, only map inserts and errors wrapping a loop-invariant sentinel leave the loop", strings.Join(problems, "; ")+" (via "+path+")")
}

func addrRoot(a ssa.Value) (ssa.Value, int) {
	n := 0
	for {
		switch x := a.(type) {
		case *ssa.FieldAddr:
			a = x.X
			n++
			continue
		case *ssa.IndexAddr:
			a = x.X
			n++
			continue
		}
		return a, n
	}
}

func reachedFromLoopOnly(f *ssa.Function, hdr, b *ssa.BasicBlock) bool {
	// b is dominated by hdr (checked by the caller) and is not the loop exit's continuation:
	// treat a return dominated by a loop-body block as inside the loop
	for _, p := range b.Preds {
		if hdr.Dominates(p) && p != hdr && ir.ReachesFrom(f, p, 0, hdr.Instrs[0], ir.Cut{}) {
			return true
		}
	}
	return false
}

// floatOp: plain IEEE add/sub/div/convert is deterministic; a product feeding an addition can
// be fused on some architectures, and math-library calls may use per-architecture assembly.
func floatOp(c *Ctx, f *ssa.Function, e ir.Effect, path string) {
	r := c.R
	bo, ok := e.Site.(*ssa.BinOp)
	if !ok {
		r.OK("A6.float", fn(f)+"|"+e.Method, pos(c, e.Site), "float conversion is IEEE-deterministic")
		return
	}
	fusable := false
	if bo.Op == token.ADD || bo.Op == token.SUB {
		for _, o := range []ssa.Value{bo.X, bo.Y} {
			if m, ok := o.(*ssa.BinOp); ok && m.Op == token.MUL && isFloatT(m.Type()) {
				fusable = true
			}
		}
	}
	r.Require(!fusable, "A6.float", fn(f)+"|"+e.Method, pos(c, e.Site), "no fusable floating-point multiply-add on a consensus path (result differs across architectures)", "x*y ± z on floats via "+path)
}

func callName2(call ssa.CallInstruction) string {
	cc := call.Common()
	if cc.IsInvoke() {
		return cc.Method.Name()
	}
	if sc := cc.StaticCallee(); sc != nil {
		return ir.ShortFn(sc)
	}
	return "function value"
}

// keeperMutation: no write to memory reachable from a long-lived module object (keeper, server,
// decorator, app module — recognised structurally, see holder.go): neither a field store through a
// pointer receiver, nor a store or map update through a pointer/map/slice the object holds.
func keeperMutation(c *Ctx, fs []*ssa.Function) { keeperMutationRule(c, fs, "A6.keeper-mutation") }

func keeperMutationRule(c *Ctx, fs []*ssa.Function, rule string) {
	r := c.R
	n := 0
	for _, f := range fs {
		for _, b := range f.Blocks {
			for _, in := range b.Instrs {
				var targets []ssa.Value
				what := "store"
				switch x := in.(type) {
				case *ssa.Store:
					targets = append(targets, x.Addr)
				case *ssa.MapUpdate:
					targets = append(targets, x.Map)
					what = "map update"
				case ssa.CallInstruction:
					// a pointer held by the object handed to a function that writes through it
					c.eachWrittenArg(x, func(arg ssa.Value) { targets = append(targets, arg) })
					what = "write (in " + callName2(x) + ")"
					// the standard library's concurrent containers: sync.Map / atomic values held by the object are written by
					// their own methods (no store instruction of the repository shows it)
					if sc := x.Common().StaticCallee(); sc != nil && sc.Pkg != nil && len(x.Common().Args) > 0 {
						switch sc.Pkg.Pkg.Path() {
						case "sync", "sync/atomic":
							switch sc.Name() {
							case "Store", "LoadOrStore", "LoadAndDelete", "Delete", "Swap", "CompareAndSwap", "CompareAndDelete", "Add", "Range", "Clear", "And", "Or",
								"AddInt32", "AddInt64", "AddUint32", "AddUint64", "StoreInt32", "StoreInt64", "StoreUint32", "StoreUint64", "StorePointer", "SwapInt64", "SwapUint64":
								if sc.Name() != "Range" {
									targets = append(targets, x.Common().Args[0])
									what = "write (" + sc.Pkg.Pkg.Path() + " " + sc.Name() + ")"
								}
							}
						}
					}
				default:
					continue
				}
				var bases []memBase
				for _, target := range targets {
					if c.throughValidatedMemo(target) {
						continue // the memo of a pure function, handed out only against the witness it was computed from (memo.go)
					}
					sharedBases(target, 0, map[ssa.Value]bool{}, &bases)
				}
				for _, mb := range bases {
					nt, hold := c.IsHolder(mb.P.Type())
					if !hold {
						continue
					}
					_, ptr := mb.P.Type().(*types.Pointer)
					if !ptr && mb.Derefs == 0 {
						continue // write into the local copy of a value receiver
					}
					if mb.Derefs == 0 && c.transientHolder(nt) {
						continue // write into a per-operation helper object (made and dropped within the transaction or block)
					}
					n++
					r.Bad(rule, fn(f)+"|"+nt.Obj().Name(), pos(c, in), "keepers, decorators and module objects, and memory they hold, are never written on a consensus path (no state outside the KVStore: it would not survive a restart, and a discarded CheckTx/simulate/proposal branch would not undo it)", what+" to memory reachable from "+mb.P.Name()+" ("+nt.Obj().Name()+")")
					break
				}
			}
		}
	}
	if n == 0 {
		r.OK(rule, "none", "", "no write to memory held by a keeper/decorator/module object on consensus paths")
	}
}

// ---------------------------------------------------------------------------------------

// Explicit panics on block-level paths are discharged by *class*, decided structurally where the
// panic stands (whatever function it was written or extracted into, lifted through the callers'
// arguments): the panic must be reachable only on an edge of one of these kinds.
//
//	queued-order-found   lookup of an order whose id was read from the queue section failed
//	queued-order-status  the queued order's status differs from the constant the step expects
//	setter-error         the order setter failed (it fails only on an invalid status; a constant valid one is stored)
//	stored-address       a bech32 address taken from a stored order does not parse (validated when the order was raised)
//	mint-route-error     the mint/lock route returned an error (module permissions are checked by A5; the purchaser signed the order, so it is no blocked module account)
//	decode-error         a stored value of a section does not decode (every writer of the section marshals the same type: C20)
//
// Panicking API calls keep a reviewed table keyed by function, API and ordinal.
var blockPanicClasses = []string{"queued-order-found", "queued-order-status", "setter-error", "stored-address", "mint-route-error", "decode-error"}

var blockPanicReviewed = map[string]string{
	"x/stream/types.AddressesFromStreamKey|types.ParseLengthPrefixedBytes|1": "keys of the stream section are produced by the stream key builder whose layout the parser matches (C18)",
	"x/stream/types.AddressesFromStreamKey|types.ParseLengthPrefixedBytes|2": "keys of the stream section are produced by the stream key builder whose layout the parser matches (C18)",
	"x/stream/types.AddressesFromStreamKey|types.ParseLengthPrefixedBytes|3": "keys of the stream section are produced by the stream key builder whose layout the parser matches (C18)",
	"x/stream/types.AddressesFromStreamKey|types.ParseLengthPrefixedBytes|4": "keys of the stream section are produced by the stream key builder whose layout the parser matches (C18)",
}

func C14(c *Ctx) {
	w, r := c.W, c.R
	r.Explanation = "(A10) abort-source inventory on the block-level roots (BeginBlock, EndBlock, registered invariants) over the repo call graph: every explicit panic and every call of a panicking SDK API reachable from them is enumerated; each must be discharged by its class — lookup of an id read from the queue section it iterates (found / status panics, consistent by C03's writer rules), error of a setter that fails only on an invalid constant, permission panics excluded by the evaluated maccPerms (enterprise holds Minter and Staking) — or appear in the reviewed table keyed by function, kind and ordinal; anything else is a violation. " +
		"Denomination provenance: a Coin.Add/Sub on a block-level path whose operands take their denomination from different sources (module parameter vs stored record) is flagged. (b) handlers and ante decorators keep all state in the transaction-scoped stores: C01's out-of-band-state rule restricted to MSG ∪ ANTE roots, so baseapp's rollback covers everything a failed transaction did. (c) error discipline (A8): on every transaction, block and genesis path the error result of a call that can change state (store write/delete or bank move, directly or through in-scope callees) has at least one use — a discarded error would let a handler commit the remaining steps of a half-failed operation, since baseapp rolls back only on a returned error. Atomicity and panic recovery of runTx are trusted; reachability of reviewed panics over all histories is not decided."
	r.Rules = []string{"A10.block-panics", "A2.panic-class", "A10.denom-provenance", "A5.module-permissions", "A6.tx-scoped-state", "A6.no-recover", "A8.error-propagation", "A10.implicit-panic", "A3.queue-membership", "A5.blocked-addresses", "A3.tally-pairing", "A3.completion-pairing", "A6.one-context", "TS.status-transition", "A3.topup-pairing", "A3.claim-pairing", "A3.cancel-pairing", "A3.unlock-pairing", "A3.counter-pairs"}
	// the begin-blocker panics on a queued order in another status: an id reaches a queue only with that status
	queueMembership(c)
	r.Trusted = []string{"baseapp runTx: cache-wrapped stores, panic recovery, all-or-nothing message execution", "reasons in the reviewed table"}
	r.NotDecided = []string{"that reviewed panics are unreachable for every history", "commit/IAVL failures"}

	scope := consensusScope(c, []string{"BEGIN", "END", "INV"})
	var fs []*ssa.Function
	for f := range scope {
		if !w.IsGenerated(f) {
			fs = append(fs, f)
		}
	}
	sortFuncs(fs)
	r.Analysed["functions_on_block_level_paths"] = len(fs)
	n := 0
	classes := map[string]int{}
	for _, f := range fs {
		ord := map[string]int{}
		for _, b := range f.Blocks {
			for _, in := range b.Instrs {
				kind := ""
				var e *ir.Expr
				if _, ok := in.(*ssa.Panic); ok {
					kind = "panic"
				} else if call, ok := in.(*ssa.Call); ok {
					e = w.ExprOf(call)
					for suf := range panicAPIs {
						if calleeIs(e, suf) {
							kind = suf
						}
					}
				}
				if kind == "" {
					continue
				}
				n++
				ord[kind]++
				key := fmt.Sprintf("%s|%s|%d", fn(f), kind, ord[kind])
				if kind != "panic" {
					blockAPI(c, f, in.(*ssa.Call), e, kind, key)
					continue
				}
				class := ""
				for _, cl := range blockPanicClasses {
					if blockPanicClass(c, f, in.(*ssa.Panic), cl) {
						class = cl
						break
					}
				}
				classes[class]++
				r.Require(class != "", "A10.block-panics", key, pos(c, in), "every explicit panic reachable from BeginBlock/EndBlock/invariants stands on an edge of a discharge class "+fmt.Sprint(blockPanicClasses), "unclassified panic via "+pathStr(w.PathTo(scope, f)))
			}
		}
	}
	r.Floor("abort sources on block-level paths", n, 12)
	implicitPanics(c, fs)
	r.Floor("explicit panics discharged as queue/lookup consistency", classes["queued-order-found"]+classes["queued-order-status"], 2)

	// A5 permissions
	mp, mpos, err := MaccPerms(c)
	if err != nil {
		r.Undecided("A5.module-permissions", "eval", mpos, "maccPerms evaluable", err.Error())
	} else {
		have := setOf(mp["enterprise"]...)
		r.Require(have[permMinter] && have[permStaking], "A5.module-permissions", "enterprise", mpos, "the enterprise module account holds Minter and Staking (MintCoins / DelegateCoinsFromAccountToModule panic otherwise, in BeginBlock)", "permissions: "+setStr(have))
		_, hasStream := mp["stream"]
		r.Require(hasStream, "A5.module-permissions", "stream", mpos, "the stream module account is registered", "missing from maccPerms")
	}
	// the mint route's send to the purchaser cannot be refused by the bank (the "mint-route-error" panic class): the only
	// module account that can sign a purchase order — governance, through a proposal — is exempt from the blocked list
	blockedAddresses(c, nil, "gov")
	// ... and no order stays on a queue whose status it has left (the next block's step panics on it, at every block)
	statusPairing(c)
	statusTypestate(c)
	// a message that reports success has done all of its steps (a failed step is a failed message, which baseapp rolls back)
	topUpPairing(c)
	claimPairing(c)
	cancelPairing(c)
	unlockPairing(c)
	// all-or-nothing inside one operation: a function that branches the state runs every step of the operation on the branch
	r.Analysed["functions_branching_state"] = oneContext(c, []string{"MSG", "ANTE", "BEGIN", "END"}, ir.Modules...)
	// (b) tx-scoped state
	txScope := consensusScope(c, []string{"MSG", "ANTE"})
	var tfs []*ssa.Function
	bad := 0
	for f := range txScope {
		if w.IsGenerated(f) {
			continue
		}
		tfs = append(tfs, f)
		for _, e := range w.EffectsOf(f) {
			if e.Kind == "GlobalWrite" || e.Kind == "IO" || e.Kind == "Goroutine" || e.Kind == "Chan" {
				bad++
				r.Bad("A6.tx-scoped-state", fn(f)+"|"+e.Kind+":"+e.Method, pos(c, e.Site), "transaction processing has no effect outside the transaction-scoped stores", e.Kind+" via "+pathStr(w.PathTo(txScope, f)))
			}
		}
	}
	sortFuncs(tfs)
	if bad == 0 {
		r.OK("A6.tx-scoped-state", "none", "", "no package-variable write, I/O or goroutine on transaction paths")
	}
	keeperMutation(c, tfs)

	// (c) error discipline: the error of a state-changing step is never discarded
	escope := consensusScope(c, []string{"MSG", "ANTE", "BEGIN", "END", "INITGEN"})
	var efs, ffs []*ssa.Function
	for f := range escope {
		if !w.IsGenerated(f) && !ir.IsFixture(f) {
			efs = append(efs, f)
		}
	}
	for _, f := range w.Funcs {
		if ir.IsFixture(f) && strings.Contains(fn(f), "fixtures/c14") {
			ffs = append(ffs, f)
		}
	}
	sortFuncs(efs)
	sortFuncs(ffs)
	// (d) no recover() on a consensus path: in BeginBlock/EndBlock the stores are not cache-wrapped, so a
	// recovered panic leaves the writes made before it in the block's state (and a step that was to halt
	// the chain is silently skipped); inside a transaction it hides a failure from baseapp's rollback
	nrec := 0
	for _, f := range efs {
		for _, b := range f.Blocks {
			for _, in := range b.Instrs {
				if call, ok := in.(ssa.CallInstruction); ok {
					if bi, ok := call.Common().Value.(*ssa.Builtin); ok && bi.Name() == "recover" {
						nrec++
						r.Bad("A6.no-recover", fn(f), pos(c, in), "no recover() on a transaction, block or genesis path (a recovered panic keeps the partial writes made before it)", "recover() in "+fn(f))
					}
				}
			}
		}
	}
	if nrec == 0 {
		r.OK("A6.no-recover", "none", "", "no recover() reachable from handlers, decorators, blockers or genesis")
	}
	sites, _ := errorPropagation(c, efs, "A8.error-propagation")
	r.Floor("state-changing fallible call sites on transaction/block/genesis paths", sites, 40)
	mark := len(r.Obls)
	_, ctl := errorPropagation(c, ffs, "A8.error-propagation")
	tst := map[string]bool{}
	for _, o := range r.Obls[mark:] {
		if o.Status == "violated" && strings.HasSuffix(o.Key, "|tested") {
			for _, nm := range []string{"TestsOtherError", "TestsItsError"} {
				if strings.Contains(o.Key, nm) {
					tst[nm] = true
				}
			}
		}
	}
	r.Obls = r.Obls[:mark] // fixture findings are controls, not findings about /repo
	r.Control("A8.error-propagation", "fixtures/c14", ctl >= 2)
	r.Control("A8.error-propagation|tested", "fixtures/c14", tst["TestsOtherError"] && !tst["TestsItsError"])
}

func blockAPI(c *Ctx, f *ssa.Function, call *ssa.Call, e *ir.Expr, kind, key string) {
	w, r := c.W, c.R
	switch {
	case kind == "types.Coin).Add" || kind == "types.Coin).Sub":
		// denomination provenance of both operands
		a, b := w.Expand(e.Args[0], 3), w.Expand(e.Args[1], 3)
		pa, pb := denomProvenance(c, a), denomProvenance(c, b)
		same := pa != "" && pa == pb
		if !same && (pa == "?" || pb == "?") {
			// operand handed in by the caller: judge at the call sites
			for _, up := range w.OriginsUp(f, e.Args[1], 4) {
				pb = denomProvenance(c, w.Expand(up.E, 3))
			}
			same = pa == pb
		}
		// the obligation is identified by what is added to what (the sources of the two denominations), not by the
		// function the addition happens to stand in: renaming or splitting that function leaves the same obligation
		known := func(p string) string {
			var ks []string
			for _, k := range strings.Split(p, "+") {
				if k != "?" && k != "" {
					ks = append(ks, k)
				}
			}
			if len(ks) == 0 {
				return "?"
			}
			return strings.Join(ks, "+")
		}
		key = "denoms|" + known(pa) + " <- " + known(pb)
		if c.denomOrd == nil {
			c.denomOrd = map[string]int{}
		}
		c.denomOrd[key]++
		if c.denomOrd[key] > 1 {
			key += fmt.Sprintf("|%d", c.denomOrd[key])
		}
		r.Require(same, "A10.denom-provenance", key, pos(c, call), "coins added/subtracted on a block-level path take their denomination from the same source (Coin.Add/Sub panics on a mismatch, halting the chain)",
			fmt.Sprintf("left operand denom from %s, right operand denom from %s", pa, pb))
	case kind == "types.NewInt64Coin" || kind == "types.NewCoin":
		amt := e.Args[len(e.Args)-1]
		ok := amt.Op == "const" || isZeroInt(amt)
		r.Require(ok, "A10.block-panics", key, pos(c, call), "coins built on block-level paths have a constant non-negative amount", "amount "+amt.String())
	case kind == "types.NewCoins":
		// NewCoins sorts and validates: it panics on two coins of the same denomination and on a non-positive... amount;
		// on a block-level path it is handed at most one coin (a list built in a loop, or several coins, may repeat a
		// denomination as soon as two records share it)
		single := false
		if len(e.Args) == 1 {
			a := w.Expand(e.Args[0], 2)
			single = true
			for _, alt := range a.Alts() {
				if !(alt.Op == "list" && len(alt.Args) <= 1 || alt.Op == "zero" || alt.Op == "const") {
					single = false
				}
			}
		} else if len(e.Args) == 0 {
			single = true
		}
		if os.Getenv("MCDEBUG") == "newcoins" {
			fmt.Fprintln(os.Stderr, "newcoins", key, e.String())
		}
		r.Require(single, "A10.block-panics", key, pos(c, call), "NewCoins on a block-level path is given at most one coin (it panics on a repeated denomination, halting the chain)", "coins "+e.String())
	case kind == "types.ParseLengthPrefixedBytes":
		// class stored-key-parse: the bytes parsed are a key handed out by a store iterator (whatever helper the
		// parsing was moved into); that the parser matches the builder's layout is C18's obligation
		ok := len(e.Args) > 0 && liftAllFrom(c, c.W.RootSet("BEGIN", "END", "INV"), f, e.Args[0], func(x *ir.Expr) bool {
			return w.Expand(x, 2).Any(func(z *ir.Expr) bool {
				return (z.Op == "call" || z.Op == "invoke") && (strings.HasSuffix(z.Name, "Iterator.Key") || strings.HasSuffix(z.Name, "Iterator).Key"))
			})
		})
		detail := "parsed bytes: " + e.Args[0].String()
		r.Require(ok, "A10.block-panics", key, pos(c, call), "length-prefixed parsing on block-level paths is applied only to keys read from a store iterator (layout agreement: C18)", detail)
	default:
		if reason, ok := blockPanicReviewed[key]; ok {
			r.OK("A10.block-panics", key, pos(c, call), "reviewed: "+reason)
			return
		}
		r.Bad("A10.block-panics", key, pos(c, call), "no unreviewed panicking API on block-level paths: "+panicAPIs[kind], "call "+e.String())
	}
}

// denomProvenance classifies where a coin expression's denomination comes from.
func denomProvenance(c *Ctx, e *ir.Expr) string {
	classes := map[string]bool{}
	var visit func(x *ir.Expr)
	visit = func(x *ir.Expr) {
		switch {
		case x.Op == "phi":
			for _, a := range x.Args {
				visit(a)
			}
		case x.Op == "state" || x.Op == "field" && len(x.Args) == 1 && (x.Args[0].Op == "state" || x.Args[0].Op == "field" || x.Args[0].Op == "phi"):
			// which section?
			sec := ""
			x.Walk(func(z *ir.Expr) bool {
				if z.Op == "state" && sec == "" {
					sec = z.Name
				}
				return true
			})
			if sec == secEntParams {
				classes["param"] = true
			} else if sec != "" {
				classes["stored:"+sec[strings.LastIndex(sec, ".")+1:]] = true
			} else {
				classes["?"] = true
			}
		case calleeIs(x, "types.NewInt64Coin") || calleeIs(x, "types.NewCoin"):
			if len(x.Args) >= 1 && isEntParam(c, x.Args[0], "Denom") {
				classes["param"] = true
			} else {
				classes["?"] = true
			}
		case calleeIs(x, "types.Coin).Add") || calleeIs(x, "types.Coin).Sub"):
			visit(x.Args[0])
		case x.Op == "param":
			classes["?"] = true
		default:
			// a record decoded from an iterator over a section is that section's stored value
			sec := ""
			if x.Any(func(z *ir.Expr) bool { return z.Op == "decode" }) {
				x.Walk(func(z *ir.Expr) bool {
					if sec == "" && z.Op == "call" && strings.Contains(z.Name, "Iterator") {
						for _, a := range z.Args {
							if s := c.W.SectionOfKey(a); s != "" && s != "?" {
								sec = s
								break
							}
						}
					}
					return sec == ""
				})
			}
			if sec != "" {
				classes["stored:"+sec[strings.LastIndex(sec, ".")+1:]] = true
			} else {
				classes["?"] = true
			}
		}
	}
	visit(e)
	if len(classes) == 0 {
		return ""
	}
	return strings.Join(sortedKeys(classes), "+")
}

// liftAll: cond holds for x in every way f's callers instantiate it (x is in f's terms).
func liftAll(c *Ctx, f *ssa.Function, x *ir.Expr, cond func(*ir.Expr) bool) bool {
	ups := c.W.OriginsUp(f, x, 5)
	if len(ups) == 0 {
		return false
	}
	for _, up := range ups {
		if !cond(up.E) {
			return false
		}
	}
	return true
}

// liftAllFrom: like liftAll, restricted to the instantiations whose outermost function is reachable from the given roots.
func liftAllFrom(c *Ctx, roots []*ssa.Function, f *ssa.Function, x *ir.Expr, cond func(*ir.Expr) bool) bool {
	scope := c.W.Reachable(roots)
	n := 0
	for _, up := range c.W.OriginsUp(f, x, 6) {
		if _, in := scope[up.Top]; !in {
			continue
		}
		n++
		if !cond(up.E) {
			return false
		}
	}
	return n > 0
}

func errOfCall(pr ir.Pred, want func(call *ir.Expr) bool) bool {
	op, x, y, ok := pr.Cmp()
	if !ok || op != "!=" {
		return false
	}
	for _, pair := range [][2]*ir.Expr{{x, y}, {y, x}} {
		if pair[1].Op != "const" || pair[1].Name != "nil" {
			continue
		}
		e := pair[0]
		if e.Op == "res" && len(e.Args) == 1 {
			e = e.Args[0]
		}
		if e.Op == "call" && want(e) {
			return true
		}
	}
	return false
}

func blockPanicClass(c *Ctx, f *ssa.Function, p *ssa.Panic, class string) bool {
	w := c.W
	switch class {
	case "queued-order-found":
		// reached only when the lookup of an id taken from a queue iteration failed
		return w.Guarded(f, p, func(pr ir.Pred) bool {
			if pr.Pol || pr.E.Op != "res" || pr.E.Name != "1" || pr.E.Args[0].Op != "call" || pr.E.Args[0].Callee == nil {
				return false
			}
			call := pr.E.Args[0]
			if !reachesEffect(c, call.Callee, func(e ir.Effect) bool { return e.Kind == "StoreRead" && e.Section == secPO }) {
				return false
			}
			for _, a := range call.Args {
				if liftAll(c, f, a, func(x *ir.Expr) bool {
					return x.Op == "elem" && (rangesOverSection(c, x, secRaisedQ) || rangesOverSection(c, x, secAcceptedQ))
				}) {
					return true
				}
			}
			return false
		}, 0)
	case "queued-order-status":
		return w.Guarded(f, p, func(pr ir.Pred) bool {
			return cmpIs(pr, "!=", func(x *ir.Expr) bool {
				if _, ok := allStateField(c, x, secPO, "Status"); ok {
					return true
				}
				// the test may stand in a helper that is handed the loaded order (`requireAccepted(&po)`): judged at its callers
				return x.Any(func(z *ir.Expr) bool { return z.Op == "param" }) && liftAll(c, f, x, func(u *ir.Expr) bool {
					_, ok := allStateField(c, u, secPO, "Status")
					return ok
				})
			}, func(y *ir.Expr) bool {
				return liftAll(c, f, y, func(z *ir.Expr) bool { return z.Op == "const" && (z.Name == stRaised || z.Name == stAccepted) })
			})
		}, 0)
	case "setter-error":
		// err != nil of a setter whose only error path is an invalid status, while a constant valid status is stored
		return w.Guarded(f, p, func(pr ir.Pred) bool {
			return errOfCall(pr, func(call *ir.Expr) bool {
				return call.Callee != nil && reachesEffect(c, call.Callee, func(e ir.Effect) bool { return e.Kind == "StoreWrite" && e.Section == secPO }) &&
					!reachesEffect(c, call.Callee, func(e ir.Effect) bool { return e.Kind == "Mint" })
			})
		}, 0)
	case "stored-address":
		return w.Guarded(f, p, func(pr ir.Pred) bool {
			return errOfCall(pr, func(call *ir.Expr) bool {
				if !strings.HasSuffix(call.Name, "types.AccAddressFromBech32") || len(call.Args) != 1 {
					return false
				}
				return liftAll(c, f, call.Args[0], func(x *ir.Expr) bool {
					_, ok := allStateField(c, w.Expand(x, 2), secPO, "Purchaser")
					return ok
				})
			})
		}, 0)
	case "mint-route-error":
		return w.Guarded(f, p, func(pr ir.Pred) bool {
			return errOfCall(pr, func(call *ir.Expr) bool {
				return call.Callee != nil && reachesEffect(c, call.Callee, func(e ir.Effect) bool { return e.Kind == "Mint" })
			})
		}, 0)
	case "decode-error":
		return w.Guarded(f, p, func(pr ir.Pred) bool {
			return errOfCall(pr, func(call *ir.Expr) bool {
				return strings.HasSuffix(call.Name, ".Unmarshal") || strings.HasSuffix(call.Name, ".UnmarshalInterface")
			})
		}, 0)
	}
	return false
}

// implicitPanics (A10.implicit-panic): run-time panics that no `panic` statement announces, on block-level
// paths: indexing a slice / string with a computed index, slicing with computed bounds, a type assertion
// without the comma-ok form, an integer division by a non-constant. Each site must be structurally safe:
//   - an index that is the induction variable of a `for range` over the same slice (go/ssa shape:
//     phi(-1, i+1) + 1 compared with len) or a constant below a literal length;
//   - an index / bound guarded by a dominating comparison with len of the same slice;
//   - a divisor guarded by a dominating != 0 / > 0.
//
// Anything else is reported (the chain halts if BeginBlock panics).
func implicitPanics(c *Ctx, fs []*ssa.Function) {
	w, r := c.W, c.R
	n := 0
	for _, f := range fs {
		ord := map[string]int{}
		for _, b := range f.Blocks {
			for _, in := range b.Instrs {
				kind, detail := "", ""
				ok := false
				switch x := in.(type) {
				case *ssa.IndexAddr:
					if _, isC := x.Index.(*ssa.Const); isC {
						if _, isArr := ptrElem(x.X.Type()).Underlying().(*types.Array); isArr {
							continue
						}
					}
					kind = "index"
					ok = rangeIndex(x.Index) || lenGuarded(c, f, in, x.Index, x.X) || constIndexIntoFixedParse(c, x.Index, x.X)
					detail = w.ExprOf(x.Index).String()
				case *ssa.Index:
					if _, isC := x.Index.(*ssa.Const); isC {
						continue
					}
					kind = "index"
					ok = rangeIndex(x.Index) || lenGuarded(c, f, in, x.Index, x.X)
					detail = w.ExprOf(x.Index).String()
				case *ssa.TypeAssert:
					if x.CommaOk {
						continue
					}
					kind = "type-assert"
					detail = x.AssertedType.String()
				case *ssa.BinOp:
					if x.Op != token.QUO && x.Op != token.REM {
						continue
					}
					bt, isB := x.Type().Underlying().(*types.Basic)
					if !isB || bt.Info()&types.IsInteger == 0 {
						continue
					}
					if cst, isC := x.Y.(*ssa.Const); isC && cst.Value != nil && cst.Value.String() != "0" {
						continue
					}
					kind = "int-div"
					detail = w.ExprOf(x.Y).String()
					ys := w.ExprOf(x.Y).String()
					ok = w.Guarded(f, in, func(p ir.Pred) bool {
						return cmpIs(p, "!=", func(a *ir.Expr) bool { return a.String() == ys }, func(b2 *ir.Expr) bool { return b2.Op == "const" && b2.Name == "0" }) ||
							cmpIs(p, ">", func(a *ir.Expr) bool { return a.String() == ys }, func(b2 *ir.Expr) bool { return b2.Op == "const" })
					}, 0)
				default:
					continue
				}
				n++
				ord[kind]++
				r.Require(ok, "A10.implicit-panic", fmt.Sprintf("%s|%s|%d", fn(f), kind, ord[kind]), pos(c, in), "no unguarded run-time panic source (computed index, unchecked type assertion, division by a variable) on a block-level path", kind+" "+detail)
			}
		}
	}
	r.Analysed["implicit_panic_sites_on_block_level_paths"] = n
}

// rangeIndex: the index is the induction variable of a range loop as go/ssa lowers it: phi(-1, self)+1.
func rangeIndex(v ssa.Value) bool {
	bo, ok := v.(*ssa.BinOp)
	if !ok || bo.Op != token.ADD {
		return false
	}
	one, ok := bo.Y.(*ssa.Const)
	if !ok || one.Value == nil || one.Value.String() != "1" {
		return false
	}
	ph, ok := bo.X.(*ssa.Phi)
	if !ok {
		return false
	}
	for _, e := range ph.Edges {
		if cst, ok := e.(*ssa.Const); ok && cst.Value != nil && cst.Value.String() == "-1" {
			continue
		}
		if e == ssa.Value(bo) {
			continue
		}
		return false
	}
	return true
}

// lenGuarded: the access is dominated by idx < len(s) (or len(s) > idx) for the same slice.
func lenGuarded(c *Ctx, f *ssa.Function, at ssa.Instruction, idx, s ssa.Value) bool {
	w := c.W
	is, ss := w.ExprOf(idx).String(), w.ExprOf(s).String()
	isLen := func(e *ir.Expr) bool {
		return e.Op == "call" && e.Name == "builtin:len" && len(e.Args) == 1 && e.Args[0].String() == ss
	}
	if w.Guarded(f, at, func(p ir.Pred) bool {
		return cmpIs(p, "<", func(a *ir.Expr) bool { return a.String() == is }, isLen)
	}, 0) {
		return true
	}
	// the end index the SDK's length-prefixed reader handed back for the same bytes: ParseLengthPrefixedBytes(bz, start, n)
	// asserts len(bz) >= start+n and returns start+n-1
	if ex, ok := idx.(*ssa.Extract); ok && ex.Index == 1 {
		if pc, ok := ex.Tuple.(*ssa.Call); ok {
			if sc := pc.Common().StaticCallee(); sc != nil && sc.Name() == "ParseLengthPrefixedBytes" && len(pc.Common().Args) == 3 && w.ExprOf(pc.Common().Args[0]).String() == ss {
				if n, isC := pc.Common().Args[2].(*ssa.Const); isC && n.Value != nil && n.Int64() >= 1 && (pc.Block() == at.Block() || pc.Block().Dominates(at.Block())) {
					return true
				}
			}
		}
	}
	// a constant index below the length an SDK key-length assertion on the same bytes has just insisted on
	// (kv.AssertKeyAtLeastLength(bz, n) panics with a message of its own for a short key: that explicit abort is the
	// key-parsing class inventoried with the SDK's length-prefixed reader)
	ic, ok := idx.(*ssa.Const)
	if !ok || ic.Value == nil {
		return false
	}
	var iv int
	if _, err := fmt.Sscan(ic.Value.String(), &iv); err != nil {
		return false
	}
	for _, b := range f.Blocks {
		for _, in := range b.Instrs {
			call, ok := in.(*ssa.Call)
			if !ok {
				continue
			}
			sc := call.Common().StaticCallee()
			if sc == nil || sc.Name() != "AssertKeyAtLeastLength" || len(call.Common().Args) != 2 {
				continue
			}
			if w.ExprOf(call.Common().Args[0]).String() != ss {
				continue
			}
			n, isC := call.Common().Args[1].(*ssa.Const)
			var nv int
			if !isC || n.Value == nil {
				continue
			}
			if _, err := fmt.Sscan(n.Value.String(), &nv); err != nil || iv >= nv {
				continue
			}
			if in.Block() == at.Block() && ir.InstrIndex(in) < ir.InstrIndex(at) || in.Block() != at.Block() && in.Block().Dominates(at.Block()) {
				return true
			}
		}
	}
	return false
}

// constIndexIntoFixedParse: a constant index into the bytes returned by sdk.ParseLengthPrefixedBytes(key, start, n)
// with a constant n above it (that call returns exactly n bytes or panics itself, which is inventoried separately).
func constIndexIntoFixedParse(c *Ctx, idx, s ssa.Value) bool {
	ic, ok := idx.(*ssa.Const)
	if !ok || ic.Value == nil {
		return false
	}
	e := c.W.ExprOf(s)
	if e.Op == "res" && e.Name == "0" && len(e.Args) == 1 {
		e = e.Args[0]
	}
	if !(e.Op == "call" && strings.HasSuffix(e.Name, "types.ParseLengthPrefixedBytes") && len(e.Args) == 3 && e.Args[2].Op == "const") {
		return false
	}
	var i, n int
	if _, err := fmt.Sscan(ic.Value.String(), &i); err != nil {
		return false
	}
	if _, err := fmt.Sscan(e.Args[2].Name, &n); err != nil {
		return false
	}
	return i >= 0 && i < n
}

// resultErrorOnly: at every call site of f, result i is used only to build an error value (or not at all).
func resultErrorOnly(c *Ctx, f *ssa.Function, i int) bool {
	callers := c.W.Callers(f)
	if len(callers) == 0 {
		return false
	}
	for _, ed := range callers {
		call, ok := ed.Site.(*ssa.Call)
		if !ok || call.Referrers() == nil {
			return false
		}
		g := call.Parent()
		var uses []ssa.Instruction
		if f.Signature.Results().Len() == 1 {
			uses = *call.Referrers()
		} else {
			for _, x := range *call.Referrers() {
				if ex, ok := x.(*ssa.Extract); ok && ex.Index == i && ex.Referrers() != nil {
					uses = append(uses, *ex.Referrers()...)
				}
			}
		}
		for _, u := range uses {
			if !useErrorOnly(c, g, u, 0) {
				return false
			}
		}
	}
	return true
}

// useErrorOnly: the use only feeds the wording of an error. A value parked in a local variable (a struct whose
// fields are read later) is followed to the reads of that variable.
func useErrorOnly(c *Ctx, g *ssa.Function, u ssa.Instruction, depth int) bool {
	if _, dbg := u.(*ssa.DebugRef); dbg {
		return true
	}
	if isErrorOnlyUse(c, g, u) {
		return true
	}
	st, ok := u.(*ssa.Store)
	if !ok || depth > 3 {
		return false
	}
	root, _ := addrRoot(st.Addr)
	al, ok := root.(*ssa.Alloc)
	if !ok || al.Parent() != g || al.Heap {
		return false
	}
	// every read of the local
	var visit func(v ssa.Value) bool
	visit = func(v ssa.Value) bool {
		refs := v.Referrers()
		if refs == nil {
			return true
		}
		for _, x := range *refs {
			switch y := x.(type) {
			case *ssa.DebugRef:
			case *ssa.Store:
				if y.Addr != v && y.Val == v {
					return false // the address escapes
				}
			case *ssa.FieldAddr:
				if !visit(y) {
					return false
				}
			case *ssa.UnOp:
				for _, ru := range derefUses(y) {
					if !useErrorOnly(c, g, ru, depth+1) {
						return false
					}
				}
			default:
				return false
			}
		}
		return true
	}
	return visit(al)
}

func derefUses(v ssa.Value) []ssa.Instruction {
	if v.Referrers() == nil {
		return nil
	}
	return *v.Referrers()
}

// clockValueEnds follows a wall-clock value forward through conversions, time.Time accessors and in-scope
// helpers it is handed to, and returns the instructions where it ends up (a return, a store, a phi edge, any
// other use), each with the call chain leading to the function it stands in. nil = an end that cannot be judged.
type valueEnd struct {
	in    ssa.Instruction
	chain []ssa.Instruction
}

func clockValueEnds(c *Ctx, v ssa.Value, chain []ssa.Instruction, depth int) []valueEnd {
	if depth > 6 || v.Referrers() == nil {
		return nil
	}
	var out []valueEnd
	for _, u := range *v.Referrers() {
		switch x := u.(type) {
		case *ssa.DebugRef:
			continue
		case *ssa.Convert, *ssa.ChangeType, *ssa.MakeInterface:
			sub := clockValueEnds(c, x.(ssa.Value), chain, depth+1)
			if sub == nil {
				return nil
			}
			out = append(out, sub...)
		case *ssa.Call:
			cc := x.Common()
			if cs := c.W.CalleesOf(x); len(cs) == 1 && len(cs[0].Blocks) > 0 {
				g := cs[0]
				args := cc.Args
				if cc.IsInvoke() {
					args = append([]ssa.Value{cc.Value}, args...)
				}
				for ai, a := range args {
					if a == v && ai < len(g.Params) {
						sub := clockValueEnds(c, g.Params[ai], append(append([]ssa.Instruction{}, chain...), x), depth+1)
						if sub == nil {
							return nil
						}
						out = append(out, sub...)
					}
				}
				continue
			}
			if len(cc.Args) > 0 && cc.Args[0] == v && cc.StaticCallee() != nil && ir.FnPkg(cc.StaticCallee()) != nil && ir.FnPkg(cc.StaticCallee()).Path() == "time" {
				// an accessor of the time value (Unix, UnixNano, UTC ...): the result carries it on
				sub := clockValueEnds(c, x, chain, depth+1)
				if sub == nil {
					return nil
				}
				out = append(out, sub...)
				continue
			}
			out = append(out, valueEnd{x, chain})
		case *ssa.Phi:
			// the value enters the phi over the edges from the predecessors that supply it: those blocks' ends are the uses
			for i, ed := range x.Edges {
				if ed == v {
					pred := x.Block().Preds[i]
					out = append(out, valueEnd{pred.Instrs[len(pred.Instrs)-1], chain})
				}
			}
		default:
			out = append(out, valueEnd{u, chain})
		}
	}
	return out
}

// funcValueTargets: the in-scope functions a function value can denote — a function, a closure or bound method, a
// parameter (every argument handed in at every call site of the enclosing function), a phi of those. known=false
// when some source cannot be traced (a field, a map element, a call result ...). Out-of-scope functions are known
// and contribute no target.
func funcValueTargets(c *Ctx, v ssa.Value, depth int) (out []*ssa.Function, known bool) {
	if depth > 6 {
		return nil, false
	}
	w := c.W
	switch x := v.(type) {
	case *ssa.Function:
		if len(x.Blocks) > 0 && w.InSet(x) {
			return []*ssa.Function{x}, true
		}
		// a synthetic wrapper (bound method, interface method value): what it calls
		for _, b := range x.Blocks {
			for _, in := range b.Instrs {
				if call, ok := in.(ssa.CallInstruction); ok {
					out = append(out, w.CalleesOf(call)...)
				}
			}
		}
		return out, true
	case *ssa.MakeClosure:
		return funcValueTargets(c, x.Fn, depth+1)
	case *ssa.ChangeType:
		return funcValueTargets(c, x.X, depth+1)
	case *ssa.Phi:
		known = true
		for _, e := range x.Edges {
			ts, k := funcValueTargets(c, e, depth+1)
			out = append(out, ts...)
			known = known && k
		}
		return out, known
	case *ssa.Parameter:
		f := x.Parent()
		idx := -1
		for i, p := range f.Params {
			if p == x {
				idx = i
			}
		}
		callers := w.Callers(f)
		if idx < 0 || len(callers) == 0 {
			return nil, false
		}
		known = true
		n := 0
		for _, ed := range callers {
			cs, ok := ed.Site.(ssa.CallInstruction)
			if !ok || ed.Kind != "static" && ed.Kind != "invoke" {
				continue
			}
			cc := cs.Common()
			args := cc.Args
			if cc.IsInvoke() {
				args = append([]ssa.Value{cc.Value}, args...)
			}
			j := idx - (len(f.Params) - len(args))
			if j < 0 || j >= len(args) {
				return nil, false
			}
			n++
			ts, k := funcValueTargets(c, args[j], depth+1)
			out = append(out, ts...)
			known = known && k
		}
		return out, known && n > 0
	}
	return nil, false
}

// persistentStores (A6.persistent-store): the store key the application hands to each of the repository's keepers is a
// key of the committed, hashed multistore (*KVStoreKey). A memory or transient store key satisfies the same StoreKey
// interface and behaves the same within one process, but a memory store is neither written to disk nor part of the
// application hash, and a transient store is emptied at every commit: a module kept there is lost at the first restart
// and the replicas' hashes no longer cover it.
func persistentStores(c *Ctx) {
	w, r := c.W, c.R
	n := 0
	for _, f := range w.PkgFuncs("app") {
		for _, b := range f.Blocks {
			for _, in := range b.Instrs {
				call, ok := in.(*ssa.Call)
				if !ok {
					continue
				}
				sc := call.Common().StaticCallee()
				if sc == nil || ir.FnPkg(sc) == nil || !ir.InScope(ir.FnPkg(sc)) || len(sc.Blocks) == 0 || ir.ModuleOf(sc) == "" {
					continue // (the application's own helper for the SDK's params keeper passes that keeper its transient key)
				}
				for i, a := range call.Common().Args {
					if i >= sc.Signature.Params().Len()+recvCount(sc) {
						break
					}
					if !isStoreKeyType(a.Type()) {
						continue
					}
					if _, isIface := a.Type().Underlying().(*types.Interface); !isIface {
						continue
					}
					mi, ok := a.(*ssa.MakeInterface)
					if !ok {
						continue
					}
					n++
					t := mi.X.Type().String()
					// ... and it is the module's own key: two keepers on one key share one key space (the modules use the same
					// prefix bytes, and each keeps its id counter there)
					keyName := ""
					w.Expand(w.ExprOf(mi.X), 2).Walk(func(z *ir.Expr) bool {
						if z.Op == "const" && strings.HasPrefix(z.Name, `"`) {
							keyName = strings.Trim(z.Name, `"`)
						}
						return true
					})
					if keyName != "" {
						r.Require(keyName == ir.ModuleOf(sc), "A6.persistent-store", fn(sc)+"|"+fmt.Sprint(i)+"|own-key", pos(c, in),
							"each keeper of the repository is handed the store key of its own module", "the "+ir.ModuleOf(sc)+" keeper is handed keys[\""+keyName+"\"]")
					}
					r.Require(strings.HasSuffix(t, "store/types.KVStoreKey"), "A6.persistent-store", fn(sc)+"|"+fmt.Sprint(i), pos(c, in),
						"a keeper of the repository is handed a key of the committed multistore (*KVStoreKey): its state survives a restart and is covered by the application hash",
						"the store key argument is a "+t)
				}
			}
		}
	}
	r.Floor("store keys handed to the repository's keepers by the application", n, 4)
}

func recvCount(f *ssa.Function) int {
	if f.Signature.Recv() != nil {
		return 1
	}
	return 0
}

// moduleAccountsAtGenesis (A6.module-account-at-genesis): the auth keeper's GetModuleAccount *creates* a module account
// that does not exist yet — it takes the next global account number and writes the account. A module that asks for its
// account on a transaction, block, invariant or query path therefore makes sure the account exists when the chain starts:
// its genesis import reaches GetModuleAccount / SetModuleAccount. Otherwise the first caller creates it, and whether and
// when that happens depends on who calls first: an invariant run by x/crisis every --inv-check-period blocks (a node-local
// flag), a query served from a node's own state — replicas then disagree on account numbers and application hash.
func moduleAccountsAtGenesis(c *Ctx) {
	w, r := c.W, c.R
	callsMAcc := func(f *ssa.Function, names ...string) ssa.Instruction {
		for _, b := range f.Blocks {
			for _, in := range b.Instrs {
				call, ok := in.(ssa.CallInstruction)
				if !ok || !call.Common().IsInvoke() {
					continue
				}
				for _, nm := range names {
					if call.Common().Method.Name() == nm {
						return in
					}
				}
			}
		}
		return nil
	}
	n := 0
	for _, m := range ir.Modules {
		var user ssa.Instruction
		var fs []*ssa.Function
		for f := range w.Reachable(w.RootSet("MSG", "ANTE", "BEGIN", "END", "INV", "QUERY")) {
			if ir.ModuleOf(f) == m && !w.IsGenerated(f) {
				fs = append(fs, f)
			}
		}
		sortFuncs(fs)
		for _, f := range fs {
			if in := callsMAcc(f, "GetModuleAccount"); in != nil && user == nil {
				user = in
			}
		}
		if user == nil {
			continue
		}
		n++
		made := false
		for _, root := range w.Roots["INITGEN:"+m] {
			for f := range w.Reachable([]*ssa.Function{root}) {
				if callsMAcc(f, "GetModuleAccount", "SetModuleAccount") != nil {
					made = true
				}
			}
		}
		r.Require(made, "A6.module-account-at-genesis", m, pos(c, user),
			"a module that asks the auth keeper for its module account at run time creates that account in its genesis import (GetModuleAccount creates a missing account, taking the next account number, whoever calls it first)",
			"the genesis import of "+m+" reaches neither GetModuleAccount nor SetModuleAccount")
	}
	r.Floor("modules using a module account at run time", n, 2)
}
