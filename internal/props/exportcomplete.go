package props

import (
	"fmt"
	"go/types"
	"strings"

	"golang.org/x/tools/go/ssa"

	"mcverif/internal/ir"
)

// exportComplete is rule A7.export-complete: the export collects every record the walk visits.
//
// Genesis export gathers the records of a section through a callback handed to one of the keeper's iterate helpers
// (a function literal appending to a variable of the enclosing function, or a method of a small collector appending to
// one of its fields); the helper stops as soon as the callback answers true. For every such collecting callback on an
// export route: (a) no return of the callback is reachable without passing the step that adds the visited record to
// what is collected — a record skipped here is missing from the exported document while the books exported beside it
// still count it; (b) the callback never answers a constant true, and any other answer is a comparison of a count with
// a bound (the export cap, whose value and use A5.export-cap decides).
func exportComplete(c *Ctx, mods ...string) {
	w, r := c.W, c.R
	n := 0
	seen := map[*ssa.Function]bool{}
	for _, m := range mods {
		var roots []*ssa.Function
		roots = append(roots, w.Roots["EXPORTGEN:"+m]...)
		for f := range w.Reachable(roots) {
			if ir.ModuleOf(f) != m || w.IsGenerated(f) {
				continue
			}
			for _, b := range f.Blocks {
				for _, in := range b.Instrs {
					call, ok := in.(ssa.CallInstruction)
					if !ok {
						continue
					}
					for _, a := range call.Common().Args {
						mc, ok := a.(*ssa.MakeClosure)
						if !ok {
							continue
						}
						cb, recv := callbackBody(mc)
						if cb == nil || seen[cb] || len(cb.Blocks) == 0 {
							continue
						}
						res := cb.Signature.Results()
						if res.Len() != 1 || res.At(0).Type().String() != "bool" {
							continue
						}
						collects := collectStores(c, cb, recv)
						if len(collects) == 0 {
							continue
						}
						seen[cb] = true
						n++
						key := m + "|" + fn(cb)
						isCollect := func(x ssa.Instruction) bool { return collects[x] }
						skipped, stops := "", ""
						for _, ret := range ir.Returns(cb) {
							if ir.Reaches(cb, ret, ir.Cut{Barrier: isCollect}) && skipped == "" {
								skipped = "the return at " + pos(c, ret) + " is reachable without adding the visited record"
							}
							switch v := ret.Results[0].(type) {
							case *ssa.Const:
								if v.Value != nil && v.Value.String() == "true" && stops == "" {
									stops = "answers true at " + pos(c, ret) + ": the walk ends there"
								}
							case *ssa.BinOp:
								// a count held against a bound (which bound, and that the walk is newest-first, is A5.export-cap's)
								if bt, isBasic := v.X.Type().Underlying().(*types.Basic); (!isBasic || bt.Info()&types.IsInteger == 0) && stops == "" {
									stops = "answers " + w.ExprOf(v).String() + " at " + pos(c, ret)
								}
							default:
								if stops == "" {
									stops = "answers " + w.ExprOf(ret.Results[0]).String() + " at " + pos(c, ret)
								}
							}
						}
						r.Require(skipped == "", "A7.export-complete", key+"|every-record", w.Pos(cb.Pos()), "the export callback adds every record it is shown to what is exported", skipped)
						r.Require(stops == "", "A7.export-complete", key+"|no-early-stop", w.Pos(cb.Pos()), "the export callback ends the walk only at the export cap (it answers false, or a count compared with a bound)", stops)
					}
				}
			}
		}
	}
	// the same for a hand-written loop over a store iterator on an export route: every turn of the loop adds a record
	for _, m := range mods {
		var roots []*ssa.Function
		roots = append(roots, w.Roots["EXPORTGEN:"+m]...)
		var fs []*ssa.Function
		for f := range w.Reachable(roots) {
			if ir.ModuleOf(f) == m && !w.IsGenerated(f) {
				fs = append(fs, f)
			}
		}
		sortFuncs(fs)
		for _, f := range fs {
			for _, be := range ir.BackEdges(f) {
				latch, hdr := be[0], be[1]
				inLoop := func(b *ssa.BasicBlock) bool {
					return hdr.Dominates(b) && ir.ReachesFrom(f, b, 0, latch.Instrs[len(latch.Instrs)-1], ir.Cut{})
				}
				// an iterator loop: Next() is called on a store iterator in it
				isIter := false
				collects := map[ssa.Instruction]bool{}
				for _, b := range f.Blocks {
					if !inLoop(b) {
						continue
					}
					for _, in := range b.Instrs {
						call, ok := in.(ssa.CallInstruction)
						if !ok {
							continue
						}
						if call.Common().IsInvoke() && call.Common().Method.Name() == "Next" && strings.HasSuffix(call.Common().Value.Type().String(), "Iterator") {
							isIter = true
						}
						if bi, ok := call.Common().Value.(*ssa.Builtin); ok && bi.Name() == "append" && len(call.Common().Args) == 2 {
							if v, ok := in.(ssa.Value); ok && !strings.HasPrefix(v.Type().Underlying().String(), "[]byte") && !strings.HasPrefix(v.Type().Underlying().String(), "[]uint8") {
								collects[in] = true
							}
						}
					}
				}
				if !isIter || len(collects) == 0 {
					continue
				}
				n++
				key := m + "|" + fn(f) + "|loop"
				// from the first block of the body to the latch without an append?
				skipped := ""
				for _, su := range hdr.Succs {
					if su == hdr || !inLoop(su) {
						continue
					}
					if ir.ReachesFrom(f, su, 0, latch.Instrs[len(latch.Instrs)-1], ir.Cut{Barrier: func(x ssa.Instruction) bool { return collects[x] }}) {
						skipped = "a turn of the loop at " + w.Pos(hdr.Instrs[0].Pos()) + " can end without adding the record it visited"
					}
				}
				r.Require(skipped == "", "A7.export-complete", key+"|every-record", w.Pos(f.Pos()), "the export loop adds every record it visits to what is exported", skipped)
			}
		}
	}
	floorN := 4
	if len(mods) < 4 {
		floorN = 1 // (run for one module by the property that module's books belong to)
	}
	r.Floor("collecting callbacks and loops on genesis export routes", n, floorN)
}

// callbackBody: the function a function value stands for — the literal itself, or the method behind a bound method
// value (recv: that method's receiver parameter).
func callbackBody(mc *ssa.MakeClosure) (*ssa.Function, *ssa.Parameter) {
	f, _ := mc.Fn.(*ssa.Function)
	if f == nil {
		return nil, nil
	}
	if strings.HasSuffix(f.Name(), "$bound") && len(mc.Bindings) == 1 {
		for _, b := range f.Blocks {
			for _, in := range b.Instrs {
				if call, ok := in.(ssa.CallInstruction); ok {
					if sc := call.Common().StaticCallee(); sc != nil && len(sc.Params) > 0 {
						return sc, sc.Params[0]
					}
				}
			}
		}
		return nil, nil
	}
	return f, nil
}

// collectStores: the stores of cb that extend what is collected — into a variable of the enclosing function or a field
// of the receiver — with a value that is made of the variable's earlier content and of something the callback was shown.
func collectStores(c *Ctx, cb *ssa.Function, recv *ssa.Parameter) map[ssa.Instruction]bool {
	w := c.W
	shown := map[string]bool{}
	for _, p := range cb.Params {
		if p != recv {
			shown[p.Name()] = true
		}
	}
	out := map[ssa.Instruction]bool{}
	for _, b := range cb.Blocks {
		for _, in := range b.Instrs {
			st, ok := in.(*ssa.Store)
			if !ok {
				continue
			}
			root := st.Addr
			if fa, ok := root.(*ssa.FieldAddr); ok {
				root = fa.X
			}
			if ld, ok := root.(*ssa.UnOp); ok {
				root = ld.X // a captured pointer variable
			}
			switch x := root.(type) {
			case *ssa.FreeVar:
			case *ssa.Parameter:
				if x != recv {
					continue
				}
			default:
				continue
			}
			if !strings.HasPrefix(st.Val.Type().Underlying().String(), "[]") {
				continue
			}
			e := w.ExprOf(st.Val)
			if e.Any(func(z *ir.Expr) bool { return z.Op == "param" && shown[z.Name] }) {
				out[in] = true
			}
		}
	}
	return out
}

// importRejects is rule A7.import-accepts-export: the import of a genesis document (the module's ValidateGenesis and the
// functions of its InitGenesis route) does not turn a record away because of how one of its fields compares with one of
// the *parameters* of the same document. Parameters are changed by governance while records stay as they were written
// (a storage limit bought under the old maximum, a fee paid under the old schedule): a state the chain itself reached
// would then export a document the import refuses, and no new chain could be started from it. (Bounds that hold for every
// reachable state — against constants, or between fields of one record — are not concerned.)
func importRejects(c *Ctx, mods ...string) {
	w, r := c.W, c.R
	n := 0
	for _, m := range mods {
		var fs []*ssa.Function
		for f := range genesisFuncs(c, "INITGEN", m) {
			if ir.ModuleOf(f) == m {
				fs = append(fs, f)
			}
		}
		if vg := w.LookupFunc("x/" + m + "/types.ValidateGenesis"); vg != nil {
			fs = append(fs, vg)
			for g := range w.Reachable([]*ssa.Function{vg}) {
				if ir.FnPkg(g) == ir.FnPkg(vg) && !w.IsGenerated(g) && g != vg && g.Name() != "Validate" && !strings.HasPrefix(g.Name(), "validate") {
					fs = append(fs, g)
				}
			}
		}
		sortFuncs(fs)
		seen := map[*ssa.Function]bool{}
		for _, f := range fs {
			if seen[f] || w.IsGenerated(f) {
				continue
			}
			seen[f] = true
			for _, b := range f.Blocks {
				iff, ok := b.Instrs[len(b.Instrs)-1].(*ssa.If)
				if !ok {
					continue
				}
				rejects := false
				for _, su := range b.Succs {
					if onlyAbortsFrom(c, f, su) {
						rejects = true
					}
				}
				if rejects {
					n++
				}
				e := w.Expand(w.ExprOf(iff.Cond), 2)
				isParam := func(z *ir.Expr) bool {
					if z.Op == "field" && len(z.Args) == 1 && z.Args[0].Op == "field" && z.Args[0].Name == "Params" {
						return true
					}
					// ... or a parameter in force, read from the store
					if z.Op == "field" && len(z.Args) == 1 && z.Args[0].Any(func(y *ir.Expr) bool { return y.Op == "state" && strings.HasSuffix(y.Name, "ParamsKey") }) {
						return true
					}
					return z.Op == "call" && strings.Contains(z.Name, ").GetParam")
				}
				isRecord := func(z *ir.Expr) bool {
					return z.Op == "field" && len(z.Args) == 1 && z.Args[0].Op == "elem" && !z.Args[0].Any(func(y *ir.Expr) bool { return y.Op == "field" && y.Name == "Params" })
				}
				// a counter that the running chain leaves at zero (an account that has used up its eFUND keeps its locked and spent
				// records: decrements store a zero coin, nothing deletes the record) is exported at zero: the import must take it
				if rejects && m == "enterprise" {
					// the condition itself (under any number of negations) is the zero test, and the side that aborts is the side an
					// amount of zero takes
					ce, neg := e, false
					for ce.Op == "un" && ce.Name == "!" && len(ce.Args) == 1 {
						ce, neg = ce.Args[0], !neg
					}
					zeroTest := false
					if ce.Op == "call" && (strings.HasSuffix(ce.Name, ").IsZero") || strings.HasSuffix(ce.Name, ").IsPositive")) && ce.Any(func(y *ir.Expr) bool {
						return y.Op == "field" && (y.Name == "LockedUnd" || y.Name == "SpentEfund" || y.Name == "TotalLocked" || y.Name == "TotalSpent")
					}) {
						zeroSide := 0 // IsZero: zero takes the true successor
						if strings.HasSuffix(ce.Name, ").IsPositive") {
							zeroSide = 1
						}
						if neg {
							zeroSide = 1 - zeroSide
						}
						zeroTest = len(b.Succs) == 2 && onlyAbortsFrom(c, f, b.Succs[zeroSide])
					}
					r.Require(!zeroTest, "A7.import-accepts-export", fmt.Sprintf("%s|%s|zero-counter", fn(f), w.InstrPos(iff)), pos(c, iff),
						"the import refuses no locked / spent counter for being zero (the running chain keeps exhausted accounts' records at zero and exports them)", "rejects on "+e.String())
				}
				op, x, y, okc := ir.Pred{E: e, Pol: true}.Cmp()
				bad := okc && (x.Any(isParam) && y.Any(isRecord) || y.Any(isParam) && x.Any(isRecord))
				_ = op
				if !rejects {
					// a branch that does not refuse but treats a record differently for how it compares with a parameter (skips a
					// write "because the default applies anyway"): what was exported is not what is imported
					if bad {
						r.Bad("A7.import-accepts-export", fmt.Sprintf("%s|%s|branch", fn(f), w.InstrPos(iff)), pos(c, iff),
							"the import treats no record differently for how it compares with a parameter (every exported record is written back as it was exported; parameters may have changed since it was written)", "branches on "+e.String())
					}
					continue
				}
				r.Require(!bad, "A7.import-accepts-export", fmt.Sprintf("%s|%s", fn(f), w.InstrPos(iff)), pos(c, iff),
					"the import refuses no record for how it compares with a parameter of the document (governance may have changed the parameter after the record was written; the exported state of a running chain must import)", "rejects on "+e.String())
			}
		}
	}
	r.Floor("rejecting branches on genesis import routes", n, 10)
}

// onlyAbortsFrom: every way on from block b ends in a panic or in a return with a provably non-nil error.
func onlyAbortsFrom(c *Ctx, f *ssa.Function, b *ssa.BasicBlock) bool {
	seen := map[*ssa.BasicBlock]bool{}
	var visit func(x *ssa.BasicBlock) bool
	visit = func(x *ssa.BasicBlock) bool {
		if seen[x] {
			return true
		}
		seen[x] = true
		if len(x.Instrs) == 0 {
			return false
		}
		switch t := x.Instrs[len(x.Instrs)-1].(type) {
		case *ssa.Panic:
			return true
		case *ssa.Return:
			ei := ir.ErrIndex(f)
			return ei >= 0 && ei < len(t.Results) && c.W.ProvablyNonNil(f, t, t.Results[ei])
		}
		if len(x.Succs) == 0 {
			return false
		}
		for _, s := range x.Succs {
			if !visit(s) {
				return false
			}
		}
		return true
	}
	return visit(b)
}

// exportNotPaginated (A7.export-complete|unpaginated): genesis export does not collect its records through a helper built
// for paged queries. The SDK's paginators (query.Paginate / FilteredPaginate / GenericFilteredPaginate, client.Paginate)
// hand back one page — a hundred items by default — so an export routed through a "filtered list with no filter" helper
// silently drops every record after the first page, while the exported id counter keeps the true value.
func exportNotPaginated(c *Ctx, mods ...string) {
	w, r := c.W, c.R
	for _, m := range mods {
		bad := ""
		n := 0
		for _, root := range w.Roots["EXPORTGEN:"+m] {
			reach := w.Reachable([]*ssa.Function{root})
			var fs []*ssa.Function
			for f := range reach {
				fs = append(fs, f)
			}
			sortFuncs(fs)
			for _, f := range fs {
				n++
				for _, b := range f.Blocks {
					for _, in := range b.Instrs {
						call, ok := in.(ssa.CallInstruction)
						if !ok {
							continue
						}
						sc := call.Common().StaticCallee()
						if sc == nil || sc.Pkg == nil {
							continue
						}
						pp := sc.Pkg.Pkg.Path()
						if (strings.HasSuffix(pp, "cosmos-sdk/types/query") || strings.HasSuffix(pp, "cosmos-sdk/client")) && strings.Contains(sc.Name(), "Paginate") && bad == "" {
							bad = fn(f) + " calls " + sc.Name() + " at " + w.InstrPos(in) + " (" + pathStr(pathTo(reach, f)) + ")"
						}
					}
				}
			}
		}
		r.Require(bad == "", "A7.export-complete", m+"|unpaginated", "", "the genesis export of "+m+" reaches no paginator of the query layer (a page is not the whole section)", bad)
		r.Floor("functions on the export route of "+m+" searched for paginators", n, 3)
	}
}

// pathTo: the call chain recorded by Reachable from its roots to f.
func pathTo(reach map[*ssa.Function]*ir.Edge, f *ssa.Function) []string {
	var out []string
	for i := 0; f != nil && i < 12; i++ {
		out = append([]string{fn(f)}, out...)
		e := reach[f]
		if e == nil {
			break
		}
		f = e.From
	}
	return out
}
