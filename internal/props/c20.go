package props

import (
	"fmt"
	"go/token"
	"go/types"
	"os"
	"strings"

	"golang.org/x/tools/go/ssa"

	"mcverif/internal/ir"
)

func init() { Registry["C20"] = C20 }

func isMutation(e ir.Effect) bool {
	switch e.Kind {
	case "StoreWrite", "StoreDelete", "Mint", "Burn", "Bank", "GlobalWrite":
		return true
	}
	return false
}

func C20(c *Ctx) {
	w, r := c.W, c.R
	r.Explanation = "(A1) effect reachability: from each of the QueryServer methods of the four modules no store write/delete, bank mutation, mint/burn or package-variable write is reachable in the repo call graph; " +
		"(A12) pagination-callback idiom on go/ssa CFGs: in every closure passed to query.FilteredPaginate the append to the result is guarded by `accumulate`, no non-error return is control- or data-dependent on `accumulate` (so counting pages and collecting pages see the same hits), the appended element is the decoded `value`, and every `false` return is guarded by a predicate over the request; " +
		"for GenericFilteredPaginate callbacks a nil result is returned only under a request-dependent filter and the returned item carries the decoded value; " +
		"(A7) every store section is encoded and decoded with one single Go type across all writers, getters, iterators and paginated queries, and the prefix store handed to a paginator is the section its callback decodes. Structural necessary conditions; SDK paginator correctness is trusted."
	r.Rules = []string{"A1.query-readonly", "A12.accumulate-guard", "A12.hit-independent-of-accumulate", "A12.element", "A12.item-identity", "A12.filter-only-drop", "A12.filter-complete", "A11.parser", "A11.reprefix", "A7.section-type", "A12.decode-fresh", "A12.page-request", "A12.filter-form"}
	decodeFresh(c, ir.Modules...)
	r.Trusted = []string{"cosmos-sdk types/query FilteredPaginate / GenericFilteredPaginate semantics", "codec (Must)Unmarshal decodes what (Must)Marshal encoded for the same type"}
	r.NotDecided = []string{"cross-page completeness as behaviour", "bank keeper pagination used by TotalSupply"}

	// A1: queries are read-only
	nq := len(w.Roots["QUERY"])
	r.Floor("QueryServer methods", nq, 33)
	hits := w.WhoReaches([]string{"QUERY"}, isMutation)
	for _, h := range hits {
		r.Bad("A1.query-readonly", "root="+fn(h.Root)+"|"+h.Eff.Kind+":"+h.Eff.Method+h.Eff.Section, pos(c, h.Eff.Site), "queries never modify state", "reaches "+h.Eff.Kind+" via "+pathStr(h.Path))
	}
	for _, q := range w.Roots["QUERY"] {
		bad := false
		for _, h := range hits {
			if h.Root == q {
				bad = true
			}
		}
		if !bad {
			r.OK("A1.query-readonly", "root="+fn(q), w.Pos(q.Pos()), "no state mutation reachable from this query")
		}
	}
	r.Control("A1.query-readonly", "fixtures/c20", fixtureReach(c, "QueryWrites", isMutation) > 0)

	// A12: pagination callbacks
	nFP, nGFP, nFilt := 0, 0, 0
	nPage := 0
	nForm := 0
	for _, f := range w.Funcs {
		if w.IsGenerated(f) || ir.IsFixture(f) && !strings.Contains(fn(f), "fixtures/c20") {
			continue
		}
		for _, b := range f.Blocks {
			for _, in := range b.Instrs {
				call, ok := in.(*ssa.Call)
				if !ok {
					continue
				}
				sc := call.Common().StaticCallee()
				if sc == nil || ir.FnPkg(sc) == nil || ir.FnPkg(sc).Path() != "github.com/cosmos/cosmos-sdk/types/query" {
					continue
				}
				name := sc.Name()
				if o := sc.Origin(); o != nil {
					name = o.Name()
				}
				if name == "FilteredPaginate" || name == "GenericFilteredPaginate" || name == "Paginate" {
					// the caller's page request reaches the paginator as it came: offsets, keys, limits, the reverse and count
					// flags mean what the SDK's paginator makes of them — a request rewritten on the way (an offset turned into a
					// key, a limit clamped, a default put in) pages by other rules than the client asked for
					if !ir.IsFixture(f) {
						pidx := 1
						if name == "GenericFilteredPaginate" {
							pidx = 2
						}
						if pidx < len(call.Common().Args) {
							raw := w.ExprOf(call.Common().Args[pidx])
							pe := w.Expand(raw, 3)
							isReqPage := func(e *ir.Expr) bool {
								for _, a := range w.Expand(e, 3).Alts() {
									if !(a.Op == "field" && a.Name == "Pagination" && len(a.Args) == 1 && (a.Args[0].Op == "param" || a.Args[0].Op == "free" || a.Args[0].Op == "captured")) {
										return false
									}
								}
								return true
							}
							okPage := isReqPage(pe)
							if !okPage && pe.Any(func(z *ir.Expr) bool { return z.Op == "param" }) {
								// a paginator shared by several queries is handed the page request: judged as each query hands it in
								isQuery := false
								for _, q := range w.Roots["QUERY"] {
									if q == f {
										isQuery = true
									}
								}
								if !isQuery {
									okPage = liftAll(c, f, raw, isReqPage)
								}
							}
							nPage++
							r.Require(okPage, "A12.page-request", fn(f)+"|"+name, pos(c, in), "the request's Pagination is handed to the SDK paginator unchanged", "page request: "+pe.String())
						}
					}
				}
				switch name {
				case "FilteredPaginate":
					cb := closureArg(call.Common().Args[2])
					if cb == nil {
						r.Undecided("A12.accumulate-guard", fn(f), pos(c, in), "FilteredPaginate callback is a closure literal", "callback not resolvable")
						continue
					}
					if !ir.IsFixture(f) {
						nFP++
					}
					filteredPaginateCallback(c, f, call, cb)
					if !ir.IsFixture(f) {
						nForm += filterForm(c, cb, ir.ModuleOf(f))
					}
					if !ir.IsFixture(f) {
						nFilt += filterComplete(c, call, call.Common().Args[2], 0, false)
					}
				case "GenericFilteredPaginate":
					cb := closureArg(call.Common().Args[3])
					if cb == nil {
						r.Undecided("A12.filter-only-drop", fn(f), pos(c, in), "GenericFilteredPaginate callback is a closure literal", "callback not resolvable")
						continue
					}
					if !ir.IsFixture(f) {
						nGFP++
						// (a paginator shared by several queries stands for one site per query that uses it)
						isQuery := false
						for _, q := range w.Roots["QUERY"] {
							if q == f {
								isQuery = true
							}
						}
						if !isQuery {
							if k := len(w.Callers(f)); k > 1 {
								nGFP += k - 1
							}
						}
					}
					genericPaginateCallback(c, f, call, cb)
					// the paginator decodes each entry into what the constructor hands it: a value nothing was decoded into before
					if len(call.Common().Args) > 4 && !ir.IsFixture(f) {
						ctor := closureArg(call.Common().Args[4])
						if ctor == nil {
							r.Undecided("A12.decode-fresh", "ctor|"+fn(f), pos(c, in), "the constructor handed to GenericFilteredPaginate is resolvable", "not a function literal, bound method or named function")
						} else {
							why := notFresh(ctor, 0)
							r.Require(why == "", "A12.decode-fresh", "ctor|"+fn(f), pos(c, in), "the constructor handed to GenericFilteredPaginate returns a newly created value on every call (the paginator decodes the next entry into it, and decoding leaves absent fields as they are)", why)
						}
					}
					if !ir.IsFixture(f) {
						nFilt += filterComplete(c, call, call.Common().Args[3], 1, true)
					}
				}
			}
		}
	}
	r.Floor("FilteredPaginate call sites", nFP, 3)
	r.Floor("paginator calls judged for their page request", nPage, 6)
	r.Analysed["string comparisons with fields of listed items"] = nForm
	r.Floor("GenericFilteredPaginate call sites", nGFP, 3)
	r.Floor("request filter fields judged on the hits of paginated queries", nFilt, 8)
	ctl := 0
	for _, o := range r.Obls {
		if strings.Contains(o.Key, "fixtures/c20") && o.Status == "violated" {
			ctl++
		}
	}
	// fixture findings are controls, not findings about /repo
	kept := r.Obls[:0]
	for _, o := range r.Obls {
		if !strings.Contains(o.Key, "fixtures/c20") {
			kept = append(kept, o)
		}
	}
	r.Obls = kept
	r.Control("A12.*", "fixtures/c20", ctl >= 2)

	// "each returned item equals what the point query returns": the parties a stream listing reports are parsed out of
	// the entry's key — the parsers read what the key builders wrote (the rule is C18's; it is this clause's too)
	streamParsers(c, streamKeyBuilders(c))

	sectionTypes(c)
}

// theCbRecv: the receiver parameter of the bound-method callback under analysis ("" for closure literals).
var theCbRecv string

func closureArg(v ssa.Value) *ssa.Function {
	for {
		switch x := v.(type) {
		case *ssa.MakeClosure:
			f, _ := x.Fn.(*ssa.Function)
			return f
		case *ssa.Function:
			return x
		case *ssa.ChangeType:
			v = x.X
		case *ssa.MakeInterface:
			v = x.X
		default:
			return nil
		}
	}
}

// accumulateEdges returns the CFG edges of cb on which `accumulate` is known true / false.
func paramBoolEdges(cb *ssa.Function, p *ssa.Parameter) (tr, fa map[[2]int]bool) {
	tr, fa = map[[2]int]bool{}, map[[2]int]bool{}
	for _, b := range cb.Blocks {
		iff, ok := b.Instrs[len(b.Instrs)-1].(*ssa.If)
		if !ok {
			continue
		}
		v := iff.Cond
		neg := false
		for {
			if u, ok := v.(*ssa.UnOp); ok && u.Op == token.NOT {
				v = u.X
				neg = !neg
				continue
			}
			break
		}
		if v != ssa.Value(p) {
			continue
		}
		if !neg {
			tr[[2]int{b.Index, 0}] = true
			fa[[2]int{b.Index, 1}] = true
		} else {
			tr[[2]int{b.Index, 1}] = true
			fa[[2]int{b.Index, 0}] = true
		}
	}
	return
}

func mentionsParam(e *ir.Expr, name string) bool {
	return e.Any(func(x *ir.Expr) bool { return x.Op == "param" && x.Name == name })
}

func mentionsRequest(e *ir.Expr) bool {
	return e.Any(func(x *ir.Expr) bool {
		if theCbRecv != "" && x.Op == "field" && len(x.Args) == 1 && x.Args[0].Op == "param" && x.Args[0].Name == theCbRecv {
			return true // what the object the callback is bound to was given by the query method
		}
		return (x.Op == "free" || x.Op == "captured" || x.Op == "param") && (x.Name == "req" || strings.HasPrefix(x.Name, "req")) ||
			x.Op == "field" && len(x.Args) == 1 && (x.Args[0].Op == "free" || x.Args[0].Op == "captured")
	})
}

func filteredPaginateCallback(c *Ctx, parent *ssa.Function, call *ssa.Call, cb *ssa.Function) {
	w, r := c.W, c.R
	// a bound method value (`page.visit`): the method is the callback, its receiver's fields are what it collects into
	off := 0
	if real := ir.BoundTarget(cb); real != nil {
		cb, off = real, 1
	}
	key := fn(cb)
	if len(cb.Params) != 3+off {
		r.Undecided("A12.accumulate-guard", key, w.Pos(cb.Pos()), "callback has (key, value, accumulate) parameters", "unexpected signature")
		return
	}
	acc := cb.Params[2+off]
	val := cb.Params[1+off]
	theCbRecv = ""
	if off == 1 {
		theCbRecv = cb.Params[0].Name()
	}
	defer func() { theCbRecv = "" }()
	tr, fa := paramBoolEdges(cb, acc)
	// (a) appends to captured result slices only under accumulate
	nApp := 0
	for _, b := range cb.Blocks {
		for _, in := range b.Instrs {
			st, ok := in.(*ssa.Store)
			if !ok {
				continue
			}
			_, isFree := st.Addr.(*ssa.FreeVar)
			addrName := st.Addr.Name()
			if fa2, ok := st.Addr.(*ssa.FieldAddr); ok && off == 1 && fa2.X == ssa.Value(cb.Params[0]) {
				isFree = true // a field of the receiver the callback is bound to
				addrName = ir.FieldName(fa2.X.Type(), fa2.Field)
			}
			if !isFree {
				continue
			}
			nApp++
			// the store must be unreachable when accumulate-true edges are removed
			guarded := !ir.Reaches(cb, in, ir.Cut{Edges: tr})
			if !guarded {
				// accumulate may be handed to a helper that folds it into a verdict the callback switches on
				accName := acc.Name()
				guarded = w.Guarded(cb, in, func(p ir.Pred) bool { return p.Pol && p.E.Op == "param" && p.E.Name == accName }, 2)
			}
			r.Require(guarded, "A12.accumulate-guard", key+"|store:"+addrName, pos(c, in), "the result slice is extended only when accumulate is true", "store to captured variable reachable with accumulate == false")
			// (d) element appended is the decoded value
			e := w.ExprOf(st.Val)
			elemOK := false
			if e.Op == "call" && e.Name == "builtin:append" && len(e.Args) == 2 {
				el := e.Args[1]
				if el.Op == "list" && len(el.Args) == 1 {
					x := el.Args[0]
					for _, a := range x.Alts() {
						if a.Op == "decode" && len(a.Args) == 1 && a.Args[0].Op == "param" && a.Args[0].Name == val.Name() {
							elemOK = true
						} else {
							elemOK = false
							break
						}
					}
				}
			}
			if !elemOK {
				// a decode buffer the callback captured: the appended value is a load of that buffer, and on every path to the
				// append the buffer was handed, with the callback's value, to the codec's Unmarshal (that it was emptied before is
				// A12.decode-fresh's obligation)
				if ac, ok := st.Val.(*ssa.Call); ok && len(ac.Common().Args) == 2 {
					for _, el := range variadicElems(ac.Common().Args[1]) {
						ld, ok := el.(*ssa.UnOp)
						if !ok {
							continue
						}
						buf, ok := ld.X.(*ssa.FreeVar)
						if !ok {
							continue
						}
						isDecode := func(x ssa.Instruction) bool {
							dc, ok := x.(ssa.CallInstruction)
							if !ok || !strings.Contains(methodNameOf(dc), "Unmarshal") {
								return false
							}
							hasVal, hasBuf := false, false
							for _, a := range dc.Common().Args {
								if a == ssa.Value(val) {
									hasVal = true
								}
								if stripIface(a) == ssa.Value(buf) {
									hasBuf = true
								}
							}
							return hasVal && hasBuf
						}
						if !ir.Reaches(cb, in, ir.Cut{Barrier: func(x ssa.Instruction) bool { return x != in && isDecode(x) }}) {
							elemOK = true
						}
					}
				}
			}
			r.Require(elemOK, "A12.element", key+"|store:"+addrName, pos(c, in), "the appended element is the item decoded from the callback's value", "appended: "+e.String())
		}
	}
	r.Require(nApp >= 1, "A12.element", key+"|has-append", w.Pos(cb.Pos()), "the callback collects hits into a captured slice", "no store to a captured variable")
	// (b)+(c): non-error returns are independent of accumulate. Control dependence, decided at every branch on
	// accumulate: the hit results (non-error returns) that can follow its true side and its false side are the
	// same set, and a single value — the same filters then decide the same way whatever accumulate is. (A branch
	// that filters on one side only, or answers "hit" on one side before the filters run, differs.)
	resultsFrom := func(b *ssa.BasicBlock) map[string]bool {
		out := map[string]bool{}
		for _, ret := range ir.Returns(cb) {
			if w.ProvablyNonNil(cb, ret, ret.Results[1]) {
				continue
			}
			if ir.ReachesFrom(cb, b, 0, ret, ir.Cut{}) {
				out[w.ExprOf(ret.Results[0]).String()] = true
			}
		}
		return out
	}
	accBranches := map[int]bool{}
	for k := range tr {
		accBranches[k[0]] = true
	}
	for k := range fa {
		accBranches[k[0]] = true
	}
	for bi := range accBranches {
		b := cb.Blocks[bi]
		if len(b.Succs) != 2 {
			continue
		}
		rt, rf := resultsFrom(b.Succs[0]), resultsFrom(b.Succs[1])
		same := len(rt) == len(rf) && len(rt) == 1
		for k := range rt {
			if !rf[k] {
				same = false
			}
		}
		r.Require(same, "A12.hit-independent-of-accumulate", fmt.Sprintf("%s|branch-b%d", key, bi), pos(c, b.Instrs[len(b.Instrs)-1]), "on both sides of a test of accumulate the item counts as a hit in the same way (one and the same result)", fmt.Sprintf("results after the test: one side %s, other side %s", setStr(rt), setStr(rf)))
	}
	for i, ret := range ir.Returns(cb) {
		if w.ProvablyNonNil(cb, ret, ret.Results[1]) {
			continue
		}
		rk := fmt.Sprintf("%s|return%d", key, i)
		e := w.ExprOf(ret.Results[0])
		dataDep := mentionsParam(e, acc.Name())
		r.Require(!dataDep, "A12.hit-independent-of-accumulate", rk, pos(c, ret), "whether an item counts as a hit does not depend on accumulate", fmt.Sprintf("result %s is computed from accumulate", e.String()))
		// (e) a false result only under a request-dependent filter
		if cst, ok := ret.Results[0].(*ssa.Const); ok && cst.Value != nil && cst.Value.String() == "true" {
			continue
		}
		okDrop := w.Guarded(cb, ret, func(p ir.Pred) bool { return mentionsRequest(p.E) }, 1)
		if !okDrop {
			// result computed from filter booleans: every way of being false must involve the request
			okDrop = holdsFalseOnlyByRequest(c, cb, ret.Results[0])
		}
		r.Require(okDrop, "A12.filter-only-drop", rk, pos(c, ret), "an item is dropped only by a filter over the request", "a false result is reachable without any request-dependent test")
	}
}

// holdsFalseOnlyByRequest: the bool value can be false only through comparisons mentioning the request.
func holdsFalseOnlyByRequest(c *Ctx, f *ssa.Function, v ssa.Value) bool {
	switch x := v.(type) {
	case *ssa.Const:
		return x.Value != nil && x.Value.String() == "true"
	case *ssa.Phi:
		for _, e := range x.Edges {
			if e == v {
				continue
			}
			if !holdsFalseOnlyByRequest(c, f, e) {
				return false
			}
		}
		return true
	case *ssa.BinOp:
		return mentionsRequest(c.W.ExprOf(x))
	case *ssa.UnOp:
		if x.Op == token.NOT {
			return mentionsRequest(c.W.ExprOf(x))
		}
	case *ssa.Call:
		return mentionsRequest(c.W.ExprOf(x))
	}
	return false
}

func genericPaginateCallback(c *Ctx, parent *ssa.Function, call *ssa.Call, cb *ssa.Function) {
	w, r := c.W, c.R
	key := fn(cb)
	if len(cb.Params) != 2 {
		r.Undecided("A12.filter-only-drop", key, w.Pos(cb.Pos()), "callback has (key, value) parameters", "unexpected signature")
		return
	}
	val := cb.Params[1]
	for i, ret := range ir.Returns(cb) {
		if len(ret.Results) != 2 || w.ProvablyNonNil(cb, ret, ret.Results[1]) {
			continue
		}
		rk := fmt.Sprintf("%s|return%d", key, i)
		if cst, ok := ret.Results[0].(*ssa.Const); ok && cst.Value == nil {
			okDrop := w.Guarded(cb, ret, func(p ir.Pred) bool { return mentionsRequest(p.E) || mentionsFree(p.E) }, 1)
			r.Require(okDrop, "A12.filter-only-drop", rk, pos(c, ret), "an item is dropped (nil, nil) only by a filter over the request", "unconditional drop")
			continue
		}
		// returned item must carry the decoded value
		e := w.ExprOf(ret.Results[0])
		carries := e.Any(func(x *ir.Expr) bool { return x.Op == "param" && x.Name == val.Name() })
		if !carries {
			// struct literal allocated on the heap: look at the stores into it
			if a, ok := ret.Results[0].(*ssa.Alloc); ok {
				if refs := a.Referrers(); refs != nil {
					for _, rf := range *refs {
						if fa, ok := rf.(*ssa.FieldAddr); ok {
							if frefs := fa.Referrers(); frefs != nil {
								for _, sr := range *frefs {
									if st, ok := sr.(*ssa.Store); ok && st.Val == ssa.Value(val) {
										carries = true
									}
								}
							}
						}
					}
				}
			}
		}
		r.Require(carries, "A12.element", rk, pos(c, ret), "the returned list item carries the value decoded for this key", "result "+e.String())
		itemIdentity(c, parent, cb, ret, rk)
	}
}

// streamItemIdentity runs the item-identity rule on every GenericFilteredPaginate callback of the stream
// module (used by C18, whose last clause it is; C20 runs it as part of its callback rules).
func streamItemIdentity(c *Ctx) int {
	w := c.W
	n := 0
	for _, f := range w.Funcs {
		if w.IsGenerated(f) || ir.IsFixture(f) || ir.ModuleOf(f) != "stream" {
			continue
		}
		for _, b := range f.Blocks {
			for _, in := range b.Instrs {
				call, ok := in.(*ssa.Call)
				if !ok {
					continue
				}
				sc := call.Common().StaticCallee()
				if sc == nil || ir.FnPkg(sc) == nil || ir.FnPkg(sc).Path() != "github.com/cosmos/cosmos-sdk/types/query" {
					continue
				}
				name := sc.Name()
				if o := sc.Origin(); o != nil {
					name = o.Name()
				}
				if name != "GenericFilteredPaginate" {
					continue
				}
				cb := closureArg(call.Common().Args[3])
				if cb == nil {
					continue
				}
				for i, ret := range ir.Returns(cb) {
					if len(ret.Results) != 2 || w.ProvablyNonNil(cb, ret, ret.Results[1]) {
						continue
					}
					if cst, ok := ret.Results[0].(*ssa.Const); ok && cst.Value == nil {
						continue
					}
					n += itemIdentity(c, f, cb, ret, fmt.Sprintf("%s|return%d", fn(cb), i))
				}
			}
		}
	}
	return n
}

// heapFields: the fields stored into a struct allocated by v (an allocation in f, or the result of an
// in-scope constructor called by f), in f's terms.
func heapFields(c *Ctx, f *ssa.Function, v ssa.Value, depth int) map[string]*ir.Expr {
	w := c.W
	out := map[string]*ir.Expr{}
	switch x := v.(type) {
	case *ssa.Alloc:
		if refs := x.Referrers(); refs != nil {
			for _, rf := range *refs {
				if fa, ok := rf.(*ssa.FieldAddr); ok {
					if frefs := fa.Referrers(); frefs != nil {
						for _, sr := range *frefs {
							if st, ok := sr.(*ssa.Store); ok && st.Addr == ssa.Value(fa) {
								out[ir.FieldName(fa.X.Type(), fa.Field)] = w.ExprOf(st.Val)
							}
						}
					}
				}
			}
		}
	case *ssa.Call:
		if depth > 2 {
			return out
		}
		gs := w.CalleesOf(x)
		if len(gs) != 1 || len(gs[0].Blocks) == 0 {
			return out
		}
		g := gs[0]
		for _, ret := range ir.Returns(g) {
			if len(ret.Results) == 0 {
				continue
			}
			for k, e := range heapFields(c, g, ret.Results[0], depth+1) {
				out[k] = w.ArgSubst(x, g, e)
			}
		}
	case *ssa.Phi:
		for _, e := range x.Edges {
			for k, v2 := range heapFields(c, f, e, depth) {
				out[k] = v2
			}
		}
	}
	return out
}

// freeVarBinding: the origin (in parent's terms) of the value a closure's free variable is bound to.
func freeVarBinding(c *Ctx, parent, cb *ssa.Function, e *ir.Expr) string {
	if be := freeVarBoundExpr(c, parent, cb, e); be != nil {
		return be.String()
	}
	return ""
}

// freeVarBoundExpr: the origin (in parent's terms) of the value a closure's free variable is bound to; nil when unknown.
func freeVarBoundExpr(c *Ctx, parent, cb *ssa.Function, e *ir.Expr) *ir.Expr {
	if e == nil || e.Op != "free" {
		return nil
	}
	idx := -1
	for i, fv := range cb.FreeVars {
		if fv.Name() == e.Name {
			idx = i
		}
	}
	if idx < 0 {
		return nil
	}
	for _, b := range parent.Blocks {
		for _, in := range b.Instrs {
			mc, ok := in.(*ssa.MakeClosure)
			if !ok || mc.Fn != ssa.Value(cb) || idx >= len(mc.Bindings) {
				continue
			}
			bv := mc.Bindings[idx]
			if al, ok := bv.(*ssa.Alloc); ok {
				if refs := al.Referrers(); refs != nil {
					for _, rf := range *refs {
						if st, ok := rf.(*ssa.Store); ok && st.Addr == ssa.Value(al) {
							return c.W.ExprOf(st.Val)
						}
					}
				}
				return nil
			}
			return c.W.ExprOf(bv)
		}
	}
	return nil
}

// itemIdentity (A12.item-identity): a listed stream is reported with exactly the parties of its key. The
// Sender / Receiver of a returned item must be (a) the address the key parser extracted from this entry's key,
// or (b) a requested address that the callback has compared for equality with the parsed one (the item is
// returned only on the edge where that comparison holds), or (c) the address the iterated prefix store was
// opened with (every key under it belongs to that party). A request address admitted by any weaker test (a
// suffix or prefix match on the raw key bytes) reports streams under a pair they were never created with.
func itemIdentity(c *Ctx, parent, cb *ssa.Function, ret *ssa.Return, rk string) int {
	w := c.W
	fields := heapFields(c, cb, ret.Results[0], 0)
	// a callback that asks a function handed to its enclosing function (`locate(key)` in a paginator shared by several
	// queries) is judged once per caller of that function, with the function each caller hands in
	for _, party := range []string{"Receiver", "Sender"} {
		v, ok := fields[party]
		if !ok {
			continue
		}
		var fvName string
		v.Walk(func(x *ir.Expr) bool {
			if x.Op == "call" && x.Name == "dyn" && len(x.Args) > 0 && x.Args[0].Op == "free" {
				fvName = x.Args[0].Name
			}
			return true
		})
		if fvName == "" {
			continue
		}
		pi := -1
		for _, b := range parent.Blocks {
			for _, in := range b.Instrs {
				mc, ok := in.(*ssa.MakeClosure)
				if !ok || mc.Fn != ssa.Value(cb) {
					continue
				}
				for i, fv := range cb.FreeVars {
					if fv.Name() != fvName || i >= len(mc.Bindings) {
						continue
					}
					bv := mc.Bindings[i]
					if sv := ir.SingleAssignment(bv); sv != nil {
						bv = sv
					}
					for j, p := range parent.Params {
						if ssa.Value(p) == bv {
							pi = j
						}
					}
				}
			}
		}
		if pi < 0 {
			break
		}
		n := 0
		for _, ed := range w.Callers(parent) {
			call, ok := ed.Site.(ssa.CallInstruction)
			if !ok || w.IsGenerated(ed.From) || ir.IsFixture(ed.From) {
				continue
			}
			args := call.Common().Args
			idx := pi
			if call.Common().IsInvoke() {
				idx = pi - 1
			}
			if idx < 0 || idx >= len(args) {
				continue
			}
			ce := w.ResolveCaptured(w.ExprOf(args[idx]))
			inst := map[string]*ir.Expr{}
			// the verdict of the handed-in function that the callback's hit stands under (`_, _, keep := locate(key); if !keep { return nil, nil }`)
			for _, b := range cb.Blocks {
				iff, ok := b.Instrs[len(b.Instrs)-1].(*ssa.If)
				if !ok {
					continue
				}
				ce2 := w.ExprOf(iff.Cond)
				keepEdge := 0
				if ce2.Op == "un" && ce2.Name == "!" && len(ce2.Args) == 1 {
					ce2, keepEdge = ce2.Args[0], 1
				}
				if ce2.Op == "res" && len(ce2.Args) == 1 && ce2.Args[0].Op == "call" && ce2.Args[0].Name == "dyn" && len(ce2.Args[0].Args) > 0 && ce2.Args[0].Args[0].Op == "free" && ce2.Args[0].Args[0].Name == fvName {
					if !ir.Reaches(cb, ret, ir.Cut{Edges: map[[2]int]bool{{b.Index, keepEdge}: true}}) {
						inst["@keep"] = w.ExpandKeep(ir.Subst(ce2, map[string]*ir.Expr{"free:" + fvName: ce}), 4, isStreamKeyParser)
					}
				}
			}
			for k, fv := range fields {
				inst[k] = w.ExpandKeep(ir.Subst(fv, map[string]*ir.Expr{"free:" + fvName: ce}), 4, isStreamKeyParser)
			}
			n++
			itemIdentityFields(c, ed.From, cb, ret, rk+"|via "+fn(ed.From), inst)
		}
		if n > 0 {
			return n
		}
		break
	}
	itemIdentityFields(c, parent, cb, ret, rk, fields)
	return 1
}

func itemIdentityFields(c *Ctx, parent, cb *ssa.Function, ret *ssa.Return, rk string, fields map[string]*ir.Expr) {
	w, r := c.W, c.R
	for _, party := range []string{"Receiver", "Sender"} {
		v, ok := fields[party]
		if !ok {
			continue
		}
		// <addr>.String()
		addr := v
		boundAddr := ""
		if addr.Op == "free" {
			// the spelling prepared once before the callback (`sender := senderAddr.String()`): the address it was taken from, in
			// the enclosing function's terms
			if be := freeVarBoundExpr(c, parent, cb, addr); be != nil && (be.Op == "invoke" || be.Op == "call") && strings.HasSuffix(be.Name, ".String") && len(be.Args) >= 1 {
				boundAddr = c.W.ResolveCaptured(be.Args[0]).String()
			}
		}
		if addr.Op == "invoke" || addr.Op == "call" {
			if strings.HasSuffix(addr.Name, ".String") && len(addr.Args) >= 1 {
				addr = addr.Args[0]
			}
		}
		isParsed := func(e *ir.Expr) bool {
			// a key parser: the SDK's length-prefixed reader, or a function of the stream types package from a key to addresses
			// (that each of them reads the builder's layout is A11.parser's obligation)
			isParserCall := func(z *ir.Expr) bool {
				if z.Op != "call" {
					return false
				}
				if strings.HasSuffix(z.Name, "types.ParseLengthPrefixedBytes") {
					return true
				}
				return z.Callee != nil && isStreamKeyParser(z.Callee)
			}
			mentionsParser := func(x *ir.Expr) bool {
				return x.Any(func(z *ir.Expr) bool {
					return isParserCall(z) && z.Any(func(y *ir.Expr) bool { return y.Op == "param" && y.Name == cb.Params[0].Name() })
				})
			}
			if mentionsParser(e) {
				return true
			}
			return mentionsParser(w.ExpandKeep(e, 3, func(f *ssa.Function) bool { return isStreamKeyParser(f) }))
		}
		sameAddr := func(x *ir.Expr) bool {
			return x.String() == addr.String() || boundAddr != "" && (x.String() == boundAddr || freeVarBinding(c, parent, cb, x) == boundAddr)
		}
		okID := isParsed(addr)
		why := "parsed from the entry's key"
		if !okID {
			// (b) compared for equality with the parsed address on every path to this return
			okID = w.Guarded(cb, ret, func(p ir.Pred) bool {
				if !p.Pol || !(p.E.Op == "call" || p.E.Op == "invoke") || !strings.HasSuffix(p.E.Name, "AccAddress).Equals") || len(p.E.Args) != 2 {
					return false
				}
				a, b := p.E.Args[0], p.E.Args[1]
				return isParsed(a) && sameAddr(b) || isParsed(b) && sameAddr(a)
			}, 1)
			why = "compared for equality with the parsed address"
		}
		if !okID {
			// (b') the callback gives up unless the function it asks (handed in by this caller) says keep, and that function
			// says keep only when the parsed address equals this one: `return receiver, sender, s.Equals(sender)`
			if keep, ok := fields["@keep"]; ok {
				k := w.ExpandKeep(keep, 3, isStreamKeyParser)
				if os.Getenv("MCDEBUG") == "keep" {
					fmt.Fprintln(os.Stderr, "keep", rk, party, k.Op, k.Name, len(k.Args), "addr", addr.String())
					if len(k.Args) == 2 {
						fmt.Fprintln(os.Stderr, "  parsed", isParsed(k.Args[0]), isParsed(k.Args[1]), k.Args[1].String() == addr.String())
					}
				}
				if (k.Op == "call" || k.Op == "invoke") && strings.HasSuffix(k.Name, "AccAddress).Equals") && len(k.Args) == 2 {
					a, b := k.Args[0], k.Args[1]
					if isParsed(a) && sameAddr(b) || isParsed(b) && sameAddr(a) {
						okID = true
					}
				}
			}
		}
		if !okID {
			// (c) the prefix store iterated was opened with this address
			bound := freeVarBinding(c, parent, cb, addr)
			if boundAddr != "" {
				bound = boundAddr
			}
			for _, ps := range prefixStores(c, parent) {
				// (the address as the function that opened the store spells it, a captured variable resolved to what it was given)
				if as := addr.String(); w.Expand(w.ResolveCaptured(w.Expand(ps, 2)), 2).Any(func(z *ir.Expr) bool { return z.String() == as }) {
					okID = true
					why = "the address the iterated prefix store was opened with"
				}
				if w.Expand(ps, 1).Any(func(z *ir.Expr) bool {
					// the same value, or the very variable the closure captured
					return bound != "" && z.String() == bound || addr.Op == "free" && z.Op == "captured" && z.Name == addr.Name
				}) {
					okID = true
					why = "the address the iterated prefix store was opened with"
				}
			}
		}
		_ = why
		r.Require(okID, "A12.item-identity", rk+"|"+party, pos(c, ret), "the "+party+" reported for a listed stream is the one encoded in its key (parsed from it, proven equal to it, or the prefix iterated)", party+" = "+v.String())
	}
}

func mentionsFree(e *ir.Expr) bool {
	return e.Any(func(x *ir.Expr) bool { return x.Op == "free" || x.Op == "captured" })
}

// sectionTypes: each store section is written, read, iterated and paginated with one Go type.
func sectionTypes(c *Ctx) {
	w, r := c.W, c.R
	typesOf := map[string]map[string][]string{} // section -> type -> sites
	note := func(sec string, t types.Type, site string) {
		if sec == "?" || sec == "" || t == nil {
			return
		}
		ts := types.TypeString(deref(t), func(p *types.Package) string { return ir.RelPkg(p.Path()) })
		if typesOf[sec] == nil {
			typesOf[sec] = map[string][]string{}
		}
		typesOf[sec][ts] = append(typesOf[sec][ts], site)
	}
	for _, f := range w.Funcs {
		if w.IsGenerated(f) || ir.IsFixture(f) || ir.ModuleOf(f) == "" || strings.Contains(fn(f), "/simulation") || strings.Contains(fn(f), "/migrations/") || strings.Contains(fn(f), "/client/") {
			continue
		}
		// paginated callbacks: the value parameter belongs to the parent's prefix store section
		cbSection := ""
		if p := f.Parent(); p != nil {
			for _, e := range prefixStores(c, p) {
				cbSection = w.SectionOfKey(e)
			}
		}
		for _, b := range f.Blocks {
			for _, in := range b.Instrs {
				call, ok := in.(ssa.CallInstruction)
				if !ok {
					continue
				}
				cc := call.Common()
				name := ""
				if cc.IsInvoke() {
					name = cc.Method.Name()
				} else if sc := cc.StaticCallee(); sc != nil {
					name = sc.Name()
				}
				switch name {
				case "MustUnmarshal", "Unmarshal":
					if len(cc.Args) != 2 {
						continue
					}
					src := w.ExprOf(cc.Args[0])
					sec := ""
					switch {
					case src.Op == "state":
						sec = src.Name
					case src.Op == "call" && strings.HasSuffix(src.Name, ".Value") && len(src.Args) == 1:
						sec = iterSection(c, src.Args[0])
					case src.Op == "param" && cbSection != "":
						sec = cbSection
					}
					note(sec, ptrElem(stripIface(cc.Args[1]).Type()), "decode in "+fn(f))
				}
			}
		}
		for _, e := range w.EffectsOf(f) {
			if e.Kind != "StoreWrite" || e.Call == nil || len(e.Call.Common().Args) != 2 {
				continue
			}
			v := w.ExprOf(e.Call.Common().Args[1])
			if v.Op == "call" && (strings.HasSuffix(v.Name, ".MustMarshal") || strings.HasSuffix(v.Name, ".Marshal")) && v.Call != nil {
				args := v.Call.Common().Args
				note(e.Section, ptrElem(stripIface(args[len(args)-1]).Type()), "encode in "+fn(f))
			}
		}
	}
	GenericPaginateTypes(c, note)
	n := 0
	for _, sec := range sortedKeys(typesOf) {
		ts := typesOf[sec]
		n++
		var names []string
		for t := range ts {
			names = append(names, t)
		}
		detail := ""
		for t, sites := range ts {
			detail += fmt.Sprintf("%s at %v; ", t, sites)
		}
		r.Require(len(ts) == 1, "A7.section-type", sec, "", "a store section is encoded and decoded with exactly one type by all writers, getters, iterators and list queries", detail)
	}
	r.Floor("sections with typed codec use", n, 14)
}

// GenericPaginateTypes notes the value type the generic paginator decodes for a prefix store.
func GenericPaginateTypes(c *Ctx, note func(string, types.Type, string)) {
	w := c.W
	for _, f := range w.Funcs {
		if w.IsGenerated(f) || ir.IsFixture(f) || ir.ModuleOf(f) == "" {
			continue
		}
		for _, b := range f.Blocks {
			for _, in := range b.Instrs {
				call, ok := in.(*ssa.Call)
				if !ok {
					continue
				}
				sc := call.Common().StaticCallee()
				if sc == nil || sc.Origin() == nil || sc.Origin().Name() != "GenericFilteredPaginate" {
					continue
				}
				cb := closureArg(call.Common().Args[3])
				if cb == nil || len(cb.Params) != 2 {
					continue
				}
				sec := ""
				for _, e := range prefixStores(c, f) {
					sec = w.SectionOfKey(e)
				}
				note(sec, ptrElem(cb.Params[1].Type()), "generic paginate in "+fn(f))
			}
		}
	}
}

func stripIface(v ssa.Value) ssa.Value {
	for {
		switch x := v.(type) {
		case *ssa.MakeInterface:
			v = x.X
		case *ssa.ChangeInterface:
			v = x.X
		default:
			return v
		}
	}
}

func ptrElem(t types.Type) types.Type {
	if p, ok := t.Underlying().(*types.Pointer); ok {
		return p.Elem()
	}
	return t
}

func deref(t types.Type) types.Type { return ptrElem(t) }

// iterSection: section of the iterator an expression denotes.
func iterSection(c *Ctx, it *ir.Expr) string {
	sec := ""
	it.Walk(func(x *ir.Expr) bool {
		if x.Op == "call" && strings.Contains(x.Name, "PrefixIterator") && len(x.Args) >= 2 {
			sec = c.W.SectionOfKey(x.Args[1])
			return false
		}
		if x.Op == "call" && x.Callee != nil {
			// keeper helper returning an iterator
			for _, e := range c.W.EffectsOf(x.Callee) {
				if e.Kind == "StoreIter" {
					sec = e.Section
				}
			}
		}
		return true
	})
	return sec
}

// filterComplete is rule A12.filter-complete, the "and nothing else" half of a filtered list: for every filter field F of
// the request (each field other than Pagination), every way the paginator's callback can report a hit lies behind a test
// that either shows F was not requested (the request field alone compared with a constant / an empty length) or shows the
// item agrees with F (an equality between something decoded from the item or its key and something derived from req.F) —
// or the paginated store is itself the prefix store selected by F. Decided by cut-reachability on the callback's flat view,
// with its captured variables bound to the values they were given where the callback is created (a filter value prepared
// once per request in a struct is followed into the helper that applies it). storeIdx: the store argument of the call.
func filterComplete(c *Ctx, site *ssa.Call, cbv ssa.Value, storeIdx int, generic bool) int {
	w, r := c.W, c.R
	for {
		if ct, ok := cbv.(*ssa.ChangeType); ok {
			cbv = ct.X
			continue
		}
		break
	}
	mc, ok := cbv.(*ssa.MakeClosure)
	if !ok {
		return 0
	}
	cb := mc.Fn.(*ssa.Function)
	off := 0
	var root *ir.FCtx
	if real := ir.BoundTarget(cb); real != nil {
		cb, off = real, 1
		root = w.FlatRootBound(mc, real)
	} else {
		root = w.FlatRootClosure(mc)
	}
	// the request: a parameter of the function the callback is written in, pointing to a struct with a Pagination field
	var req *ssa.Parameter
	var rst *types.Struct
	for p := mc.Parent(); p != nil && req == nil; p = p.Parent() {
		for _, pr := range p.Params {
			st, ok := ptrElem(pr.Type()).Underlying().(*types.Struct)
			if !ok {
				continue
			}
			for i := 0; i < st.NumFields(); i++ {
				if st.Field(i).Name() == "Pagination" {
					req, rst = pr, st
				}
			}
		}
	}
	if req == nil {
		// the paginator is shared: the callback asks a function its enclosing function was handed. The filters then live in
		// the callers' functions; their completeness is not decided here (reported as such, per query and filter field)
		n := 0
		if host := mc.Parent(); host != nil {
			for _, ed := range w.Callers(host) {
				q := ed.From
				if w.IsGenerated(q) || ir.IsFixture(q) {
					continue
				}
				for _, pr := range q.Params {
					st, ok := ptrElem(pr.Type()).Underlying().(*types.Struct)
					if !ok {
						continue
					}
					hasPg := false
					for i := 0; i < st.NumFields(); i++ {
						if st.Field(i).Name() == "Pagination" {
							hasPg = true
						}
					}
					if !hasPg {
						continue
					}
					for i := 0; i < st.NumFields(); i++ {
						F := st.Field(i).Name()
						if F == "Pagination" || strings.HasPrefix(F, "XXX_") {
							continue
						}
						n++
						c.R.Undecided("A12.filter-complete", fn(q)+"|"+F, pos(c, site), "the filter of a query whose paginator is shared through a function-typed parameter is judged where it is applied", "the callback delegates to a function handed in by "+fn(q))
					}
				}
			}
		}
		return n
	}
	itemNames := map[string]bool{}
	for i, p := range cb.Params {
		if i >= off && i < 2+off {
			itemNames[p.Name()] = true
		}
	}
	mentionsItem := func(e *ir.Expr) bool {
		return e.Any(func(x *ir.Expr) bool { return x.Op == "decode" || x.Op == "param" && itemNames[x.Name] })
	}
	n := 0
	for fi := 0; fi < rst.NumFields(); fi++ {
		F := rst.Field(fi).Name()
		if F == "Pagination" || strings.HasPrefix(F, "XXX_") {
			continue
		}
		isReq := func(x *ir.Expr) bool { return x.Op == "param" && x.Name == req.Name() }
		mentionsF := func(e *ir.Expr) bool {
			return e.Any(func(x *ir.Expr) bool {
				if x.Op == "field" && x.Name == F && len(x.Args) == 1 && isReq(x.Args[0]) {
					return true
				}
				return (x.Op == "call" || x.Op == "invoke") && strings.HasSuffix(x.Name, ").Get"+F) && len(x.Args) >= 1 && isReq(x.Args[0])
			})
		}
		pureF := func(e *ir.Expr) bool { return mentionsF(e) && !mentionsItem(e) }
		parsedAsAddress := func(mentions func(*ir.Expr) bool) bool {
			for p := mc.Parent(); p != nil; p = p.Parent() {
				for _, b := range p.Blocks {
					for _, in := range b.Instrs {
						call, ok := in.(*ssa.Call)
						if !ok || call.Common().StaticCallee() == nil || len(call.Common().Args) != 1 {
							continue
						}
						switch call.Common().StaticCallee().Name() {
						case "AccAddressFromBech32", "ValAddressFromBech32", "ConsAddressFromBech32":
							if mentions(w.Expand(w.ExprOf(call.Common().Args[0]), 2)) {
								return true
							}
						}
					}
				}
			}
			return false
		}
		isConst := func(e *ir.Expr) bool { return e.Op == "const" || e.Op == "zero" }
		m := func(p ir.Pred) bool {
			if op, x, y, ok := p.Cmp(); ok {
				x, y = w.Expand(x, 3), w.Expand(y, 3)
				switch op {
				case "==":
					if pureF(x) && isConst(y) || pureF(y) && isConst(x) {
						return true // the filter is switched off (or fixed) by the request alone
					}
					if mentionsItem(x) && pureF(y) || mentionsItem(y) && pureF(x) {
						return true // the item agrees with the requested value
					}
				case "<=", "<":
					if pureF(x) && isConst(y) {
						return true // len(req.F) <= 0
					}
				case ">=", ">":
					if pureF(y) && isConst(x) {
						return true
					}
				}
				return false
			}
			if !p.Pol {
				return false
			}
			e := w.Expand(p.E, 3)
			if e.Op != "call" && e.Op != "invoke" {
				return false
			}
			short := e.Name[strings.LastIndex(e.Name, ".")+1:]
			if short != "EqualFold" && short != "Equal" && short != "Equals" {
				return false
			}
			if short == "EqualFold" && !parsedAsAddress(mentionsF) && !foldsExactly(c, e, ir.ModuleOf(cb)) {
				// two free texts that merely fold to the same letters are different values: the item does not agree with the
				// request (only a bech32 address, which the request parser has accepted, means the same in either case)
				return false
			}
			item, reqf := false, false
			for _, a := range e.Args {
				if mentionsItem(a) {
					item = true
				} else if mentionsF(a) {
					reqf = true
				}
			}
			return item && reqf
		}
		key := fn(cb) + "|" + F
		n++
		if site.Parent() == mc.Parent() {
			se := w.Expand(w.ResolveCaptured(w.Expand(w.ExprOf(site.Common().Args[storeIdx]), 3)), 2)
			if os.Getenv("MCDEBUG") == "filt" {
				fmt.Fprintln(os.Stderr, "filt store", key, se.String())
			}
			if mentionsF(se) {
				r.OK("A12.filter-complete", key, pos(c, site), "the paginated store is the prefix store selected by req."+F)
				continue
			}
		}
		hits := 0
		for _, a := range altsOfRoot(c, root, 0, nil, nil) {
			rt, isRet := a.Pos.In.(*ssa.Return)
			if !isRet {
				continue
			}
			if len(rt.Results) == 2 && w.ProvablyNonNil(a.Pos.Ctx.Fn, rt, rt.Results[1]) {
				continue
			}
			if cst, ok := a.V.(*ssa.Const); ok && (cst.Value == nil || cst.Value.String() == "false") {
				continue // not a hit
			}
			hits++
			at := a
			okc := w.FlatReaches(root, nil, &ir.FlatCut{Matcher: m, Depth: 2}, func(p ir.FPos) bool { return p.Ctx == at.Pos.Ctx && p.In == at.Pos.In }) == nil
			if !okc && !generic {
				if _, isConst := a.V.(*ssa.Const); !isConst {
					okc = w.HoldsIn(a.Pos.Ctx, a.V, true, m, 2)
				}
			}
			r.Require(okc, "A12.filter-complete", fmt.Sprintf("%s|hit%d", key, hits), pos(c, a.Pos.In),
				"an item is reported as a hit only behind a test showing that req."+F+" was not requested or that the item agrees with it (a list returns the matching items and nothing else)",
				"a hit ("+a.E.String()+") is reachable without any such test for "+F)
		}
		r.Require(hits > 0, "A12.filter-complete", key+"|hits", w.Pos(cb.Pos()), "the callback has a way to report a hit", "none found")
	}
	return n
}

// isStreamKeyParser: a function of the stream types package from a key ([]byte) to one or more addresses.
func isStreamKeyParser(f *ssa.Function) bool {
	if f == nil || ir.FnPkg(f) == nil || ir.RelPkg(ir.FnPkg(f).Path()) != "x/stream/types" || len(f.Params) != 1 || f.Params[0].Type().String() != "[]byte" {
		return false
	}
	res := f.Signature.Results()
	if res.Len() == 0 {
		return false
	}
	for i := 0; i < res.Len(); i++ {
		if !strings.HasSuffix(res.At(i).Type().String(), "types.AccAddress") {
			return false
		}
	}
	return true
}

// foldsExactly: a case-insensitive comparison that can only succeed on equal values, because one side is written in one
// case only: a stored field that holds a bech32 address (some code of the module parses it as one), or the name of an
// enumeration constant (String() of a named integer type).
func foldsExactly(c *Ctx, e *ir.Expr, m string) bool {
	if e.Call == nil {
		return false
	}
	for _, a := range e.Call.Common().Args {
		switch x := a.(type) {
		case *ssa.UnOp:
			if fa, ok := x.X.(*ssa.FieldAddr); ok {
				if parsed, _ := addressFieldUse(c, m, ptrElem(fa.X.Type()).String(), ir.FieldName(fa.X.Type(), fa.Field)); parsed != "" {
					return true
				}
			}
		case *ssa.Field:
			if parsed, _ := addressFieldUse(c, m, x.X.Type().String(), ir.FieldName(x.X.Type(), x.Field)); parsed != "" {
				return true
			}
		case *ssa.Call:
			cc := x.Common()
			var recv types.Type
			if sc := cc.StaticCallee(); sc != nil && sc.Name() == "String" && sc.Signature.Recv() != nil {
				recv = sc.Signature.Recv().Type()
			}
			if recv != nil {
				if b, ok := ptrElem(recv).Underlying().(*types.Basic); ok && b.Info()&types.IsInteger != 0 {
					return true
				}
			}
		}
	}
	return false
}
