package props

import (
	"fmt"
	"go/ast"
	"go/token"
	"go/types"
	"strings"

	"golang.org/x/tools/go/ssa"

	"mcverif/internal/ir"
)

func init() { Registry["C06"] = C06 }

// feeFunc finds, in x/<m>/ante, the function that accumulates the expected fee (it reaches the
// keeper's fee getters and contains the type switch over the module's messages).
// accumulatingAdds: the Coin.Add calls of f whose result is stored back into the local the receiver was
// loaded from (expected = expected.Add(x)).
func accumulatingAdds(c *Ctx, f *ssa.Function) []*ssa.Call {
	var out []*ssa.Call
	for _, b := range f.Blocks {
		for _, in := range b.Instrs {
			call, ok := in.(*ssa.Call)
			if !ok {
				continue
			}
			e := c.W.ExprOf(call)
			if !calleeIs(e, "types.Coin).Add") || len(e.Args) != 2 {
				continue
			}
			switch recv := call.Common().Args[0].(type) {
			case *ssa.UnOp:
				// the accumulator lives in memory: loaded from, and stored back into, the same local (or the same field of a local struct)
				cell := func(a ssa.Value) string {
					path := ""
					for {
						fa, ok := a.(*ssa.FieldAddr)
						if !ok {
							break
						}
						path = fmt.Sprintf(".%d%s", fa.Field, path)
						a = fa.X
					}
					if al, ok := a.(*ssa.Alloc); ok {
						return al.Name() + path
					}
					return ""
				}
				acc := cell(recv.X)
				if acc == "" {
					continue
				}
				if refs := call.Referrers(); refs != nil {
					for _, rf := range *refs {
						if st, ok := rf.(*ssa.Store); ok && cell(st.Addr) == acc {
							out = append(out, call)
							break
						}
					}
				}
			case *ssa.Phi:
				// the accumulator is a loop-carried register: the sum flows back into the phi it was read from
				if flowsInto(call, recv, map[ssa.Value]bool{}) {
					out = append(out, call)
				}
			}
		}
	}
	return out
}

// flowsInto: v reaches phi through phi edges only.
func flowsInto(v ssa.Value, phi *ssa.Phi, seen map[ssa.Value]bool) bool {
	refs := v.Referrers()
	if refs == nil || seen[v] {
		return false
	}
	seen[v] = true
	for _, r := range *refs {
		if p, ok := r.(*ssa.Phi); ok {
			if p == phi || flowsInto(p, phi, seen) {
				return true
			}
		}
	}
	return false
}

// feeFunc finds, by structure, the two functions of x/<m>/ante the fee rules are about: the one that
// accumulates the expected fee (most accumulating additions under the module's message types) and the
// one that decides admission (it takes the fee-denomination amount of tx.GetFee()). They are the same
// function unless the summation was extracted into a helper.
func feeFunc(c *Ctx, m string) (adder, admit *ssa.Function) {
	best := 0
	var scope []*ssa.Function
	for f := range c.W.Reachable(c.W.Roots["ANTE:"+m]) {
		if pk := ir.FnPkg(f); pk == nil || strings.HasSuffix(pk.Path(), "/keeper") || strings.HasSuffix(pk.Path(), "/types") {
			continue
		}
		if f.Parent() != nil || c.W.IsGenerated(f) {
			continue
		}
		scope = append(scope, f)
	}
	sortFuncs(scope)
	for _, f := range scope {
		if n := len(accumulatingAdds(c, f)); n > best && len(typeSwitchCases(c, f)) >= 2 {
			best, adder = n, f
		}
	}
	for _, f := range scope {
		if adder == nil {
			continue
		}
		if _, reaches := c.W.Reachable([]*ssa.Function{f})[adder]; !reaches {
			continue
		}
		// the admitting function is the one that takes the transaction's fee (tx.GetFee()) and reaches the summation;
		// the comparison itself may stand in it or in a helper it hands both amounts to
		for _, b := range f.Blocks {
			for _, in := range b.Instrs {
				if call, ok := in.(*ssa.Call); ok {
					e := c.W.ExprOf(call)
					if calleeIs(e, "FeeTx.GetFee") && admit == nil {
						admit = f
					}
					if calleeIs(e, "types.Coins).AmountOf") && len(e.Args) == 2 && calleeIs(e.Args[0], "FeeTx.GetFee") {
						admit = f
					}
				}
			}
		}
	}
	return
}

func roleOfMsg(c *Ctx, m, typ string) string {
	for _, h := range c.W.Roots["MSG:"+m] {
		if m+"."+msgTypeOf(h) == typ {
			n := h.Name()
			switch {
			case strings.HasPrefix(n, "Register"):
				return "register"
			case strings.HasPrefix(n, "Record"):
				return "record"
			case strings.HasPrefix(n, "Purchase"):
				return "purchase"
			}
		}
	}
	return ""
}

// feeCoinOf: e is NewInt64Coin(params[m].Denom, int64(params[m].<field>)) (after expansion).
func feeCoinOf(c *Ctx, m string, e *ir.Expr, field string) bool {
	x := c.W.Expand(e, 4)
	if !calleeIs(x, "types.NewInt64Coin") || len(x.Args) != 2 {
		return false
	}
	return isModParam(c, x.Args[0], m, "Denom") && isModParam(c, x.Args[1], m, field)
}

func C06(c *Ctx) {
	w, r := c.W, c.R
	r.Explanation = "(A7 fee table) in each module's fee calculator every addition to the expected fee happens under the type assertion of one fee-bearing message type and adds: for Register the coin (params.Denom, params.FeeRegister), for Record (params.Denom, params.FeeRecord), for Purchase (params.Denom, params.FeePurchaseStorage x that message's Number) — getter chains are followed, so a getter returning the wrong field is caught; " +
		"(A2 exactness) the admitting (nil) return is guarded by not(A < E) and not(A > E) (or A == E) where A = tx.GetFee().AmountOf(params.Denom) and E = the accumulated amount, both sdk.Int (a total order); multi-denomination partial orders (Coins.IsAllLT/IsAllGT/...) do not discharge this; " +
		"(A2+A3 decorator) in each fee decorator the call to next for a module transaction is guarded by a nil result of the affordability check and of the max-slot check, and of the fee check except on edges where IsCheckTx is false or simulate is true; the affordability check considers liquid plus locked funds against the fee-denomination amount; " +
		"(A7 fee domain) the compared quantity is the transaction-level fee, so the summed case set must cover all six fee-bearing types or the decorator must exclude other modules' types; (A1) nested execution: whether the message router is handed to authz/group/gov while the detectors inspect top-level messages only. Structural necessary conditions; CheckTx/DeliverTx divergence and balances are not decided."
	r.Rules = []string{"A7.fee-table", "A2.fee-exactness", "A2.decorator-checks", "A2.affordability", "A7.fee-domain", "A1.nested-execution"}
	r.Trusted = []string{"sdk.Int comparison is a total order", "baseapp runs the ante handler in CheckTx with IsCheckTx() true", "DeductFeeDecorator charges tx.GetFee()"}
	r.NotDecided = []string{"payer balance arithmetic", "CheckTx vs DeliverTx divergence"}

	all := map[string]bool{}
	for _, m := range []string{"wrkchain", "beacon"} {
		for t := range feeBearingTypes(c, m) {
			all[t] = true
		}
	}
	r.Floor("fee-bearing request types (both modules)", len(all), 6)
	for _, m := range []string{"wrkchain", "beacon"} {
		adder, f := feeFunc(c, m)
		if adder == nil || f == nil {
			r.Undecided("A7.fee-table", m, "", "fee calculator found in x/"+m+"/ante (a function accumulating the expected fee, and one comparing it with tx.GetFee().AmountOf(denom))", fmt.Sprintf("accumulating function: %v, admitting function: %v", adder, f))
			continue
		}
		feeTable(c, m, adder)
		feeExactness(c, m, f)
		decoratorChecks(c, m, f)
		// fee domain
		cases := typeSwitchCases(c, f)
		covers := sameSet(cases, all)
		excl := false // a guard excluding other modules' fee-bearing types would be a type assertion on them leading to rejection
		for t := range all {
			if !cases[t] {
				for g := range w.Reachable(w.Roots["ANTE:"+m]) {
					if typeSwitchCases(c, g)[t] {
						excl = true
					}
				}
			}
		}
		r.Require(covers || excl, "A7.fee-domain", m, w.Pos(f.Pos()),
			"the whole transaction fee is compared with a sum over all fee-bearing operations the transaction can contain (or the decorator rejects other modules' fee-bearing messages)",
			fmt.Sprintf("the %s decorator sums only %s of %s and does not exclude the others: a transaction mixing both modules is admitted when the fee equals each partial sum", m, setStr(cases), setStr(all)))
	}
	keeperWiring(c)
	nestedExecution(c)
	// the decorators act only on transactions their detector recognises: it must look at every message
	nd := 0
	for _, m := range []string{"wrkchain", "beacon"} {
		for _, f := range w.Funcs {
			if w.IsGenerated(f) || ir.IsFixture(f) || f.Parent() != nil || ir.FnPkg(f) == nil {
				continue
			}
			rel := ir.RelPkg(ir.FnPkg(f).Path())
			if rel != "x/"+m+"/exported" && rel != "x/"+m+"/ante" {
				continue
			}
			if f.Signature.Results().Len() == 1 && f.Signature.Results().At(0).Type().String() == "bool" && len(typeSwitchCases(c, f)) > 0 {
				nd++
				detectorExistential(c, f, m)
				continue
			}
			// a pass over the messages that hands back "is this a module transaction" among other results (a tally and a flag)
			if res := f.Signature.Results(); res.Len() > 1 && len(typeSwitchCases(c, f)) > 0 {
				getsMsgs := false
				for _, b := range f.Blocks {
					for _, in := range b.Instrs {
						if call, ok := in.(ssa.CallInstruction); ok && methodNameOf(call) == "GetMsgs" {
							getsMsgs = true
						}
					}
				}
				for i := 0; getsMsgs && i < res.Len(); i++ {
					if res.At(i).Type().String() == "bool" {
						nd++
						detectorMonotone(c, f, m, i)
					}
				}
			}
		}
	}
	r.Floor("transaction detectors / message predicates", nd, 2)
}

func feeTable(c *Ctx, m string, f *ssa.Function) {
	w, r := c.W, c.R
	want := feeBearingTypes(c, m)
	seen := map[string]bool{}
	n, nalt := 0, 0
	for _, call := range accumulatingAdds(c, f) {
		{
			var in ssa.Instruction = call
			e := w.ExprOf(call)
			n++
			// which message type guards this addition?
			var guardT string
			cnt := 0
			for t := range want {
				t := t
				if w.Guarded(f, in, func(p ir.Pred) bool {
					return p.Pol && p.E.Op == "res" && p.E.Name == "1" && assertedMsgType(p.E) == t
				}, 2) {
					guardT = t
					cnt++
				}
			}
			key := fmt.Sprintf("%s|add%d", m, n)
			type addAlt struct {
				guardT string
				x      *ir.Expr
			}
			var alts []addAlt
			if cnt == 1 {
				alts = append(alts, addAlt{guardT, e.Args[1]})
			} else if cnt == 0 {
				// the per-message fee is computed by a helper holding the type switch (`fee, isFeeMsg := msgFee(msg)`): every
				// return of the helper that can reach the addition stands under exactly one type and supplies that type's addend
				alts = nil
				hx := e.Args[1]
				ri := 0
				if hx.Op == "res" && len(hx.Args) == 1 {
					fmt.Sscan(hx.Name, &ri)
					hx = hx.Args[0]
				}
				if hx.Op == "call" && hx.Callee != nil && len(hx.Callee.Blocks) > 0 && hx.Call != nil {
					g := hx.Callee
					flag := -1
					for i := 0; i < g.Signature.Results().Len(); i++ {
						if g.Signature.Results().At(i).Type().String() == "bool" {
							flag = i
						}
					}
					okShape := true
					if flag >= 0 {
						// the addition happens only when the helper said "fee-bearing"
						okShape = w.Guarded(f, in, func(p ir.Pred) bool {
							return p.Pol && p.E.Op == "res" && p.E.Name == fmt.Sprint(flag) && len(p.E.Args) == 1 && p.E.Args[0].Call == hx.Call
						}, 0)
					}
					for _, blk := range g.Blocks {
						ret, isRet := blk.Instrs[len(blk.Instrs)-1].(*ssa.Return)
						if !isRet || !okShape {
							continue
						}
						if flag >= 0 {
							if cst, ok := ret.Results[flag].(*ssa.Const); ok && cst.Value != nil && cst.Value.String() == "false" {
								continue
							}
						}
						gt, gc := "", 0
						for t := range want {
							t := t
							if w.Guarded(g, ret, func(p ir.Pred) bool {
								return p.Pol && p.E.Op == "res" && p.E.Name == "1" && assertedMsgType(p.E) == t
							}, 0) {
								gt = t
								gc++
							}
						}
						if gc != 1 {
							okShape = false
							break
						}
						alts = append(alts, addAlt{gt, w.ArgSubst(hx.Call, g, w.ExprOf(ret.Results[ri]))})
					}
					if !okShape {
						alts = nil
					}
				}
			}
			if len(alts) == 0 {
				r.Bad("A7.fee-table", key, pos(c, in), "every addition to the expected fee happens under exactly one fee-bearing message type", fmt.Sprintf("guarded by %d types", cnt))
				continue
			}
			for _, alt := range alts {
				nalt++
				guardT := alt.guardT
				seen[guardT] = true
				role := roleOfMsg(c, m, guardT)
				x := alt.x
				// the addend may be computed by a small helper of the ante package (per-slot fee x slots): look inside
				for i := 0; i < 3 && x.Op == "call" && x.Callee != nil && ir.FnPkg(x.Callee) != nil && ir.RelPkg(ir.FnPkg(x.Callee).Path()) == "x/"+m+"/ante"; i++ {
					in2 := w.Inline(x)
					if in2 == nil {
						break
					}
					x = in2
				}
				ok2 := false
				wantDesc := ""
				switch role {
				case "register":
					wantDesc = "(params.Denom, params.FeeRegister)"
					ok2 = feeCoinOf(c, m, x, "FeeRegister")
				case "record":
					wantDesc = "(params.Denom, params.FeeRecord)"
					ok2 = feeCoinOf(c, m, x, "FeeRecord")
				case "purchase":
					wantDesc = "(params.Denom, params.FeePurchaseStorage x msg.Number)"
					// NewCoin(perSlot.Denom, perSlot.Amount.Mul(NewInt(int64(m.Number)))) with perSlot the per-slot fee coin
					if calleeIs(x, "types.NewCoin") && len(x.Args) == 2 {
						d, amt := x.Args[0], x.Args[1]
						okD := d.Op == "field" && d.Name == "Denom" && feeCoinOf(c, m, d.Args[0], "FeePurchaseStorage")
						okA := calleeIs(amt, "math.Int).Mul") && len(amt.Args) == 2
						if okA {
							l, rr := amt.Args[0], amt.Args[1]
							okL := l.Op == "field" && l.Name == "Amount" && feeCoinOf(c, m, l.Args[0], "FeePurchaseStorage")
							num := rr
							if calleeIs(num, "NewInt") && len(num.Args) == 1 {
								num = stripConvE(num.Args[0])
							}
							num = collectedFieldUnder(c, num, guardT)
							okR := num.Op == "field" && num.Name == "Number" && assertedMsgType(num) == guardT
							okA = okL && okR
						}
						ok2 = okD && okA
					}
				}
				r.Require(ok2, "A7.fee-table", fmt.Sprintf("%s|%s", m, guardT), pos(c, in), "a "+guardT+" adds "+wantDesc+" to the expected fee", "adds "+w.Expand(x, 4).String())
			}
		}
	}
	for t := range want {
		r.Require(seen[t], "A7.fee-table", m+"|covered|"+t, w.Pos(f.Pos()), "the fee calculator charges for "+t, "no addition under that type")
	}
	r.Floor("fee additions in "+m, nalt, 3)
}

// accumulatedAmount: e is <accumulator>.Amount where the accumulator is the local the fee additions are stored into.
func isAmountOfFee(c *Ctx, f *ssa.Function, e *ir.Expr) bool {
	// the sum may be returned by a helper (possibly as one of several results): <helper(...)#i>.Amount
	if e.Op == "field" && e.Name == "Amount" && len(e.Args) == 1 {
		x := e.Args[0]
		// ... possibly inside a small result struct (tally.expected.Amount)
		for x.Op == "field" && len(x.Args) == 1 {
			x = x.Args[0]
		}
		if x.Op == "res" && len(x.Args) == 1 {
			x = x.Args[0]
		}
		if x.Op == "call" && x.Callee != nil && len(accumulatingAdds(c, x.Callee)) > 0 {
			return true
		}
	}
	adds := 0
	for _, a := range e.Alts() {
		if !(a.Op == "field" && a.Name == "Amount" && len(a.Args) == 1) {
			return false
		}
		switch {
		case calleeIs(a.Args[0], "types.Coin).Add"):
			adds++
		case a.Args[0].Op == "call" && strings.Contains(a.Args[0].Name, "GetZeroFeeAsCoin"):
			// the initial value of the accumulator
		default:
			return false
		}
	}
	return adds > 0
}

func feeExactness(c *Ctx, m string, f *ssa.Function) {
	w, r := c.W, c.R
	isA := func(e *ir.Expr) bool {
		return calleeIs(e, "types.Coins).AmountOf") && len(e.Args) == 2 && calleeIs(e.Args[0], "FeeTx.GetFee") && isModParam(c, e.Args[1], m, "Denom")
	}
	isE := func(e *ir.Expr) bool { return isAmountOfFee(c, f, e) }
	notLess := func(p ir.Pred) bool {
		return !p.Pol && calleeIs(p.E, "math.Int).LT") && len(p.E.Args) == 2 && isA(p.E.Args[0]) && isE(p.E.Args[1]) ||
			!p.Pol && calleeIs(p.E, "math.Int).GT") && len(p.E.Args) == 2 && isE(p.E.Args[0]) && isA(p.E.Args[1]) ||
			p.Pol && calleeIs(p.E, "math.Int).GTE") && len(p.E.Args) == 2 && isA(p.E.Args[0]) && isE(p.E.Args[1]) ||
			p.Pol && calleeIs(p.E, "math.Int).Equal") && len(p.E.Args) == 2 && (isA(p.E.Args[0]) && isE(p.E.Args[1]) || isE(p.E.Args[0]) && isA(p.E.Args[1]))
	}
	notMore := func(p ir.Pred) bool {
		return !p.Pol && calleeIs(p.E, "math.Int).GT") && len(p.E.Args) == 2 && isA(p.E.Args[0]) && isE(p.E.Args[1]) ||
			!p.Pol && calleeIs(p.E, "math.Int).LT") && len(p.E.Args) == 2 && isE(p.E.Args[0]) && isA(p.E.Args[1]) ||
			p.Pol && calleeIs(p.E, "math.Int).LTE") && len(p.E.Args) == 2 && isA(p.E.Args[0]) && isE(p.E.Args[1]) ||
			p.Pol && calleeIs(p.E, "math.Int).Equal") && len(p.E.Args) == 2 && (isA(p.E.Args[0]) && isE(p.E.Args[1]) || isE(p.E.Args[0]) && isA(p.E.Args[1]))
	}
	n := 0
	// asked on the flat view of f: the comparison may stand in f or in a helper handed both amounts (whose verdict f returns)
	none := func(ssa.Instruction) bool { return false }
	badLess := map[*ssa.Return]bool{}
	for _, ret := range w.FlatMustPassM(f, none, notLess) {
		badLess[ret] = true
	}
	badMore := map[*ssa.Return]bool{}
	for _, ret := range w.FlatMustPassM(f, none, notMore) {
		badMore[ret] = true
	}
	for i, ret := range w.SuccessReturns(f) {
		n++
		key := fmt.Sprintf("%s|return%d", m, i)
		r.Require(!badLess[ret], "A2.fee-exactness", "not-less|"+key, pos(c, ret), "a transaction is admitted only when the fee-denomination amount offered is not less than the expected amount (sdk.Int comparison)", "the admitting return is reachable with a smaller amount, or only a partial-order comparison guards it")
		r.Require(!badMore[ret], "A2.fee-exactness", "not-more|"+key, pos(c, ret), "a transaction is admitted only when the fee-denomination amount offered is not more than the expected amount (sdk.Int comparison)", "the admitting return is reachable with a larger amount, or only a partial-order comparison guards it")
	}
	r.Floor("admitting returns of the "+m+" fee calculator", n, 1)
	// no partial-order comparison decides admission
	for _, b := range f.Blocks {
		iff, ok := b.Instrs[len(b.Instrs)-1].(*ssa.If)
		if !ok {
			continue
		}
		e := w.ExprOf(iff.Cond)
		for _, po := range []string{"Coins).IsAllLT", "Coins).IsAllGT", "Coins).IsAllLTE", "Coins).IsAllGTE", "Coins).IsAnyGT", "Coins).IsAnyGTE"} {
			if calleeIs(e, po) {
				r.Bad("A2.fee-exactness", m+"|partial-order|"+po, pos(c, iff), "fee admission is not decided by a multi-denomination partial order (neither-less-nor-greater does not imply equal)", "condition "+e.String())
			}
		}
	}
}

func decoratorChecks(c *Ctx, m string, feeF *ssa.Function) {
	w, r := c.W, c.R
	var dec *ssa.Function
	for _, f := range w.Roots["ANTE:"+m] {
		dec = f
	}
	if dec == nil {
		r.Bad("A2.decorator-checks", m+"|in-chain", "", "the "+m+" fee decorator is part of the ante chain", "not found among the chain's decorators")
		return
	}
	nextP := dec.Params[len(dec.Params)-1]
	var nexts []ssa.Instruction
	for _, b := range dec.Blocks {
		for _, in := range b.Instrs {
			if call, ok := in.(ssa.CallInstruction); ok && call.Common().Value == ssa.Value(nextP) {
				nexts = append(nexts, in)
			}
		}
	}
	r.Floor("next() calls in the "+m+" fee decorator", len(nexts), 2)
	slotSum(c, m, dec)
	isHelper := func(kind string) func(*ssa.Function) bool {
		return func(g *ssa.Function) bool {
			switch kind {
			case "fee":
				return g == feeF
			case "funds":
				for h := range w.Reachable([]*ssa.Function{g}) {
					for _, b := range h.Blocks {
						for _, in := range b.Instrs {
							if call, ok := in.(ssa.CallInstruction); ok && methodNameOf(call) == "SpendableCoins" {
								return g != feeF
							}
						}
					}
				}
			case "slots":
				if g == feeF {
					return false
				}
				// the lookup may stand in the helper, in a closure it creates or in a function it hands on
				for h := range w.Reachable([]*ssa.Function{g}) {
					for _, b := range h.Blocks {
						for _, in := range b.Instrs {
							if call, ok := in.(ssa.CallInstruction); ok && methodNameOf(call) == "GetMaxPurchasableSlots" {
								return true
							}
							// ... or is handed on as a method value (bk.GetMaxPurchasableSlots)
							if mc, ok := in.(*ssa.MakeClosure); ok {
								if f0, ok := mc.Fn.(*ssa.Function); ok && strings.HasPrefix(f0.Name(), "GetMaxPurchasableSlots") {
									return true
								}
							}
						}
					}
				}
			}
			return false
		}
	}
	nilOf := func(kind string) ir.Matcher {
		return func(p ir.Pred) bool {
			op, x, y, ok := p.Cmp()
			if !ok || op != "==" {
				return false
			}
			for _, pr := range [][2]*ir.Expr{{x, y}, {y, x}} {
				if pr[1].Op == "const" && pr[1].Name == "nil" && pr[0].Op == "call" && pr[0].Callee != nil && isHelper(kind)(pr[0].Callee) {
					return true
				}
			}
			return false
		}
	}
	moduleTx := func(p ir.Pred) bool { return isModuleTxPred(c, p, m) }
	for i, nx := range nexts {
		key := fmt.Sprintf("%s|next%d", m, i)
		// a next() call that is not guarded by "is a module tx" must be guarded by "is not"
		isMod := w.Guarded(dec, nx, moduleTx, 6)
		if !isMod {
			notMod := w.Guarded(dec, nx, func(p ir.Pred) bool {
				q := p
				q.Pol = !q.Pol
				return !p.Pol && calleeIs(p.E, "exported.CheckIs") || false && moduleTx(q)
			}, 0) || w.Guarded(dec, nx, func(p ir.Pred) bool {
				// the detector returned false
				return !p.Pol && p.E.Op == "call" && p.E.Callee != nil && sameSet(typeSwitchCases(c, p.E.Callee), feeBearingTypes(c, m))
			}, 0)
			r.Require(notMod, "A2.decorator-checks", key+"|bypass", pos(c, nx), "the decorator passes a transaction on unchecked only when it contains no "+m+" fee-bearing message", "an unchecked pass-through is reachable for module transactions")
			continue
		}
		// judged on the flat view: which checks run may be decided by a helper (a table of checks per processing stage),
		// whose verdict the walk carries along as facts
		flatG := func(m ir.Matcher) bool {
			root := w.FlatRoot(dec)
			at := nx
			return w.FlatReaches(root, nil, &ir.FlatCut{Matcher: m, Depth: 3}, func(p ir.FPos) bool { return p.Ctx == root && p.In == at }) == nil
		}
		r.Require(w.Guarded(dec, nx, nilOf("funds"), 3) || flatG(nilOf("funds")), "A2.decorator-checks", key+"|funds", pos(c, nx), "a module transaction proceeds only after the affordability check returned nil", "next() reachable without it")
		r.Require(w.Guarded(dec, nx, nilOf("slots"), 3) || flatG(nilOf("slots")), "A2.decorator-checks", key+"|slots", pos(c, nx), "a module transaction proceeds only after the max-slot check returned nil", "next() reachable without it")
		feeOrSkip := func(p ir.Pred) bool {
			if nilOf("fee")(p) {
				return true
			}
			if !p.Pol && calleeIs(p.E, "types.Context).IsCheckTx") {
				return true
			}
			if p.Pol && p.E.Op == "param" && p.E.Name == dec.Params[len(dec.Params)-2].Name() {
				return true
			}
			return false
		}
		r.Require(w.Guarded(dec, nx, feeOrSkip, 3) || flatG(feeOrSkip), "A2.decorator-checks", key+"|fee", pos(c, nx), "during CheckTx (not simulating) a module transaction proceeds only after the exact-fee check returned nil", "next() reachable in CheckTx without it")
		// and the skip really is limited to !IsCheckTx or simulate: with those edges only, the fee check must be bypassed
		onlySkip := func(p ir.Pred) bool {
			return !p.Pol && calleeIs(p.E, "types.Context).IsCheckTx") || p.Pol && p.E.Op == "param" && p.E.Name == dec.Params[len(dec.Params)-2].Name()
		}
		_ = onlySkip
	}
	// affordability: liquid + locked against the fee-denom coin
	for g := range w.Reachable([]*ssa.Function{dec}) {
		if !isHelper("funds")(g) || g == dec || ir.ModuleOf(g) != m {
			continue
		}
		hasNeg := func(p ir.Pred) bool {
			if p.Pol || !(p.E.Op == "res" && p.E.Name == "1" && calleeIs(p.E.Args[0], "types.Coins).SafeSub")) {
				return false
			}
			a := p.E.Args[0].Args
			lhs := w.Expand(a[0], 4)
			liquid := lhs.Any(func(x *ir.Expr) bool { return calleeIs(x, ".SpendableCoins") || calleeIs(x, ".GetAllBalances") })
			locked := lhs.Any(func(x *ir.Expr) bool { return isStateField(x, secLocked, "Amount") })
			rhs := w.Expand(a[1], 4)
			feeD := rhs.Any(func(x *ir.Expr) bool {
				return calleeIs(x, "types.Coins).Find") && len(x.Args) == 2 && calleeIs(x.Args[0], "FeeTx.GetFee") && isModParam(c, x.Args[1], m, "Denom")
			})
			spend := lhs.Any(func(x *ir.Expr) bool { return calleeIs(x, ".SpendableCoins") })
			return liquid && locked && feeD && spend
		}
		for i, ret := range w.SuccessReturns(g) {
			r.Require(w.Guarded(g, ret, hasNeg, 6), "A2.affordability", fmt.Sprintf("%s|%s|return%d", m, fn(g), i), pos(c, ret), "the payer is accepted only when spendable + locked eFUND covers the fee-denomination amount of the fee", "the nil return is reachable without that check")
		}
	}
}

func nestedExecution(c *Ctx) {
	w, r := c.W, c.R
	pk := w.Pkg("app")
	if pk == nil {
		r.Undecided("A1.nested-execution", "app", "", "package app loaded", "missing")
		return
	}
	routed := map[string]bool{}
	for _, file := range pk.Syntax {
		ast.Inspect(file, func(nd ast.Node) bool {
			call, ok := nd.(*ast.CallExpr)
			if !ok {
				return true
			}
			obj := ir.CalleeObj(pk, call)
			if obj == nil || obj.Name() != "NewKeeper" || obj.Pkg() == nil {
				return true
			}
			for _, a := range call.Args {
				if ac, ok := a.(*ast.CallExpr); ok {
					if sel, ok := ac.Fun.(*ast.SelectorExpr); ok && sel.Sel.Name == "MsgServiceRouter" {
						routed[obj.Pkg().Path()] = true
					}
				}
			}
			return true
		})
	}
	r.Analysed["keepers_holding_the_msg_router"] = len(routed)
	// do the detectors look inside wrapper messages?
	unpacks := false
	for _, m := range []string{"wrkchain", "beacon"} {
		for _, f := range w.PkgFuncs("x/" + m + "/exported") {
			for g := range w.Reachable([]*ssa.Function{f}) {
				for _, b := range g.Blocks {
					for _, in := range b.Instrs {
						if call, ok := in.(ssa.CallInstruction); ok {
							n := methodNameOf(call)
							if n == "GetMessages" || n == "UnpackInterfaces" || n == "GetMsgs" && !strings.Contains(fn(g), "CheckIs") {
								unpacks = true
							}
						}
					}
				}
			}
		}
	}
	for _, p := range sortedKeys(routed) {
		short := p[strings.LastIndex(p, "/x/")+3:]
		short = strings.TrimSuffix(short, "/keeper")
		r.Require(unpacks, "A1.nested-execution", short, "app/app.go", "messages executed through the "+short+" module (which holds the message router) are subject to the WRKChain/BEACON fee decorators",
			"the "+short+" keeper receives app.MsgServiceRouter() while the fee decorators inspect top-level messages only: nested WRKChain/BEACON operations execute without the module fee, the affordability check and the early max-slot check")
	}
	_ = token.NoPos
}

// keeperWiring (A5): the keeper handed to each custom decorator belongs to the module the
// decorator's parameter interface belongs to (several keepers satisfy these interfaces
// structurally, so the type checker does not catch a swap).
func keeperWiring(c *Ctx) {
	w, r := c.W, c.R
	app := w.Pkg("app")
	ante := w.Pkg("ante")
	if app == nil || ante == nil {
		r.Undecided("A5.keeper-wiring", "pkgs", "", "packages app and ante loaded", "missing")
		return
	}
	// HandlerOptions literal in app: field -> module of the value's type
	fieldMod := map[string]string{}
	for _, file := range app.Syntax {
		ast.Inspect(file, func(nd ast.Node) bool {
			cl, ok := nd.(*ast.CompositeLit)
			if !ok {
				return true
			}
			tv, ok := app.TypesInfo.Types[cl]
			if !ok || !strings.HasSuffix(tv.Type.String(), "mainchain/ante.HandlerOptions") {
				return true
			}
			for _, el := range cl.Elts {
				kv, ok := el.(*ast.KeyValueExpr)
				if !ok {
					continue
				}
				k, ok := kv.Key.(*ast.Ident)
				if !ok {
					continue
				}
				if vt, ok := app.TypesInfo.Types[kv.Value]; ok {
					fieldMod[k.Name] = moduleOfTypeString(vt.Type.String())
				}
			}
			return true
		})
	}
	// constructor calls in NewAnteHandler: parameter interface module vs options field module
	// (anywhere in the application's ante package: NewAnteHandler itself or a function the list was moved into)
	n := 0
	for _, fd := range ante.Syntax {
		ast.Inspect(fd, func(nd ast.Node) bool {
			call, ok := nd.(*ast.CallExpr)
			if !ok {
				return true
			}
			obj := ir.CalleeObj(ante, call)
			if obj == nil || obj.Pkg() == nil || !strings.Contains(obj.Pkg().Path(), "mainchain/x/") {
				return true
			}
			for i, a := range call.Args {
				sel, ok := a.(*ast.SelectorExpr)
				if !ok {
					continue
				}
				pm := paramModule(obj, i)
				if pm == "" {
					continue
				}
				n++
				got := fieldMod[sel.Sel.Name]
				r.Require(got == pm, "A5.keeper-wiring", obj.Name()+"|arg"+fmt.Sprint(i), w.Pos(a.Pos()), "the "+pm+" keeper parameter of "+obj.Name()+" receives the "+pm+" keeper", "receives options."+sel.Sel.Name+" which app sets to a "+got+" value")
			}
			return true
		})
	}
	r.Floor("module-keeper arguments of custom decorators", n, 5)
}

// paramModule: the custom module whose package declares the interface type of parameter i.
func paramModule(obj *types.Func, i int) string {
	sig, ok := obj.Type().(*types.Signature)
	if !ok || i >= sig.Params().Len() {
		return ""
	}
	// the interface is named after the keeper it stands for (BeaconKeeper, WrkchainKeeper, EnterpriseKeeper)
	ts := sig.Params().At(i).Type().String()
	name := strings.ToLower(ts[strings.LastIndex(ts, ".")+1:])
	for _, m := range ir.Modules {
		if strings.HasPrefix(name, m) {
			return m
		}
	}
	return ""
}

func moduleOfTypeString(s string) string {
	i := strings.Index(s, "mainchain/x/")
	if i < 0 {
		return ""
	}
	rest := s[i+len("mainchain/x/"):]
	if j := strings.IndexAny(rest, "/."); j >= 0 {
		return rest[:j]
	}
	return ""
}

// collectedFieldUnder: num is a field of an element of a list collected beforehand by appends (`op.slots` with ops =
// collectChargedOps(msgs)); under the guard "this element stands for a message of type guardT" its value is what the
// appends standing under that type put there. Returns num unchanged when that is not its shape or the appends disagree.
func collectedFieldUnder(c *Ctx, num *ir.Expr, guardT string) *ir.Expr {
	w := c.W
	if !(num.Op == "field" && len(num.Args) == 1 && num.Args[0].Op == "elem" && len(num.Args[0].Args) >= 1) {
		return num
	}
	lst := num.Args[0].Args[0]
	if lst.Op != "call" || lst.Callee == nil {
		return num
	}
	items, ok := ir.BuiltItems(w.Expand(lst, 4))
	if !ok {
		return num
	}
	var got *ir.Expr
	for _, it := range items {
		g := it.Site.Parent()
		if g == nil || !w.Guarded(g, it.Site, func(p ir.Pred) bool {
			return p.Pol && p.E.Op == "res" && p.E.Name == "1" && assertedMsgType(p.E) == guardT
		}, 0) {
			continue
		}
		v := stripConvE(ir.FieldOf(it.Item, num.Name))
		if got != nil && got.String() != v.String() {
			return num
		}
		got = v
	}
	if got == nil {
		return num
	}
	return got
}

// slotSum (A2.decorator-checks|slots-summed): the max-slot check holds the *sum* of a transaction's purchases for one
// registration against what that registration can still buy. Somewhere on the decorator's route to GetMaxPurchasableSlots
// the number wanted is an integer addition of a message's Number and what was noted for the same registration before (a
// value looked up in the per-registration table, or a running total). A check that notes only the last purchase lets two
// purchases through whose sum exceeds the maximum — the ante chain passes, locked eFUND pays the fee, and the second
// purchase is refused only at execution.
func slotSum(c *Ctx, m string, dec *ssa.Function) {
	w, r := c.W, c.R
	var fs []*ssa.Function
	for g := range w.Reachable([]*ssa.Function{dec}) {
		if ir.ModuleOf(g) != m || w.IsGenerated(g) {
			continue
		}
		for _, b := range g.Blocks {
			for _, in := range b.Instrs {
				if call, ok := in.(ssa.CallInstruction); ok && methodNameOf(call) == "GetMaxPurchasableSlots" {
					fs = append(fs, g)
				}
			}
		}
	}
	if len(fs) == 0 {
		// the lookup is handed on as a method value (rules.MaxPurchasable = bk.GetMaxPurchasableSlots): that the check runs is
		// the |slots obligation above; the adding up is looked for on the whole route
		fs = []*ssa.Function{dec}
	}
	// the adding up may stand in a helper of the decorator (slotDemands(msgs)): every function of the module on its route
	var route []*ssa.Function
	for g := range w.Reachable([]*ssa.Function{dec}) {
		if !w.IsGenerated(g) && ir.FnPkg(g) != nil && ir.InScope(ir.FnPkg(g)) && !strings.HasSuffix(ir.RelPkg(ir.FnPkg(g).Path()), "/keeper") {
			route = append(route, g) // (the module's ante package, and helper packages the two decorators share)
		}
	}
	sortFuncs(fs)
	sortFuncs(route)
	ok := false
	for _, g := range route {
		for _, b := range g.Blocks {
			for _, in := range b.Instrs {
				bo, isBin := in.(*ssa.BinOp)
				if !isBin || bo.Op != token.ADD {
					continue
				}
				if bt, isBasic := bo.Type().Underlying().(*types.Basic); !isBasic || bt.Info()&types.IsInteger == 0 {
					continue
				}
				if bt := bo.Type().Underlying().(*types.Basic); bt.Kind() != types.Uint64 {
					continue
				}
				isNumber := func(v ssa.Value) bool {
					e := w.ExprOf(v)
					if e.Any(func(z *ir.Expr) bool { return z.Op == "field" && z.Name == "Number" }) {
						return true
					}
					// the number carried along: a parameter of a shared helper (`Add(id, n, ...)`), a field of a purchase collected before
					return e.Op == "param" || e.Op == "field" && !e.Any(func(z *ir.Expr) bool { return z.Op == "lookup" })
				}
				isNoted := func(v ssa.Value) bool {
					if ph, isPhi := v.(*ssa.Phi); isPhi {
						for _, e := range ph.Edges {
							if e == ssa.Value(bo) {
								return true // a running total
							}
						}
					}
					e := w.ExprOf(v)
					return !e.Any(func(z *ir.Expr) bool { return z.Op == "field" && z.Name == "Number" }) && e.Any(func(z *ir.Expr) bool { return z.Op == "lookup" || z.Op == "elem" || z.Op == "captured" })
				}
				if isNumber(bo.X) && isNoted(bo.Y) || isNumber(bo.Y) && isNoted(bo.X) {
					ok = true
				}
			}
		}
	}
	r.Require(ok, "A2.decorator-checks", m+"|slots-summed", w.Pos(fs[0].Pos()),
		"the max-slot check adds up the purchases a transaction makes for one registration (wanted = noted before + msg.Number) before comparing with the purchasable maximum",
		"no addition of a message's Number to what was noted before in "+fn(fs[0]))
}
