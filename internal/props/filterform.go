package props

import (
	"fmt"
	"go/token"
	"go/types"
	"strings"

	"golang.org/x/tools/go/ssa"

	"mcverif/internal/ir"
)

// filterForm is rule A12.filter-form (writer / reader agreement on how an address is spelled): a list callback does not
// compare, character by character, a stored string that holds a bech32 address in the spelling its writer was handed.
//
// bech32 is valid in lower and in upper case. A record field that some code of the module parses as an address
// (AccAddressFromBech32(stored F)) and that at least one writer fills with a message's own string (not with the
// canonical addr.String()) holds "the same address" under several spellings; an exact `item.F == x` then drops records
// whose spelling differs from x although the point query reports them for that account. Such a field is compared with
// strings.EqualFold or as parsed addresses.
func filterForm(c *Ctx, cb *ssa.Function, m string) (judged int) {
	w, r := c.W, c.R
	if real := ir.BoundTarget(cb); real != nil {
		cb = real
	}
	for _, b := range cb.Blocks {
		for _, in := range b.Instrs {
			bo, ok := in.(*ssa.BinOp)
			if !ok || (bo.Op != token.EQL && bo.Op != token.NEQ) {
				continue
			}
			if bt, ok := bo.X.Type().Underlying().(*types.Basic); !ok || bt.Kind() != types.String {
				continue
			}
			for _, side := range []ssa.Value{bo.X, bo.Y} {
				e := w.ExprOf(side)
				// a field of the decoded item
				if e.Op != "field" || len(e.Args) != 1 {
					continue
				}
				base := e.Args[0]
				isItem := base.Op == "decode" || base.Any(func(z *ir.Expr) bool { return z.Op == "decode" })
				if !isItem {
					continue
				}
				field := e.Name
				tn := ""
				if fa, ok := side.(*ssa.UnOp); ok {
					if f2, ok := fa.X.(*ssa.FieldAddr); ok {
						tn = ptrElem(f2.X.Type()).String()
					}
				} else if f3, ok := side.(*ssa.Field); ok {
					tn = f3.X.Type().String()
				}
				if tn == "" {
					continue
				}
				judged++
				parsed, raw := addressFieldUse(c, m, tn, field)
				bad := parsed != "" && raw != ""
				r.Require(!bad, "A12.filter-form", fn(cb)+"|"+field, pos(c, in),
					"a stored address kept in the spelling it was submitted in is compared case-insensitively or as a parsed address",
					fmt.Sprintf("%s.%s is parsed as an address at %s and stored as submitted at %s, but compared here character by character", tn[strings.LastIndex(tn, "/")+1:], field, parsed, raw))
			}
		}
	}
	return judged
}

// addressFieldUse: where the field `field` of record type tn (module m) is parsed as a bech32 address, and where a writer
// of the record stores a message's own string into it (not the canonical String() of a parsed address). "" when not found.
func addressFieldUse(c *Ctx, m, tn, field string) (parsed, raw string) {
	w := c.W
	key := tn + "." + field
	if c.addrUse == nil {
		c.addrUse = map[string][2]string{}
	}
	if v, ok := c.addrUse[key]; ok {
		return v[0], v[1]
	}
	for _, f := range w.Funcs {
		if ir.ModuleOf(f) != m || w.IsGenerated(f) || strings.Contains(fn(f), "/simulation") || strings.Contains(fn(f), "/client") {
			continue
		}
		for _, b := range f.Blocks {
			for _, in := range b.Instrs {
				switch x := in.(type) {
				case *ssa.Call:
					sc := x.Call.StaticCallee()
					if sc == nil || sc.Name() != "AccAddressFromBech32" || len(x.Call.Args) != 1 {
						continue
					}
					// the argument is a load of this field of this record type
					if fieldLoadOf(x.Call.Args[0], tn, field) && parsed == "" {
						parsed = w.InstrPos(in)
					}
				case *ssa.Store:
					fa, ok := x.Addr.(*ssa.FieldAddr)
					if !ok || ptrElem(fa.X.Type()).String() != tn || ir.FieldName(fa.X.Type(), fa.Field) != field {
						continue
					}
					if strings.Contains(fn(f), "Genesis") || raw != "" {
						continue
					}
					// judged as the callers instantiate it (a constructor is handed owner.String() by the handler)
					ups := w.OriginsUp(f, w.ExprOf(x.Val), 4)
					if len(ups) == 0 {
						ups = append(ups, ir.Up{Top: f, E: w.ExprOf(x.Val)})
					}
					for _, up := range ups {
						if !c.Rooted(up.Top) || strings.Contains(fn(up.Top), "Genesis") {
							continue
						}
						allCanonical := true
						fromMsg := false
						for _, a := range w.Expand(up.E, 2).Alts() {
							if a.Op == "call" && strings.HasSuffix(a.Name, "AccAddress).String") {
								continue
							}
							allCanonical = false
							if a.Any(func(z *ir.Expr) bool { return z.Op == "param" }) {
								fromMsg = true
							}
						}
						if !allCanonical && fromMsg {
							raw = w.InstrPos(in)
						}
					}
				}
			}
		}
	}
	c.addrUse[key] = [2]string{parsed, raw}
	return parsed, raw
}

func fieldLoadOf(v ssa.Value, tn, field string) bool {
	switch x := v.(type) {
	case *ssa.UnOp:
		if fa, ok := x.X.(*ssa.FieldAddr); ok {
			return ptrElem(fa.X.Type()).String() == tn && ir.FieldName(fa.X.Type(), fa.Field) == field
		}
	case *ssa.Field:
		return x.X.Type().String() == tn && ir.FieldName(x.X.Type(), x.Field) == field
	}
	return false
}
